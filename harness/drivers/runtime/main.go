// Driver for spec/Runtime.tla (check X01): replays TLC behaviours against the
// real package revision reconciler (internal/controller/pkg/revision) with the
// real runtime hooks (ProviderHooks / FunctionHooks, RuntimeManifestBuilder,
// the DeploymentRuntimeConfig defaults and overrides, the TLS certificate
// generator) running on simapi, and records one trace event per API call with
// the projected state: the two revisions of one package, the
// DeploymentRuntimeConfig and every runtime object (Service, Secrets,
// ServiceAccounts, Deployments) in the Crossplane namespace.
//
// The package content is fed through a fake package cache (a YAML stream the
// real parser and linter process, as harness/drivers/establisher does); the
// dependency manager is a no-op and the establisher only returns the object
// references (both are the subject of other modules). Everything the runtime
// hooks do is the unmodified code of /repo.
//
// One reconciler object per revision lives for the whole scenario (two
// reconciler goroutines of one controller); a reconcile of the other revision
// can run in the middle of a reconcile ("nest": it is executed inside the
// simapi Intercept hook of the outer reconcile's next call).
package main

import (
	"context"
	"crypto/rand"
	"crypto/rsa"
	"crypto/x509"
	"crypto/x509/pkix"
	"encoding/json"
	"encoding/pem"
	"flag"
	"fmt"
	"io"
	"math/big"
	"os"
	"runtime/pprof"
	"sort"
	"strings"
	"time"

	appsv1 "k8s.io/api/apps/v1"
	corev1 "k8s.io/api/core/v1"
	extv1 "k8s.io/apiextensions-apiserver/pkg/apis/apiextensions/v1"
	kerrors "k8s.io/apimachinery/pkg/api/errors"
	metav1 "k8s.io/apimachinery/pkg/apis/meta/v1"
	"k8s.io/apimachinery/pkg/apis/meta/v1/unstructured"
	kruntime "k8s.io/apimachinery/pkg/runtime"
	"k8s.io/apimachinery/pkg/runtime/schema"
	"k8s.io/apimachinery/pkg/types"
	"k8s.io/apimachinery/pkg/util/validation/field"
	"k8s.io/utils/ptr"
	"sigs.k8s.io/controller-runtime/pkg/reconcile"

	xpv1 "github.com/crossplane/crossplane-runtime/apis/common/v1"
	"github.com/crossplane/crossplane-runtime/pkg/feature"
	"github.com/crossplane/crossplane-runtime/pkg/parser"

	pkgmetav1 "github.com/crossplane/crossplane/apis/pkg/meta/v1"
	pkgv1 "github.com/crossplane/crossplane/apis/pkg/v1"
	pkgv1alpha1 "github.com/crossplane/crossplane/apis/pkg/v1alpha1"
	pkgv1beta1 "github.com/crossplane/crossplane/apis/pkg/v1beta1"
	"github.com/crossplane/crossplane/internal/controller/pkg/revision"
	"github.com/crossplane/crossplane/internal/features"
	"github.com/crossplane/crossplane/internal/xpkg"
	"github.com/crossplane/crossplane/zzverif/fakes"
	"github.com/crossplane/crossplane/zzverif/replay"
	"github.com/crossplane/crossplane/zzverif/scen"
	"github.com/crossplane/crossplane/zzverif/simapi"
	"github.com/crossplane/crossplane/zzverif/trace"
)

const (
	pkgName   = "pkg"
	metaName  = "meta-pkg" // metadata.name in the package's crossplane.yaml; differs from the package object's name on purpose
	namespace = "crossplane-system"
	finalizer = "revision.pkg.crossplane.io"
	registry  = "xpkg.example.org"
	caName    = "crossplane-root-ca"
	xpSA      = "crossplane"
	secSName  = pkgName + "-tls-server"
	secCName  = pkgName + "-tls-client"
	dxName    = "dx"      // Deployment name a DeploymentRuntimeConfig may ask for
	sxName    = "sx"      // ServiceAccount name a DeploymentRuntimeConfig may ask for
	userSA    = "user-sa" // a ServiceAccount the user manages (deploymentTemplate...serviceAccountName)
	drcName   = "default"
	richImage = "registry.example.org/custom/runtime:v9"
)

var debug = os.Getenv("VERIF_DEBUG") != ""

var (
	theScheme  *kruntime.Scheme
	metaScheme *kruntime.Scheme
	objScheme  *kruntime.Scheme
	caKeyPEM   []byte
	caCertPEM  []byte
	leafKey    []byte // a pre-generated leaf pair used for "certificates already present" starts
	leafCert   []byte
)

func init() {
	theScheme = kruntime.NewScheme()
	_ = pkgv1.AddToScheme(theScheme)
	_ = pkgv1beta1.AddToScheme(theScheme)
	_ = pkgv1alpha1.AddToScheme(theScheme)
	_ = extv1.AddToScheme(theScheme)
	_ = corev1.AddToScheme(theScheme)
	_ = appsv1.AddToScheme(theScheme)
	metaScheme, _ = xpkg.BuildMetaScheme()
	objScheme, _ = xpkg.BuildObjectScheme()
}

// makeCA generates the root CA the TLS generator loads (one RSA key per driver process).
func makeCA() {
	key, err := rsa.GenerateKey(rand.Reader, 2048)
	if err != nil {
		panic(err)
	}
	tmpl := &x509.Certificate{SerialNumber: big.NewInt(1), Subject: pkix.Name{CommonName: "verif-ca"}, NotBefore: time.Now().Add(-time.Hour),
		NotAfter: time.Now().AddDate(10, 0, 0), IsCA: true, KeyUsage: x509.KeyUsageCertSign | x509.KeyUsageCRLSign, BasicConstraintsValid: true}
	der, err := x509.CreateCertificate(rand.Reader, tmpl, tmpl, &key.PublicKey, key)
	if err != nil {
		panic(err)
	}
	caKeyPEM = pem.EncodeToMemory(&pem.Block{Type: "RSA PRIVATE KEY", Bytes: x509.MarshalPKCS1PrivateKey(key)})
	caCertPEM = pem.EncodeToMemory(&pem.Block{Type: "CERTIFICATE", Bytes: der})
	leafKey, leafCert = caKeyPEM, caCertPEM // content is not the subject here (C20 judges the certificates)
}

// ---------------------------------------------------------------- names

var revAliases = []string{"r1", "r2"}

func revName(a string) string { return pkgName + "-" + a }

func (w *world) revKind() string {
	if w.kind == "function" {
		return "FunctionRevision"
	}
	return "ProviderRevision"
}

func (w *world) revKey(a string) simapi.Key {
	return simapi.Key{Group: "pkg.crossplane.io", Kind: w.revKind(), Name: revName(a)}
}

var drcKey = simapi.Key{Group: "pkg.crossplane.io", Kind: "DeploymentRuntimeConfig", Name: drcName}

// aliasOf names an object the way spec/Runtime.tla does.
func aliasOf(kind, name string) string {
	short := strings.TrimPrefix(name, pkgName+"-")
	switch kind {
	case "ProviderRevision", "FunctionRevision":
		return "rev-" + short
	case "DeploymentRuntimeConfig":
		return "drc"
	case "ImageConfig":
		return "imageconfig"
	case "Service":
		if name == pkgName {
			return "svc"
		}
		return "svc-" + short
	case "Secret":
		switch name {
		case secSName:
			return "secS"
		case secCName:
			return "secC"
		case caName:
			return "ca"
		}
		return "sec-" + name
	case "ServiceAccount":
		if name == xpSA {
			return "sa-xp"
		}
		return "sa-" + short
	case "Deployment":
		return "dep-" + short
	}
	return kind + "-" + name
}

// keyOfAlias is the inverse for the runtime objects the environment touches.
func keyOfAlias(a string) simapi.Key {
	full := func(s string) string {
		if s == "r1" || s == "r2" {
			return revName(s)
		}
		return s
	}
	switch {
	case a == "svc":
		return simapi.Key{Kind: "Service", Namespace: namespace, Name: pkgName}
	case a == "secS":
		return simapi.Key{Kind: "Secret", Namespace: namespace, Name: secSName}
	case a == "secC":
		return simapi.Key{Kind: "Secret", Namespace: namespace, Name: secCName}
	case strings.HasPrefix(a, "sa-"):
		return simapi.Key{Kind: "ServiceAccount", Namespace: namespace, Name: full(a[3:])}
	case strings.HasPrefix(a, "dep-"):
		return simapi.Key{Group: "apps", Kind: "Deployment", Namespace: namespace, Name: full(a[4:])}
	case strings.HasPrefix(a, "svc-"):
		return simapi.Key{Kind: "Service", Namespace: namespace, Name: full(a[4:])}
	}
	panic("no key for alias " + a)
}

// ---------------------------------------------------------------- fakes around the reconciler (not the subject)

type fakeCache struct{ w *world }

func (f *fakeCache) Has(string) bool { return true }
func (f *fakeCache) Get(id string) (io.ReadCloser, error) {
	return io.NopCloser(strings.NewReader(f.w.yaml[id])), nil
}
func (f *fakeCache) Store(string, io.ReadCloser) error { return nil }
func (f *fakeCache) Delete(string) error               { return nil }

type nopDeps struct{}

func (nopDeps) Resolve(context.Context, pkgmetav1.Pkg, pkgv1.PackageRevision) (int, int, int, error) {
	return 0, 0, 0, nil
}
func (nopDeps) RemoveSelf(context.Context, pkgv1.PackageRevision) error { return nil }

// refEstablisher returns the references of the package objects without touching the API
// (Establish / ReleaseObjects are the subject of C16).
type refEstablisher struct {
	w     *world
	actor string
}

func (e *refEstablisher) Establish(_ context.Context, objs []kruntime.Object, _ pkgv1.PackageRevision, _ bool) ([]xpv1.TypedReference, error) {
	if e.w.cl[e.actor].Dead() {
		return nil, simapi.ErrCrashed
	}
	refs := []xpv1.TypedReference{}
	for _, o := range objs {
		gvk := o.GetObjectKind().GroupVersionKind()
		n := ""
		if m, ok := o.(metav1.Object); ok {
			n = m.GetName()
		}
		refs = append(refs, xpv1.TypedReference{APIVersion: gvk.GroupVersion().String(), Kind: gvk.Kind, Name: n})
	}
	e.w.mark(e.actor, "established")
	return refs, nil
}

func (e *refEstablisher) ReleaseObjects(context.Context, pkgv1.PackageRevision) error {
	if e.w.cl[e.actor].Dead() {
		return simapi.ErrCrashed
	}
	return nil
}

func packageStream(kind, rev string) string {
	var b strings.Builder
	if kind == "function" {
		b.WriteString("apiVersion: meta.pkg.crossplane.io/v1\nkind: Function\nmetadata:\n  name: " + metaName + "\nspec:\n  image: " + registry + "/org/pkg-runtime:" + rev + "\n")
	} else {
		b.WriteString("apiVersion: meta.pkg.crossplane.io/v1\nkind: Provider\nmetadata:\n  name: " + metaName + "\nspec:\n  controller:\n    image: " + registry + "/org/pkg-runtime:" + rev + "\n    permissionRequests:\n    - apiGroups: [\"example.org\"]\n      resources: [\"things\"]\n      verbs: [\"get\"]\n")
	}
	crd := &extv1.CustomResourceDefinition{TypeMeta: metav1.TypeMeta{APIVersion: "apiextensions.k8s.io/v1", Kind: "CustomResourceDefinition"},
		ObjectMeta: metav1.ObjectMeta{Name: "things.example.org"},
		Spec: extv1.CustomResourceDefinitionSpec{Group: "example.org", Scope: extv1.ClusterScoped,
			Names: extv1.CustomResourceDefinitionNames{Plural: "things", Singular: "thing", Kind: "Thing", ListKind: "ThingList"},
			Versions: []extv1.CustomResourceDefinitionVersion{{Name: "v1", Served: true, Storage: true,
				Schema: &extv1.CustomResourceValidation{OpenAPIV3Schema: &extv1.JSONSchemaProps{Type: "object"}}}}}}
	j, _ := json.Marshal(crd)
	b.WriteString("---\n")
	b.Write(j)
	b.WriteString("\n")
	return b.String()
}

// ---------------------------------------------------------------- the world

type drcState struct {
	Dn   string // "none" | "dx": deploymentTemplate.metadata.name
	San  string // "none" | "sx": serviceAccountTemplate.metadata.name
	Ext  bool   // deploymentTemplate.spec.template.spec.serviceAccountName = user-sa
	Tmpl string // "plain" | "rich": what else the templates say
}

type world struct {
	s      *simapi.Server
	kind   string
	cl     map[string]*simapi.Client
	rec    map[string]reconcile.Reconciler
	tw     *trace.Writer
	scenID string
	uid    map[types.UID]string
	revUID map[string]types.UID
	pkgUID types.UID
	yaml   map[string]string
	drc    drcState

	al    *replay.Aligner
	outer string // the revision whose top-level reconcile is aligned with the history
	depth int
	recNo int
	recOf map[string]int
	seen  map[string]map[string]any
	gen   map[string]bool // the actor is inside the TLS certificate generator
	sel   map[simapi.Key]string
	inj   map[string]string // fault injected by a sweep in the actor's current reconcile

	changed map[string]bool // settle: revisions with a pending trigger
	track   bool

	version int            // bumped whenever the store may have changed
	cache   map[string]any // the projection at cacheAt
	cacheAt int
	reads   int // read calls (not written to the trace)
}

func (w *world) mark(actor, what string) {
	if s := w.seen[actor]; s != nil {
		s[what] = true
	}
}

func newSeen() map[string]any {
	return map[string]any{"des": "none", "drcRead": false, "dn": "none", "san": "none", "ext": false, "tmpl": "none",
		"depAvail": "unset", "depVerb": "none", "done": []any{}, "svcName": "none", "established": false, "refs": 0, "saFirst": "none"}
}

func copySeen(m map[string]any) map[string]any {
	if m == nil {
		return newSeen()
	}
	out := map[string]any{}
	for k, v := range m {
		out[k] = v
	}
	return out
}

func kvs(m map[string]string) []any {
	out := []any{}
	ks := make([]string, 0, len(m))
	for k := range m {
		ks = append(ks, k)
	}
	sort.Strings(ks)
	for _, k := range ks {
		out = append(out, k+"="+m[k])
	}
	return out
}

func nestedStrMap(o map[string]any, f ...string) map[string]string {
	m, _, _ := unstructured.NestedStringMap(o, f...)
	return m
}

func (w *world) ctrlAlias(u *unstructured.Unstructured) string {
	c := metav1.GetControllerOf(u)
	if c == nil {
		return "none"
	}
	if a, ok := w.uid[c.UID]; ok {
		return a
	}
	return "foreign"
}

func availOf(u *unstructured.Unstructured) string {
	conds, _, _ := unstructured.NestedSlice(u.Object, "status", "conditions")
	for _, c := range conds {
		cm, _ := c.(map[string]any)
		if cm["type"] == "Available" {
			if cm["status"] == "True" {
				return "true"
			}
			return "false"
		}
	}
	return "none"
}

func selSig(u *unstructured.Unstructured) string {
	l := kvs(nestedStrMap(u.Object, "spec", "selector", "matchLabels"))
	s := make([]string, len(l))
	for i := range l {
		s[i] = l[i].(string)
	}
	return strings.Join(s, ",")
}

func (w *world) revAliasOfName(n string) string {
	for _, a := range revAliases {
		if revName(a) == n {
			return a
		}
	}
	if n == "" {
		return "none"
	}
	return "foreign"
}

// lightRecord is the projection of a runtime object carried by every event (post.objs).
func (w *world) lightRecord(u *unstructured.Unstructured) map[string]any {
	r := map[string]any{"a": aliasOf(u.GetKind(), u.GetName()), "k": "", "n": u.GetName(), "ctrl": w.ctrlAlias(u),
		"del": u.GetDeletionTimestamp() != nil, "avail": "none", "data": false, "selrev": "none", "sel": []any{}}
	switch u.GetKind() {
	case "Deployment":
		r["k"] = "dep"
		r["avail"] = availOf(u)
		sel := nestedStrMap(u.Object, "spec", "selector", "matchLabels")
		r["sel"] = kvs(sel)
		r["selrev"] = w.revAliasOfName(sel["pkg.crossplane.io/revision"])
	case "Service":
		r["k"] = "svc"
		sel := nestedStrMap(u.Object, "spec", "selector")
		r["sel"] = kvs(sel)
		r["selrev"] = w.revAliasOfName(sel["pkg.crossplane.io/revision"])
	case "Secret":
		r["k"] = "sec"
		d, _, _ := unstructured.NestedMap(u.Object, "data")
		_, r["data"] = d["tls.crt"]
	case "ServiceAccount":
		r["k"] = "sa"
	}
	return r
}

// objRecord is the full projection of one runtime object (the "wrote" field of a write event). Every record has the same keys.
func (w *world) objRecord(u *unstructured.Unstructured) map[string]any {
	r := map[string]any{"a": aliasOf(u.GetKind(), u.GetName()), "k": "", "n": u.GetName(), "ns": u.GetNamespace(), "ctrl": w.ctrlAlias(u), "owners": len(u.GetOwnerReferences()),
		"del": u.GetDeletionTimestamp() != nil, "lab": kvs(u.GetLabels()), "ann": kvs(u.GetAnnotations()),
		"avail": "none", "data": false, "sel": []any{}, "selrev": "none", "tl": []any{}, "tann": []any{}, "img": "", "c0": "", "cs": []any{}, "ports": []any{}, "env": []any{},
		"vols": []any{}, "mounts": []any{}, "sacc": "", "rep": -1, "pp": "", "psc": false, "csc": false, "ips": []any{}, "cip": ""}
	switch u.GetKind() {
	case "Deployment":
		r["k"] = "dep"
		r["avail"] = availOf(u)
		sel := nestedStrMap(u.Object, "spec", "selector", "matchLabels")
		r["sel"] = kvs(sel)
		r["selrev"] = w.revAliasOfName(sel["pkg.crossplane.io/revision"])
		r["tl"] = kvs(nestedStrMap(u.Object, "spec", "template", "metadata", "labels"))
		r["tann"] = kvs(nestedStrMap(u.Object, "spec", "template", "metadata", "annotations"))
		if n, ok, _ := unstructured.NestedInt64(u.Object, "spec", "replicas"); ok {
			r["rep"] = n
		}
		r["sacc"], _, _ = unstructured.NestedString(u.Object, "spec", "template", "spec", "serviceAccountName")
		_, r["psc"], _ = unstructured.NestedMap(u.Object, "spec", "template", "spec", "securityContext")
		cs, _, _ := unstructured.NestedSlice(u.Object, "spec", "template", "spec", "containers")
		names := []any{}
		for i, c := range cs {
			cm, _ := c.(map[string]any)
			n, _ := cm["name"].(string)
			names = append(names, n)
			if i != 0 {
				continue
			}
			r["c0"] = n
			r["img"], _ = cm["image"].(string)
			r["pp"], _ = cm["imagePullPolicy"].(string)
			_, r["csc"] = cm["securityContext"].(map[string]any)
			ports := []any{}
			ps, _ := cm["ports"].([]any)
			for _, p := range ps {
				pm, _ := p.(map[string]any)
				ports = append(ports, fmt.Sprintf("%v:%v", pm["name"], pm["containerPort"]))
			}
			r["ports"] = ports
			envs := []any{}
			es, _ := cm["env"].([]any)
			for _, e := range es {
				em, _ := e.(map[string]any)
				envs = append(envs, fmt.Sprintf("%v", em["name"]))
			}
			r["env"] = envs
			ms := []any{}
			vms, _ := cm["volumeMounts"].([]any)
			for _, m := range vms {
				mm, _ := m.(map[string]any)
				ms = append(ms, fmt.Sprintf("%v", mm["name"]))
			}
			r["mounts"] = ms
		}
		r["cs"] = names
		vols := []any{}
		vs, _, _ := unstructured.NestedSlice(u.Object, "spec", "template", "spec", "volumes")
		for _, v := range vs {
			vm, _ := v.(map[string]any)
			sn, _, _ := unstructured.NestedString(vm, "secret", "secretName")
			vols = append(vols, fmt.Sprintf("%v:%s", vm["name"], sn))
		}
		r["vols"] = vols
		ips := []any{}
		is, _, _ := unstructured.NestedSlice(u.Object, "spec", "template", "spec", "imagePullSecrets")
		for _, i := range is {
			im, _ := i.(map[string]any)
			ips = append(ips, fmt.Sprintf("%v", im["name"]))
		}
		r["ips"] = ips
	case "Service":
		r["k"] = "svc"
		sel := nestedStrMap(u.Object, "spec", "selector")
		r["sel"] = kvs(sel)
		r["selrev"] = w.revAliasOfName(sel["pkg.crossplane.io/revision"])
		r["cip"], _, _ = unstructured.NestedString(u.Object, "spec", "clusterIP")
		ports := []any{}
		ps, _, _ := unstructured.NestedSlice(u.Object, "spec", "ports")
		for _, p := range ps {
			pm, _ := p.(map[string]any)
			ports = append(ports, fmt.Sprintf("%v:%v>%v", pm["name"], pm["port"], pm["targetPort"]))
		}
		r["ports"] = ports
	case "Secret":
		r["k"] = "sec"
		d, _, _ := unstructured.NestedMap(u.Object, "data")
		_, r["data"] = d["tls.crt"]
	case "ServiceAccount":
		r["k"] = "sa"
		ips := []any{}
		is, _, _ := unstructured.NestedSlice(u.Object, "imagePullSecrets")
		for _, i := range is {
			im, _ := i.(map[string]any)
			ips = append(ips, fmt.Sprintf("%v", im["name"]))
		}
		r["ips"] = ips
	}
	return r
}

func pullSecrets(u *unstructured.Unstructured) []any {
	ips := []any{}
	is, _, _ := unstructured.NestedSlice(u.Object, "imagePullSecrets")
	for _, i := range is {
		im, _ := i.(map[string]any)
		ips = append(ips, fmt.Sprintf("%v", im["name"]))
	}
	return ips
}

func healthOf(u *unstructured.Unstructured) string {
	conds, _, _ := unstructured.NestedSlice(u.Object, "status", "conditions")
	for _, c := range conds {
		cm, _ := c.(map[string]any)
		if cm["type"] == "Healthy" {
			switch cm["status"] {
			case "True":
				return "true"
			case "False":
				return "false"
			}
			return "unknown"
		}
	}
	return "unknown"
}

func (w *world) drcRecord() map[string]any {
	u := w.s.Peek(drcKey)
	r := map[string]any{"ex": u != nil, "dn": "none", "san": "none", "ext": false, "tmpl": "none"}
	if u == nil {
		return r
	}
	if n, ok, _ := unstructured.NestedString(u.Object, "spec", "deploymentTemplate", "metadata", "name"); ok && n != "" {
		r["dn"] = n
	}
	if n, ok, _ := unstructured.NestedString(u.Object, "spec", "serviceAccountTemplate", "metadata", "name"); ok && n != "" {
		r["san"] = n
	}
	if n, ok, _ := unstructured.NestedString(u.Object, "spec", "deploymentTemplate", "spec", "template", "spec", "serviceAccountName"); ok && n != "" {
		r["ext"] = true
	}
	r["tmpl"] = u.GetAnnotations()["verif/tmpl"]
	return r
}

// post is the projection of the store: the abstract state Runtime.tla talks about.
func (w *world) post() map[string]any {
	if w.cache != nil && w.cacheAt == w.version {
		return w.cache
	}
	revs := []any{}
	for _, a := range revAliases {
		u := w.s.Peek(w.revKey(a))
		r := map[string]any{"r": a, "ex": u != nil, "des": "none", "healthy": "unknown", "endpoint": "", "refs": 0, "del": false, "perms": 0}
		if u != nil {
			r["des"], _, _ = unstructured.NestedString(u.Object, "spec", "desiredState")
			r["healthy"] = healthOf(u)
			r["endpoint"], _, _ = unstructured.NestedString(u.Object, "status", "endpoint")
			refs, _, _ := unstructured.NestedSlice(u.Object, "status", "objectRefs")
			r["refs"] = len(refs)
			perms, _, _ := unstructured.NestedSlice(u.Object, "status", "permissionRequests")
			r["perms"] = len(perms)
			r["del"] = u.GetDeletionTimestamp() != nil
		}
		revs = append(revs, r)
	}
	objs := []any{}
	sel := map[simapi.Key]string{}
	w.s.Read(func(keys []simapi.Key, m map[simapi.Key]*unstructured.Unstructured) {
		for _, k := range keys {
			if k.Namespace != namespace {
				continue
			}
			switch k.Kind {
			case "Deployment":
				sel[k] = selSig(m[k])
			case "Service", "ServiceAccount", "Secret":
			default:
				continue
			}
			if (k.Kind == "Secret" && k.Name == caName) || (k.Kind == "ServiceAccount" && (k.Name == xpSA || k.Name == userSA)) {
				continue
			}
			objs = append(objs, w.lightRecord(m[k]))
		}
	})
	w.sel = sel
	w.cache, w.cacheAt = map[string]any{"revs": revs, "drc": w.drcRecord(), "objs": objs}, w.version
	return w.cache
}

func (w *world) emit(ev, actor string, m map[string]any) {
	base := map[string]any{"ev": ev, "scenario": w.scenID, "kind": w.kind, "actor": actor, "rec": w.recOf[actor], "nested": w.depth > 1,
		"verb": "", "alias": "none", "tk": "none", "abs": "", "outcome": "", "injected": "", "applied": false, "noop": false, "removed": false,
		"pre": map[string]any{"ex": false, "ctrl": "none", "selrev": "none", "ips": []any{}}, "wrote": w.nullObj(),
		"result": "", "faulty": false, "quiet": false, "fix": false, "rounds": 0, "last": map[string]any{"r1": "none", "r2": "none"},
		"seen": copySeen(w.seen[actor]), "post": w.post()}
	for k, v := range m {
		base[k] = v
	}
	w.countHits(base)
	w.tw.Emit(base)
}

// countHits counts how often the antecedents of the monitor's formulas are exercised (statistics for the
// evidence file only; the formulas themselves are evaluated by MonRuntime.tla).
func (w *world) countHits(e map[string]any) {
	hit := func(k string) { w.tw.Counts["hit:"+k]++ }
	seen, _ := e["seen"].(map[string]any)
	des, _ := seen["des"].(string)
	tk, _ := e["tk"].(string)
	verb, _ := e["verb"].(string)
	rt := tk == "dep" || tk == "svc" || tk == "sa" || tk == "sec"
	wrote, _ := e["wrote"].(map[string]any)
	wroteSth := wrote != nil && wrote["a"] != "none" && e["outcome"] == "ok"
	switch e["ev"] {
	case "call":
		if des == "Inactive" && rt {
			hit("InactiveNeverCreates")
		}
		if verb == "delete" && tk == "dep" && e["applied"] == true {
			hit("HandOver(delete applied)")
			if pre, _ := e["pre"].(map[string]any); pre["ctrl"] != e["actor"] {
				hit("HandOver(delete of another controller's Deployment)")
			}
		}
		if wroteSth && rt && (verb == "create" || verb == "patch") {
			hit("Owned+" + tk)
			if tk == "dep" {
				hit("Mandatory/Defaults(" + fmt.Sprint(seen["tmpl"]) + "," + w.kind + ")")
			}
		}
		if wroteSth && (verb == "gupdate" || verb == "gcreate") {
			hit("Owned.Generator")
		}
		if tk == "dep" && (verb == "create" || verb == "patch") && des == "Active" {
			hit("Order")
		}
		if verb == "update-status" && e["outcome"] == "ok" && des == "Active" {
			hit("HealthTruth(status written by an Active reconcile)")
			if seen["depAvail"] == "true" {
				hit("HealthTruth(Deployment Available)")
			}
		}
	case "end":
		if e["result"] == "ok" {
			hit("end-ok-" + des)
			if w.kind == "function" && des == "Active" {
				hit("Endpoint")
			}
		}
		if e["faulty"] == true {
			hit("reconcile-with-fault")
		}
		if e["nested"] == true {
			hit("nested-reconcile")
		}
	case "settled":
		hit("Settled")
		if e["fix"] == true {
			hit("Settled(fixpoint)")
		}
	}
}

// nullObj is the record used where an event wrote no runtime object.
func (w *world) nullObj() map[string]any {
	if nullRec != nil {
		return nullRec
	}
	defer func() { nullRec = w.nullObj0() }()
	return w.nullObj0()
}

var nullRec map[string]any

func (w *world) nullObj0() map[string]any {
	u := &unstructured.Unstructured{Object: map[string]any{}}
	r := w.objRecord(u)
	r["a"] = "none"
	return r
}

func normVerb(v, sub string) string {
	if strings.HasPrefix(v, "patch-") {
		v = "patch"
	}
	if sub != "" {
		v += "-" + sub
	}
	return v
}

// classify gives the abstract key of a call ("verb:alias"). Calls made by the TLS
// certificate generator (everything on a Secret after it loaded the CA) get the
// prefix "g" so that its reads are told from the reads of Apply.
func (w *world) classify(actor, verb, sub, kind, name string) string {
	v := normVerb(verb, sub)
	a := aliasOf(kind, name)
	if kind == "Secret" && w.gen[actor] && a != "ca" {
		return "g" + v + ":" + a
	}
	return v + ":" + a
}

func modelled(abs string) bool {
	switch {
	case abs == "list:imageconfig", abs == "get:sa-xp", abs == "get:ca":
		return false
	case strings.HasPrefix(abs, "gget:"):
		return false
	case strings.HasPrefix(abs, "delete:svc-"):
		return false // the per-revision Service of old releases; never exists here
	}
	return true
}

func (w *world) onEvent(e *simapi.Event) {
	actor := e.Actor
	if e.Outcome == "dropped" && e.Injected == "" {
		return
	}
	if e.Applied || e.Removed {
		w.version++
	}
	abs := w.classify(actor, e.Verb, e.Sub, e.Kind, e.Name)
	// generator phase tracking
	if e.Kind == "Secret" && e.Name == caName {
		w.gen[actor] = true
	} else if e.Kind != "Secret" {
		w.gen[actor] = false
	}
	alias := aliasOf(e.Kind, e.Name)
	seen := w.seen[actor]
	ok := e.Outcome == "ok"
	if seen != nil {
		switch {
		case e.Verb == "get" && strings.HasPrefix(alias, "rev-") && ok:
			if u := w.s.Peek(w.revKey(actor)); u != nil {
				seen["des"], _, _ = unstructured.NestedString(u.Object, "spec", "desiredState")
				refs, _, _ := unstructured.NestedSlice(u.Object, "status", "objectRefs")
				seen["refs"] = len(refs)
			}
		case e.Verb == "get" && e.Kind == "ServiceAccount" && alias != "sa-xp":
			if seen["saFirst"] == "none" {
				seen["saFirst"] = e.Outcome // what applySA's own read of the existing ServiceAccount returned
			}
		case e.Verb == "get" && alias == "drc" && ok:
			d := w.drcRecord()
			seen["drcRead"], seen["dn"], seen["san"], seen["ext"], seen["tmpl"] = true, d["dn"], d["san"], d["ext"], d["tmpl"]
		}
		if e.IsWrite() && e.Verb != "delete" && ok && e.Sub == "" && e.NS == namespace {
			seen["done"] = append(append([]any{}, seen["done"].([]any)...), alias)
			if e.Kind == "Deployment" && e.PostObj != nil {
				seen["depAvail"] = availOf(e.PostObj)
				seen["depVerb"] = normVerb(e.Verb, "")
			}
			if e.Kind == "Service" && e.PostObj != nil {
				seen["svcName"] = e.Name
			}
		}
	}
	tk := map[string]string{"Deployment": "dep", "Service": "svc", "ServiceAccount": "sa", "Secret": "sec", "DeploymentRuntimeConfig": "drc",
		"ProviderRevision": "rev", "FunctionRevision": "rev"}[e.Kind]
	if tk == "" || alias == "ca" || alias == "sa-xp" {
		tk = "other"
	}
	verb := normVerb(e.Verb, e.Sub)
	if strings.HasPrefix(abs, "g") && e.Kind == "Secret" && !strings.HasPrefix(abs, "get:") {
		verb = "g" + verb
	}
	if e.IsWrite() && e.PreObj != nil && w.ctrlAlias(e.PreObj) == "foreign" && e.Applied {
		w.tw.Counts["obs:stranger-object-"+map[bool]string{true: "deleted", false: "adopted"}[e.Verb == "delete"]]++
	}
	m := map[string]any{"verb": verb, "alias": alias, "tk": tk, "abs": abs, "outcome": e.Outcome, "injected": e.Injected,
		"applied": e.Applied && !e.DryRun, "noop": e.Noop, "removed": e.Removed}
	if e.IsWrite() {
		pre := map[string]any{"ex": e.PreObj != nil, "ctrl": "none", "selrev": "none", "ips": []any{}}
		if e.PreObj != nil {
			pre["ctrl"] = w.ctrlAlias(e.PreObj)
			if e.Kind == "ServiceAccount" {
				pre["ips"] = pullSecrets(e.PreObj)
				if e.PostObj != nil && len(pullSecrets(e.PostObj)) < len(pullSecrets(e.PreObj)) {
					w.tw.Counts["obs:serviceaccount-pull-secrets-dropped(first read: "+fmt.Sprint(seen["saFirst"])+")"]++
				}
			}
			if e.Kind == "Deployment" {
				pre["selrev"] = w.revAliasOfName(nestedStrMap(e.PreObj.Object, "spec", "selector", "matchLabels")["pkg.crossplane.io/revision"])
			}
		}
		m["pre"] = pre
		if e.PostObj != nil && e.NS == namespace && e.Verb != "delete" {
			m["wrote"] = w.objRecord(e.PostObj)
		}
	}
	if w.track && e.Applied && !e.DryRun {
		w.trigger(e)
	}
	if debug {
		fmt.Fprintf(os.Stderr, "  %s #%d %-28s %s %s applied=%v noop=%v\n", actor, e.Idx, abs, e.Outcome, e.Injected, e.Applied, e.Noop)
	}
	if !e.IsWrite() && e.Injected == "" {
		// reads change nothing and no formula looks at them: what they returned is in "seen"
		w.reads++
		w.tw.Counts["abs:"+abs]++
		return
	}
	w.emit("call", actor, m)
}

// trigger records which revisions a store change wakes up: the revision itself,
// and the controller owner of a runtime object (the controller Owns Deployments,
// Services, Secrets and ServiceAccounts).
func (w *world) trigger(e *simapi.Event) {
	if strings.HasSuffix(e.Kind, "Revision") {
		if a := w.revAliasOfName(e.Name); a != "foreign" && a != "none" {
			w.changed[a] = true
		}
		return
	}
	for _, o := range []*unstructured.Unstructured{e.PreObj, e.PostObj} {
		if o == nil {
			continue
		}
		if a := w.ctrlAlias(o); a == "r1" || a == "r2" {
			w.changed[a] = true
		}
	}
}

// ---------------------------------------------------------------- environment

func (w *world) buildDRC() *pkgv1beta1.DeploymentRuntimeConfig {
	d := w.drc
	rc := &pkgv1beta1.DeploymentRuntimeConfig{ObjectMeta: metav1.ObjectMeta{Name: drcName, Annotations: map[string]string{"verif/tmpl": d.Tmpl}}}
	dt := &pkgv1beta1.DeploymentTemplate{}
	useDT := false
	if d.Dn != "none" {
		dt.Metadata = &pkgv1beta1.ObjectMeta{Name: ptr.To(d.Dn)}
		useDT = true
	}
	if d.Tmpl == "rich" {
		useDT = true
		if dt.Metadata == nil {
			dt.Metadata = &pkgv1beta1.ObjectMeta{}
		}
		dt.Metadata.Labels = map[string]string{"team": "a"}
		dt.Metadata.Annotations = map[string]string{"note": "n"}
		dt.Spec = &appsv1.DeploymentSpec{
			Replicas: ptr.To(int32(2)),
			Selector: &metav1.LabelSelector{MatchLabels: map[string]string{"user": "sel"}},
			Template: corev1.PodTemplateSpec{
				ObjectMeta: metav1.ObjectMeta{Labels: map[string]string{"tier": "t"}, Annotations: map[string]string{"prometheus.io/scrape": "false"}},
				Spec: corev1.PodSpec{Containers: []corev1.Container{
					{Name: "sidecar", Image: "side:1"},
					{Name: "package-runtime", Image: richImage, Args: []string{"--debug"},
						Ports: []corev1.ContainerPort{{Name: "metrics", ContainerPort: 9090}},
						Env:   []corev1.EnvVar{{Name: "USER_ENV", Value: "1"}}},
				}},
			},
		}
		rc.Spec.ServiceTemplate = &pkgv1beta1.ServiceTemplate{Metadata: &pkgv1beta1.ObjectMeta{Labels: map[string]string{"team": "a"}}}
	}
	if d.Tmpl == "empty" {
		// templates that are present but say nothing: must behave like absent ones
		useDT = true
		if dt.Metadata == nil {
			dt.Metadata = &pkgv1beta1.ObjectMeta{}
		}
		dt.Spec = &appsv1.DeploymentSpec{}
		rc.Spec.ServiceTemplate = &pkgv1beta1.ServiceTemplate{}
		rc.Spec.ServiceAccountTemplate = &pkgv1beta1.ServiceAccountTemplate{Metadata: &pkgv1beta1.ObjectMeta{Labels: map[string]string{}}}
	}
	if d.Ext {
		useDT = true
		if dt.Spec == nil {
			dt.Spec = &appsv1.DeploymentSpec{}
		}
		dt.Spec.Template.Spec.ServiceAccountName = userSA
	}
	if useDT {
		rc.Spec.DeploymentTemplate = dt
	}
	if d.San != "none" || d.Tmpl == "rich" {
		if rc.Spec.ServiceAccountTemplate == nil || rc.Spec.ServiceAccountTemplate.Metadata == nil {
			rc.Spec.ServiceAccountTemplate = &pkgv1beta1.ServiceAccountTemplate{Metadata: &pkgv1beta1.ObjectMeta{}}
		}
		if d.San != "none" {
			rc.Spec.ServiceAccountTemplate.Metadata.Name = ptr.To(d.San)
		}
		if d.Tmpl == "rich" {
			rc.Spec.ServiceAccountTemplate.Metadata.Labels = map[string]string{"team": "a"}
		}
	}
	return rc
}

func (w *world) foreignRef() metav1.OwnerReference {
	return metav1.OwnerReference{APIVersion: "example.org/v1", Kind: "Stranger", Name: "stranger", UID: "stranger-uid", Controller: ptr.To(true)}
}

func (w *world) revRef(a string) metav1.OwnerReference {
	return metav1.OwnerReference{APIVersion: "pkg.crossplane.io/v1", Kind: w.revKind(), Name: revName(a), UID: w.revUID[a], Controller: ptr.To(true), BlockOwnerDeletion: ptr.To(true)}
}

// blank returns a minimal object of the alias's kind as another party would create it.
func (w *world) blank(alias string, owner metav1.OwnerReference, selRev string) kruntime.Object {
	k := keyOfAlias(alias)
	om := metav1.ObjectMeta{Name: k.Name, Namespace: k.Namespace, OwnerReferences: []metav1.OwnerReference{owner}}
	switch k.Kind {
	case "Service":
		return &corev1.Service{ObjectMeta: om, Spec: corev1.ServiceSpec{Selector: map[string]string{"pkg.crossplane.io/revision": selRev}}}
	case "Secret":
		return &corev1.Secret{ObjectMeta: om}
	case "ServiceAccount":
		return &corev1.ServiceAccount{ObjectMeta: om}
	case "Deployment":
		l := map[string]string{"pkg.crossplane.io/revision": selRev}
		return &appsv1.Deployment{ObjectMeta: om, Spec: appsv1.DeploymentSpec{Selector: &metav1.LabelSelector{MatchLabels: l},
			Template: corev1.PodTemplateSpec{ObjectMeta: metav1.ObjectMeta{Labels: l}, Spec: corev1.PodSpec{Containers: []corev1.Container{{Name: "c", Image: "stranger:1"}}}}}}
	}
	panic("blank: " + alias)
}

func (w *world) env(e replay.Entry) {
	w.version++
	switch e.K {
	case "flip":
		w.s.Mutate(w.revKey(e.O), func(u *unstructured.Unstructured) {
			_ = unstructured.SetNestedField(u.Object, e.F, "spec", "desiredState")
		})
	case "dn":
		w.drc.Dn = e.O
		w.s.Put(w.buildDRC())
	case "san":
		w.drc.San = e.O
		w.s.Put(w.buildDRC())
	case "ext":
		w.drc.Ext = e.O == "true"
		w.s.Put(w.buildDRC())
	case "avail":
		w.setAvail(e.O, e.F)
	case "grab":
		w.s.Mutate(keyOfAlias(e.O), func(u *unstructured.Unstructured) { u.SetOwnerReferences([]metav1.OwnerReference{w.foreignRef()}) })
	case "fcreate":
		if w.s.Peek(keyOfAlias(e.O)) == nil {
			w.s.Put(w.blank(e.O, w.foreignRef(), "stranger"))
		}
	case "vanish":
		w.s.Remove(keyOfAlias(e.O))
	case "nest":
		// the other revision's reconcile runs now (we are inside the outer reconcile's next call)
		w.emit("env", "env", map[string]any{"verb": e.K, "alias": e.O})
		w.reconcile(e.O, nil, nil)
		return
	default:
		panic("unknown env step " + e.K)
	}
	w.emit("env", "env", map[string]any{"verb": e.K, "alias": e.O, "outcome": e.F})
}

func (w *world) setAvail(alias, v string) {
	w.s.Mutate(keyOfAlias(alias), func(u *unstructured.Unstructured) {
		st := "True"
		if v == "false" {
			st = "False"
		}
		c := map[string]any{"type": "Available", "status": st, "reason": "Verif", "message": "set by the environment"}
		_ = unstructured.SetNestedSlice(u.Object, []any{c}, "status", "conditions")
	})
}

// ---------------------------------------------------------------- set-up

func (w *world) newRevision(a string, des string, i int) kruntime.Object {
	om := metav1.ObjectMeta{Name: revName(a), Labels: map[string]string{pkgv1.LabelParentPackage: pkgName}, Finalizers: []string{finalizer},
		OwnerReferences: []metav1.OwnerReference{{APIVersion: "pkg.crossplane.io/v1", Kind: map[string]string{"provider": "Provider", "function": "Function"}[w.kind],
			Name: pkgName, UID: w.pkgUID, Controller: ptr.To(true), BlockOwnerDeletion: ptr.To(true)}}}
	spec := pkgv1.PackageRevisionSpec{DesiredState: pkgv1.PackageRevisionDesiredState(des), Package: registry + "/org/pkg:" + a, Revision: int64(i),
		IgnoreCrossplaneConstraints: ptr.To(true), SkipDependencyResolution: ptr.To(true)}
	rt := pkgv1.PackageRevisionRuntimeSpec{PackageRuntimeSpec: pkgv1.PackageRuntimeSpec{RuntimeConfigReference: &pkgv1.RuntimeConfigReference{Name: drcName}},
		TLSServerSecretName: ptr.To(secSName)}
	if w.kind == "function" {
		return &pkgv1.FunctionRevision{ObjectMeta: om, Spec: pkgv1.FunctionRevisionSpec{PackageRevisionSpec: spec, PackageRevisionRuntimeSpec: rt}}
	}
	rt.TLSClientSecretName = ptr.To(secCName)
	return &pkgv1.ProviderRevision{ObjectMeta: om, Spec: pkgv1.ProviderRevisionSpec{PackageRevisionSpec: spec, PackageRevisionRuntimeSpec: rt}}
}

func newWorld(tw *trace.Writer, id string, init map[string]any) *world {
	s := simapi.NewServer(theScheme)
	w := &world{s: s, tw: tw, scenID: id, kind: scen.Str(init, "kind"), cl: map[string]*simapi.Client{}, rec: map[string]reconcile.Reconciler{},
		uid: map[types.UID]string{}, revUID: map[string]types.UID{}, yaml: map[string]string{}, seen: map[string]map[string]any{},
		gen: map[string]bool{}, recOf: map[string]int{}, inj: map[string]string{}, changed: map[string]bool{}}
	if w.kind == "" {
		w.kind = "provider"
	}
	d, _ := init["drc"].(map[string]any)
	w.drc = drcState{Dn: scen.Str(d, "dn"), San: scen.Str(d, "san"), Tmpl: scen.Str(init, "tmpl")}
	w.drc.Ext, _ = d["ext"].(bool)
	if w.drc.Dn == "" {
		w.drc.Dn = "none"
	}
	if w.drc.San == "" {
		w.drc.San = "none"
	}
	if w.drc.Tmpl == "" {
		w.drc.Tmpl = "plain"
	}
	var p *unstructured.Unstructured
	if w.kind == "function" {
		p = s.Put(&pkgv1.Function{ObjectMeta: metav1.ObjectMeta{Name: pkgName}, Spec: pkgv1.FunctionSpec{PackageSpec: pkgv1.PackageSpec{Package: registry + "/org/pkg:r2"}}})
	} else {
		p = s.Put(&pkgv1.Provider{ObjectMeta: metav1.ObjectMeta{Name: pkgName}, Spec: pkgv1.ProviderSpec{PackageSpec: pkgv1.PackageSpec{Package: registry + "/org/pkg:r2"}}})
	}
	w.pkgUID = p.GetUID()
	w.uid[p.GetUID()] = "pkg"
	s.Put(w.buildDRC())
	s.Put(&corev1.ServiceAccount{ObjectMeta: metav1.ObjectMeta{Name: xpSA, Namespace: namespace}, ImagePullSecrets: []corev1.LocalObjectReference{{Name: "xp-pull"}}})
	s.Put(&corev1.ServiceAccount{ObjectMeta: metav1.ObjectMeta{Name: userSA, Namespace: namespace}})
	s.Put(&corev1.Secret{ObjectMeta: metav1.ObjectMeta{Name: caName, Namespace: namespace}, Data: map[string][]byte{corev1.TLSCertKey: caCertPEM, corev1.TLSPrivateKeyKey: caKeyPEM}})
	des, _ := init["des"].(map[string]any)
	for i, a := range revAliases {
		st := scen.Str(des, a)
		if st == "" {
			st = "Inactive"
		}
		u := s.Put(w.newRevision(a, st, i+1))
		w.revUID[a] = u.GetUID()
		w.uid[u.GetUID()] = a
		w.yaml[revName(a)] = packageStream(w.kind, a)
	}
	flags := &feature.Flags{}
	flags.Enable(features.EnableBetaDeploymentRuntimeConfigs)
	for _, a := range revAliases {
		a := a
		c := simapi.NewClient(s, a)
		w.cl[a] = c
		c.Intercept = func(cl *simapi.Call) simapi.Decision {
			if w.al == nil || w.outer != a || w.depth != 1 {
				return simapi.Proceed
			}
			abs := w.classify(a, cl.Verb, cl.Sub, cl.Key.Kind, cl.Key.Name)
			return w.al.OnCall(abs, cl.Write)
		}
		var hooks revision.RuntimeHooks
		var linter parser.Linter
		var newRev func() pkgv1.PackageRevision
		if w.kind == "function" {
			hooks, linter = revision.NewFunctionHooks(c, registry), xpkg.NewFunctionLinter()
			newRev = func() pkgv1.PackageRevision { return &pkgv1.FunctionRevision{} }
		} else {
			hooks, linter = revision.NewProviderHooks(c, registry), xpkg.NewProviderLinter()
			newRev = func() pkgv1.PackageRevision { return &pkgv1.ProviderRevision{} }
		}
		mgr := &fakes.Manager{Client: c, Sch: theScheme}
		w.rec[a] = revision.NewReconciler(mgr,
			revision.WithCache(&fakeCache{w: w}),
			revision.WithDependencyManager(nopDeps{}),
			revision.WithEstablisher(&refEstablisher{w: w, actor: a}),
			revision.WithNewPackageRevisionFn(newRev),
			revision.WithParser(parser.New(metaScheme, objScheme)),
			revision.WithConfigStore(xpkg.NewImageConfigStore(c, namespace)),
			revision.WithLinter(linter),
			revision.WithNamespace(namespace),
			revision.WithServiceAccount(xpSA),
			revision.WithFeatureFlags(flags),
			revision.WithRuntimeHooks(hooks),
		)
	}
	// the API server refuses to change a Deployment's selector (it is immutable in apps/v1)
	s.Reject = func(_ string, u *unstructured.Unstructured) error {
		if u.GetKind() != "Deployment" {
			return nil
		}
		k := simapi.KeyOf(u)
		if old, ok := w.sel[k]; ok && old != selSig(u) {
			return kerrors.NewInvalid(schema.GroupKind{Group: "apps", Kind: "Deployment"}, u.GetName(),
				field.ErrorList{field.Invalid(field.NewPath("spec", "selector"), selSig(u), "field is immutable")})
		}
		return nil
	}
	w.installStart(scen.Str(init, "start"), init)
	s.OnEvent = w.onEvent
	w.version++
	w.post() // primes the selector table
	return w
}

// installStart puts the runtime objects of a start configuration into the store,
// by running the real code without faults and recording nothing ("steady": r1 is
// installed and available; "handover": the same, and the package manager has just
// made r1 Inactive and r2 Active; "fresh": nothing exists).
func (w *world) installStart(start string, init map[string]any) {
	certs, _ := init["certs"].(bool)
	if certs || start != "fresh" {
		for _, n := range []string{secSName, secCName} {
			if n == secCName && w.kind == "function" {
				continue
			}
			w.s.Put(&corev1.Secret{ObjectMeta: metav1.ObjectMeta{Name: n, Namespace: namespace, OwnerReferences: []metav1.OwnerReference{w.revRef("r1")}},
				Data: map[string][]byte{corev1.TLSCertKey: leafCert, corev1.TLSPrivateKeyKey: leafKey, "ca.crt": caCertPEM}})
		}
	}
	if start == "fresh" || start == "" {
		return
	}
	// r1 is Active in these starts
	w.s.Mutate(w.revKey("r1"), func(u *unstructured.Unstructured) {
		_ = unstructured.SetNestedField(u.Object, "Active", "spec", "desiredState")
	})
	w.s.Mutate(w.revKey("r2"), func(u *unstructured.Unstructured) {
		_ = unstructured.SetNestedField(u.Object, "Inactive", "spec", "desiredState")
	})
	ctx := context.Background()
	req := reconcile.Request{NamespacedName: types.NamespacedName{Name: revName("r1")}}
	_, _ = w.rec["r1"].Reconcile(ctx, req)
	dep := "dep-r1"
	if w.drc.Dn != "none" {
		dep = "dep-" + w.drc.Dn
	}
	w.setAvail(dep, "true")
	if _, err := w.rec["r1"].Reconcile(ctx, req); err != nil {
		panic(fmt.Sprintf("cannot install the start configuration: %v", err))
	}
	// an external controller has added an image pull secret to the ServiceAccount the revision created
	for _, sa := range w.s.All(schema.GroupKind{Kind: "ServiceAccount"}) {
		if n := sa.GetName(); n != xpSA && n != userSA {
			w.s.Mutate(simapi.KeyOf(sa), func(u *unstructured.Unstructured) {
				l, _, _ := unstructured.NestedSlice(u.Object, "imagePullSecrets")
				_ = unstructured.SetNestedSlice(u.Object, append(l, map[string]any{"name": "ext-pull"}), "imagePullSecrets")
			})
		}
	}
	if start == "handover" {
		w.s.Mutate(w.revKey("r1"), func(u *unstructured.Unstructured) {
			_ = unstructured.SetNestedField(u.Object, "Inactive", "spec", "desiredState")
		})
		w.s.Mutate(w.revKey("r2"), func(u *unstructured.Unstructured) {
			_ = unstructured.SetNestedField(u.Object, "Active", "spec", "desiredState")
		})
	}
	w.s.Log = nil
}

// ---------------------------------------------------------------- reconciling

type sweep struct {
	rec, idx int
	d        simapi.Decision
}

// reconcile runs one reconcile of revision a. al != nil: a top-level reconcile aligned with the history.
func (w *world) reconcile(a string, al *replay.Aligner, sw *sweep) (calls int, result string) {
	w.depth++
	defer func() { w.depth-- }()
	w.recNo++
	w.recOf[a] = w.recNo
	myRec := w.recNo
	c := w.cl[a]
	if w.depth == 1 {
		w.al, w.outer = al, a
	}
	w.seen[a] = newSeen()
	w.gen[a] = false
	w.inj[a] = ""
	c.BeginReconcile()
	inner := c.Intercept
	if sw != nil && sw.rec == myRec {
		c.Intercept = func(cl *simapi.Call) simapi.Decision {
			d := inner(cl)
			if cl.Idx == sw.idx && d == simapi.Proceed {
				w.inj[a] = sw.d.String()
				if sw.d == simapi.FailConflict && !cl.Write {
					w.inj[a] = simapi.FailError.String()
					return simapi.FailError
				}
				return sw.d
			}
			return d
		}
	}
	w.emit("start", a, nil)
	res, err := func() (res reconcile.Result, err error) {
		defer func() {
			if r := recover(); r != nil {
				err = fmt.Errorf("panic: %v", r)
				result = "panic"
			}
		}()
		return w.rec[a].Reconcile(context.Background(), reconcile.Request{NamespacedName: types.NamespacedName{Name: revName(a)}})
	}()
	c.Intercept = inner
	calls = c.Calls()
	if w.depth == 1 && al != nil {
		al.Finish()
	}
	switch {
	case result == "panic":
	case c.Dead():
		result = "crashed"
	case err != nil:
		result = "error"
	case res.Requeue:
		result = "requeue"
	default:
		result = "ok"
	}
	if debug && err != nil {
		fmt.Fprintln(os.Stderr, w.scenID, "rec", myRec, a, "->", result, err)
	}
	faulty := w.inj[a] != "" || (w.depth == 1 && al != nil && al.Injected != "")
	quiet := !(w.depth == 1 && al != nil && al.EnvSteps > 0)
	w.recOf[a] = myRec
	w.emit("end", a, map[string]any{"result": result, "faulty": faulty, "quiet": quiet})
	if w.depth == 1 {
		w.al, w.outer = nil, ""
	}
	return calls, result
}

// settle runs fault-free reconciles the way the controller would be woken up: every
// revision once (a resync), then whichever revision changed, controls a runtime object
// that changed or disappeared, or asked to be requeued. It stops when nothing is pending.
func (w *world) settle(first string) {
	order := []string{"r1", "r2"}
	if first == "r2" {
		order = []string{"r2", "r1"}
	}
	w.changed = map[string]bool{"r1": true, "r2": true}
	last := map[string]any{"r1": "none", "r2": "none"}
	failedAt := map[string]int{} // the store version at which a revision's reconcile last failed (it is retried with back-off)
	rounds := 0
	w.track = true
	for rounds < 16 {
		next := ""
		for _, a := range order {
			if v, failed := failedAt[a]; w.changed[a] || (failed && v != w.version) {
				next = a
				break
			}
		}
		if next == "" {
			break
		}
		delete(w.changed, next)
		delete(failedAt, next)
		if w.s.Peek(w.revKey(next)) == nil {
			continue
		}
		rounds++
		_, res := w.reconcile(next, nil, nil)
		last[next] = res
		if res != "ok" {
			failedAt[next] = w.version // retried when anything has changed since; a failure that changes nothing is stable
		}
	}
	w.track = false
	w.emit("settled", "env", map[string]any{"fix": rounds < 16, "rounds": rounds, "last": last})
}

type summary struct {
	Scenarios  int            `json:"scenarios"`
	Runs       int            `json:"runs"`
	Reconciles int            `json:"reconciles"`
	Events     int            `json:"events"`
	Drift      int            `json:"drift"`
	DriftRuns  int            `json:"drift_runs"`
	SweepRuns  int            `json:"sweep_runs"`
	Reads      int            `json:"reads"`
	Counts     map[string]int `json:"counts"`
	Samples    []any          `json:"samples"`
	DriftByAbs map[string]int `json:"drift_by_abs"`
}

func isStart(e replay.Entry) bool { return e.K == "get" && strings.HasPrefix(e.O, "rev-") }

func run(tw *trace.Writer, id string, hist []replay.Entry, sw *sweep, first string, sum *summary) [][2]int {
	tw.Boundary()
	w := newWorld(tw, id, hist[0].Raw)
	w.emit("reset", "env", nil)
	blocks, trailing := replay.Split(hist[1:], isStart)
	var calls [][2]int // (reconcile number, calls) of every top-level reconcile
	drift := 0
	for _, b := range blocks {
		for _, e := range b.Pre {
			w.env(e)
		}
		al := &replay.Aligner{Steps: b.Steps, Variant: simapi.FailConflict, Env: w.env, Ignore: func(abs string) bool { return !modelled(abs) }}
		no := w.recNo + 1
		n, _ := w.reconcile(strings.TrimPrefix(b.Steps[0].O, "rev-"), al, sw)
		calls = append(calls, [2]int{no, n})
		sum.Reconciles++
		if sw == nil {
			drift += al.Drift
			for _, k := range al.DriftAbs {
				sum.DriftByAbs[k]++
			}
			if debug && al.Drift > 0 {
				fmt.Fprintln(os.Stderr, id, "drift", al.DriftAbs)
			}
		}
	}
	for _, e := range trailing {
		w.env(e)
	}
	w.settle(first)
	sum.Runs++
	sum.Reads += w.reads
	sum.Drift += drift
	if drift > 0 {
		sum.DriftRuns++
	}
	return calls
}

func main() {
	scenarios := flag.String("scenarios", "", "NDJSON file of TLC histories")
	tracePath := flag.String("trace", "", "output trace")
	sumPath := flag.String("summary", "", "output summary JSON")
	chunk := flag.Int("chunk", 0, "split the trace into files of about this many events")
	sweepN := flag.Int("sweep", 0, "number of scenarios to sweep over every real call index x outcome")
	probe := flag.Bool("probe", false, "print the abstract calls of every reconcile to stderr")
	cpuprof := flag.String("cpuprofile", "", "write a CPU profile")
	flag.Parse()
	if *cpuprof != "" {
		f, _ := os.Create(*cpuprof)
		_ = pprof.StartCPUProfile(f)
		defer pprof.StopCPUProfile()
	}
	if *probe {
		debug = true
	}
	makeCA()
	raws, err := scen.Load(*scenarios)
	if err != nil {
		fmt.Fprintln(os.Stderr, err)
		os.Exit(2)
	}
	tw, err := trace.New(*tracePath, *chunk)
	if err != nil {
		fmt.Fprintln(os.Stderr, err)
		os.Exit(2)
	}
	sum := &summary{DriftByAbs: map[string]int{}}
	dec := map[string]simapi.Decision{"error": simapi.FailError, "conflict": simapi.FailConflict, "crashBefore": simapi.CrashBefore, "crashAfter": simapi.CrashAfter}
	for i, raw := range raws {
		var sc struct {
			ID      string          `json:"id"`
			Hist    json.RawMessage `json:"hist"`
			First   string          `json:"first"`
			SweepMe bool            `json:"sweepme"`
			Sweep   *struct {
				Rec     int    `json:"rec"`
				Idx     int    `json:"idx"`
				Outcome string `json:"outcome"`
			} `json:"sweep"`
		}
		if err := json.Unmarshal(raw, &sc); err != nil {
			fmt.Fprintln(os.Stderr, "bad scenario:", err)
			os.Exit(2)
		}
		hist, err := replay.Parse(sc.Hist)
		if err != nil || len(hist) == 0 || hist[0].T != "init" {
			fmt.Fprintln(os.Stderr, "bad scenario history:", err)
			os.Exit(2)
		}
		sum.Scenarios++
		if sc.First == "" {
			sc.First = "r1"
		}
		if sc.Sweep != nil {
			run(tw, sc.ID, hist, &sweep{rec: sc.Sweep.Rec, idx: sc.Sweep.Idx, d: dec[sc.Sweep.Outcome]}, sc.First, sum)
			continue
		}
		calls := run(tw, sc.ID, hist, nil, sc.First, sum)
		if i < *sweepN || sc.SweepMe {
			// every real call index of every top-level reconcile x every outcome, then the settle phase
			for _, rn := range calls {
				recNo, n := rn[0], rn[1]
				for k := 1; k <= n; k++ {
					for _, d := range []simapi.Decision{simapi.FailError, simapi.FailConflict, simapi.CrashBefore, simapi.CrashAfter} {
						run(tw, fmt.Sprintf("%s/sweep-r%d-k%d-%s", sc.ID, recNo, k, d), hist, &sweep{rec: recNo, idx: k, d: d}, sc.First, sum)
						sum.SweepRuns++
					}
				}
			}
		}
		if len(sum.Samples) < 2 {
			sum.Samples = append(sum.Samples, json.RawMessage(raw))
		}
	}
	sum.Events = tw.Lines
	sum.Counts = tw.Counts
	if err := tw.Close(); err != nil {
		fmt.Fprintln(os.Stderr, err)
		os.Exit(2)
	}
	if err := scen.WriteJSON(*sumPath, sum); err != nil {
		fmt.Fprintln(os.Stderr, err)
		os.Exit(2)
	}
}
