"""C06 - a claim binds exactly one XR and never hijacks another claim's XR.
Model: spec/Claim.tla (both syncers); driver: harness/drivers/claim; monitor: spec/MonClaim.tla."""
import concurrent.futures
import glob
import json
import os

import vlib

PID = "C06"
MON_FORMULAS = ["OneXR", "RefFirst.Create", "RefFirst.Bind", "NoHijack.Write", "NoHijack.Frozen"]
QUICK = [("ssa", "MCClaim_quick_ssa.cfg"), ("csa", "MCClaim_quick_csa.cfg")]
THOROUGH = [("ssa", "MCClaim_thorough_ssa.cfg"), ("csa", "MCClaim_thorough_csa.cfg"),
            ("midssa", "MCClaim_mid_ssa.cfg"), ("midcsa", "MCClaim_mid_csa.cfg")]


def regression():
    out = []
    for p in sorted(glob.glob(os.path.join(vlib.VERIF, "scenarios", PID, "*.json"))):
        with open(p) as f:
            out.append(json.load(f))
    return out


def model_variant(sc):
    """How the behaviour's 'fail' entries are realised according to the model (error reply / crash before)."""
    for e in sc.get("hist", []):
        if e.get("f") == "fail" and e.get("fk"):
            return e["fk"]
    return "error"


def merge(a, b):
    """Sums two driver summaries."""
    if a is None:
        return b
    out = dict(a)
    for k, v in b.items():
        if isinstance(v, (int, float)) and not isinstance(v, bool):
            out[k] = a.get(k, 0) + v
        elif isinstance(v, dict):
            out[k] = merge(a.get(k) or {}, v)
        elif isinstance(v, list):
            out[k] = (a.get(k) or []) + v
    return out


def drive_and_judge(ctx, scs, sweep=0, variants="model", shards=1):
    by_id = {s["id"]: s for s in scs}
    binp = ctx.go_build("./drivers/claim")
    trace = os.path.join(ctx.work, "trace.ndjson")

    def shard(i):
        sp = ctx.write_scenarios(scs[i::shards], "scenarios.%d.ndjson" % i)
        summ = os.path.join(ctx.work, "summary.%d.json" % i)
        ctx.run([binp, "-scenarios", sp, "-trace", "%s.s%d" % (trace, i), "-summary", summ, "-sweep", str((sweep + shards - 1 - i) // shards),
                 "-variants", variants, "-chunk", "150000", "-seed", str(ctx.seed)], timeout=7200)
        with open(summ) as f:
            return json.load(f)

    ctx.write_scenarios(scs)
    with concurrent.futures.ThreadPoolExecutor(max_workers=shards) as ex:
        s = None
        for part in ex.map(shard, range(shards)):
            s = merge(s, part)
    viols, nlines = ctx.monitor("MonClaim", trace)
    for formula, line, scid in viols:
        parts = scid.split("/")
        if scid in by_id:          # (a replay file names its run exactly)
            base, parts = dict(by_id[scid]), parts[:1]
        else:
            base = dict(by_id.get(parts[0], {"id": parts[0]}))
        base["id"] = scid
        base["seed"] = ctx.seed
        for p in parts[1:]:
            if p.startswith("sweep-"):
                _, r, k, o = p.split("-")
                base["sweep"] = {"rec": int(r[1:]), "idx": int(k[1:]), "outcome": o}
                base["extra"] = 2
            else:
                base["variant"] = p
        base.setdefault("variant", model_variant(base))
        base.setdefault("extra", 0)
        ctx.violation(formula, scid, ctx.replay_file(base), "trace line %d" % line, fingerprint=formula)
    return s, nlines


def run(ctx):
    quick = ctx.quick
    cfgs = QUICK if quick else THOROUGH
    # vacuity witness: without the API server's resourceVersion check the design binds two XRs
    wit = ctx.model_check("MCClaim", "MCClaim_norv.cfg", expect_violations=("OneXR",), workers=1, timeout=120, sub="mc_norv")
    budget = 3000 if quick else 80000

    def one(tc):
        tag, cfg = tc
        return tag, cfg, ctx.model_check("MCClaim", cfg, workers=1 if quick else 4, timeout=120 if quick else 2400, sub="mc_" + tag)

    with concurrent.futures.ThreadPoolExecutor(max_workers=len(cfgs)) as ex:
        results = list(ex.map(one, cfgs))
    scs, states, trans, emitted, consts = [], 0, 0, 0, {}
    for tag, cfg, mc in results:
        scs += [{"id": "%s-%s-%07d" % (PID, tag, i), "hist": h}
                for i, h in ctx.sample_lines(mc["emitted_file"], budget // len(cfgs), mc["emitted"])]
        states += mc["states"]
        trans += mc["transitions"]
        emitted += mc["emitted"]
        consts[cfg] = dict(states=mc["states"], transitions=mc["transitions"], depth=mc["depth"], scenarios=mc["emitted"])
    consts["MCClaim_norv.cfg"] = dict(states=wit["states"], violated=wit["violated"], role="vacuity witness: RvCheck = FALSE must violate OneXR")
    # sweep scenarios first (the driver sweeps the first N of the file): alternate the syncers
    ctx.rng.shuffle(scs)
    chosen = regression() + scs
    s, nlines = drive_and_judge(ctx, chosen, sweep=16 if quick else 300, variants="all", shards=4 if quick else 6)
    from checks import wiring_rider
    wr = wiring_rider.run(ctx, PID)
    ctx.cov.update(dict(
        wiring_rider=wr,
        states=states, transitions=trans, traces_validated_against_impl=s["runs"],
        samples=s["samples"][:2], model_runs=consts, scenarios_emitted=emitted, scenarios_replayed=s["scenarios"],
        reconciles=s["reconciles"], sweep_runs=s["sweep_runs"], runs_by_syncer=s["runs_by_syncer"], events=nlines,
        per_action_counts=s["counts"], formula_antecedent_witnesses=s["witness"],
        drift=dict(unmatched_calls=s["drift"], runs_with_drift=s["drift_runs"], model_runs=s["model_runs"],
                   by_abs=s["drift_by_abs"], examples=(s.get("drift_examples") or [])[:10],
                   off_model_variant_runs=s["off_model_variant_runs"], off_model_variant_drift=s["off_model_variant_drift"]),
        monitor_formulas=MON_FORMULAS, exhaustive=(emitted == len(scs)),
        checker_cmd="tlc MCClaim (M,G; CSA and SSA) -> harness/drivers/claim on /repo (T) -> tlc MonClaim",
        rule="one scenario per model transition that ends a reconcile (shortest history reaching it); a model 'fail' is realised as the "
             "behaviour's fail kind (error reply / crash before), thorough also as conflict; stale claim reads are served from simapi's "
             "version history exactly as the model chose; sweep = every real call index x 4 outcomes + 2 fault-free reconciles",
    ))
    ctx.assumptions += ["simapi models the API server rules listed in spec/KubeAPI.tla (incl. real structured-merge-diff for server-side apply)",
                        "XR reads are fresh; only the claim is read from a stale cache (DESIGN 3 C06)",
                        "generated names collide with the pre-existing XR only where the model says so; never with each other",
                        "verdict only from traces of the real claim.Reconciler + syncers judged by MonClaim.tla"]


def replay(ctx, path):
    with open(path) as f:
        sc = json.load(f)
    if sc.get("rider") == "wiring":
        from checks import wiring_rider
        return wiring_rider.replay(ctx, path)
    if sc.get("seed"):
        ctx.seed = int(sc["seed"])
    s, nlines = drive_and_judge(ctx, [sc])
    ctx.cov.update(dict(states=1, transitions=1, traces_validated_against_impl=s["runs"], samples=[sc], events=nlines))
