SPECIFICATION Spec
CONSTANTS
  Inits <- InitsForeign
  EnvKinds = {"tamper", "grab", "crddel", "unest", "ver"}
  FaultKinds = {"fail", "miss"}
  MaxEnv = 2
  MaxFaults = 1
  MaxRecs = 3
  Interleave = FALSE
  MidEnv = TRUE
  WaitEstablished = TRUE
  FixTypeRef = FALSE
  FixWatches = FALSE
VIEW view
ACTION_CONSTRAINT EmitEnd
CHECK_DEADLOCK FALSE
INVARIANTS Safe
PROPERTIES ForeignFrozen XrdSpecKept
