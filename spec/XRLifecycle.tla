---------------------------- MODULE XRLifecycle ----------------------------
(***************************************************************************)
(* X03 - the life cycle of a composite resource (XR) AROUND composing:     *)
(* everything composite.Reconciler.Reconcile                               *)
(* (internal/controller/apiextensions/composite/reconciler.go) does before *)
(* and after it calls its Composer, with the real helpers of api.go        *)
(* (APIFinalizer, EnforcedCompositionSelector, APIDefaultCompositionSelec- *)
(* tor, APILabelSelectorResolver, APIRevisionFetcher, APINamingConfigura-  *)
(* tor, APIConfigurator, APIFilteredSecretPublisher) in the wiring of      *)
(* definition.Reconciler.CompositeReconcilerOptions.  The Composer itself  *)
(* is XRCompose's subject and is a recording stub here; which revision the *)
(* fetcher picks among several is CompRev's (C12) subject - every          *)
(* Composition has at most one revision here.                              *)
(*                                                                         *)
(* One action per API call in code order.  The reconciler's copy of the XR *)
(* (rc.loc), whether that copy is outdated (rc.stale: the resourceVersion  *)
(* it carries is no longer the stored one, so the API server refuses its   *)
(* writes), the step that failed (rc.step) are explicit.  Every call may   *)
(* fail as an error value, as a Conflict (writes), as a cache miss (Gets), *)
(* as a dead process before or after the effect.  The environment acts     *)
(* between and in the middle of reconciles: the user pauses / unpauses /   *)
(* edits / deletes the XR, Compositions are added / relabelled / deleted / *)
(* get their revision, the XRD's default reference changes, an enforced    *)
(* reference is added (which restarts the XR controller).                  *)
(*                                                                         *)
(* What the code's authors evidently intend (each clause checked against   *)
(* code and comments; the monitor MonXRLifecycle.tla judges the real code  *)
(* with these, the model is checked against them at design level):         *)
(*                                                                         *)
(*  P1 Paused.  "Reconciliation (including deletion) is paused via the     *)
(*     pause annotation": a reconcile that read a paused XR does nothing   *)
(*     but one status write Synced=False/ReconcilePaused; no write other   *)
(*     than a status write ever reaches an XR that is paused in the store  *)
(*     (every XR write of the reconciler carries the resourceVersion it    *)
(*     read).  Once the annotation is removed a reconcile runs to the end. *)
(*     NOT promised (and not asserted): that a reconcile which read the XR *)
(*     before it was paused writes no *status*: APIRevisionFetcher's       *)
(*     Apply re-reads the XR, so the status write that follows its failed  *)
(*     patch carries a fresh resourceVersion and lands (observation O1).   *)
(*  P2 Deleting.  A reconcile that read an XR with a deletionTimestamp     *)
(*     never calls the Composer and writes nothing but the XR; the only    *)
(*     non-status write to a deleting XR is the removal of the finalizer;  *)
(*     the finalizer is removed only after UnpublishConnection returned    *)
(*     without error in the same reconcile.  (The text "after the          *)
(*     finalizer is gone nothing else is written" is not what the code     *)
(*     promises: it still issues the status write, which is refused with   *)
(*     NotFound when the finalizer was the last one.  Asserted instead:    *)
(*     nothing but status is written.)  Every status write of the deletion *)
(*     branch says Ready=False/Deleting - the real code breaks this for    *)
(*     the write that follows the finalizer removal: D16 below.            *)
(*  P3 Finalizer first.  The Composer only runs for an XR that carries     *)
(*     the finalizer (in the copy handed to it and in the store).          *)
(*  P4 Selection.  spec.compositionRef, once set, is changed by the        *)
(*     controller only to the XRD's enforced composition.  A reference     *)
(*     the controller sets is: the enforced one; else, with neither        *)
(*     reference nor selector on the XR, the XRD's default (read in this   *)
(*     reconcile); else a Composition that was listed, whose               *)
(*     compositeTypeRef equals the XR's apiVersion and kind and whose      *)
(*     labels match the selector (no selector and no default: ANY          *)
(*     compatible Composition - the code lists with an empty selector; the *)
(*     reading "fails without reference, selector and default" is not what *)
(*     the code does and is not asserted).  Without a candidate the        *)
(*     reconcile fails with "cannot select Composition" and the reference  *)
(*     stays empty.  The Composer only runs with a valid revision of the   *)
(*     referenced Composition whose compositeTypeRef matches the XR.       *)
(*  P5 Configure.  The naming label crossplane.io/composite and            *)
(*     spec.writeConnectionSecretToRef, once present (user-set or not),    *)
(*     are never changed by the controller; what it adds is the XR's name  *)
(*     / {<uid>, writeConnectionSecretsToNamespace of the revision}; a     *)
(*     second reconcile in an unchanged world changes nothing (fixed       *)
(*     point, including the status).                                       *)
(*  P6 Exits.  Synced=True is only written by a reconcile whose Composer   *)
(*     returned without error (or by the deletion path); every other       *)
(*     status write says Synced=False with the reason of the step that     *)
(*     failed, a Warning event of the matching reason is recorded, and the *)
(*     result asks for a requeue; a Conflict on AddFinalizer /             *)
(*     RemoveFinalizer / Configure / Compose / Publish ends the reconcile  *)
(*     silently with Requeue.  After success the XR is polled after the    *)
(*     poll interval +-10%, or requeued at once while a composed resource  *)
(*     is unready.                                                         *)
(*  P7 Repair.  Whatever faults happened, fault-free reconciles in a quiet *)
(*     environment end in the state the environment permits: paused ->     *)
(*     ReconcilePaused; deleting -> finalizer gone; otherwise finalizer    *)
(*     present and (Composition selectable, present, with a valid          *)
(*     compatible revision) -> composed, Synced=True, naming label and     *)
(*     connection secret reference in place; else Synced=False.            *)
(*                                                                         *)
(* Found by this module on the unchanged tree (2026-10-04):                *)
(*  D16 (genuine, low severity; formulas Deleting.Condition.AfterFinali-   *)
(*     zerRemoval and Quiescent.AfterFinalizerRemoval).  The deletion      *)
(*     branch starts with xr.SetConditions(Deleting()), but the Update     *)
(*     issued by RemoveFinalizer decodes the server's answer into xr and   *)
(*     thereby drops every condition set in memory; the status write that  *)
(*     follows carries Synced=True only.  An XR that outlives the removal  *)
(*     of our finalizer (it carries another one, e.g. foregroundDeletion)  *)
(*     keeps Ready=True/Available (or no Ready at all) although it is      *)
(*     being deleted, until the next reconcile writes Ready=False/Deleting *)
(*     - the deletion path needs two reconciles to reach its fixed point.  *)
(*     Replay: scenarios/X03/d16-*.json.                                   *)
(*  O1 (observation, not judged): see P1.                                  *)
(* Measured: quick cfgs 6.7k / 143k / 8.8k / 16.5k states; thorough 1.0M / *)
(* 650k / 23k states; drift 0 (except runs where the code's random pick    *)
(* among several candidates could not be aligned with the scenario).       *)
(* Model corrections made while binding: none needed for the call order;   *)
(* the monitor's Paused.Exit first demanded "never requeued" - the code    *)
(* requeues when the status update of a paused XR fails (as its comment    *)
(* says); Exit.Reason.State first judged "no revision" on the state at the *)
(* status write instead of what the reconcile had listed.                  *)
(***************************************************************************)
EXTENDS Integers, Sequences, FiniteSets, TLC

CONSTANTS
  Comps,       \* universe of Composition names
  Attr,        \* c -> [compat, valid, wns]: compositeTypeRef matches the XR; the revision validates;
               \*      writeConnectionSecretsToNamespace is set (fixed per Composition: immutable / irrelevant to change)
  InitComps,   \* c -> [ex, lab, rev]: initial existence, value of the selector label, "has a revision"
  InitRefs,    \* choices for the XR's initial spec.compositionRef
  InitSels,    \* choices for the XR's initial compositionSelector label value ("none" = no selector)
  InitDefs,    \* choices for the XRD's defaultCompositionRef
  InitEnfs,    \* choices for the XRD's enforcedCompositionRef
  InitUser,    \* choices (BOOLEANs): the user created the XR with his own naming label and secret reference
  InitOFin,    \* choices (BOOLEANs): the XR carries another finalizer (it outlives the removal of ours)
  MaxRecs, MaxFaults, MaxEnv,
  MidEnv,      \* TRUE: the environment also acts in the middle of a reconcile
  EnvKinds,    \* enabled environment steps
  FaultKinds,  \* enabled fault kinds: subset of {"error", "conflict", "miss", "crashBefore", "crashAfter"}
  ComposeOuts, \* what the stub Composer may answer: subset of {"ok", "unready", "error", "conflict"}
  FinFirst,    \* TRUE = the code as written; FALSE = witness: AddFinalizer is skipped
  RvCheck      \* TRUE = XR writes carry the resourceVersion read (as written); FALSE = witness: unconditional writes

None == "none"
Labs == {"prod", "dev"}

VARIABLES
  xr,      \* the XR in the store
  comps,   \* c -> [ex, lab, rev]
  xdef,    \* the XRD's defaultCompositionRef (read at every reconcile that needs it)
  enf,     \* the XRD's enforcedCompositionRef as captured by the running XR controller
  secex,   \* the XR's connection secret exists
  rc,      \* the reconcile in flight: [pc, loc, stale, pstale, step, cres, unpub]
  recs, faults, envs,
  bad,     \* ghost: names of violated step properties
  quiet,   \* ghost: neither fault nor environment step since this reconcile started
  clean,   \* ghost: the last reconcile ran to its end, fault-free, in a quiet environment, the Composer (if called) answered ok
  hist

vars == <<xr, comps, xdef, enf, secex, rc, recs, faults, envs, bad, quiet, clean, hist>>
view == <<xr, comps, xdef, enf, secex, rc, recs, faults, envs, bad, quiet, clean>>

Gone == [ex |-> FALSE, del |-> FALSE, paused |-> FALSE, fin |-> FALSE, ofin |-> FALSE, ref |-> None, sel |-> None,
         rev |-> None, lab |-> None, wsec |-> None, synced |-> None]
NoLoc == [del |-> FALSE, paused |-> FALSE, fin |-> FALSE, ref |-> None, sel |-> None, rev |-> None, lab |-> None, wsec |-> None]
Copy(x) == [del |-> x.del, paused |-> x.paused, fin |-> x.fin, ref |-> x.ref, sel |-> x.sel, rev |-> x.rev, lab |-> x.lab, wsec |-> x.wsec]
Idle == [pc |-> "idle", loc |-> NoLoc, stale |-> FALSE, pstale |-> FALSE, step |-> "", cres |-> None, unpub |-> FALSE]

H(t, k, o, f) == [t |-> t, k |-> k, o |-> o, f |-> f]
Log(e) == hist' = Append(hist, e)
SetSeq(S) == LET RECURSIVE F(_)
                 F(T) == IF T = {} THEN <<>> ELSE LET x == CHOOSE y \in T : TRUE IN <<x>> \o F(T \ {x})
             IN F(S)

Init ==
  /\ \E r \in InitRefs, s \in InitSels, u \in InitUser, o \in InitOFin :
       xr = [ex |-> TRUE, del |-> FALSE, paused |-> FALSE, fin |-> FALSE, ofin |-> o, ref |-> r, sel |-> s, rev |-> None,
             lab |-> (IF u THEN "user" ELSE None), wsec |-> (IF u THEN "user" ELSE None), synced |-> None]
  /\ comps = InitComps
  /\ xdef \in InitDefs /\ enf \in InitEnfs
  /\ secex = FALSE /\ rc = Idle /\ recs = 0 /\ faults = 0 /\ envs = 0 /\ bad = {} /\ quiet = FALSE /\ clean = FALSE
  /\ hist = << [t |-> "init", xr |-> xr, xdef |-> xdef, enf |-> enf,
                comps |-> [c \in Comps |-> [ex |-> comps[c].ex, lab |-> comps[c].lab, rev |-> comps[c].rev,
                                            compat |-> Attr[c].compat, valid |-> Attr[c].valid, wns |-> Attr[c].wns]]] >>

----------------------------------------------------------------------------
(* Environment                                                             *)
InRec == rc.pc # "idle"
EnvOK(k) == k \in EnvKinds /\ envs < MaxEnv /\ (MidEnv \/ ~InRec)
EnvDone == /\ envs' = envs + 1 /\ quiet' = FALSE /\ clean' = FALSE
           /\ UNCHANGED <<recs, faults, bad>>
\* the XR's resourceVersion moved: the reconciler's copy is outdated
Outdated == rc' = (IF InRec THEN [rc EXCEPT !.stale = TRUE] ELSE rc)
XrEnv(k, nx) == /\ EnvOK(k) /\ xr.ex /\ xr' = nx /\ Log(H("env", k, "", "")) /\ Outdated
                /\ UNCHANGED <<comps, xdef, enf, secex>> /\ EnvDone
Pause == ~xr.paused /\ XrEnv("pause", [xr EXCEPT !.paused = TRUE])
Unpause == xr.paused /\ XrEnv("unpause", [xr EXCEPT !.paused = FALSE])
\* an edit of something the reconciler does not look at (here: the annotation crossplane.io/paused: "false")
Touch == InRec /\ ~rc.stale /\ XrEnv("touch", xr)
Delete == ~xr.del /\ XrEnv("delete", IF xr.fin \/ xr.ofin THEN [xr EXCEPT !.del = TRUE] ELSE Gone)
CompEnv(k, c, nc) == /\ EnvOK(k) /\ comps' = [comps EXCEPT ![c] = nc] /\ Log(H("env", k, c, nc.lab))
                     /\ UNCHANGED <<xr, xdef, enf, secex, rc>> /\ EnvDone
AddComp == \E c \in Comps, l \in Labs, r \in BOOLEAN :
             ~comps[c].ex /\ CompEnv(IF r THEN "addcomp" ELSE "addcomp-norev", c, [ex |-> TRUE, lab |-> l, rev |-> r])
DelComp == \E c \in Comps : comps[c].ex /\ CompEnv("delcomp", c, [ex |-> FALSE, lab |-> "prod", rev |-> FALSE])
Relabel == \E c \in Comps : comps[c].ex /\ CompEnv("relabel", c, [comps[c] EXCEPT !.lab = IF @ = "prod" THEN "dev" ELSE "prod"])
MkRev == \E c \in Comps : comps[c].ex /\ ~comps[c].rev /\ CompEnv("mkrev", c, [comps[c] EXCEPT !.rev = TRUE])
SetDefault == /\ EnvOK("default") /\ \E d \in Comps \cup {None} : d # xdef /\ xdef' = d /\ Log(H("env", "default", d, ""))
              /\ UNCHANGED <<xr, comps, enf, secex, rc>> /\ EnvDone
\* enforcedCompositionRef is immutable once set; adding it changes the XRD, which restarts the XR controller
Enforce == /\ EnvOK("enforce") /\ ~InRec /\ enf = None
           /\ \E c \in Comps : enf' = c /\ Log(H("env", "enforce", c, ""))
           /\ UNCHANGED <<xr, comps, xdef, secex, rc>> /\ EnvDone
Env == Pause \/ Unpause \/ Touch \/ Delete \/ AddComp \/ DelComp \/ Relabel \/ MkRev \/ SetDefault \/ Enforce

----------------------------------------------------------------------------
(* Reconcile plumbing                                                      *)
CanFault(f) == f \in FaultKinds /\ faults < MaxFaults
Ok(k, o) == Log(H("call", k, o, "ok")) /\ UNCHANGED faults
Flt(k, o, f) == CanFault(f) /\ faults' = faults + 1 /\ Log(H("call", k, o, f)) /\ quiet' = FALSE
Keep == UNCHANGED <<recs, quiet, clean>>
KeepF == UNCHANGED <<recs, clean>>          \* with Flt (which clears quiet)
Ended(ok) == rc' = Idle /\ recs' = recs + 1 /\ clean' = (ok /\ quiet')
\* the reconcile goes on to write Synced=False for step s
ToStatus(s) == rc' = [rc EXCEPT !.pc = "status", !.step = s]
Others == UNCHANGED <<comps, xdef, enf, envs>>

\* an XR write of the reconciler is refused when the XR is gone (NotFound) or its resourceVersion moved (Conflict)
WOut == IF ~xr.ex THEN "notfound" ELSE IF RvCheck /\ rc.stale THEN "conflict" ELSE "ok"

\* ---- where the reconcile goes: the in-memory part of the selector chain, Validate and the checks of Configure
AfterFin(l) ==
  LET r1 == IF enf # None /\ l.ref # enf THEN enf ELSE l.ref
  IN [loc |-> [l EXCEPT !.ref = r1],
      pc |-> IF r1 # None THEN "getcomp" ELSE IF l.sel = None THEN "getxrd" ELSE "listcomp"]
AfterLabel(l) ==
  IF ~Attr[l.ref].compat THEN [pc |-> "status", step |-> "configure"]
  ELSE IF l.wsec = None /\ Attr[l.ref].wns THEN [pc |-> "wsec", step |-> ""]
  ELSE [pc |-> "compose", step |-> ""]
AfterFetch(l) ==
  IF ~Attr[l.ref].valid THEN [pc |-> "status", step |-> "validate"]
  ELSE IF l.lab = None THEN [pc |-> "label", step |-> ""]
  ELSE AfterLabel(l)
Go(n, l) == rc' = [rc EXCEPT !.pc = n.pc, !.step = n.step, !.loc = l]

\* ---- ghosts: step properties recorded where the step happens
NoteXrWrite(what, nx) ==     \* a non-status write reached the XR
  bad' = bad \cup (IF xr.paused THEN {"PausedWrite"} ELSE {})
             \cup (IF xr.del /\ what # "rmfin" THEN {"DeletingWrite"} ELSE {})
             \cup (IF nx.ex /\ xr.ref # None /\ nx.ref # xr.ref /\ nx.ref # enf THEN {"RefChanged"} ELSE {})
             \cup (IF nx.ex /\ xr.lab # None /\ nx.lab # xr.lab THEN {"LabelChanged"} ELSE {})
             \cup (IF nx.ex /\ xr.wsec # None /\ nx.wsec # xr.wsec THEN {"SecretRefChanged"} ELSE {})
             \cup (IF what = "rmfin" /\ ~rc.unpub THEN {"UnpublishFirst"} ELSE {})
NoteCompose ==
  bad' = bad \cup (IF ~rc.loc.fin \/ (xr.ex /\ ~xr.fin) THEN {"FinalizerFirst"} ELSE {})
             \cup (IF rc.loc.del THEN {"ComposeDeleting"} ELSE {})
             \cup (IF rc.loc.paused THEN {"ComposePaused"} ELSE {})
             \cup (IF rc.loc.ref = None \/ rc.loc.rev # rc.loc.ref THEN {"ComposeRevision"} ELSE {})
             \cup (IF rc.loc.ref # None /\ ~(Attr[rc.loc.ref].compat /\ Attr[rc.loc.ref].valid) THEN {"ComposeIncompatible"} ELSE {})
             \cup (IF rc.loc.lab = None THEN {"ComposeUnlabelled"} ELSE {})

\* ---- 1. Get the XR
GetXR ==
  /\ rc.pc = "idle" /\ recs < MaxRecs
  /\ \/ /\ Ok("get", "xr") /\ quiet' = TRUE /\ UNCHANGED clean
        /\ (IF ~xr.ex THEN rc' = Idle /\ recs' = recs + 1       \* NotFound is ignored
            ELSE LET l == Copy(xr) IN
                 /\ UNCHANGED recs
                 /\ (IF l.paused THEN rc' = [Idle EXCEPT !.pc = "status", !.loc = l]
                     ELSE IF l.del THEN rc' = [Idle EXCEPT !.pc = "unpub", !.loc = l]
                     ELSE IF ~l.fin /\ FinFirst THEN rc' = [Idle EXCEPT !.pc = "addfin", !.loc = l]
                     ELSE LET n == AfterFin(l) IN rc' = [Idle EXCEPT !.pc = n.pc, !.loc = n.loc]))
     \/ \E f \in {"error", "miss", "crashBefore"} : Flt("get", "xr", f) /\ rc' = Idle /\ recs' = recs + 1 /\ clean' = FALSE
  /\ UNCHANGED <<xr, secex, bad>> /\ Others

\* ---- 2. paused / every early exit / the end: Status().Update
SyncedOf == IF rc.step # "" THEN "Error" ELSE IF rc.loc.paused THEN "Paused" ELSE "True"
NoteStatus == bad' = bad \cup (IF SyncedOf = "True" /\ ~(rc.cres \in {"ok", "unready"} \/ rc.loc.del) THEN {"SyncedLie"} ELSE {})
                         \cup (IF xr.paused /\ rc.loc.paused /\ SyncedOf # "Paused" THEN {"PausedStatus"} ELSE {})
Status ==
  /\ rc.pc = "status"
  /\ \/ /\ Ok("status", "xr") /\ quiet' = quiet
        /\ (IF WOut = "ok" THEN xr' = [xr EXCEPT !.synced = SyncedOf] /\ NoteStatus /\ Ended(TRUE)
            ELSE UNCHANGED <<xr, bad>> /\ Ended(FALSE))
     \/ /\ \E f \in {"error", "conflict", "crashBefore"} : Flt("status", "xr", f)
        /\ UNCHANGED <<xr, bad>> /\ Ended(FALSE)
     \/ /\ Flt("status", "xr", "crashAfter")
        /\ (IF WOut = "ok" THEN xr' = [xr EXCEPT !.synced = SyncedOf] /\ NoteStatus ELSE UNCHANGED <<xr, bad>>)
        /\ Ended(FALSE)
  /\ UNCHANGED secex /\ Others

\* ---- 3. deletion: UnpublishConnection (a call into the publisher chain), RemoveFinalizer, status
Unpublish ==
  /\ rc.pc = "unpub"
  /\ \/ /\ Ok("unpublish", "") /\ Keep
        /\ rc' = [rc EXCEPT !.unpub = TRUE, !.pc = IF rc.loc.fin THEN "rmfin" ELSE "status"]
     \/ /\ Flt("unpublish", "", "error") /\ KeepF /\ ToStatus("unpublish")
  /\ UNCHANGED <<xr, secex, bad>> /\ Others
NoFin == IF xr.ofin THEN [xr EXCEPT !.fin = FALSE] ELSE Gone
RmFin ==
  /\ rc.pc = "rmfin"
  /\ \/ /\ Ok("rmfin", "xr")
        /\ (CASE WOut = "ok" -> /\ xr' = NoFin /\ NoteXrWrite("rmfin", NoFin) /\ Keep
                                /\ rc' = [rc EXCEPT !.pc = "status", !.loc.fin = FALSE]
              [] WOut = "notfound" -> UNCHANGED <<xr, bad>> /\ Keep /\ rc' = [rc EXCEPT !.pc = "status"]   \* ignored
              [] WOut = "conflict" -> UNCHANGED <<xr, bad>> /\ quiet' = quiet /\ Ended(FALSE))              \* silent requeue
     \/ /\ Flt("rmfin", "xr", "error") /\ KeepF /\ ToStatus("rmfin") /\ UNCHANGED <<xr, bad>>
     \/ /\ \E f \in {"conflict", "crashBefore"} : Flt("rmfin", "xr", f)
        /\ Ended(FALSE) /\ UNCHANGED <<xr, bad>>
     \/ /\ Flt("rmfin", "xr", "crashAfter") /\ Ended(FALSE)
        /\ (IF WOut = "ok" THEN xr' = NoFin /\ NoteXrWrite("rmfin", NoFin) ELSE UNCHANGED <<xr, bad>>)
  /\ UNCHANGED secex /\ Others

\* ---- 4. AddFinalizer
AddFin ==
  /\ rc.pc = "addfin"
  /\ LET nx == [xr EXCEPT !.fin = TRUE]
         n == AfterFin([rc.loc EXCEPT !.fin = TRUE]) IN
     \/ /\ Ok("addfin", "xr")
        /\ (CASE WOut = "ok" -> /\ xr' = nx /\ NoteXrWrite("addfin", nx) /\ Keep
                                /\ rc' = [rc EXCEPT !.pc = n.pc, !.loc = n.loc]
              [] WOut = "notfound" -> UNCHANGED <<xr, bad>> /\ Keep /\ ToStatus("addfin")
              [] WOut = "conflict" -> UNCHANGED <<xr, bad>> /\ quiet' = quiet /\ Ended(FALSE))
     \/ /\ Flt("addfin", "xr", "error") /\ KeepF /\ ToStatus("addfin") /\ UNCHANGED <<xr, bad>>
     \/ /\ \E f \in {"conflict", "crashBefore"} : Flt("addfin", "xr", f)
        /\ Ended(FALSE) /\ UNCHANGED <<xr, bad>>
     \/ /\ Flt("addfin", "xr", "crashAfter") /\ Ended(FALSE)
        /\ (IF WOut = "ok" THEN xr' = nx /\ NoteXrWrite("addfin", nx) ELSE UNCHANGED <<xr, bad>>)
  /\ UNCHANGED secex /\ Others

\* ---- 5. SelectComposition: enforced (in memory, AfterFin), default (Get XRD), label selector (List, Update)
GetXRD ==
  /\ rc.pc = "getxrd"
  /\ \/ /\ Ok("get", "xrd") /\ Keep
        /\ rc' = (IF xdef # None THEN [rc EXCEPT !.pc = "getcomp", !.loc.ref = xdef] ELSE [rc EXCEPT !.pc = "listcomp"])
     \/ /\ \E f \in {"error", "miss"} : Flt("get", "xrd", f)
        /\ KeepF /\ ToStatus("select")
     \/ /\ Flt("get", "xrd", "crashBefore") /\ Ended(FALSE)
  /\ UNCHANGED <<xr, secex, bad>> /\ Others
Cands == {c \in Comps : comps[c].ex /\ Attr[c].compat /\ (rc.loc.sel = None \/ comps[c].lab = rc.loc.sel)}
ListComp ==
  /\ rc.pc = "listcomp"
  /\ \/ /\ Ok("list", "comp") /\ Keep
        /\ (IF Cands = {} THEN ToStatus("select")
            ELSE \E c \in Cands : rc' = [rc EXCEPT !.pc = "setref", !.loc.ref = c])   \* the code picks at random
     \/ /\ Flt("list", "comp", "error") /\ KeepF /\ ToStatus("select")
     \/ /\ Flt("list", "comp", "crashBefore") /\ Ended(FALSE)
  /\ UNCHANGED <<xr, secex, bad>> /\ Others
SetRef ==
  /\ rc.pc = "setref"
  /\ LET c == rc.loc.ref
         nx == [xr EXCEPT !.ref = c] IN
     \/ /\ Ok("setref", c) /\ Keep
        /\ (IF WOut = "ok" THEN xr' = nx /\ NoteXrWrite("setref", nx) /\ rc' = [rc EXCEPT !.pc = "getcomp"]
            ELSE UNCHANGED <<xr, bad>> /\ ToStatus("select"))         \* a Conflict is not special here
     \/ /\ \E f \in {"error", "conflict"} : Flt("setref", c, f)
        /\ KeepF /\ ToStatus("select") /\ UNCHANGED <<xr, bad>>
     \/ /\ Flt("setref", c, "crashBefore") /\ Ended(FALSE) /\ UNCHANGED <<xr, bad>>
     \/ /\ Flt("setref", c, "crashAfter") /\ Ended(FALSE)
        /\ (IF WOut = "ok" THEN xr' = nx /\ NoteXrWrite("setref", nx) ELSE UNCHANGED <<xr, bad>>)
  /\ UNCHANGED secex /\ Others

\* ---- 6. Fetch the revision (policy Automatic): Get Composition, List revisions, and when the revision reference
\*         changes Apply = Get XR + merge patch carrying the resourceVersion of the FIRST read
GetComp ==
  /\ rc.pc = "getcomp"
  /\ LET c == rc.loc.ref IN
     \/ /\ Ok("get", c) /\ Keep
        /\ (IF comps[c].ex THEN rc' = [rc EXCEPT !.pc = "listrev"] ELSE ToStatus("fetch"))
     \/ /\ \E f \in {"error", "miss"} : Flt("get", c, f)
        /\ KeepF /\ ToStatus("fetch")
     \/ /\ Flt("get", c, "crashBefore") /\ Ended(FALSE)
  /\ UNCHANGED <<xr, secex, bad>> /\ Others
ListRev ==
  /\ rc.pc = "listrev"
  /\ LET c == rc.loc.ref IN
     \/ /\ Ok("list", "rev") /\ Keep
        /\ (IF ~(comps[c].ex /\ comps[c].rev) THEN ToStatus("fetch")          \* no compatible revision
            ELSE IF rc.loc.rev = c THEN Go(AfterFetch(rc.loc), rc.loc)
            ELSE rc' = [rc EXCEPT !.pc = "reget", !.loc.rev = c])
     \/ /\ Flt("list", "rev", "error") /\ KeepF /\ ToStatus("fetch")
     \/ /\ Flt("list", "rev", "crashBefore") /\ Ended(FALSE)
  /\ UNCHANGED <<xr, secex, bad>> /\ Others
ReGet ==
  /\ rc.pc = "reget"
  /\ \/ /\ Ok("reget", "xr") /\ Keep
        /\ (IF xr.ex THEN rc' = [rc EXCEPT !.pc = "patch", !.pstale = rc.stale, !.stale = FALSE]
            ELSE rc' = [rc EXCEPT !.pc = "recreate"])
     \/ /\ Flt("reget", "xr", "miss") /\ KeepF /\ rc' = [rc EXCEPT !.pc = "recreate"]
     \/ /\ Flt("reget", "xr", "error") /\ KeepF /\ ToStatus("fetch")
     \/ /\ Flt("reget", "xr", "crashBefore") /\ Ended(FALSE)
  /\ UNCHANGED <<xr, secex, bad>> /\ Others
\* Apply falls into Create when its Get answers NotFound; the body carries a resourceVersion: always refused
ReCreate ==
  /\ rc.pc = "recreate" /\ Ok("create", "xr") /\ Keep /\ ToStatus("fetch")
  /\ UNCHANGED <<xr, secex, bad>> /\ Others
Patch ==
  /\ rc.pc = "patch"
  /\ LET nx == [xr EXCEPT !.ref = rc.loc.ref, !.rev = rc.loc.rev]
         out == IF ~xr.ex THEN "notfound" ELSE IF RvCheck /\ (rc.pstale \/ rc.stale) THEN "conflict" ELSE "ok" IN
     \/ /\ Ok("patch", "xr") /\ Keep
        /\ (IF out = "ok" THEN xr' = nx /\ NoteXrWrite("patch", nx) /\ Go(AfterFetch(rc.loc), rc.loc)
            ELSE UNCHANGED <<xr, bad>> /\ ToStatus("fetch"))
     \/ /\ \E f \in {"error", "conflict"} : Flt("patch", "xr", f)
        /\ KeepF /\ ToStatus("fetch") /\ UNCHANGED <<xr, bad>>
     \/ /\ Flt("patch", "xr", "crashBefore") /\ Ended(FALSE) /\ UNCHANGED <<xr, bad>>
     \/ /\ Flt("patch", "xr", "crashAfter") /\ Ended(FALSE)
        /\ (IF out = "ok" THEN xr' = nx /\ NoteXrWrite("patch", nx) ELSE UNCHANGED <<xr, bad>>)
  /\ UNCHANGED secex /\ Others

\* ---- 7/8. Validate (AfterFetch), Configure: naming label, compatibility (AfterLabel), connection secret reference
CfgWrite(p, k, nx, nl, after) ==
  /\ rc.pc = p
  /\ \/ /\ Ok(k, "xr")
        /\ (CASE WOut = "ok" -> xr' = nx /\ NoteXrWrite(k, nx) /\ Keep /\ Go(after, nl)
              [] WOut = "notfound" -> UNCHANGED <<xr, bad>> /\ Keep /\ ToStatus("configure")
              [] WOut = "conflict" -> UNCHANGED <<xr, bad>> /\ quiet' = quiet /\ Ended(FALSE))
     \/ /\ Flt(k, "xr", "error") /\ KeepF /\ ToStatus("configure") /\ UNCHANGED <<xr, bad>>
     \/ /\ \E f \in {"conflict", "crashBefore"} : Flt(k, "xr", f)
        /\ Ended(FALSE) /\ UNCHANGED <<xr, bad>>
     \/ /\ Flt(k, "xr", "crashAfter") /\ Ended(FALSE)
        /\ (IF WOut = "ok" THEN xr' = nx /\ NoteXrWrite(k, nx) ELSE UNCHANGED <<xr, bad>>)
  /\ UNCHANGED secex /\ Others
Label == LET nl == [rc.loc EXCEPT !.lab = "own"] IN CfgWrite("label", "label", [xr EXCEPT !.lab = "own"], nl, AfterLabel(nl))
WSec == LET nl == [rc.loc EXCEPT !.wsec = "gen"] IN
        CfgWrite("wsec", "wsec", [xr EXCEPT !.wsec = "gen"], nl, [pc |-> "compose", step |-> ""])

\* ---- 9. the Composer (a stub: what it does to composed resources is XRCompose's subject)
Compose ==
  /\ rc.pc = "compose"
  /\ \/ /\ \E o \in ComposeOuts \cap {"ok", "unready"} :
             /\ Log(H("call", "compose", "", o)) /\ UNCHANGED faults
             /\ rc' = [rc EXCEPT !.cres = o, !.pc = IF rc.loc.wsec # None THEN "getsec" ELSE "status"]
        /\ Keep
     \/ /\ "error" \in ComposeOuts /\ Flt("compose", "", "error") /\ KeepF
        /\ rc' = [rc EXCEPT !.cres = "error", !.pc = "status", !.step = "compose"]
     \/ /\ "conflict" \in ComposeOuts /\ Flt("compose", "", "conflict") /\ Ended(FALSE)
  /\ NoteCompose
  /\ UNCHANGED <<xr, secex>> /\ Others

\* ---- 10. PublishConnection: APIFilteredSecretPublisher = Get the secret, Create it if absent (same data: no write)
GetSec ==
  /\ rc.pc = "getsec"
  /\ \/ /\ Ok("get", "secret") /\ Keep /\ rc' = [rc EXCEPT !.pc = IF secex THEN "status" ELSE "mksec"]
     \/ /\ Flt("get", "secret", "error") /\ KeepF /\ ToStatus("publish")
     \/ /\ Flt("get", "secret", "crashBefore") /\ Ended(FALSE)
  /\ UNCHANGED <<xr, secex, bad>> /\ Others
MkSec ==
  /\ rc.pc = "mksec"
  /\ \/ /\ Ok("create", "secret") /\ Keep /\ secex' = TRUE /\ rc' = [rc EXCEPT !.pc = "status"]
     \/ /\ Flt("create", "secret", "error") /\ KeepF /\ ToStatus("publish") /\ UNCHANGED secex
     \/ /\ \E f \in {"conflict", "crashBefore"} : Flt("create", "secret", f)
        /\ Ended(FALSE) /\ UNCHANGED secex
     \/ /\ Flt("create", "secret", "crashAfter") /\ Ended(FALSE) /\ secex' = TRUE
  /\ bad' = bad \cup (IF rc.loc.del \/ ~rc.loc.fin THEN {"SecretWithoutFinalizer"} ELSE {})
  /\ UNCHANGED xr /\ Others

Rec == GetXR \/ Status \/ Unpublish \/ RmFin \/ AddFin \/ GetXRD \/ ListComp \/ SetRef \/ GetComp \/ ListRev \/ ReGet
       \/ ReCreate \/ Patch \/ Label \/ WSec \/ Compose \/ GetSec \/ MkSec
Next == Env \/ Rec
Spec == Init /\ [][Next]_vars

----------------------------------------------------------------------------
(* Design-level properties                                                 *)
\* P1-P6 as step properties (ghosts recorded at the step)
StepProps == bad = {}
\* P7: a reconcile that ran to its end fault-free in a quiet environment leaves the state the environment permits
Eff == IF enf # None THEN enf ELSE xr.ref
Healthy == Eff # None /\ comps[Eff].ex /\ comps[Eff].rev /\ Attr[Eff].valid /\ Attr[Eff].compat
Repaired ==
  (rc.pc = "idle" /\ clean /\ xr.ex) =>
     IF xr.paused THEN xr.synced = "Paused"
     ELSE IF xr.del THEN ~xr.fin
     ELSE /\ xr.fin
          /\ (IF Healthy
              THEN /\ xr.synced = "True" /\ xr.ref = Eff /\ xr.rev = Eff /\ xr.lab # None
                   /\ (Attr[Eff].wns => xr.wsec # None) /\ (xr.wsec # None => secex)
              ELSE xr.synced = "Error")
\* P3 as a state invariant: while the Composer may run, the finalizer is in the reconciler's copy
FinBeforeCompose == rc.pc \in {"compose", "getsec", "mksec"} => rc.loc.fin
=============================================================================
