"""C20 - initialisation is idempotent and never duplicates or clobbers existing state.
Model: spec/Init.tla (+ MCInit); driver: harness/drivers/init (the real initializer steps in
cmd/crossplane/core/init.go order, run by the real initializer.New(...).Init on simapi);
monitor: spec/MonInit.tla."""
import glob
import json
import os
import re
import subprocess
import time

import vlib

PID = "C20"
MON_FORMULAS = ["Idempotent.Rerun", "Idempotent.AbortRerun", "KeepCA", "KeepCerts", "Chain.Complete", "Chain.Verifies",
                "Chain.DNSNames", "Chain.CaCrt", "NoDupPkg.SameRepoTwice", "NoDupPkg.Installed", "NoDupPkg.LandsOnExisting",
                "NoDupPkg.HostCustomName.Lands", "NoDupPkg.HostCustomName.Dup", "NoDupPkg.HostCustomName.Rerun",
                "NoDupPkg.HostCustomName.AbortRerun", "Untouched", "Bundle.CRD", "Bundle.Webhook"]
# every package-object clause in the situation of DESIGN.md section 4 D7 (reference with registry host, repository
# installed under a custom object name) is one finding: fingerprint NoDupPkg.HostCustomName
D7 = "NoDupPkg.HostCustomName"
DRIFT_FORMULAS = ["Conf.Init", "Conf.Final"]
HOWS = ("error", "conflict", "crashBefore")


def regression():
    out = []
    for p in sorted(glob.glob(os.path.join(vlib.VERIF, "scenarios", PID, "*.json"))):
        with open(p) as f:
            out.append(json.load(f))
    return out


def build(ctx):
    """The driver binary, built against /repo's working tree. VERIF_C20_OVERLAY=<overlay.json> builds it
    with go build -overlay (sanity mutants on scratch copies of /repo files; /repo itself is never touched)."""
    ov = os.environ.get("VERIF_C20_OVERLAY")
    if not ov:
        return ctx.go_build("./drivers/init", name="initdrv")
    out = os.path.join(ctx.work, "bin", "initdrv")
    os.makedirs(os.path.dirname(out), exist_ok=True)
    e = dict(os.environ)
    e.update(vlib.GOENV)
    t = time.time()
    p = subprocess.run(["go", "build", "-overlay", ov, "-o", out, "./drivers/init"], cwd=vlib.HARNESS, env=e,
                       stdout=subprocess.PIPE, stderr=subprocess.STDOUT, text=True)
    vlib.log("  go build -overlay %s: rc=%d %.1fs" % (ov, p.returncode, time.time() - t))
    if p.returncode != 0:
        raise vlib.Inconclusive("harness does not build with the overlay:\n" + p.stdout[-4000:])
    return out


def replay_scenario(by_id, scid):
    """The scenario that reproduces exactly the run the trace line belongs to."""
    parts = scid.split("/")
    base = dict(by_id.get(parts[0], {"id": parts[0]}))
    base["id"] = scid
    for p in parts[1:]:
        m = re.match(r"sweep-k(\d+)-(fail|crashAfter)-(\w+)$", p)
        if m:
            base["sweep"] = {"idx": int(m.group(1)), "f": m.group(2)}
            base["how"] = m.group(3)
        elif p in HOWS:
            base["how"] = p
    return base


def drive_and_judge(ctx, scs, sweep=0, realgen=0):
    by_id = {s["id"].split("/")[0]: s for s in scs}
    sp = ctx.write_scenarios(scs)
    binp = build(ctx)
    trace = os.path.join(ctx.work, "trace.ndjson")
    summ = os.path.join(ctx.work, "summary.json")
    ctx.run([binp, "-scenarios", sp, "-trace", trace, "-summary", summ, "-chunk", "40000", "-seed", str(ctx.seed),
             "-sweep", str(sweep), "-realgen", str(realgen)])
    with open(summ) as f:
        s = json.load(f)
    viols, nlines = ctx.monitor("MonInit", trace)
    drift = {}
    for formula, line, scid in viols:
        if formula.startswith("Conf."):
            drift.setdefault(formula, []).append(scid)
            continue
        ctx.violation(formula, scid, ctx.replay_file(replay_scenario(by_id, scid)), "trace line %d" % line,
                      fingerprint=D7 if formula.startswith(D7 + ".") else formula)
    for k, v in drift.items():
        vlib.log("DRIFT: %s: the real code no longer follows spec/Init.tla in %d traces (e.g. %s); "
                 "the property formulas were still evaluated on every real trace" % (k, len(v), v[0]))
    if s["unmodelled_calls"] or s["faults_not_fired"]:
        vlib.log("DRIFT: calls unknown to the model: %s; model faults that never fired: %s" %
                 (s["unmodelled_calls"], s["faults_not_fired_at"]))
    s["conf_drift"] = {k: len(v) for k, v in drift.items()}
    return s, nlines


# ---- sanity mutants (anti-vacuity): realistic changes of the initializer, applied to scratch copies of /repo files
# under .work/C20/mut and compiled in with go build -overlay; /repo is never written. Each must be reported by the
# named formulas (the D7 repair must make the D7 finding disappear and nothing else appear).
I = "internal/initializer/"
MUTANTS = [
    ("regenerate-ca", I + "tls.go", [("\t\tif len(kd) != 0 && len(cd) != 0 {", "\t\tif false && len(kd) != 0 && len(cd) != 0 {")],
     {"KeepCA", "Idempotent.Rerun"}),
    ("regenerate-partial-server-cert", I + "tls.go",
     [("if len(sec.Data[corev1.TLSCertKey]) != 0 || len(sec.Data[corev1.TLSPrivateKeyKey]) != 0 || len(sec.Data[SecretKeyCACert]) != 0 {",
       "if len(sec.Data[corev1.TLSCertKey]) != 0 && len(sec.Data[corev1.TLSPrivateKeyKey]) != 0 && len(sec.Data[SecretKeyCACert]) != 0 {")],
     {"KeepCerts"}),
    ("server-cert-first-dns-name-only", I + "tls.go",
     [("\t\tDNSNames:              dnsNames,\n\t\tNotBefore:             time.Now(),\n\t\tNotAfter:              time.Now().AddDate(10, 0, 0),\n\t\tIsCA:                  false,\n\t\tKeyUsage:              x509.KeyUsageDigitalSignature | x509.KeyUsageKeyEncipherment | x509.KeyUsageDataEncipherment,\n\t\tExtKeyUsage:           []x509.ExtKeyUsage{x509.ExtKeyUsageServerAuth},",
       "\t\tDNSNames:              dnsNames[:1],\n\t\tNotBefore:             time.Now(),\n\t\tNotAfter:              time.Now().AddDate(10, 0, 0),\n\t\tIsCA:                  false,\n\t\tKeyUsage:              x509.KeyUsageDigitalSignature | x509.KeyUsageKeyEncipherment | x509.KeyUsageDataEncipherment,\n\t\tExtKeyUsage:           []x509.ExtKeyUsage{x509.ExtKeyUsageServerAuth},")],
     {"Chain.DNSNames"}),
    ("client-cert-signed-by-a-new-ca", I + "tls.go",
     [("\tkeyData, certData, err := e.certificate.Generate(cert, signer)\n\tif err != nil {\n\t\treturn errors.Wrap(err, errGenerateCertificate)\n\t}\n\n\tsec.Name = nn.Name\n\tsec.Namespace = nn.Namespace\n\tif e.owner != nil {\n\t\tsec.OwnerReferences = e.owner\n\t}\n\tif sec.Data == nil {\n\t\tsec.Data = make(map[string][]byte)\n\t}\n\tsec.Data[corev1.TLSCertKey] = certData\n\tsec.Data[corev1.TLSPrivateKeyKey] = keyData\n\tsec.Data[SecretKeyCACert] = signer.certificatePEM\n\n\tif create {\n\t\terr = kube.Create(ctx, sec)\n\t} else {\n\t\terr = kube.Update(ctx, sec)\n\t}\n\treturn errors.Wrapf(err, errFmtCannotCreateOrUpdate, nn.Name)\n}\n\nfunc (e *TLSCertificateGenerator) ensureServerCertificate(",
       "\tkeyData, certData, err := e.certificate.Generate(cert, nil)\n\tif err != nil {\n\t\treturn errors.Wrap(err, errGenerateCertificate)\n\t}\n\n\tsec.Name = nn.Name\n\tsec.Namespace = nn.Namespace\n\tif e.owner != nil {\n\t\tsec.OwnerReferences = e.owner\n\t}\n\tif sec.Data == nil {\n\t\tsec.Data = make(map[string][]byte)\n\t}\n\tsec.Data[corev1.TLSCertKey] = certData\n\tsec.Data[corev1.TLSPrivateKeyKey] = keyData\n\tsec.Data[SecretKeyCACert] = signer.certificatePEM\n\n\tif create {\n\t\terr = kube.Create(ctx, sec)\n\t} else {\n\t\terr = kube.Update(ctx, sec)\n\t}\n\treturn errors.Wrapf(err, errFmtCannotCreateOrUpdate, nn.Name)\n}\n\nfunc (e *TLSCertificateGenerator) ensureServerCertificate(")],
     {"Chain.Verifies"}),
    ("overwrite-storeconfig", I + "store_config.go",
     [("resource.Ignore(kerrors.IsAlreadyExists, kube.Create(ctx, sc))", "resource.NewAPIPatchingApplicator(kube).Apply(ctx, sc)"),
      ("const (\n\terrCreateDefaultStoreConfig", "var _ = kerrors.IsAlreadyExists\n\nconst (\n\terrCreateDefaultStoreConfig")],
     {"Untouched"}),
    ("lock-updated-instead-of-patched", I + "lock.go",
     [("resource.NewAPIPatchingApplicator(kube).Apply(ctx, l)", "resource.NewAPIUpdatingApplicator(kube).Apply(ctx, l)")],
     {"Untouched"}),
    ("mutating-webhook-without-bundle", I + "webhook_configurations.go",
     [("\t\tcase *admv1.MutatingWebhookConfiguration:\n\t\t\tfor i := range conf.Webhooks {\n\t\t\t\tconf.Webhooks[i].ClientConfig.CABundle = caBundle\n",
       "\t\tcase *admv1.MutatingWebhookConfiguration:\n\t\t\tfor i := range conf.Webhooks {\n")],
     {"Bundle.Webhook"}),
    ("crd-bundle-only-on-create", I + "crds.go",
     [("\t\t\tcrd.Spec.Conversion.Webhook.ClientConfig.CABundle = caBundle\n",
       "\t\t\tif kube.Get(ctx, types.NamespacedName{Name: crd.Name}, &extv1.CustomResourceDefinition{}) != nil {\n\t\t\t\tcrd.Spec.Conversion.Webhook.ClientConfig.CABundle = caBundle\n\t\t\t}\n")],
     {"Bundle.CRD"}),
    ("installer-ignores-installed-packages", I + "installer.go",
     [("\tif existing, ok := pkgMap[ref.Context().RepositoryStr()]; ok {\n\t\tobjName = existing\n\t}\n", "\t_ = pkgMap\n")],
     {"NoDupPkg.LandsOnExisting"}),
    ("installer-names-by-full-reference", I + "installer.go",
     [("\tobjName := xpkg.ToDNSLabel(ref.Context().RepositoryStr())", "\tobjName := xpkg.ToDNSLabel(ref.String())")],
     {"NoDupPkg.SameRepoTwice"}),
    # the repair of D7 (DESIGN.md appendix B): the finding must disappear because the behaviour changed
    ("FIX-d7-lookup-with-registry-host", I + "installer.go",
     [("pkgMap[ref.Context().RepositoryStr()]", "pkgMap[xpkg.ParsePackageSourceFromReference(ref)]")], set()),
]


def selftest(ctx, scs):
    """Runs every mutant through driver + monitor on the given scenarios; returns {mutant: {formula: count}}."""
    saved, ctx.violations = ctx.violations, []
    results = {}
    try:
        for name, path, edits, expect in MUTANTS:
            d = os.path.join(ctx.work, "mut", name)
            os.makedirs(d, exist_ok=True)
            with open(os.path.join("/repo", path)) as f:
                src = f.read()
            for old, new in edits:
                if src.count(old) != 1:
                    raise vlib.Inconclusive("mutant %s no longer applies to %s (%d matches)" % (name, path, src.count(old)))
                src = src.replace(old, new)
            mp = os.path.join(d, os.path.basename(path))
            with open(mp, "w") as f:
                f.write(src)
            ov = os.path.join(d, "overlay.json")
            with open(ov, "w") as f:
                json.dump({"Replace": {os.path.join("/repo", path): mp}}, f)
            os.environ["VERIF_C20_OVERLAY"] = ov
            ctx.violations = []
            try:
                s, _ = drive_and_judge(ctx, scs, sweep=2, realgen=0)
            finally:
                del os.environ["VERIF_C20_OVERLAY"]
            got = {}
            for v in ctx.violations:
                got[v["formula"]] = got.get(v["formula"], 0) + 1
            others = {k for k in got if not k.startswith(D7 + ".")}
            if expect:
                ok = expect <= others
            else:
                ok = not got
            results[name] = dict(expected=sorted(expect), reported=got, detected=ok, conf_drift=s["conf_drift"])
            vlib.log("  mutant %-40s %s  %s" % (name, "DETECTED" if ok and expect else ("CLEAN" if ok else "MISSED"), got))
    finally:
        ctx.violations = saved
    return results


def run(ctx):
    quick = ctx.quick
    # quick: one bounded model, 3000 of its scenarios; thorough: the full value sets with one fault (all scenarios)
    # and the quick value sets with two faults / four runs (a sample)
    plan = [("MCInit_quick.cfg", 3000)] if quick else [("MCInit_thorough.cfg", 10 ** 9), ("MCInit_faults2.cfg", 10 ** 9)]
    scs, states, trans, emitted, consts = [], 0, 0, 0, {}
    for i, (cfg, budget) in enumerate(plan):
        mc = ctx.model_check("MCInit", cfg, workers=8 if quick else 16, timeout=300 if quick else 3000, sub="mc%d" % i)
        got = ctx.sample_lines(mc["emitted_file"], budget, mc["emitted"])
        scs += [{"id": "%s-m%d-%07d" % (PID, i, n), "hist": h} for n, h in got]
        states += mc["states"]
        trans += mc["transitions"]
        emitted += mc["emitted"]
        consts[cfg] = dict(states=mc["states"], transitions=mc["transitions"], depth=mc["depth"], scenarios=mc["emitted"])
    # the model with the installer as it is coded today (lookup without the registry host) must show D7
    d7 = ctx.model_check("MCInit", "MCInit_d7.cfg", workers=4, timeout=300, expect_violations=("NoDupPkg",), sub="mcd7")
    consts["MCInit_d7.cfg"] = dict(states=d7["states"], violated=d7["violated"])
    chosen = regression() + scs
    s, nlines = drive_and_judge(ctx, chosen, sweep=6 if quick else 60, realgen=2 if quick else 40)
    ctx.cov.update(dict(
        states=states, transitions=trans, traces_validated_against_impl=s["traces"], samples=s["samples"][:2],
        model_runs=consts, scenarios_emitted=emitted, scenarios_replayed=s["scenarios"], initializer_runs=s["runs"],
        sweep_traces=s["sweep_runs"], realgen_scenarios=s["realgen_scenarios"], fast_generator_injected=s["fast_generator_injected"],
        events=nlines, per_action_counts=s["calls"], run_results=s["run_results"],
        formula_antecedent_hits=s["formula_antecedents"],
        drift=dict(unmodelled_calls=s["unmodelled_calls"], faults_not_fired=s["faults_not_fired_at"], conf=s["conf_drift"]),
        monitor_formulas=MON_FORMULAS, drift_formulas=DRIFT_FORMULAS, exhaustive=(emitted == len(scs)),
        checker_cmd="tlc MCInit (M,G) -> harness/drivers/init on /repo (T) -> tlc MonInit",
        rule="one scenario per model behaviour (initial contents x package reference form x fault position x outcome); "
             "a model 'fail' is realised as error / conflict / crash-before (rotating); sweep = every real call index of "
             "run 1 x {fail, crashAfter} + 2 fault-free reruns; a few scenarios run with the untouched RSA generator",
    ))
    if os.environ.get("VERIF_C20_SELFTEST"):
        st = selftest(ctx, regression() + ctx.sample(scs, 1500))
        ctx.cov["selftest_mutants"] = st
        missed = [k for k, v in st.items() if not v["detected"]]
        if missed:
            raise vlib.Inconclusive("selftest: mutants not detected: %s" % missed)
    ctx.assumptions += [
        "simapi models the API server rules listed in spec/KubeAPI.tla (merge patch, status subresource, AlreadyExists)",
        "RSA keys of generated certificates come from a pre-generated pool through the CertificateGenerator seam of "
        "TLSCertificateGenerator (a sample of scenarios uses the real generator); everything else is the unmodified code",
        "image repository = registry host + repository path as written; nothing is asserted across different hosts",
        "current CA bundle = tls.crt of the webhook TLS server secret (what crds.go / webhook_configurations.go inject)",
        "verdict only from traces of the real initializer judged by MonInit.tla",
    ]


def replay(ctx, path):
    with open(path) as f:
        sc = json.load(f)
    s, nlines = drive_and_judge(ctx, [sc])
    ctx.cov.update(dict(states=1, transitions=1, traces_validated_against_impl=s["traces"], samples=[sc], events=nlines,
                        run_results=s["run_results"]))
