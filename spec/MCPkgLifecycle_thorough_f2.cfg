SPECIFICATION Spec
CONSTANTS
  InitPkgs <- PkgRich
  InitRevs <- RevsThoroughMgr
  InitICs <- IcSome
  InitLock <- OnlyFalse
  ICs <- IcsQ
  Img <- ImgBothOk
  MaxMgr = 3
  MaxRev = 0
  MaxFaults = 2
  MaxEnv = 0
  MidEnv = TRUE
  EnvKinds <- NoEnv
  Edits <- NoEdits
  FaultKinds <- FaultsAll
  SeamOuts <- SeamsAll
  FinFirst = TRUE
  FixRemoval = TRUE
  ManualInactive = TRUE
VIEW view
ACTION_CONSTRAINT Emit
CHECK_DEADLOCK FALSE
INVARIANTS DesiredStateDefined StepProps LockBeforeFin RepairedRev RepairedMgr HealthyTruth
