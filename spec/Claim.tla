------------------------------- MODULE Claim -------------------------------
(***************************************************************************)
(* The claim reconciler (internal/controller/apiextensions/claim/          *)
(* reconciler.go Reconcile) with the client-side syncer (syncer_csa.go) or *)
(* the server-side-apply syncer and the patching managed-fields upgrader   *)
(* (syncer_ssa.go), the API connection propagator (connection.go) and the  *)
(* name generator (internal/names/generate.go) as implemented at the       *)
(* pinned commit: ONE ACTION PER API CALL, in the order the code makes     *)
(* them.  The reconciler's local copy of the claim (possibly read from a   *)
(* stale cache: any version the claim ever had, also after it is gone),    *)
(* the resourceVersion that copy carries, and the XR it read are explicit  *)
(* variables.  The environment (user deletes the claim / the XR, the XR    *)
(* controller reconciles or finalises the XR, an XR bound to ANOTHER claim *)
(* pre-exists under the name the claim references or under a name the      *)
(* generator proposes, faults and crashes at every call) is unconstrained  *)
(* within the bounds.                                                      *)
(*                                                                         *)
(* Property C06.  Interpretation notes:                                    *)
(*  - OneXR counts XRs whose spec.claimRef names THIS claim.               *)
(*  - RefFirst: whenever this claim's reconcile creates an XR, or binds an *)
(*    existing one (claimRef becomes this claim), the last durable state   *)
(*    of the claim names that XR in spec.resourceRef.  "Last durable       *)
(*    state" = the stored claim, or, if the claim is gone and a stale      *)
(*    cached copy is being reconciled, the version it had when it was      *)
(*    removed (the reference WAS recorded before; the property text speaks *)
(*    of the order record-then-create).                                    *)
(*  - NoHijack: an XR whose claimRef names a different claim is never      *)
(*    changed or deleted by a step of this claim's reconcile.              *)
(*  - XR reads are fresh (DESIGN 3 C06: the quantifier speaks of stale     *)
(*    claim reads); generated names never collide with each other, and     *)
(*    collide with the pre-existing XR at most MaxCollide times.           *)
(*  - two different claims racing for one unbound XR: out of scope.        *)
(***************************************************************************)
EXTENDS Integers, Sequences, FiniteSets, TLC

CONSTANTS
  Syncer,      \* "CSA" (client-side syncer, the default) | "SSA" (server-side apply + managed fields upgrader)
  RvCheck,     \* TRUE: the API server rejects an Update carrying an old resourceVersion (FALSE: vacuity witness)
  GenNames,    \* the names the generator hands out, in order of first appearance: <<"x1","x2",...>>
  Starts,      \* initial configurations <<pre, ref0>>: pre = placement of the pre-existing XR "p" in
               \* {"absent","other","unbound","mine"} (bound to ANOTHER claim / to no claim / to this claim by an earlier
               \* client-side controller), ref0 = what the claim's author put into spec.resourceRef in {"none","p"}
  Fgs,         \* compositeDeletePolicy of the claim: subset of {"fg","bg"} (Foreground / Background)
  FailKinds,   \* how a "fail" is realised: subset of {"error","crashBefore"}
  Conn,        \* the claim and the XR publish connection secrets
  MaxVers,     \* bound on stored claim versions
  MaxEnv, MaxFaults, MaxRecs, MaxStale, MaxCollide,
  MidEnv,      \* TRUE: the environment may also act between two calls of a reconcile
  Rebinds      \* TRUE: an administrator may move the bound XR to another claim

None == "none"
Range(s) == {s[i] : i \in 1..Len(s)}
Names == {"p"} \cup Range(GenNames)

VARIABLES
  vers,     \* every version the stored claim ever had: [ref, fin, del, has, sy, rd, pub]; the last one is current
            \* (has: a status object is present; sy / rd: its Synced / Ready conditions; pub: connection details published)
  gone,     \* the claim has been removed from the store
  xrs,      \* name -> XR
  csec,     \* the claim's connection secret exists
  pc,       \* the next API call of the reconcile in flight ("idle": none)
  cm,       \* the reconciler's in-memory claim
  cmv,      \* the version whose resourceVersion cm carries
  seen,     \* the XR as the reconciler last observed it
  name,     \* the name of the XR the reconcile operates on
  xstale,   \* the environment changed that XR after the reconciler read it
  probes,   \* names the generator tried so far in this reconcile
  gen,      \* fresh names handed out so far
  envs, faults, recs, stales, collided,
  fg, fk,   \* the claim's delete policy and the fail kind of this behaviour; both are fixed for a behaviour but
            \* chosen lazily ("none" until the user deletes the claim / the first fault) to keep the state space small
  hist      \* ghost: the behaviour so far as scenario steps (hidden by VIEW)

vars == <<vers, gone, xrs, csec, pc, cm, cmv, seen, name, xstale, probes, gen, envs, faults, recs, stales, collided, fg, fk, hist>>
view == <<vers, gone, xrs, csec, pc, cm, cmv, seen, name, xstale, probes, gen, envs, faults, recs, stales, collided, fg, fk>>

(* XR: ex exists; cref claimRef in {this, other, none}; del deletionTimestamp; fin the XR controller's finalizer; *)
(* fgf the foregroundDeletion finalizer; ready = the XR controller wrote a status with Ready=True;             *)
(* mf managed fields as the upgrader sees them: legacy (no SSA manager) -> empty (cleared) -> both (SSA +      *)
(* before-first-apply) -> ssa; "na" under the client-side syncer; conn = has a connection secret reference.    *)
NoXR == [ex |-> FALSE, cref |-> None, del |-> FALSE, fin |-> FALSE, fgf |-> FALSE, ready |-> FALSE, mf |-> "na", conn |-> FALSE]
ZeroCm == [ref |-> None, fin |-> FALSE, del |-> FALSE, has |-> FALSE, sy |-> None, rd |-> None, pub |-> 0]
Cur == vers[Len(vers)]

HV(k, o, f, v, g) == [t |-> "call", k |-> k, o |-> o, f |-> f, v |-> v, g |-> g, fk |-> ""]
H(k, o, f) == HV(k, o, f, 0, 0)
E(k, o) == [t |-> "env", k |-> k, o |-> o, f |-> "", v |-> 0, g |-> 0, fk |-> ""]
Log(e) == hist' = Append(hist, e)

\* pre = "otherdel": the other claim's XR is being deleted and still held by its controller's finalizer (its composed
\* resources are being torn down): its name is NOT free (added after the seeded change C06-m5 - a name generator that takes
\* the name of a terminating object for available - was missed)
PreOther(pre) == pre \in {"other", "otherdel"}
PreXR(pre) == [NoXR EXCEPT !.ex = TRUE,
                           !.cref = (IF PreOther(pre) THEN "other" ELSE IF pre = "mine" THEN "this" ELSE None),
                           !.del = (pre = "otherdel"), !.fin = (pre = "otherdel"),
                           !.mf = (IF Syncer = "SSA" THEN (IF PreOther(pre) THEN "ssa" ELSE "legacy") ELSE "na")]

Init ==
  \E st \in Starts : LET pre == st[1] r0 == st[2] IN
    /\ (pre = "mine" => r0 = "p")
    /\ vers = << [ZeroCm EXCEPT !.ref = r0, !.fin = (pre = "mine")] >>
    /\ gone = FALSE
    /\ xrs = [x \in Names |-> IF x = "p" /\ pre # "absent" THEN PreXR(pre) ELSE NoXR]
    /\ csec = FALSE
    /\ pc = "idle" /\ cm = ZeroCm /\ cmv = 0 /\ seen = NoXR /\ name = None /\ xstale = FALSE /\ probes = 0
    /\ gen = 0 /\ envs = 0 /\ faults = 0 /\ recs = 0 /\ stales = 0 /\ collided = 0
    /\ fg = None /\ fk = None
    /\ hist = << [t |-> "init", syncer |-> Syncer, pre |-> pre, ref0 |-> r0, conn |-> Conn] >>

----------------------------------------------------------------------------
(* The API server's treatment of writes to the claim.                      *)

WRes(res, vs, g, c, v) == [res |-> res, vers |-> vs, gone |-> g, cm |-> c, cmv |-> v]
\* Update of the main resource with the in-memory object c: metadata and spec are written, status is not.
\* The reply replaces the in-memory object (unless the claim disappeared with its last finalizer).
WriteMain(c) ==
  LET new == [Cur EXCEPT !.ref = c.ref, !.fin = c.fin] IN
  IF gone THEN WRes("notfound", vers, gone, c, cmv)
  ELSE IF RvCheck /\ cmv # Len(vers) THEN WRes("conflict", vers, gone, c, cmv)
  ELSE IF new = Cur THEN WRes("ok", vers, FALSE, Cur, Len(vers))          \* no-op: resourceVersion unchanged
  ELSE IF new.del /\ ~new.fin THEN WRes("ok", vers, TRUE, c, cmv)         \* last finalizer removed: the claim is gone
  ELSE WRes("ok", Append(vers, new), FALSE, new, Len(vers) + 1)
\* Update of the status subresource.
WriteStatus(c) ==
  LET new == [Cur EXCEPT !.has = (c.has \/ c.sy # None \/ c.rd # None), !.sy = c.sy, !.rd = c.rd, !.pub = c.pub] IN
  IF gone THEN WRes("notfound", vers, gone, c, cmv)
  ELSE IF RvCheck /\ cmv # Len(vers) THEN WRes("conflict", vers, gone, c, cmv)
  ELSE IF new = Cur THEN WRes("ok", vers, FALSE, Cur, Len(vers))
  ELSE WRes("ok", Append(vers, new), FALSE, new, Len(vers) + 1)

----------------------------------------------------------------------------
(* Where the reconcile goes next (the code between two API calls).         *)

Go(p, c) == [pc |-> p, cm |-> c]
GoSync(c) == Go(IF c.ref = None THEN "gen" ELSE IF Syncer = "SSA" THEN "updclaim" ELSE "applyget", c)
GoAddFin(c) == IF ~c.fin THEN Go("addfin", c) ELSE GoSync(c)
GoRemFin(c) == IF c.fin THEN Go("remfin", c) ELSE Go("endstatus", [c EXCEPT !.sy = "ok"])
GoDel(c, sn) == LET d == [c EXCEPT !.rd = "deleting"] IN
                IF sn.ex THEN (IF sn.del /\ fg = "fg" THEN Go("endstatus", d) ELSE Go("delxr", d)) ELSE GoRemFin(d)
GoBranch(c, sn) == IF c.del THEN GoDel(c, sn) ELSE GoAddFin(c)
GoUpgrade(c, sn) == IF Syncer = "SSA" /\ sn.ex /\ sn.mf \in {"legacy", "empty", "both"} THEN Go("upgrade", c) ELSE GoBranch(c, sn)
\* errFmtUnbound: the referenced XR is bound to a different claim: only the claim's status is written
GoCheck(c, sn) == IF sn.ex /\ sn.cref = "other" THEN Go("endstatus", [c EXCEPT !.sy = "unbound"]) ELSE GoUpgrade(c, sn)
AfterRead(c) == IF c.ref # None THEN Go("getxr", c) ELSE GoCheck(c, NoXR)
AfterSync(c, sn) ==
  LET c1 == [c EXCEPT !.sy = "ok"] IN
  IF ~sn.ready THEN Go("endstatus", [c1 EXCEPT !.rd = "waiting"])
  ELSE IF Conn /\ sn.conn THEN Go("getxsec", c1)
  ELSE Go("endstatus", [c1 EXCEPT !.rd = "avail"])

Local(p, c, v, sn, nm, xs, pr) == pc' = p /\ cm' = c /\ cmv' = v /\ seen' = sn /\ name' = nm /\ xstale' = xs /\ probes' = pr
Goto(r, v, sn, nm, xs) == Local(r.pc, r.cm, v, sn, nm, xs, 0) /\ UNCHANGED recs
End == Local("idle", ZeroCm, 0, NoXR, None, FALSE, 0) /\ recs' = recs + 1

CanFault == faults < MaxFaults
Ok(k, o) == Log(H(k, o, "ok")) /\ UNCHANGED <<faults, fk>>
\* every "fail" of a behaviour is realised the same way (fk), chosen at the first one
FailV(k, o, v, g) == /\ CanFault /\ faults' = faults + 1
                     /\ \E kind \in FailKinds : (fk = None \/ fk = kind) /\ fk' = kind /\ Log([HV(k, o, "fail", v, g) EXCEPT !.fk = kind])
Fail(k, o) == FailV(k, o, 0, 0)
Crash(k, o) == CanFault /\ faults' = faults + 1 /\ Log(H(k, o, "crashAfter")) /\ UNCHANGED fk
\* an error reply: the code records it in the claim's Synced condition and ends; a crash just ends
ErrTo(code) == Local("endstatus", [cm EXCEPT !.sy = code], cmv, seen, name, xstale, 0) /\ UNCHANGED recs
ErrOrEnd(code) == IF fk' = "error" THEN ErrTo(code) ELSE End
\* The codes stand for the message recorded in the Synced condition: two errors with the same code make the second
\* status update a no-op (no new resourceVersion).  Naturally caused errors carry another text than injected ones.

----------------------------------------------------------------------------
(* Environment.                                                            *)

EnvOk == (MidEnv \/ pc = "idle") /\ envs < MaxEnv
EnvUnch(x) == /\ envs' = envs + 1
              /\ xstale' = (xstale \/ (pc # "idle" /\ x # None /\ x = name))
              /\ UNCHANGED <<csec, pc, cm, cmv, seen, name, probes, gen, faults, recs, stales, collided, fk>>
\* the XRs the environment plays with: the one bound to this claim, or the one its author referenced
Relevant(x) == xrs[x].ex /\ (xrs[x].cref = "this" \/ (xrs[x].cref = None /\ vers[1].ref = x))

UserDeleteClaim ==
  /\ EnvOk /\ ~gone /\ ~Cur.del
  /\ (IF Cur.fin THEN vers' = Append(vers, [Cur EXCEPT !.del = TRUE]) /\ UNCHANGED gone
      ELSE gone' = TRUE /\ UNCHANGED vers)
  /\ \E policy \in Fgs : fg' = policy /\ Log(E("delclaim", policy))
  /\ UNCHANGED xrs /\ EnvUnch(None)
\* the XR controller reconciles the XR: finalizer, Ready status, connection secret
XrCtl(x) ==
  /\ EnvOk /\ Relevant(x) /\ ~xrs[x].del
  /\ LET n == [xrs[x] EXCEPT !.fin = TRUE, !.ready = TRUE, !.conn = Conn] IN
     n # xrs[x] /\ xrs' = [xrs EXCEPT ![x] = n]
  /\ Log(E("xrctl", x)) /\ UNCHANGED <<vers, gone, fg>> /\ EnvUnch(x)
\* the XR controller (and the garbage collector) finalise a deleted XR
XrFinalize(x) ==
  /\ EnvOk /\ Relevant(x) /\ xrs[x].del
  /\ xrs' = [xrs EXCEPT ![x] = NoXR]
  /\ Log(E("xrfinalize", x)) /\ UNCHANGED <<vers, gone, fg>> /\ EnvUnch(x)
UserDeleteXR(x) ==
  /\ EnvOk /\ Relevant(x) /\ ~xrs[x].del
  /\ xrs' = [xrs EXCEPT ![x] = IF @.fin \/ @.fgf THEN [@ EXCEPT !.del = TRUE] ELSE NoXR]
  /\ Log(E("delxr", x)) /\ UNCHANGED <<vers, gone, fg>> /\ EnvUnch(x)

\* an administrator moves the XR to another claim (re-points its claimRef): from now on it is that claim's XR
Rebind(x) ==
  \* (only between two reconciles of the claim: a re-pointing that lands between a reconcile's read of the XR and its
  \* unconditional Delete / forced apply cannot be noticed by any claim controller and is outside C06's quantifier)
  /\ Rebinds /\ EnvOk /\ pc = "idle" /\ xrs[x].ex /\ xrs[x].cref = "this" /\ ~xrs[x].del
  /\ xrs' = [xrs EXCEPT ![x].cref = "other"]
  /\ Log(E("rebind", x)) /\ UNCHANGED <<vers, gone, fg>> /\ EnvUnch(x)

Env == UserDeleteClaim \/ \E x \in Names : XrCtl(x) \/ XrFinalize(x) \/ UserDeleteXR(x) \/ Rebind(x)

----------------------------------------------------------------------------
(* The reconcile.  Outcomes of a call: "ok" (whatever the server answers), *)
(* "fail" (no effect; an error reply or a crash before, as fk says),       *)
(* "crashAfter" (effect, the reconcile ends).                              *)

ClaimUnch == UNCHANGED <<vers, gone>>
RestUnch == UNCHANGED <<envs, stales, fg>>

\* 1. r.client.Get(claim): served by a cache that may lag by any number of writes
GetClaim ==
  /\ pc = "idle" /\ recs < MaxRecs
  /\ \/ /\ Log(H("get", "claim", "ok")) /\ UNCHANGED <<faults, stales, fk>>
        /\ (IF gone THEN End ELSE Goto(AfterRead(Cur), Len(vers), NoXR, Cur.ref, FALSE))
     \/ /\ stales < MaxStale /\ stales' = stales + 1 /\ UNCHANGED <<faults, fk>>
        /\ \E v \in 1..Len(vers) :
             /\ (v < Len(vers) \/ gone)
             /\ Log(HV("get", "claim", "ok", v, 0))
             /\ Goto(AfterRead(vers[v]), v, NoXR, vers[v].ref, FALSE)
     \/ /\ Fail("get", "claim") /\ End /\ UNCHANGED stales
  /\ ClaimUnch /\ UNCHANGED <<xrs, csec, gen, collided, envs, fg>>

\* 2. r.client.Get(xr) if the claim references one (a fresh read)
GetXR ==
  /\ pc = "getxr"
  /\ \/ /\ Ok("get", name) /\ Goto(GoCheck(cm, xrs[name]), cmv, xrs[name], name, FALSE)
     \/ /\ Fail("get", name) /\ ErrOrEnd("e:getxr")
  /\ ClaimUnch /\ UNCHANGED <<xrs, csec, gen, collided>> /\ RestUnch

\* 3. PatchingManagedFieldsUpgrader.Upgrade: a JSON patch carrying the XR's resourceVersion
UpgradedXR(x) == [x EXCEPT !.mf = IF @ = "both" THEN "ssa" ELSE "empty"]
Upgrade ==
  /\ pc = "upgrade"
  /\ \/ /\ Ok("patch-json", name)
        /\ (IF ~xrs[name].ex THEN UNCHANGED xrs /\ Goto(GoBranch(cm, seen), cmv, seen, name, xstale)   \* NotFound is ignored
            ELSE IF xstale THEN UNCHANGED xrs /\ End                                                  \* conflict: requeue
            ELSE /\ xrs' = [xrs EXCEPT ![name] = UpgradedXR(@)]
                 /\ Goto(GoBranch(cm, UpgradedXR(seen)), cmv, UpgradedXR(seen), name, FALSE))
     \/ /\ Fail("patch-json", name) /\ UNCHANGED xrs /\ ErrOrEnd(IF seen.mf = "both" THEN "e:upgrade-bfa" ELSE "e:upgrade-clear")
     \/ /\ Crash("patch-json", name) /\ End
        /\ xrs' = (IF xrs[name].ex /\ ~xstale THEN [xrs EXCEPT ![name] = UpgradedXR(@)] ELSE xrs)
  /\ ClaimUnch /\ UNCHANGED <<csec, gen, collided>> /\ RestUnch

\* 4. deletion branch: r.client.Delete(xr) without preconditions, foreground if the claim says so
DeletedXR(x) == IF ~x.ex THEN x
                ELSE IF x.fin \/ x.fgf \/ fg = "fg" THEN [x EXCEPT !.del = TRUE, !.fgf = (@ \/ fg = "fg")] ELSE NoXR
DelXR ==
  /\ pc = "delxr"
  /\ \/ /\ Ok("delete", name) /\ xrs' = [xrs EXCEPT ![name] = DeletedXR(@)]
        /\ (IF fg = "fg" THEN End ELSE Goto(GoRemFin(cm), cmv, seen, name, xstale))
     \/ /\ Fail("delete", name) /\ UNCHANGED xrs /\ ErrOrEnd("e:delxr")
     \/ /\ Crash("delete", name) /\ xrs' = [xrs EXCEPT ![name] = DeletedXR(@)] /\ End
  /\ ClaimUnch /\ UNCHANGED <<csec, gen, collided>> /\ RestUnch

\* 5. RemoveFinalizer: Update(claim); NotFound is ignored, a conflict is an error here
RemFin ==
  /\ pc = "remfin"
  /\ LET w == WriteMain([cm EXCEPT !.fin = FALSE]) IN
     \/ /\ Ok("update", "claim") /\ vers' = w.vers /\ gone' = w.gone
        /\ (IF w.res = "conflict" THEN ErrTo("e:remfin-conflict")
            ELSE Goto(Go("endstatus", [w.cm EXCEPT !.sy = "ok"]), w.cmv, seen, name, xstale))
     \/ /\ Fail("update", "claim") /\ ClaimUnch /\ ErrOrEnd("e:remfin")
     \/ /\ Crash("update", "claim") /\ vers' = w.vers /\ gone' = w.gone /\ End
  /\ UNCHANGED <<xrs, csec, gen, collided>> /\ RestUnch

\* 6. AddFinalizer: Update(claim), resourceVersion-checked
AddFin ==
  /\ pc = "addfin"
  /\ LET w == WriteMain([cm EXCEPT !.fin = TRUE]) IN
     \/ /\ Ok("update", "claim") /\ vers' = w.vers /\ gone' = w.gone
        /\ (IF w.res = "conflict" THEN End
            ELSE IF w.res = "notfound" THEN ErrTo("e:addfin-notfound")
            ELSE Goto(GoSync(w.cm), w.cmv, seen, name, xstale))
     \/ /\ Fail("update", "claim") /\ ClaimUnch /\ ErrOrEnd("e:addfin")
     \/ /\ Crash("update", "claim") /\ vers' = w.vers /\ gone' = w.gone /\ End
  /\ UNCHANGED <<xrs, csec, gen, collided>> /\ RestUnch

\* 7. names.GenerateName: one Get per candidate name
Gen ==
  /\ pc = "gen"
  /\ \/ /\ gen < Len(GenNames) /\ gen' = gen + 1 /\ UNCHANGED collided
        /\ LET x == GenNames[gen + 1] IN
           \/ /\ Log(HV("get", x, "ok", 0, probes + 1)) /\ UNCHANGED <<faults, fk>>
              /\ Local("updclaim", [cm EXCEPT !.ref = x], cmv, seen, x, FALSE, 0) /\ UNCHANGED recs
           \/ /\ FailV("get", x, 0, probes + 1) /\ ErrOrEnd("e:gen")
     \/ /\ collided < MaxCollide /\ xrs["p"].ex /\ collided' = collided + 1
        /\ Log(HV("get", "p", "ok", 0, probes + 1)) /\ UNCHANGED <<faults, fk, gen, recs>>
        /\ Local("gen", cm, cmv, seen, name, xstale, probes + 1)
  /\ ClaimUnch /\ UNCHANGED <<xrs, csec>> /\ RestUnch

\* 8. Update(claim) recording spec.resourceRef, resourceVersion-checked, BEFORE the XR is applied
\*    (SSA: always; CSA: only if the reference changes, i.e. after name generation)
UpdClaim ==
  /\ pc = "updclaim"
  /\ LET w == WriteMain([cm EXCEPT !.ref = name]) IN
     \/ /\ Ok("update", "claim") /\ vers' = w.vers /\ gone' = w.gone
        /\ (IF w.res = "conflict" THEN End
            ELSE IF w.res = "notfound" THEN ErrTo("e:updclaim-notfound")
            ELSE Goto(Go(IF Syncer = "SSA" THEN "applyxr" ELSE "applyget", w.cm), w.cmv, seen, name, xstale))
     \/ /\ Fail("update", "claim") /\ ClaimUnch /\ ErrOrEnd("e:updclaim")
     \/ /\ Crash("update", "claim") /\ vers' = w.vers /\ gone' = w.gone /\ End
  /\ UNCHANGED <<xrs, csec, gen, collided>> /\ RestUnch

\* 9-SSA. Patch(xr, Apply, ForceOwnership): creates or overwrites, no precondition
AppliedXR(x) == IF x.ex THEN [x EXCEPT !.cref = "this", !.mf = (IF @ = "empty" THEN "both" ELSE IF @ = "legacy" THEN "ssa" ELSE @)]
                ELSE [NoXR EXCEPT !.ex = TRUE, !.cref = "this", !.mf = "ssa"]
ApplyXR ==
  /\ pc = "applyxr"
  /\ \/ /\ Ok("patch-apply", name) /\ xrs' = [xrs EXCEPT ![name] = AppliedXR(@)]
        /\ LET sn == AppliedXR(xrs[name]) IN
           (IF sn.ready THEN Goto(Go("syncstatus", cm), cmv, sn, name, FALSE)
            ELSE Goto(AfterSync(cm, sn), cmv, sn, name, FALSE))
     \/ /\ Fail("patch-apply", name) /\ UNCHANGED xrs /\ ErrOrEnd("e:apply")
     \/ /\ Crash("patch-apply", name) /\ xrs' = [xrs EXCEPT ![name] = AppliedXR(@)] /\ End
  /\ ClaimUnch /\ UNCHANGED <<csec, gen, collided>> /\ RestUnch

\* 9-CSA. APIPatchingApplicator.Apply: Get, then Create, or a merge patch carrying the resourceVersion read in step 2
NeedsPatch(cur) == xstale \/ ~seen.ex \/ cur.cref # "this" \/ cur.conn
ApplyGet ==
  /\ pc = "applyget"
  /\ \/ /\ Ok("get", name)
        /\ LET cur == xrs[name] IN
           (IF ~cur.ex THEN Goto(Go("create", cm), cmv, seen, name, xstale)
            ELSE IF NeedsPatch(cur) THEN Goto(Go("patchmerge", cm), cmv, seen, name, xstale)
            ELSE Goto(Go("syncstatus", cm), cmv, cur, name, FALSE))
     \/ /\ Fail("get", name) /\ ErrOrEnd("e:applyget")
  /\ ClaimUnch /\ UNCHANGED <<xrs, csec, gen, collided>> /\ RestUnch
CreatedXR == [NoXR EXCEPT !.ex = TRUE, !.cref = "this"]
CanCreate == ~xrs[name].ex /\ ~seen.ex     \* AlreadyExists; a resourceVersion on a create is refused
Create ==
  /\ pc = "create"
  /\ \/ /\ Ok("create", name)
        /\ (IF CanCreate THEN xrs' = [xrs EXCEPT ![name] = CreatedXR] /\ Goto(Go("syncstatus", cm), cmv, CreatedXR, name, FALSE)
            ELSE UNCHANGED xrs /\ ErrTo("e:create-refused"))
     \/ /\ Fail("create", name) /\ UNCHANGED xrs /\ ErrOrEnd("e:create")
     \/ /\ Crash("create", name) /\ xrs' = (IF CanCreate THEN [xrs EXCEPT ![name] = CreatedXR] ELSE xrs) /\ End
  /\ ClaimUnch /\ UNCHANGED <<csec, gen, collided>> /\ RestUnch
MergedXR(x) == [x EXCEPT !.cref = "this"]
PatchMerge ==
  /\ pc = "patchmerge"
  /\ \/ /\ Ok("patch-merge", name)
        /\ (IF ~xrs[name].ex THEN UNCHANGED xrs /\ ErrTo("e:patch-notfound")
            ELSE IF seen.ex /\ xstale THEN UNCHANGED xrs /\ End
            ELSE xrs' = [xrs EXCEPT ![name] = MergedXR(@)] /\ Goto(Go("syncstatus", cm), cmv, MergedXR(xrs[name]), name, FALSE))
     \/ /\ Fail("patch-merge", name) /\ UNCHANGED xrs /\ ErrOrEnd("e:patch")
     \/ /\ Crash("patch-merge", name) /\ End
        /\ xrs' = (IF xrs[name].ex /\ ~(seen.ex /\ xstale) THEN [xrs EXCEPT ![name] = MergedXR(@)] ELSE xrs)
  /\ ClaimUnch /\ UNCHANGED <<csec, gen, collided>> /\ RestUnch

\* 10. the syncer's Status().Update(claim) (SSA: only if the XR has a status; CSA: always, followed by Update(claim))
SyncStatus ==
  /\ pc = "syncstatus"
  /\ LET w == WriteStatus(IF Syncer = "SSA" THEN [cm EXCEPT !.has = TRUE] ELSE cm) IN   \* SSA rebuilds the status object from the XR's
     \/ /\ Ok("update-status", "claim") /\ vers' = w.vers
        /\ (IF w.res = "conflict" THEN End
            ELSE IF w.res = "notfound" THEN ErrTo("e:syncstatus-notfound")
            ELSE IF Syncer = "CSA" THEN Goto(Go("updclaim2", w.cm), w.cmv, seen, name, xstale)
            ELSE Goto(AfterSync(w.cm, seen), w.cmv, seen, name, xstale))
     \/ /\ Fail("update-status", "claim") /\ UNCHANGED vers /\ ErrOrEnd("e:syncstatus")
     \/ /\ Crash("update-status", "claim") /\ vers' = w.vers /\ End
  /\ UNCHANGED <<gone, xrs, csec, gen, collided>> /\ RestUnch
UpdClaim2 ==
  /\ pc = "updclaim2"
  /\ LET w == WriteMain(cm) IN
     \/ /\ Ok("update", "claim") /\ vers' = w.vers /\ gone' = w.gone
        /\ (IF w.res = "conflict" THEN End
            ELSE IF w.res = "notfound" THEN ErrTo("e:updclaim-notfound")
            ELSE Goto(AfterSync(w.cm, seen), w.cmv, seen, name, xstale))
     \/ /\ Fail("update", "claim") /\ ClaimUnch /\ ErrOrEnd("e:updclaim")     \* the same message as in step 8
     \/ /\ Crash("update", "claim") /\ vers' = w.vers /\ gone' = w.gone /\ End
  /\ UNCHANGED <<xrs, csec, gen, collided>> /\ RestUnch

\* 11. APIConnectionPropagator: Get(XR secret), Get(claim secret), Create(claim secret)
GetXSec ==
  /\ pc = "getxsec"
  /\ \/ /\ Ok("get", "xsec") /\ Goto(Go("getcsec", cm), cmv, seen, name, xstale)
     \/ /\ Fail("get", "xsec") /\ ErrOrEnd("e:getxsec")
  /\ ClaimUnch /\ UNCHANGED <<xrs, csec, gen, collided>> /\ RestUnch
GetCSec ==
  /\ pc = "getcsec"
  /\ \/ /\ Ok("get", "csec")
        /\ (IF csec THEN Goto(Go("endstatus", [cm EXCEPT !.rd = "avail"]), cmv, seen, name, xstale)
            ELSE Goto(Go("createcsec", cm), cmv, seen, name, xstale))
     \/ /\ Fail("get", "csec") /\ ErrOrEnd("e:getcsec")
  /\ ClaimUnch /\ UNCHANGED <<xrs, csec, gen, collided>> /\ RestUnch
CreateCSec ==
  /\ pc = "createcsec"
  /\ \/ /\ Ok("create", "csec") /\ csec' = TRUE
        /\ Goto(Go("endstatus", [cm EXCEPT !.rd = "avail", !.pub = 1]), cmv, seen, name, xstale)
     \/ /\ Fail("create", "csec") /\ UNCHANGED csec /\ ErrOrEnd("e:createcsec")
     \/ /\ Crash("create", "csec") /\ csec' = TRUE /\ End
  /\ ClaimUnch /\ UNCHANGED <<xrs, gen, collided>> /\ RestUnch

\* 12. the reconciler's final Status().Update(claim): success, Waiting / Available, an error, errFmtUnbound, Deleting
EndStatus ==
  /\ pc = "endstatus"
  /\ \/ /\ Ok("update-status", "claim") /\ vers' = WriteStatus(cm).vers /\ End
     \/ /\ Fail("update-status", "claim") /\ UNCHANGED vers /\ End
     \/ /\ Crash("update-status", "claim") /\ vers' = WriteStatus(cm).vers /\ End
  /\ UNCHANGED <<gone, xrs, csec, gen, collided>> /\ RestUnch

Rec == GetClaim \/ GetXR \/ Upgrade \/ DelXR \/ RemFin \/ AddFin \/ Gen \/ UpdClaim \/ ApplyXR \/ ApplyGet \/ Create
       \/ PatchMerge \/ SyncStatus \/ UpdClaim2 \/ GetXSec \/ GetCSec \/ CreateCSec \/ EndStatus

Next == Env \/ Rec
Spec == Init /\ [][Next]_vars

Bounded == Len(vers) <= MaxVers

----------------------------------------------------------------------------
(* C06 *)
Mine == {x \in Names : xrs[x].ex /\ xrs[x].cref = "this"}
OneXR == Cardinality(Mine) <= 1
\* an XR becomes this claim's (created, or bound) only while the claim's last durable state names it
RefFirst == [][\A x \in Names : (x \in Mine' /\ x \notin Mine) => Cur.ref = x]_vars
\* an XR bound to another claim is never changed or deleted
NoHijack == [][\A x \in Names : (xrs[x].ex /\ xrs[x].cref = "other") => xrs'[x] = xrs[x]]_vars
TypeOK == /\ pc \in {"idle", "getxr", "upgrade", "delxr", "remfin", "addfin", "gen", "updclaim", "applyxr", "applyget", "create",
                     "patchmerge", "syncstatus", "updclaim2", "getxsec", "getcsec", "createcsec", "endstatus"}
          /\ cmv \in 0..Len(vers)
          /\ \A x \in Names : ~xrs[x].ex => xrs[x] = NoXR
=============================================================================
