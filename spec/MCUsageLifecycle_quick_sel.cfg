SPECIFICATION Spec
CONSTANTS
  USeq <- S1
  Useds <- U2
  Configs <- CfgSel
  InitSel <- SelAll
  InitCtl <- CtlU2
  Policies <- Pol1
  DryRuns <- OnlyFalse
  HookFaults <- HookOk
  EnvKinds <- EnvSel
  FaultKinds <- FaultsAll
  MaxCreates = 1
  MaxRecs = 3
  MaxFaults = 1
  MaxEnv = 2
  MaxDel = 0
  MidEnv = TRUE
  BFin = FALSE
  FinFirst = TRUE
  DryRunAware = TRUE
  PanicFree = TRUE
VIEW view
ACTION_CONSTRAINT Emit
CHECK_DEADLOCK FALSE
INVARIANTS TypeOK StepProps FinBeforeLabel FinResolved OwnOnlyBy PendSane Repaired
