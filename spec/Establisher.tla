---------------------------- MODULE Establisher ----------------------------
(***************************************************************************)
(* How a package revision takes over ("establishes") and gives up          *)
(* ("releases") the objects of its package, as implemented at the pinned   *)
(* commit by                                                               *)
(*   internal/controller/pkg/revision/establisher.go                       *)
(*       APIEstablisher.Establish = validate (dry-run) phase + establish   *)
(*       phase, APIEstablisher.ReleaseObjects, create / update helpers,    *)
(*       GetPackageOwnerReference                                          *)
(*   internal/controller/pkg/revision/reconciler.go                        *)
(*       the activate / deactivate path of Reconcile: an inactive revision *)
(*       releases the objects recorded in status.objectRefs and is done if *)
(*       it has any; otherwise (and for an active revision) it establishes *)
(*       with control = (desiredState = Active) and records the refs.      *)
(*                                                                         *)
(* One action per API call (MaxConcurrentPackageEstablishers = 1: the      *)
(* errgroup runs the per-object closures one after the other in package    *)
(* order), each with the outcomes ok / fail / crashAfter.  The environment *)
(* (the package manager switching revisions between active and inactive:   *)
(* upgrade and rollback, revisions reconciled in any order) acts between   *)
(* reconciles.  Package P has revisions R1, R2; Q is a foreign controller. *)
(* Orderings of the calls of several establisher workers are not part of   *)
(* this model: the harness explores them on the real code (parallel mode,  *)
(* calls serialised by a seeded gate) and the monitor judges them with the *)
(* same formulas, none of which depends on the call order.                 *)
(*                                                                         *)
(* Properties: C16 and the C02 placement "package object controlled by     *)
(* another package".                                                       *)
(*                                                                         *)
(* INTERPRETATION of "if any object of a package cannot be taken over -    *)
(* because a different revision or owner controls it, or the API server    *)
(* would reject it - then no object of the package is created or           *)
(* modified": "cannot be taken over" is a fact about the cluster when      *)
(* Establish starts (Blocked below: a foreign controller reference when    *)
(* control is wanted, or an object the API server refuses to create /      *)
(* update).  A transient API error or a crash injected in the middle of    *)
(* the establish phase, after every object passed validation, is not       *)
(* "cannot be taken over"; it may leave a prefix of the objects written    *)
(* (the next reconcile completes it) and is not a violation.  What is      *)
(* demanded of every execution, faulty or not, is that no real write of an *)
(* Establish happens unless (a) nothing was blocked when it started and    *)
(* (b) every object that needs a write passed its dry-run in this very     *)
(* Establish (ValidatedFirst, the mechanism behind (a)).                   *)
(* ReleaseObjects gives control up object by object and is not all-or-     *)
(* nothing (the property text only speaks of taking over).                 *)
(*                                                                         *)
(* CLIENT SEMANTICS that shape the behaviour (controller-runtime v0.19):   *)
(* a typed Create decodes the reply into the caller's object and thereby   *)
(* clears its TypeMeta, whereas Update restores it.  The reference that    *)
(* Establish returns for an object it created (dry-run Create in the       *)
(* validate phase) therefore has an empty apiVersion / kind ("bad" below); *)
(* ReleaseObjects cannot Get such a reference (client-side error, no API   *)
(* call).  The next reconcile of the still active revision finds the       *)
(* objects existing, takes the Update path and records good references.    *)
(***************************************************************************)
EXTENDS Integers, Sequences, FiniteSets, TLC

CONSTANTS
  OSeq,       \* the object names, in package (YAML stream) order
  Pkg1, Pkg2, \* the objects of revision R1 / R2 of package P
  PreStates,  \* pre-states an object may start in: "absent", "free", "R1", "Q"
  MaxRej,     \* at most this many objects are refused by the API server (scripted Invalid)
  FreeRefs,   \* TRUE: R1's status.objectRefs is {} or Pkg1 independently of the pre-states
  Grabs,      \* TRUE: another owner may take control of package objects in the middle of an Establish
  MaxEdits,   \* bound on environment steps
  MaxFaults,  \* bound on injected faults
  MaxRecs     \* bound on reconciles

Objs == {OSeq[i] : i \in 1..Len(OSeq)}
Revs == {"R1", "R2"}
UIDs == {"R1", "R2", "P", "Q"}
None == "none"
Pkg(r) == IF r = "R1" THEN Pkg1 ELSE Pkg2
Other(r) == IF r = "R1" THEN "R2" ELSE "R1"
Reverse(s) == [i \in 1..Len(s) |-> s[Len(s) + 1 - i]]
SeqOf(S) == SelectSeq(OSeq, LAMBDA o : o \in S)
\* status.objectRefs is sorted descending by gvk/name; ReleaseObjects walks it in that order
RelSeq(S) == Reverse(SeqOf(S))

VARIABLES
  obj,      \* ObjName -> [ex, own : UID -> {"none", "owner", "ctrl"}]
  rej,      \* the objects whose create / update the API server refuses (also as dry-run)
  rev,      \* revision -> [act, refs, bad]  (spec.desiredState = Active, status.objectRefs, refs without a kind)
  pc,       \* "idle" | "rel" | "val" | "est" | "status"
  cur,      \* the revision being (or last) reconciled
  ctl,      \* control: the desired state the reconciler read
  todo,     \* remaining objects of the loop in progress
  sub,      \* "get" | "dry" | "upd": the call due for Head(todo)
  setrefs,  \* the final status update records the refs of a successful Establish
  crt,      \* objects the Establish in flight found missing and dry-run created (their reference loses its kind)
  vok,      \* ghost: objects whose dry-run succeeded in the Establish in flight
  blk,      \* ghost: Blocked when the Establish in flight started
  stale,    \* objects another owner took control of after the Establish in flight read them (its copy is out of date)
  edits, faults, recs,
  doneOk,   \* ghost: the last reconcile completed (no fault) and the environment did nothing since
  hist      \* ghost: the behaviour so far as scenario steps (hidden by VIEW)

vars == <<obj, rej, rev, pc, cur, ctl, todo, sub, setrefs, crt, vok, blk, stale, edits, faults, recs, doneOk, hist>>
view == <<obj, rej, rev, pc, cur, ctl, todo, sub, setrefs, crt, vok, blk, stale, edits, faults, recs, doneOk>>

NoOwn == [u \in UIDs |-> None]
Ctrl(ob) == IF \E u \in UIDs : ob.own[u] = "ctrl" THEN CHOOSE u \in UIDs : ob.own[u] = "ctrl" ELSE None
PreObj(st) == CASE st = "absent" -> [ex |-> FALSE, own |-> NoOwn]
                [] st = "free"   -> [ex |-> TRUE, own |-> NoOwn]
                [] st = "R1"     -> [ex |-> TRUE, own |-> [NoOwn EXCEPT !["R1"] = "ctrl", !["P"] = "owner"]]
                [] st = "Q"      -> [ex |-> TRUE, own |-> [NoOwn EXCEPT !["Q"] = "ctrl"]]

H(t, k, o, f) == [t |-> t, k |-> k, o |-> o, f |-> f]
Log(e) == hist' = Append(hist, e)

Init ==
  \E pre \in [Objs -> PreStates], rj \in SUBSET Objs, a1 \in BOOLEAN, a2 \in BOOLEAN, rf \in {{}, Pkg1} :
    /\ \A o \in Objs : pre[o] = "R1" => o \in Pkg1     \* a revision only ever controlled objects of its own package
    /\ Cardinality(rj) <= MaxRej
    /\ ~(a1 /\ a2)                                      \* C14: the package manager keeps at most one revision active
    /\ (~FreeRefs => (rf = Pkg1 <=> \E o \in Objs : pre[o] = "R1"))
    /\ obj = [o \in Objs |-> PreObj(pre[o])]
    /\ rej = rj
    /\ rev = [r \in Revs |-> IF r = "R1" THEN [act |-> a1, refs |-> rf, bad |-> {}]
                                                  ELSE [act |-> a2, refs |-> {}, bad |-> {}]]
    /\ pc = "idle" /\ cur = "R1" /\ ctl = FALSE /\ todo = <<>> /\ sub = "get" /\ setrefs = FALSE
    /\ crt = {} /\ vok = {} /\ blk = {} /\ stale = {}
    /\ edits = 0 /\ faults = 0 /\ recs = 0 /\ doneOk = FALSE
    /\ hist = << [t |-> "init", pre |-> pre, rej |-> rj, act1 |-> a1, act2 |-> a2, refs1 |-> rf,
                  pkg1 |-> Pkg1, pkg2 |-> Pkg2, oseq |-> OSeq] >>

----------------------------------------------------------------------------
(* Environment: the package manager deactivates / activates revisions.     *)
(* It acts between reconciles of the revision controller.                  *)

EnvUnch == /\ doneOk' = FALSE /\ edits' = edits + 1
           /\ UNCHANGED <<obj, rej, pc, cur, ctl, todo, sub, setrefs, crt, vok, blk, stale, faults, recs>>
Deactivate(r) == /\ rev[r].act
                 /\ rev' = [rev EXCEPT ![r].act = FALSE] /\ Log(H("env", "deactivate", r, "")) /\ EnvUnch
Activate(r) == /\ ~rev[r].act /\ ~rev[Other(r)].act
               /\ rev' = [rev EXCEPT ![r].act = TRUE] /\ Log(H("env", "activate", r, "")) /\ EnvUnch
Env == pc = "idle" /\ edits < MaxEdits /\ \E r \in Revs : Deactivate(r) \/ Activate(r)

\* In the middle of an Establish: another owner (Q) makes itself the controller of an uncontrolled object of the package.
\* If the establisher has read the object already, its copy (and the resourceVersion in it) is out of date: the API
\* server answers its dry-run or real Update with a Conflict, Establish returns the error and the object stays as Q
\* left it.  If it has not read it yet, it finds it controlled by somebody else.
WasRead(o) == \/ pc = "est"
              \/ (pc = "val" /\ \A i \in DOMAIN todo : todo[i] # o)
              \/ (pc = "val" /\ todo # <<>> /\ Head(todo) = o /\ sub = "dry")
Grab(o) == /\ Grabs /\ pc \in {"val", "est"} /\ edits < MaxEdits
           /\ o \in Pkg(cur) /\ obj[o].ex /\ Ctrl(obj[o]) = None
           /\ obj' = [obj EXCEPT ![o].own["Q"] = "ctrl"]
           /\ stale' = (IF WasRead(o) THEN stale \cup {o} ELSE stale)
           /\ edits' = edits + 1 /\ Log(H("env", "grab", o, ""))
           /\ UNCHANGED <<rej, rev, pc, cur, ctl, todo, sub, setrefs, crt, vok, blk, faults, recs, doneOk>>
\* ... or creates, with itself as the controller, an object that the Establish in flight found missing and has already
\* dry-run created: the real Create is answered AlreadyExists, Establish returns the error, the object stays Q's.
GrabCreate(o) == /\ Grabs /\ pc \in {"val", "est"} /\ edits < MaxEdits
                 /\ o \in crt /\ ~obj[o].ex
                 /\ obj' = [obj EXCEPT ![o] = [ex |-> TRUE, own |-> [NoOwn EXCEPT !["Q"] = "ctrl"]]]
                 /\ stale' = stale \cup {o}
                 /\ edits' = edits + 1 /\ Log(H("env", "grabcreate", o, ""))
                 /\ UNCHANGED <<rej, rev, pc, cur, ctl, todo, sub, setrefs, crt, vok, blk, faults, recs, doneOk>>

----------------------------------------------------------------------------
(* The reconcile of one revision.  f = "ok" | "fail" (error / conflict /   *)
(* crash before the call: no effect, the reconcile ends) | "crashAfter"    *)
(* (the effect is applied and the reconcile ends; real writes only).       *)

CanFault == faults < MaxFaults
End == /\ pc' = "idle" /\ todo' = <<>> /\ sub' = "get" /\ setrefs' = FALSE /\ crt' = {} /\ vok' = {} /\ blk' = {} /\ stale' = {}
       /\ recs' = recs + 1
Ok(k, o) == Log(H("call", k, o, "ok")) /\ UNCHANGED faults
Fail(k, o) == CanFault /\ faults' = faults + 1 /\ Log(H("call", k, o, "fail"))
Crash(k, o) == CanFault /\ faults' = faults + 1 /\ Log(H("call", k, o, "crashAfter"))
\* a read served by an informer cache that has not seen the object yet: NotFound although it exists
Miss(k, o) == CanFault /\ faults' = faults + 1 /\ Log(H("call", k, o, "miss"))
\* continue the reconcile at (p, t, s); the ghosts and counters of the call sequence stay
Goto(p, t, s, sr) == /\ pc' = p /\ todo' = t /\ sub' = s /\ setrefs' = sr /\ UNCHANGED <<crt, vok, blk, stale, recs>>

\* objects an Establish(control = c) by r cannot take over, judged on the cluster as it is now
Blocked(r, c) == {o \in Pkg(r) : IF obj[o].ex THEN o \in rej \/ (c /\ Ctrl(obj[o]) \notin {None, r})
                                              ELSE c /\ o \in rej}
\* objects an Establish(control = c) by r has to write: existing ones are updated, missing ones are
\* created only by a controlling (active) revision
Needs(r, c) == {o \in Pkg(r) : obj[o].ex \/ c}

BeginEst(r, c) == /\ pc' = "val" /\ todo' = SeqOf(Pkg(r)) /\ sub' = "get" /\ setrefs' = FALSE
                  /\ crt' = {} /\ vok' = {} /\ blk' = Blocked(r, c) /\ stale' = {} /\ UNCHANGED recs

\* Reconcile: Get the revision; inactive => ReleaseObjects over status.objectRefs (no call if there is none).
\* References with a kind sort before those without; the first one without a kind ends ReleaseObjects.
Good(r) == RelSeq(rev[r].refs \ rev[r].bad)
Start(r) ==
  /\ pc = "idle" /\ recs < MaxRecs
  /\ \/ /\ Ok("get", r) /\ cur' = r /\ ctl' = rev[r].act /\ doneOk' = FALSE
        /\ (IF rev[r].act \/ rev[r].refs = {}
            THEN BeginEst(r, rev[r].act)
            ELSE IF Good(r) = <<>>
                 THEN End                               \* only references without a kind: ReleaseObjects fails at once
                 ELSE Goto("rel", Good(r), "get", FALSE))
     \/ /\ Fail("get", r) /\ End /\ doneOk' = FALSE /\ UNCHANGED <<cur, ctl>>
  /\ UNCHANGED <<obj, rej, rev, edits>>

\* ---- ReleaseObjects(cur): for each recorded ref Get; if cur is the controller (or not an owner at all)
\* Update with the entry of cur as a plain owner.
RelNext == IF Tail(todo) # <<>> THEN Goto("rel", Tail(todo), "get", FALSE)
           ELSE IF rev[cur].bad # {} THEN End           \* the next reference has no kind: error
           ELSE Goto("status", <<>>, "get", FALSE)
RelGet ==
  /\ pc = "rel" /\ sub = "get"
  /\ LET o == Head(todo) IN
     \/ /\ Ok("get", o)
        /\ (IF obj[o].ex /\ obj[o].own[cur] # "owner" THEN Goto("rel", todo, "upd", FALSE) ELSE RelNext)
     \/ Fail("get", o) /\ End
  /\ UNCHANGED <<obj, rej, rev, cur, ctl, edits, doneOk>>
Released(o) == [obj EXCEPT ![o].own[cur] = "owner"]
RelUpd ==
  /\ pc = "rel" /\ sub = "upd"
  /\ LET o == Head(todo) IN
     \/ /\ Ok("update", o)
        /\ (IF o \in rej
            THEN UNCHANGED obj /\ End       \* the API server refuses: ReleaseObjects returns the error
            ELSE obj' = Released(o) /\ RelNext)
     \/ Fail("update", o) /\ End /\ UNCHANGED obj
     \/ Crash("update", o) /\ End /\ obj' = (IF o \in rej THEN obj ELSE Released(o))
  /\ UNCHANGED <<rej, rev, cur, ctl, edits, doneOk>>

\* ---- Establish, validate phase: per object Get, then a dry-run Create (missing, control) or Update.
\* AddControllerReference refuses an object controlled by somebody else without any call.
EstSeq == SeqOf(Needs(cur, ctl))
ValNext(v, c) == /\ vok' = v /\ crt' = c /\ UNCHANGED <<blk, stale, recs>>
                 /\ (IF Tail(todo) # <<>>
                     THEN pc' = "val" /\ todo' = Tail(todo) /\ sub' = "get" /\ UNCHANGED setrefs
                     ELSE IF EstSeq = <<>>
                          THEN pc' = "status" /\ todo' = <<>> /\ sub' = "get" /\ setrefs' = TRUE
                          ELSE pc' = "est" /\ todo' = EstSeq /\ sub' = "upd" /\ UNCHANGED setrefs)
ValGet ==
  /\ pc = "val" /\ sub = "get"
  /\ LET o == Head(todo) IN
     \/ /\ Ok("get", o)
        /\ (IF obj[o].ex /\ ctl /\ Ctrl(obj[o]) \notin {None, cur}
            THEN End                                      \* "already controlled by": Establish returns the error
            ELSE IF obj[o].ex \/ ctl
                 THEN Goto("val", todo, "dry", setrefs)
                 ELSE ValNext(vok, crt))                  \* missing and not controlling: nothing to do
     \/ Fail("get", o) /\ End
     \* the cache misses an object that exists: a controlling revision goes on to dry-run its CREATION (which the API server
     \* refuses: AlreadyExists - Establish returns the error, nothing was written). (A non-controlling revision takes the object
     \* for missing and leaves it out - it will add its plain owner reference in a later reconcile; not modelled.)
     \* (added after the seeded change C16-m10 - AlreadyExists from the dry-run create tolerated - was missed)
     \/ /\ obj[o].ex /\ ctl /\ Miss("get", o)
        /\ Goto("val", todo, "drymiss", setrefs)
  /\ UNCHANGED <<obj, rej, rev, cur, ctl, edits, doneOk>>
ValDryMiss ==
  /\ pc = "val" /\ sub = "drymiss"
  /\ LET o == Head(todo) IN Ok("create-dry", o) /\ End
  /\ UNCHANGED <<obj, rej, rev, cur, ctl, edits, doneOk>>
DryVerb(o) == IF obj[o].ex THEN "update-dry" ELSE "create-dry"
ValDry ==
  /\ pc = "val" /\ sub = "dry"
  /\ LET o == Head(todo) IN
     \/ /\ Ok(DryVerb(o), o)
        /\ (IF o \in rej \/ o \in stale
            THEN End                                      \* Invalid / Conflict (out-of-date copy): Establish returns the error
            ELSE ValNext(vok \cup {o}, IF obj[o].ex THEN crt ELSE crt \cup {o}))
     \/ Fail(DryVerb(o), o) /\ End
  /\ UNCHANGED <<obj, rej, rev, cur, ctl, edits, doneOk>>

\* ---- Establish, establish phase: the real Create / Update per object.
\* create: owners = {cur: controller, P: owner}; update with control: cur becomes the controller, P a plain
\* owner, other entries kept; update without control: cur and P become / stay plain owners.
Written(o) == IF ~obj[o].ex
              THEN [obj EXCEPT ![o] = [ex |-> TRUE, own |-> [NoOwn EXCEPT ![cur] = "ctrl", !["P"] = "owner"]]]
              ELSE [obj EXCEPT ![o].own = [@ EXCEPT ![cur] = IF ctl THEN "ctrl" ELSE "owner", !["P"] = "owner"]]
EstNext == IF Tail(todo) = <<>> THEN Goto("status", <<>>, "get", TRUE) ELSE Goto("est", Tail(todo), "upd", setrefs)
WrVerb(o) == IF o \in crt THEN "create" ELSE "update"     \* decided by what the validate phase found, not by what is there now
EstWrite ==
  /\ pc = "est"
  /\ LET o == Head(todo) IN
     \* o \notin rej here: rej does not change and the dry-run of o passed in the validate phase
     \/ Ok(WrVerb(o), o) /\ o \notin stale /\ obj' = Written(o) /\ EstNext
     \/ Ok(WrVerb(o), o) /\ o \in stale /\ End /\ UNCHANGED obj          \* Conflict: the copy read during validation is out of date
     \/ Fail(WrVerb(o), o) /\ End /\ UNCHANGED obj
     \/ Crash(WrVerb(o), o) /\ End /\ obj' = (IF o \in stale THEN obj ELSE Written(o))
  /\ UNCHANGED <<rej, rev, cur, ctl, edits, doneOk>>

\* ---- the reconciler records the refs (all objects of the package) and reports Healthy
Recorded == IF setrefs THEN [rev EXCEPT ![cur].refs = Pkg(cur), ![cur].bad = crt] ELSE rev
Status ==
  /\ pc = "status"
  /\ \/ Ok("update-status", cur) /\ rev' = Recorded /\ doneOk' = TRUE /\ End
     \/ Fail("update-status", cur) /\ UNCHANGED <<rev, doneOk>> /\ End
     \/ Crash("update-status", cur) /\ rev' = Recorded /\ UNCHANGED doneOk /\ End
  /\ UNCHANGED <<obj, rej, cur, ctl, edits>>

Rec == (\E r \in Revs : Start(r)) \/ RelGet \/ RelUpd \/ ValGet \/ ValDry \/ ValDryMiss \/ EstWrite \/ Status
Next == Env \/ Rec \/ \E o \in Objs : Grab(o) \/ GrabCreate(o)
Spec == Init /\ [][Next]_vars

----------------------------------------------------------------------------
(* C16 *)
Changed(o) == obj'[o] # obj[o]
EstStep == pc = "est" /\ edits' = edits /\ \E o \in Objs : Changed(o)     \* (edits' = edits: not a step of the environment)
RelStep == pc = "rel" /\ \E o \in Objs : Changed(o)

\* no real write of an Establish unless nothing was blocked when it started and every needed dry-run passed
AllOrNothing == [][EstStep => blk = {} /\ Needs(cur, ctl) \subseteq vok]_vars
\* only an active revision creates objects
OnlyActiveCreates == [][\A o \in Objs : (obj'[o].ex /\ ~obj[o].ex) => rev[cur].act]_vars
\* a revision becomes a controller only while it is active ...
InactivePlainStep == [][\A o \in Objs, r \in Revs : (obj'[o].own[r] = "ctrl" /\ obj[o].own[r] # "ctrl") => rev[r].act]_vars
\* ... and a completed reconcile of an inactive revision leaves it the controller of nothing in its package
InactiveSettled == (pc = "idle" /\ doneOk /\ ~rev[cur].act) => \A o \in Pkg(cur) : obj[o].own[cur] # "ctrl"
OneController == \A o \in Objs : Cardinality({u \in UIDs : obj[o].own[u] = "ctrl"}) <= 1
\* releasing flips controller to false and keeps the owner entry (and every other entry)
ReleaseKeeps == [][RelStep => \A o \in Objs : Changed(o) =>
                     /\ obj'[o].ex /\ obj'[o].own[cur] = "owner"
                     /\ \A u \in UIDs \ {cur} : obj'[o].own[u] = obj[o].own[u]]_vars
\* every object written by Establish has the package as a plain owner
PkgOwner == [][EstStep => \A o \in Objs : Changed(o) => obj'[o].own["P"] = "owner"]_vars
\* C02: an object controlled by somebody else is left exactly as it is by a controlling (active) revision;
\* an inactive revision may only add itself and its package as plain owners (out of C02's scope)
ForeignUntouched == [][\A o \in Objs : (pc # "idle" /\ obj[o].ex /\ Ctrl(obj[o]) \notin {None, cur} /\ Changed(o)) =>
                         /\ ~ctl
                         /\ obj'[o].ex
                         /\ \A u \in UIDs \ {cur, "P"} : obj'[o].own[u] = obj[o].own[u]
                         /\ \A u \in {cur, "P"} : obj'[o].own[u] = obj[o].own[u] \/ obj'[o].own[u] = "owner"]_vars
=============================================================================
