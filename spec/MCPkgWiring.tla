---------------------------- MODULE MCPkgWiring ----------------------------
(***************************************************************************)
(* X11 vector model: enumerates the option vectors the Setup functions of  *)
(* the package controllers read (one "VEC" line each; inputs only - what   *)
(* must be observed stays in PkgWiring.tla and is applied to the real      *)
(* observations by MonPkgWiring.tla), evaluates the reference on every     *)
(* vector (exp) and checks the reference itself at design level:           *)
(*                                                                         *)
(*  RefConsistent  the type table obeys the structural laws (distinct      *)
(*                 kinds, Revision / List naming, only a workload serves   *)
(*                 or calls, webhook configurations only where webhooks    *)
(*                 are served, ...).  Witness configurations set Perturb   *)
(*                 to one wrong cell: the invariant must be violated.      *)
(*  RefRegistered  a manager and a revision controller per type and the    *)
(*                 resolver always; signature controllers iff the flag;    *)
(*                 controller names pairwise distinct.                     *)
(*  RefHooks       hooks only for a workload type under Deployment, and    *)
(*                 then the type's own.                                    *)
(*  RefWatches     every controller must watch its own kind and            *)
(*                 ImageConfig; every watched kind has a role; the         *)
(*                 DeploymentRuntimeConfig only with the flag; Must and    *)
(*                 May never name another type's kinds (resolver aside).   *)
(*  RefEnqueue     no event makes a controller enqueue an object of        *)
(*                 another package type; an ImageConfig without pull       *)
(*                 secret and without verification policy enqueues nothing.*)
(*  RefSymmetric   the reference itself treats the package types alike:    *)
(*                 abstracted (operators Abs.. of PkgWiring) Must / May / Enqueued agree *)
(*                 between any two types (revision controllers: between    *)
(*                 types that both run a workload, and on the non-runtime  *)
(*                 kinds otherwise).                                       *)
(*  RefDeps        a downgrade needs both flags, an upgrade the upg flag;  *)
(*                 the versions chosen are ordered as expected.            *)
(*  RefInstall     the test package of every type passes the reference     *)
(*                 linter; runtime objects / image / endpoint only with    *)
(*                 hooks.                                                  *)
(***************************************************************************)
EXTENDS PkgWiring, TLC, Json

CONSTANTS Profiles     \* set of [reg, ns, sa, est, conc]

VARIABLES input, exp, done
vars == <<input, exp, done>>

Prof(r, n, s, e, c) == [reg |-> r, ns |-> n, sa |-> s, est |-> e, conc |-> c]
\* quick: two profiles that differ in every field
Profiles2 == {Prof("xpkg.example.org", "crossplane-system", "crossplane", 3, 4),
              Prof("registry.acme.io", "upbound-system", "xp-core", 5, 2)}
\* thorough: registry x namespace x service account vary independently (limits tied to registry / namespace)
Profiles8 == {Prof(r, n, s, IF r = "xpkg.example.org" THEN 3 ELSE 5, IF n = "crossplane-system" THEN 4 ELSE 2) :
                r \in {"xpkg.example.org", "registry.acme.io"}, n \in {"crossplane-system", "upbound-system"}, s \in {"crossplane", "xp-core"}}
Profiles1 == {Prof("xpkg.example.org", "crossplane-system", "crossplane", 3, 4)}

Runtimes == {"Deployment", "External"}

Vec(p, sig, upg, drc, down, rt) ==
  [sig |-> sig, upg |-> upg, drc |-> drc, down |-> down, rt |-> rt,
   reg |-> p.reg, ns |-> p.ns, sa |-> p.sa, est |-> p.est, conc |-> p.conc]

IsInput(x) ==
  \E p \in Profiles : \E sig \in BOOLEAN : \E upg \in BOOLEAN : \E drc \in BOOLEAN : \E down \in BOOLEAN : \E rt \in Runtimes :
    x = Vec(p, sig, upg, drc, down, rt)

NoExp == [regs |-> {}]
Expected(in) ==
  [regs  |-> Registered(in),
   names |-> {CtlName(c.fam, c.t) : c \in Registered(in)},
   hooks |-> [t \in Types |-> Hooks(t, in)],
   must  |-> [c \in Registered(in) |-> MustWatch(c.fam, c.t, in)],
   may   |-> [c \in Registered(in) |-> MayWatch(c.fam, c.t, in)],
   up    |-> ResolverUpgrades(in), down |-> ResolverDowngrades(in)]

Init == IsInput(input) /\ exp = NoExp /\ done = FALSE
Compute == ~done /\ done' = TRUE /\ exp' = Expected(input) /\ UNCHANGED input
Spec == Init /\ [][Compute]_vars

Emit == PrintT(<<"VEC", ToJson(input)>>)

-----------------------------------------------------------------------------
RefConsistent == done => TableConsistent

RefRegistered ==
  done =>
    /\ \A t \in Types : Ctl("manager", t) \in exp.regs /\ Ctl("revision", t) \in exp.regs
    /\ Ctl("resolver", "Lock") \in exp.regs
    /\ \A t \in Types : (Ctl("signature", t) \in exp.regs) <=> input.sig
    /\ Cardinality(exp.names) = Cardinality(exp.regs)
    /\ \A c \in exp.regs : c.fam \in Families

RefHooks ==
  done => \A t \in Types :
    /\ exp.hooks[t] \in {"none", t}
    /\ exp.hooks[t] # "none" => (HasRuntime(t) /\ input.rt = "Deployment")
    /\ (HasRuntime(t) /\ input.rt = "Deployment") => exp.hooks[t] = t

Foreign(k, t) == \E u \in Types \ {t} : k \in {PkgKind(u), RevKind(u), RevListKind(u)}

RefWatches ==
  done => \A c \in exp.regs :
    LET all == exp.must[c] \cup exp.may[c] IN
    /\ ForKind(c.fam, c.t) \in exp.must[c] /\ "ImageConfig" \in exp.must[c]
    /\ \A k \in all : Role(c.fam, c.t, k) # "none"
    /\ "DeploymentRuntimeConfig" \in all => input.drc
    /\ c.fam # "resolver" => \A k \in all : ~Foreign(k, c.t)
    /\ (c.fam = "revision" /\ ~HasRuntime(c.t)) => all \cap (RuntimeKinds \cup {"ControllerConfig", "DeploymentRuntimeConfig"}) = {}

OtherTypesObject(n, t) == \E u \in Types \ {t} : \E s \in Suffixes : n = Lower(u) \o s

RefEnqueue ==
  done => \A c \in exp.regs : \A k \in exp.must[c] \cup exp.may[c] : \A p \in ProbesOf(k) :
    LET E == Enqueued(c.fam, c.t, k, p) IN
    /\ Cardinality(E) <= 1
    /\ c.fam # "resolver" => \A n \in E : ~OtherTypesObject(n, c.t)
    /\ p = "icBare" => E = {}
    /\ (c.fam = "signature" /\ p \in {"icPull", "icPullB"}) => E = {}
    /\ (c.fam # "signature" /\ p = "icVerify") => E = {}

AbsWatch(f, t, in) ==
  [must |-> {AbsKind(k, t) : k \in MustWatch(f, t, in)}, may |-> {AbsKind(k, t) : k \in MayWatch(f, t, in)},
   enq  |-> UNION {{<<AbsKind(k, t), AbsProbe(p, t), {AbsName(n, t) : n \in Enqueued(f, t, k, p)}>> :
                      p \in {"plain", "icPull", "icPullB", "icVerify", "icBare", "icBoth"} \cap ProbesOf(k)} :
                    k \in (MustWatch(f, t, in) \cup MayWatch(f, t, in)) \ (RuntimeKinds \cup {"ControllerConfig", "DeploymentRuntimeConfig"})}]

RefSymmetric ==
  done => \A t, u \in Types :
    /\ AbsWatch("manager", t, input) = AbsWatch("manager", u, input)
    /\ AbsWatch("signature", t, input) = AbsWatch("signature", u, input)
    /\ HasRuntime(t) = HasRuntime(u) => AbsWatch("revision", t, input) = AbsWatch("revision", u, input)
    /\ AbsWatch("revision", t, input).enq = AbsWatch("revision", u, input).enq
    /\ AbsCtlName(CtlName("manager", t), "manager", t) = AbsCtlName(CtlName("manager", u), "manager", u)

RefDeps ==
  done =>
    /\ exp.down # "v1.0.0" => (input.upg /\ input.down)
    /\ exp.up # "v1.0.0" => input.upg
    /\ input.upg => exp.up = "v1.1.0"
    /\ (input.upg /\ input.down) => exp.down = "v0.9.0"

RefInstall ==
  done => \A t \in Types :
    /\ LintMeta(t, <<Type[t].meta>>) = "ok"
    /\ \A u \in Types \ {t} : LintMeta(t, <<Type[u].meta>>) = "lint"
    /\ LintMeta(t, <<>>) = "lint" /\ LintMeta(t, <<Type[t].meta, Type[t].meta>>) = "lint"
    /\ \A d \in Docs(t) : LintObj(t, d) = "ok"
    /\ (RuntimeObjects(t, input) # {}) <=> (Hooks(t, input) # "none")
    /\ (RuntimeImage(t, input) # "none") <=> (Hooks(t, input) # "none")
    /\ Endpoint(t, input) # "none" => (t = "Function" /\ Hooks(t, input) # "none")
    /\ (t = "Function" /\ Hooks(t, input) # "none") => Endpoint(t, input) # "none"
=============================================================================
