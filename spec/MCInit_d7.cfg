SPECIFICATION Spec
CONSTANTS
  Cfgs <- MCCfgs
  FaultAt <- MCFaultAt
  FixD7 = FALSE
  MaxRuns = 2
  MaxFaults = 0
  Fams = {"pkg"}
  BaseNames = {"full"}
  CAs = {"complete"}
  Srvs = {"complete"}
  Clis = {"complete"}
  Esss = {"complete"}
  Crds = {"current"}
  Whcs = {"current"}
  Kinds = {"prov"}
  Hosts = {"", "h", "hp", "hd"}
  ReqVers = {"t2"}
  InstNames = {"def", "custom"}
  InstVers = {"t1"}
  Req2s = {FALSE}
  Defs = {"edited"}
  Storeds = {"cur"}
VIEW view
CHECK_DEADLOCK FALSE
INVARIANTS NoDupPkg
PROPERTIES KeepCA KeepCerts Chain Untouched
