SPECIFICATION Spec
CONSTANTS
  FlagSets <- FewFlags
  PollChoices <- Polls1
  ConcChoices <- Concs1
  ClaimChoices <- Both
  KeyChoices <- OnlyT
  AllowChoices <- Allows2
  RegChoices <- Regs2
ACTION_CONSTRAINT Emit
CHECK_DEADLOCK FALSE
INVARIANTS RefLocality RefMonotone RefBaseline RefNeverBlind
