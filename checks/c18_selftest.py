#!/usr/bin/env python3
"""Anti-vacuity self test of the C18 check (run by hand: python3 checks/c18_selftest.py).

1. sanity mutants of the real code, applied ONLY through `go build -overlay` (nothing is
   written to /repo): each must make MonRBAC report the expected formula;
2. seeded corruption of one recorded field of a real trace: MonRBAC must reject that line.
Scratch: /verif/.work/C18-selftest."""
import json
import os
import subprocess
import sys

sys.path.insert(0, os.path.dirname(os.path.dirname(os.path.abspath(__file__))))
import vlib  # noqa: E402
from checks import c18  # noqa: E402

ROLES = "internal/controller/rbac/provider/roles/"
MUTANTS = [
    # (name, file in /repo, old text, new text, formulas that must fire)
    ("request-star-matches-any-child", ROLES + "requests.go",
     "\tfor _, k := range []string{p[0], wildcard} {\n\t\tif c, ok := n.children[k]; ok {",
     "\tkeys := []string{p[0], wildcard}\n\tif p[0] == wildcard {\n\t\tfor k := range n.children {\n\t\t\tkeys = append(keys, k)\n\t\t}\n\t}\n"
     "\tfor _, k := range keys {\n\t\tif c, ok := n.children[k]; ok {",
     ["Sound"]),
    ("no-early-return-on-rejection", ROLES + "reconciler.go",
     "\tif len(rejected) > 0 {\n\t\treturn reconcile.Result{Requeue: false}, nil\n\t}",
     "\tif len(rejected) > 1000 {\n\t\treturn reconcile.Result{Requeue: false}, nil\n\t}",
     ["AllOrNone", "Sound", "SystemRole"]),
    ("family-ignores-org", ROLES + "reconciler.go",
     "\t\t\tif r.org.Differs(pr.Spec.Package, member.Spec.Package) {\n\t\t\t\tcontinue\n\t\t\t}",
     "\t\t\tif false && r.org.Differs(pr.Spec.Package, member.Spec.Package) {\n\t\t\t\tcontinue\n\t\t\t}",
     ["Family.NotMember", "SystemRole"]),
    ("org-compares-registry-only", ROLES + "reconciler.go",
     "\treturn oa != ob\n}",
     "\t_, _ = oa, ob\n\treturn false\n}",
     ["Family.NotMember", "SystemRole"]),
    ("finalizers-in-every-group", ROLES + "roles.go",
     "\t\tAPIGroups: groups,\n\t\tResources: []string{rbacv1.ResourceAll + suffixFinalizers},",
     "\t\tAPIGroups: []string{rbacv1.APIGroupAll},\n\t\tResources: []string{rbacv1.ResourceAll + suffixFinalizers},",
     ["SystemRole", "SystemRole.Render"]),
    ("any-customresourcedefinition-kind-counts", ROLES + "reconciler.go",
     "\t\tif gv.Group != apiextensions.GroupName || ref.Kind != \"CustomResourceDefinition\" {",
     "\t\tif _ = apiextensions.GroupName; gv.Group == \"\" || ref.Kind != \"CustomResourceDefinition\" {",
     ["SystemRole", "SystemRole.Render"]),
    ("binding-takes-every-deployment", "internal/controller/rbac/provider/binding/reconciler.go",
     "\t\t\tif ref.UID == pr.GetUID() {",
     "\t\t\tif ref.UID == pr.GetUID() || ref.UID != \"\" {",
     ["Binding.Subjects"]),
    ("xrd-browse-gets-edit-verbs", "internal/controller/rbac/definition/roles.go",
     "\t\t\t\tVerbs: verbsBrowse,",
     "\t\t\t\tVerbs: verbsEdit,",
     ["XrdRoles"]),
    ("xrd-system-any-resource", "internal/controller/rbac/definition/roles.go",
     "\t\t\t\t\td.Spec.Names.Plural + suffixFinalizers,\n",
     "\t\t\t\t\trbacv1.ResourceAll + suffixFinalizers,\n",
     ["XrdRoles", "XrdRoles.NoMore"]),
]


def build_mutant(ctx, name, rel, old, new):
    src = open(os.path.join("/repo", rel)).read()
    if src.count(old) != 1:
        raise SystemExit("mutant %s: anchor text occurs %d times in %s" % (name, src.count(old), rel))
    d = os.path.join(ctx.work, "mutants", name)
    os.makedirs(d, exist_ok=True)
    mp = os.path.join(d, os.path.basename(rel))
    with open(mp, "w") as f:
        f.write(src.replace(old, new))
    ov = os.path.join(d, "overlay.json")
    with open(ov, "w") as f:
        json.dump({"Replace": {os.path.join("/repo", rel): mp}}, f)
    out = os.path.join(d, "rbac")
    e = dict(os.environ)
    e.update(vlib.GOENV)
    p = subprocess.run(["go", "build", "-overlay", ov, "-o", out, "./drivers/rbac"], cwd=vlib.HARNESS, env=e,
                       stdout=subprocess.PIPE, stderr=subprocess.STDOUT, text=True)
    if p.returncode != 0:
        raise SystemExit("mutant %s does not build:\n%s" % (name, p.stdout[-3000:]))
    return out


def judge(ctx, binp, sp, tag):
    trace = os.path.join(ctx.work, "trace_%s.ndjson" % tag)
    ctx.run([binp, "-scenarios", sp, "-trace", trace, "-summary", os.path.join(ctx.work, "sum_%s.json" % tag)])
    viols, _ = ctx.monitor("MonRBAC", trace)
    by = {}
    for f, _, _ in viols:
        by[f] = by.get(f, 0) + 1
    return by, trace


def main():
    ctx = vlib.Ctx("C18-selftest", "quick", 1)
    mc = ctx.model_check("MCRBAC", "MCRBAC_quick.cfg", workers=8, timeout=120)
    scs = [{"id": "C18-%07d" % i, "input": v} for i, v in ctx.sample_lines(mc["emitted_file"], 10 ** 9, mc["emitted"])]
    sp = ctx.write_scenarios(scs)
    ok = True
    base, trace = judge(ctx, ctx.go_build("./drivers/rbac"), sp, "base")
    print("unchanged tree:", base)
    for name, rel, old, new, expect in MUTANTS:
        got, _ = judge(ctx, build_mutant(ctx, name, rel, old, new), sp, name)
        new_formulas = {f: n for f, n in got.items() if n > base.get(f, 0)}
        hit = all(f in new_formulas for f in expect)
        ok &= hit
        print("mutant %-45s %s  new/raised: %s" % (name, "DETECTED" if hit else "MISSED (expected %s)" % expect, new_formulas))
    # seeded corruption of recorded fields
    lines = open(trace).read().splitlines()
    corruptions = [
        ("rejected list emptied", lambda e: e["fam"] == "val1" and e["out"]["rejected"] and not e["out"]["err"],
         lambda e: e["out"].update(rejected=[]), "Sound"),
        ("system role gains a rule", lambda e: e["fam"] == "prov" and any(r["kind"] == "system" for r in e["out"]["roles"]),
         lambda e: [r for r in e["out"]["roles"] if r["kind"] == "system"][0]["rules"].append(
             {"groups": [""], "resources": ["pods"], "names": [], "verbs": ["get"], "urls": []}), "SystemRole"),
        ("write logged despite rejection", lambda e: e["fam"] == "prov" and e["out"]["rejected"],
         lambda e: e["out"]["writes"].append({"verb": "update", "kind": "ClusterRole", "name": "x", "applied": True, "noop": False, "outcome": "ok"}), "AllOrNone"),
        ("binding subject added", lambda e: e["fam"] == "bind" and e["out"]["binding"]["exists"],
         lambda e: e["out"]["binding"]["subjects"].append({"kind": "ServiceAccount", "ns": "crossplane-system", "name": "intruder"}), "Binding.Subjects"),
        ("xrd view role verb added", lambda e: e["fam"] == "xrd",
         lambda e: [r for r in e["out"]["roles"] if r["kind"] == "view"][0]["rules"][0]["verbs"].append("delete"), "XrdRoles"),
    ]
    for what, pick, mutate, formula in corruptions:
        idx = next(i for i, ln in enumerate(lines) if pick(json.loads(ln)))
        e = json.loads(lines[idx])
        mutate(e)
        cp = os.path.join(ctx.work, "corrupt.ndjson")
        with open(cp, "w") as f:
            f.write("\n".join(lines[:idx] + [json.dumps(e)] + lines[idx + 1:]) + "\n")
        viols, _ = ctx.monitor("MonRBAC", cp)
        hit = any(f == formula and ln == idx + 1 for f, ln, _ in viols)
        ok &= hit
        print("corruption %-35s line %d: %s" % (what, idx + 1, "REJECTED by " + formula if hit else "NOT NOTICED"))
    print("selftest", "PASSED" if ok else "FAILED")
    return 0 if ok else 1


if __name__ == "__main__":
    sys.exit(main())
