// Driver for spec/ClaimLifecycle.tla (check X06): replays TLC behaviours against the
// real claim.Reconciler (internal/controller/apiextensions/claim) AS WIRED BY THE REAL
// offered.Reconciler: the driver runs offered.Reconciler.Reconcile on simapi with a
// capturing ControllerEngine and takes the reconciler the offered controller hands to
// engine.Start (rate limiter + silent requeue on conflict + claim.Reconciler with the
// syncer / managed-fields upgrader / connection propagator the feature flags select).
// Both syncers (client-side, server-side apply) run unmodified. For observation only,
// recording decorators are placed around the syncer, the upgrader, the propagator and
// the unpublisher of the captured reconciler (they call the real component and note
// what it returned). One trace event per API call / environment step / reconcile end,
// each with the projected abstract state. No property logic here: the verdict comes
// from spec/MonClaimLifecycle.tla.
package main

import (
	"context"
	"crypto/sha256"
	"encoding/json"
	"flag"
	"fmt"
	"os"
	"sort"
	"strings"
	"time"

	metav1 "k8s.io/apimachinery/pkg/apis/meta/v1"
	"k8s.io/apimachinery/pkg/apis/meta/v1/unstructured"
	"k8s.io/apimachinery/pkg/runtime/schema"
	"k8s.io/apimachinery/pkg/types"
	"sigs.k8s.io/controller-runtime/pkg/reconcile"

	"github.com/crossplane/crossplane/zzverif/replay"
	"github.com/crossplane/crossplane/zzverif/scen"
	"github.com/crossplane/crossplane/zzverif/simapi"
	"github.com/crossplane/crossplane/zzverif/trace"
)

const (
	ns          = "ns"
	claimName   = "claim"
	otherClaim  = "other-claim"
	xrdName     = "xthings.ex.org"
	crdName     = "things.ex.org"
	claimFin    = "finalizer.apiextensions.crossplane.io"
	otherFin    = "example.org/keep"
	xrFin       = "composite.apiextensions.crossplane.io"
	pausedAnn   = "crossplane.io/paused"
	extNameAnn  = "crossplane.io/external-name"
	xrSecretNS  = "crossplane-system"
	xrSecret    = "xr-conn"
	claimSecret = "claim-conn"
	staticP     = "static-xr"
	preID       = "p"
	customType  = "DatabaseReady"
	pollMillis  = 60000
)

var (
	claimGVK = schema.GroupVersionKind{Group: "ex.org", Version: "v1", Kind: "Thing"}
	xrGVK    = schema.GroupVersionKind{Group: "ex.org", Version: "v1", Kind: "XThing"}
	claimKey = simapi.Key{Group: "ex.org", Kind: "Thing", Namespace: ns, Name: claimName}
	xrdKey   = simapi.Key{Group: "apiextensions.crossplane.io", Kind: "CompositeResourceDefinition", Name: xrdName}
	crdKey   = simapi.Key{Group: "apiextensions.k8s.io", Kind: "CustomResourceDefinition", Name: crdName}
	xsecKey  = simapi.Key{Kind: "Secret", Namespace: xrSecretNS, Name: xrSecret}
	csecKey  = simapi.Key{Kind: "Secret", Namespace: ns, Name: claimSecret}
)

var dump bool

func xrKey(name string) simapi.Key { return simapi.Key{Group: "ex.org", Kind: "XThing", Name: name} }

type world struct {
	s      *simapi.Server
	c, oc  *simapi.Client
	rec    reconcile.Reconciler
	wiring map[string]any
	init   map[string]any
	scenID string
	syncer string
	conn   bool
	buf    []map[string]any

	ids     map[string]string // concrete XR name -> abstract id
	names   map[string]string // abstract id -> concrete XR name
	nextGen int
	lastRef string
	listed  map[string]bool // custom condition types the XR bound to this claim ever listed for the claim
	defCDP  string          // the default the rendered claim CRD carries for spec.compositeDeletePolicy

	al    *replay.Aligner
	recNo int

	// per reconcile
	seen       map[string]any
	sxr        map[string]any
	atsync     map[string]any
	fails      []any
	syncres    string
	upg        string
	prop       string
	unpub      string
	delxr      string
	xsecRead   string
	statusOK   bool
	evs, tags  []any
	phase      string
	pendingAbs string

	prevOK     bool
	prevDig    string
	prevCmRv   string
	streak     int
	edits      int
	rotated    int
	everMissed bool
	cacheSeen  map[simapi.Key]bool // objects the cache of the running process has served
}

// ---------------------------------------------------------------- projection

func orNone(s string) string {
	if s == "" {
		return "none"
	}
	return s
}

func hasStr(ss []string, s string) bool {
	for _, x := range ss {
		if x == s {
			return true
		}
	}
	return false
}

func (w *world) idOf(name string) string {
	if id, ok := w.ids[name]; ok {
		return id
	}
	w.nextGen++
	id := fmt.Sprintf("x%d", w.nextGen)
	w.ids[name], w.names[id] = id, name
	return id
}

func (w *world) nameOf(id string) string {
	if n, ok := w.names[id]; ok {
		return n
	}
	return ""
}

var stepPrefix = [][2]string{
	{"cannot get bound composite resource", "getxr"},
	{"refusing to operate on composite resource", "unbound"},
	{"cannot upgrade composite resource's managed fields", "upgrade"},
	{"cannot delete bound composite resource", "delxr"},
	{"cannot delete connection details", "unpublish"},
	{"cannot remove finalizer from claim", "rmfin"},
	{"cannot add finalizer to claim", "addfin"},
	{"cannot bind and sync claim with composite resource", "sync"},
	{"cannot propagate connection details from composite resource", "propagate"},
}

// conds projects status.conditions: Synced / Ready / the custom type as "Status:Reason", the step named by the Synced
// message, and the sorted list of all condition types.
func condsOf(u *unstructured.Unstructured, m map[string]any) {
	m["synced"], m["ready"], m["db"], m["step"] = "none", "none", "none", "none"
	ts := []string{}
	cs, _, _ := unstructured.NestedSlice(u.Object, "status", "conditions")
	for _, c := range cs {
		cm, _ := c.(map[string]any)
		t, _ := cm["type"].(string)
		ts = append(ts, t)
		v := fmt.Sprintf("%v:%v", cm["status"], cm["reason"])
		switch t {
		case "Synced":
			m["synced"] = v
			if msg, _ := cm["message"].(string); msg != "" {
				m["step"] = "other"
				for _, p := range stepPrefix {
					if strings.HasPrefix(msg, p[0]) {
						m["step"] = p[1]
					}
				}
				if msg == "Reconciliation (including deletion) is paused via the pause annotation" {
					m["step"] = "paused"
				}
			}
		case "Ready":
			m["ready"] = v
		case customType:
			m["db"] = v
		}
	}
	sort.Strings(ts)
	out := []any{}
	for _, t := range ts {
		out = append(out, t)
	}
	m["conds"] = out
}

func noClaim() map[string]any {
	return map[string]any{"ex": false, "del": false, "paused": false, "fin": false, "ofin": false, "ref": "none", "cdp": "none", "wsec": false,
		"synced": "none", "ready": "none", "db": "none", "step": "none", "conds": []any{}, "pub": "none", "size": "none", "rest": "", "uid": "", "rv": ""}
}

func (w *world) claimProj(u *unstructured.Unstructured) map[string]any {
	m := noClaim()
	if u == nil {
		return m
	}
	m["ex"] = true
	m["uid"], m["rv"] = string(u.GetUID()), u.GetResourceVersion()
	m["del"] = u.GetDeletionTimestamp() != nil
	m["paused"] = u.GetAnnotations()[pausedAnn] == "true"
	var fins []string
	for _, f := range u.GetFinalizers() {
		switch f {
		case claimFin:
			m["fin"] = true
		case otherFin:
			m["ofin"] = true
		default:
			fins = append(fins, f)
		}
	}
	if n, _, _ := unstructured.NestedString(u.Object, "spec", "resourceRef", "name"); n != "" {
		m["ref"] = w.idOf(n)
	}
	if p, _, _ := unstructured.NestedString(u.Object, "spec", "compositeDeletePolicy"); p != "" {
		m["cdp"] = p
	}
	if _, ok, _ := unstructured.NestedMap(u.Object, "spec", "writeConnectionSecretToRef"); ok {
		m["wsec"] = true
	}
	if s, _, _ := unstructured.NestedString(u.Object, "spec", "size"); s != "" {
		m["size"] = s
	}
	if t, _, _ := unstructured.NestedString(u.Object, "status", "connectionDetails", "lastPublishedTime"); t != "" {
		m["pub"] = t
	}
	condsOf(u, m)
	// everything else the controller has no business changing
	ann := map[string]string{}
	for k, v := range u.GetAnnotations() {
		if (k != pausedAnn || v != "true") && k != extNameAnn {
			ann[k] = v
		}
	}
	spec, _, _ := unstructured.NestedMap(u.Object, "spec")
	sp := map[string]any{}
	for k, v := range spec {
		switch k {
		case "resourceRef", "compositionRef", "compositionRevisionRef":
		default:
			sp[k] = v
		}
	}
	b, _ := json.Marshal(map[string]any{"ann": ann, "lab": u.GetLabels(), "own": u.GetOwnerReferences(), "fins": fins, "spec": sp})
	m["rest"] = fmt.Sprintf("%x", sha256.Sum256(b))[:12]
	return m
}

// crefOf classifies the claim reference of an XR: this | other | none.
func crefOf(u *unstructured.Unstructured) string {
	n, ok, _ := unstructured.NestedString(u.Object, "spec", "claimRef", "name")
	if !ok {
		return "none"
	}
	nsp, _, _ := unstructured.NestedString(u.Object, "spec", "claimRef", "namespace")
	k, _, _ := unstructured.NestedString(u.Object, "spec", "claimRef", "kind")
	av, _, _ := unstructured.NestedString(u.Object, "spec", "claimRef", "apiVersion")
	if n == claimName && nsp == ns && k == claimGVK.Kind && av == claimGVK.GroupVersion().String() {
		return "this"
	}
	return "other"
}

func noXR() map[string]any {
	return map[string]any{"id": "none", "ex": false, "del": false, "cref": "none", "fin": false, "fgf": false, "synced": "none", "ready": "none", "db": "none",
		"step": "none", "conds": []any{}, "cct": []any{}, "wsec": false, "size": "none", "uid": "", "rv": ""}
}

func (w *world) xrProj(u *unstructured.Unstructured) map[string]any {
	m := noXR()
	if u == nil || u.GetCreationTimestamp().Time.IsZero() {
		return m
	}
	m["id"] = w.idOf(u.GetName())
	m["ex"] = true
	m["uid"], m["rv"] = string(u.GetUID()), u.GetResourceVersion()
	m["del"] = u.GetDeletionTimestamp() != nil
	m["cref"] = crefOf(u)
	m["fin"] = hasStr(u.GetFinalizers(), xrFin)
	m["fgf"] = hasStr(u.GetFinalizers(), metav1.FinalizerDeleteDependents)
	condsOf(u, m)
	cct, _, _ := unstructured.NestedStringSlice(u.Object, "status", "claimConditionTypes")
	l := []any{}
	for _, t := range cct {
		l = append(l, t)
	}
	m["cct"] = l
	if _, ok, _ := unstructured.NestedMap(u.Object, "spec", "writeConnectionSecretToRef"); ok {
		m["wsec"] = true
	}
	if s, _, _ := unstructured.NestedString(u.Object, "spec", "size"); s != "" {
		m["size"] = s
	}
	return m
}

func secData(u *unstructured.Unstructured) string {
	if u == nil {
		return "none"
	}
	d, _, _ := unstructured.NestedMap(u.Object, "data")
	b, _ := json.Marshal(d)
	return fmt.Sprintf("%x", sha256.Sum256(b))[:8]
}

func ctrlOf(u *unstructured.Unstructured) string {
	if u == nil {
		return "none"
	}
	for _, o := range u.GetOwnerReferences() {
		if o.Controller != nil && *o.Controller {
			return string(o.UID)
		}
	}
	return "none"
}

func (w *world) post() map[string]any {
	var cm map[string]any
	xrs := []any{}
	var xsec, csec *unstructured.Unstructured
	h := sha256.New()
	w.s.Read(func(keys []simapi.Key, all map[simapi.Key]*unstructured.Unstructured) {
		cm = w.claimProj(all[claimKey])
		for _, k := range keys {
			if k == xrdKey || k == crdKey {
				continue
			}
			fmt.Fprintf(h, "%s=%s;", k, all[k].GetResourceVersion())
			if k.Kind == "XThing" {
				xrs = append(xrs, w.xrProj(all[k]))
			}
		}
		xsec, csec = all[xsecKey], all[csecKey]
	})
	sort.Slice(xrs, func(i, j int) bool { return xrs[i].(map[string]any)["id"].(string) < xrs[j].(map[string]any)["id"].(string) })
	if cm["ex"] == true {
		w.lastRef = cm["ref"].(string)
	}
	for _, x := range xrs {
		xm := x.(map[string]any)
		if xm["cref"] == "this" {
			for _, t := range xm["cct"].([]any) {
				w.listed[t.(string)] = true
			}
		}
	}
	everListed := []any{}
	for t := range w.listed {
		everListed = append(everListed, t)
	}
	sort.Slice(everListed, func(i, j int) bool { return everListed[i].(string) < everListed[j].(string) })
	return map[string]any{"cm": cm, "xrs": xrs, "lastRef": w.lastRef, "everListed": everListed,
		"xsec": map[string]any{"ex": xsec != nil, "data": secData(xsec), "ctrl": ctrlOf(xsec)},
		"csec": map[string]any{"ex": csec != nil, "data": secData(csec), "ctrl": ctrlOf(csec)},
		"digest": fmt.Sprintf("%x", h.Sum(nil)[:8])}
}

func noSeen() map[string]any {
	return map[string]any{"got": false, "ex": false, "del": false, "paused": false, "fin": false, "ofin": false, "ref": "none", "cdp": "none", "wsec": false}
}

func noSXR() map[string]any {
	return map[string]any{"asked": false, "got": false, "missed": false, "id": "none", "ex": false, "del": false, "cref": "none", "ready": "none"}
}

func noAtSync() map[string]any {
	return map[string]any{"ok": false, "id": "none", "ready": "none", "db": "none", "cct": []any{}, "conds": []any{}, "synced": "none"}
}

func pick(src map[string]any, def map[string]any) map[string]any {
	out := map[string]any{}
	for k, v := range def {
		out[k] = v
		if src != nil {
			if x, ok := src[k]; ok {
				out[k] = x
			}
		}
	}
	return out
}

func (w *world) emit(ev string, m map[string]any) {
	base := map[string]any{"ev": ev, "scenario": w.scenID, "rec": w.recNo, "syncer": w.syncer, "wiring": w.wiring,
		"verb": "", "kind": "", "abs": "", "cls": "", "phase": "", "target": "none", "outcome": "", "injected": "", "applied": false, "noop": false,
		"seen": pick(w.seen, noSeen()), "sxr": pick(w.sxr, noSXR()), "atsync": pick(w.atsync, noAtSync()),
		"fails": append([]any{}, w.fails...), "syncres": orNone(w.syncres), "upg": orNone(w.upg), "prop": orNone(w.prop), "unpub": orNone(w.unpub),
		"delxr": orNone(w.delxr), "xsecRead": orNone(w.xsecRead), "statusOK": w.statusOK, "evs": append([]any{}, w.evs...), "tags": append([]any{}, w.tags...),
		"result": "", "requeue": false, "after": 0, "faulty": false, "quiet": false, "clean": false, "steady": false,
		"prevDigest": w.prevDig, "prevCmRv": w.prevCmRv, "streak": 0, "everMissed": w.everMissed,
		"icdp": orNone(str(w.init, "cdp")), "ixdef": orNone(str(w.init, "xdef")), "ipre": str(w.init, "pre"), "post": w.post()}
	for k, v := range m {
		base[k] = v
	}
	if a, _ := base["abs"].(string); a != "" {
		base["cls"] = strings.SplitN(a, ":", 2)[0]
	}
	w.buf = append(w.buf, base)
}

// ---------------------------------------------------------------- classification of the real calls

func (w *world) classify(c *simapi.Call) string {
	verb := c.Verb
	switch c.Key.Kind {
	case "Thing":
		switch {
		case verb == "get":
			return "get:claim"
		case verb == "update" && c.Sub == "status":
			return "status:claim"
		case verb == "update":
			return w.classifyUpdate(c.Obj)
		}
		return verb + "-" + c.Sub + ":claim"
	case "XThing":
		switch {
		case verb == "get" && w.phase == "main":
			return "get:xr"
		case verb == "get" && w.phase == "sync":
			// the name generator probes candidate names; the patching applicator reads the XR the claim references
			if cur := w.s.Peek(claimKey); cur != nil {
				if n, _, _ := unstructured.NestedString(cur.Object, "spec", "resourceRef", "name"); n == c.Key.Name {
					return "applyget:xr"
				}
			}
			return "gen:xr"
		case verb == "patch-json":
			return "upgrade:xr"
		case verb == "patch-apply":
			return "apply:xr"
		case verb == "patch-merge":
			return "patch:xr"
		}
		return verb + ":xr"
	case "Secret":
		o := "sec"
		if c.Key == xsecKey {
			o = "xsec"
		} else if c.Key == csecKey {
			o = "csec"
		}
		return verb + ":" + o
	}
	return "other:" + c.Key.Kind
}

// classifyUpdate names an Update of the claim after what its body changes relative to the stored object.
func (w *world) classifyUpdate(body *unstructured.Unstructured) string {
	// outside the syncer the only Updates of the claim are the finalizer's
	if body != nil && w.phase == "main" {
		if hasStr(body.GetFinalizers(), claimFin) {
			return "addfin:claim"
		}
		return "rmfin:claim"
	}
	return "update:claim"
}

func (w *world) intercept(cl *simapi.Call) simapi.Decision {
	abs := w.classify(cl)
	w.pendingAbs = abs
	if w.al == nil {
		return simapi.Proceed
	}
	d := w.al.OnCall(abs, cl.Write)
	if d == simapi.CacheMiss && w.cacheSeen[cl.Key] {
		// the informer of this process has delivered the object already: it cannot miss it any more
		w.al.Injected = simapi.FailError.String()
		return simapi.FailError
	}
	if d == simapi.CacheMiss {
		w.al.Injected = d.String() // (for this module a cache miss is a fault: the reconcile is not "clean")
	}
	if m := w.al.Matched; m != nil && m.F == "conflict" {
		w.al.Injected = simapi.FailConflict.String()
		if cl.Write {
			return simapi.FailConflict
		}
		return simapi.FailError
	}
	return d
}

func (w *world) fail(abs, kind, outcome, injected string) {
	w.fails = append(w.fails, map[string]any{"abs": abs, "cls": strings.SplitN(abs, ":", 2)[0], "kind": kind, "outcome": outcome, "injected": injected, "phase": w.phase})
}

func (w *world) onEvent(e *simapi.Event) {
	if e.Actor != "claim" {
		return
	}
	if e.Outcome == "dropped" && e.Injected == "" {
		return
	}
	abs := w.pendingAbs
	kind := map[string]string{"Thing": "claim", "XThing": "xr", "Secret": "secret"}[e.Kind]
	if kind == "" {
		kind = "other"
	}
	verb := e.Verb
	if e.Sub != "" {
		verb += "-" + e.Sub
	}
	target := "none"
	if e.Kind == "XThing" {
		target = w.idOf(e.Name)
	}
	applied := e.Applied && !e.DryRun
	if e.Verb == "get" && e.Outcome == "ok" {
		w.cacheSeen[simapi.Key{Group: e.Group, Kind: e.Kind, Namespace: e.NS, Name: e.Name}] = true
	}
	answered := (e.Outcome == "ok" || e.Outcome == "notfound") && e.Injected != "crashBefore" && e.Injected != "crashAfter"
	switch {
	case abs == "get:claim" && answered:
		w.seen = w.claimProj(w.s.Peek(claimKey))
		w.seen["got"] = true
		if e.Injected == "cacheMiss" {
			w.seen = noSeen()
			w.seen["got"] = true
		}
	case abs == "get:xr":
		w.sxr = noSXR()
		w.sxr["asked"], w.sxr["id"] = true, target
		if answered {
			w.sxr["got"] = true
			if cur := w.s.Peek(xrKey(e.Name)); cur != nil {
				if e.Injected == "cacheMiss" {
					w.sxr["missed"] = true
					w.everMissed = true
				} else {
					p := w.xrProj(cur)
					for _, k := range []string{"ex", "del", "cref", "ready"} {
						w.sxr[k] = p[k]
					}
				}
			}
		}
	case abs == "get:xsec" && e.Outcome == "ok" && e.Injected == "":
		w.xsecRead = secData(w.s.Peek(xsecKey))
	case abs == "delete:xr":
		w.delxr = e.Outcome
		if e.Injected == "crashBefore" {
			w.delxr = "dropped"
		}
	}
	bad := e.Outcome != "ok"
	// what a caller expects as a regular answer is not a failed call
	if e.Outcome == "notfound" && (e.Injected == "" || e.Injected == "cacheMiss") && (abs == "get:xr" || abs == "gen:xr" || abs == "applyget:xr" || abs == "get:csec" || abs == "delete:xr" || abs == "get:claim" || abs == "upgrade:xr" || abs == "rmfin:claim") {
		bad = false
	}
	if bad {
		w.fail(abs, kind, e.Outcome, e.Injected)
	}
	if abs == "status:claim" && w.phase == "main" && e.Outcome == "ok" && e.Injected == "" {
		w.statusOK = true
	}
	if dump {
		fmt.Fprintf(os.Stderr, "  %s rec %d #%d %-16s %-14s %s/%s -> %s inj=%q applied=%v noop=%v phase=%s\n", w.scenID, w.recNo, e.Idx, abs, verb, e.Kind, e.Name, e.Outcome, e.Injected, applied, e.Noop, w.phase)
	}
	w.emit("call", map[string]any{"verb": verb, "kind": kind, "abs": abs, "phase": w.phase, "target": target, "outcome": e.Outcome, "injected": e.Injected,
		"applied": applied, "noop": e.Noop})
}

// ---------------------------------------------------------------- reconciles

type sweep struct {
	rec, idx int
	d        simapi.Decision
}

func (w *world) reconcile(al *replay.Aligner, sw *sweep) int {
	w.recNo++
	al.Window = 0
	w.al = al
	w.seen, w.sxr, w.atsync, w.fails, w.evs, w.tags = nil, nil, nil, nil, nil, nil
	w.syncres, w.upg, w.prop, w.unpub, w.delxr, w.xsecRead, w.statusOK, w.phase = "", "", "", "", "", "", false, "main"
	w.c.BeginReconcile()
	inner := w.intercept
	icpt := inner
	if sw != nil && sw.rec == w.recNo {
		icpt = func(cl *simapi.Call) simapi.Decision {
			d := inner(cl)
			if cl.Idx == sw.idx && d == simapi.Proceed {
				sd := sw.d
				if (sd == simapi.FailConflict || sd == simapi.CrashAfter) && !cl.Write {
					sd = simapi.FailError
				}
				if sd == simapi.CacheMiss && (cl.Write || cl.Verb != "get" || w.cacheSeen[cl.Key]) {
					sd = simapi.FailError
				}
				al.Injected = sd.String()
				return sd
			}
			return d
		}
	}
	w.c.Intercept = icpt
	w.emit("start", nil)
	res, err := w.rec.Reconcile(context.Background(), reconcile.Request{NamespacedName: types.NamespacedName{Namespace: ns, Name: claimName}})
	calls := w.c.Calls()
	envBefore := al.EnvSteps
	result := "ok"
	crashed := w.c.Dead()
	if crashed {
		result = "crashed"
	} else if err != nil {
		result = "error"
	}
	faulty := al.Injected != ""
	quiet := envBefore == 0
	p := w.post()
	thisOK := !faulty && quiet && !crashed
	if thisOK && w.prevOK {
		w.streak++
	} else if thisOK {
		w.streak = 1
	} else {
		w.streak = 0
	}
	steady := w.streak >= 3
	if dump {
		fmt.Fprintf(os.Stderr, "  %s rec %d END %s requeue=%v after=%v err=%v evs=%v\n     cm=%v\n     xrs=%v\n", w.scenID, w.recNo, result, res.Requeue, res.RequeueAfter, err, w.tags, p["cm"], p["xrs"])
	}
	w.emit("end", map[string]any{"result": result, "requeue": res.Requeue, "after": int(res.RequeueAfter / time.Millisecond),
		"faulty": faulty, "quiet": quiet, "clean": thisOK, "steady": steady, "streak": w.streak})
	al.Finish()
	w.prevOK = thisOK && al.EnvSteps == envBefore
	w.prevDig = p["digest"].(string)
	w.prevCmRv = p["cm"].(map[string]any)["rv"].(string)
	w.al = nil
	w.c.Intercept = inner
	if crashed {
		w.cacheSeen = map[simapi.Key]bool{}
		w.build() // the process is gone: a new one has its offered reconciler start the claim controller again
	}
	return calls
}

type summary struct {
	Scenarios  int            `json:"scenarios"`
	Runs       int            `json:"runs"`
	Reconciles int            `json:"reconciles"`
	Events     int            `json:"events"`
	Drift      int            `json:"drift"`
	DriftRuns  int            `json:"drift_runs"`
	SweepRuns  int            `json:"sweep_runs"`
	BySyncer   map[string]int `json:"runs_by_syncer"`
	DriftByAbs map[string]int `json:"drift_by_abs"`
	DriftEx    []string       `json:"drift_examples"`
	Counts     map[string]int `json:"counts"`
	Samples    []any          `json:"samples"`
}

func run(tw *trace.Writer, id string, hist []replay.Entry, sw *sweep, extra int, sum *summary) []int {
	w := newWorld(id, hist[0].Raw)
	w.emit("reset", nil)
	blocks, trailing := replay.Split(hist[1:], func(e replay.Entry) bool { return e.Abs() == "get:claim" })
	var calls []int
	drift := 0
	for _, b := range blocks {
		for _, e := range b.Pre {
			w.env(e)
		}
		al := &replay.Aligner{Steps: append([]replay.Entry(nil), b.Steps...), Env: w.env}
		calls = append(calls, w.reconcile(al, sw))
		if sw == nil {
			drift += al.Drift
			for _, k := range al.DriftAbs {
				sum.DriftByAbs[k]++
			}
			if al.Drift > 0 && len(sum.DriftEx) < 30 {
				sum.DriftEx = append(sum.DriftEx, fmt.Sprintf("%s rec %d: %s", id, w.recNo, strings.Join(al.DriftAbs, " ")))
			}
		}
		sum.Reconciles++
	}
	for _, e := range trailing {
		w.env(e)
	}
	for i := 0; i < extra; i++ {
		al := &replay.Aligner{Env: w.env}
		calls = append(calls, w.reconcile(al, sw))
		sum.Reconciles++
	}
	tw.Boundary()
	for _, e := range w.buf {
		tw.Emit(e)
	}
	sum.Runs++
	sum.BySyncer[w.syncer]++
	if sw == nil {
		sum.Drift += drift
		if drift > 0 {
			sum.DriftRuns++
		}
	}
	return calls
}

func main() {
	scenarios := flag.String("scenarios", "", "NDJSON file of TLC histories")
	tracePath := flag.String("trace", "", "output trace")
	sumPath := flag.String("summary", "", "output summary JSON")
	chunk := flag.Int("chunk", 0, "split the trace into files of about this many events")
	sweepN := flag.Int("sweep", 0, "number of scenarios to sweep over every real call index x outcome")
	extraN := flag.Int("extra", 3, "fault-free reconciles appended to every scenario")
	flag.BoolVar(&dump, "dump", false, "print every real call to stderr")
	flag.Parse()

	raws, err := scen.Load(*scenarios)
	if err != nil {
		fmt.Fprintln(os.Stderr, err)
		os.Exit(2)
	}
	tw, err := trace.New(*tracePath, *chunk)
	if err != nil {
		fmt.Fprintln(os.Stderr, err)
		os.Exit(2)
	}
	sum := &summary{DriftByAbs: map[string]int{}, BySyncer: map[string]int{}, DriftEx: []string{}, Samples: []any{}}
	dec := map[string]simapi.Decision{"error": simapi.FailError, "conflict": simapi.FailConflict, "crashBefore": simapi.CrashBefore,
		"crashAfter": simapi.CrashAfter, "cacheMiss": simapi.CacheMiss}
	for i, raw := range raws {
		var sc struct {
			ID    string          `json:"id"`
			Hist  json.RawMessage `json:"hist"`
			Extra *int            `json:"extra"`
			Sweep *struct {
				Rec     int    `json:"rec"`
				Idx     int    `json:"idx"`
				Outcome string `json:"outcome"`
			} `json:"sweep"`
		}
		if err := json.Unmarshal(raw, &sc); err != nil {
			fmt.Fprintln(os.Stderr, "bad scenario:", err)
			os.Exit(2)
		}
		hist, err := replay.Parse(sc.Hist)
		if err != nil || len(hist) == 0 || hist[0].T != "init" {
			fmt.Fprintln(os.Stderr, "bad scenario history:", err)
			os.Exit(2)
		}
		sum.Scenarios++
		if len(sum.Samples) < 2 && len(hist) > 5 {
			sum.Samples = append(sum.Samples, json.RawMessage(raw))
		}
		ex := *extraN
		if sc.Extra != nil {
			ex = *sc.Extra
		}
		if sc.Sweep != nil {
			run(tw, sc.ID, hist, &sweep{rec: sc.Sweep.Rec, idx: sc.Sweep.Idx, d: dec[sc.Sweep.Outcome]}, ex, sum)
			continue
		}
		calls := run(tw, sc.ID, hist, nil, ex, sum)
		if i < *sweepN {
			for r, n := range calls {
				for k := 1; k <= n; k++ {
					for _, d := range []simapi.Decision{simapi.FailError, simapi.FailConflict, simapi.CrashBefore, simapi.CrashAfter, simapi.CacheMiss} {
						run(tw, fmt.Sprintf("%s/sweep-r%d-k%d-%s", sc.ID, r+1, k, d), hist, &sweep{rec: r + 1, idx: k, d: d}, ex, sum)
						sum.SweepRuns++
					}
				}
			}
		}
	}
	sum.Events = tw.Lines
	sum.Counts = tw.Counts
	if err := tw.Close(); err != nil {
		fmt.Fprintln(os.Stderr, err)
		os.Exit(2)
	}
	if err := scen.WriteJSON(*sumPath, sum); err != nil {
		fmt.Fprintln(os.Stderr, err)
		os.Exit(2)
	}
}
