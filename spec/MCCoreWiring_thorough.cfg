SPECIFICATION Spec
CONSTANTS
  FlagSets <- AllFlags
  PollChoices <- Polls2
  ConcChoices <- Concs3
  ClaimChoices <- Both
  KeyChoices <- Both
  AllowChoices <- Allows2
  RegChoices <- Regs2
ACTION_CONSTRAINT Emit
CHECK_DEADLOCK FALSE
INVARIANTS RefLocality RefMonotone RefBaseline RefNeverBlind
