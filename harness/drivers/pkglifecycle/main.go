// Driver for spec/PkgLifecycle.tla (X07): replays TLC behaviours against the REAL package
// manager reconciler (internal/controller/pkg/manager) and the REAL package revision
// reconciler (internal/controller/pkg/revision) running in one world on simapi, with the real
// ImageConfig store (internal/xpkg/config.go), the real PackageRevisioner, the real
// ImageBackend, the real package parser and Provider linter, the real
// PackageDependencyManager (the Lock) and the real APIFinalizer / APIPatchingApplicator.
// The cores other modules cover are recording fakes at the seams the reconcilers offer:
// registry fetcher (Head / Fetch), package cache, Establisher, runtime hooks; parser and
// linter are the real ones behind a wrapper that can make them fail.
// One trace event per API call / seam call / environment step / reconcile end, each with the
// projected abstract state.  No property logic here: the verdict comes from
// spec/MonPkgLifecycle.tla.
package main

import (
	"archive/tar"
	"bytes"
	"context"
	"crypto/sha256"
	"encoding/json"
	"errors"
	"flag"
	"fmt"
	"io"
	"os"
	"runtime/pprof"
	"sort"
	"strings"
	"sync"
	"time"

	"github.com/google/go-containerregistry/pkg/name"
	ggcr "github.com/google/go-containerregistry/pkg/v1"
	"github.com/google/go-containerregistry/pkg/v1/empty"
	"github.com/google/go-containerregistry/pkg/v1/mutate"
	"github.com/google/go-containerregistry/pkg/v1/tarball"
	corev1 "k8s.io/api/core/v1"
	extv1 "k8s.io/apiextensions-apiserver/pkg/apis/apiextensions/v1"
	kerrors "k8s.io/apimachinery/pkg/api/errors"
	metav1 "k8s.io/apimachinery/pkg/apis/meta/v1"
	"k8s.io/apimachinery/pkg/apis/meta/v1/unstructured"
	kruntime "k8s.io/apimachinery/pkg/runtime"
	"k8s.io/apimachinery/pkg/runtime/schema"
	"k8s.io/apimachinery/pkg/types"
	"k8s.io/utils/ptr"
	"sigs.k8s.io/controller-runtime/pkg/reconcile"

	xpv1 "github.com/crossplane/crossplane-runtime/apis/common/v1"
	xperrors "github.com/crossplane/crossplane-runtime/pkg/errors"
	"github.com/crossplane/crossplane-runtime/pkg/event"
	"github.com/crossplane/crossplane-runtime/pkg/feature"
	"github.com/crossplane/crossplane-runtime/pkg/parser"

	pkgmetav1 "github.com/crossplane/crossplane/apis/pkg/meta/v1"
	pkgv1 "github.com/crossplane/crossplane/apis/pkg/v1"
	pkgv1alpha1 "github.com/crossplane/crossplane/apis/pkg/v1alpha1"
	pkgv1beta1 "github.com/crossplane/crossplane/apis/pkg/v1beta1"
	"github.com/crossplane/crossplane/internal/controller/pkg/manager"
	"github.com/crossplane/crossplane/internal/controller/pkg/revision"
	"github.com/crossplane/crossplane/internal/dag"
	"github.com/crossplane/crossplane/internal/features"
	"github.com/crossplane/crossplane/internal/version"
	"github.com/crossplane/crossplane/internal/xpkg"
	"github.com/crossplane/crossplane/zzverif/fakes"
	"github.com/crossplane/crossplane/zzverif/replay"
	"github.com/crossplane/crossplane/zzverif/scen"
	"github.com/crossplane/crossplane/zzverif/simapi"
	"github.com/crossplane/crossplane/zzverif/trace"
)

const (
	pkgName   = "pkg"
	namespace = "crossplane-system"
	xpSA      = "crossplane"
	ourFin    = "revision.pkg.crossplane.io"
	otherFin  = "example.org/keep"
	pausedAnn = "crossplane.io/paused"
	touchAnn  = "example.org/touched"
	metaLabel = "pkg.example.org/from-meta"
	userLabel = "example.org/user"
	repo      = "r.io/o/p"
	metaName  = "provider-x"
	pullWait  = 60000
)

var (
	pkgKey  = simapi.Key{Group: "pkg.crossplane.io", Kind: "Provider", Name: pkgName}
	lockKey = simapi.Key{Group: "pkg.crossplane.io", Kind: "Lock", Name: "lock"}
	revGK   = schema.GroupKind{Group: "pkg.crossplane.io", Kind: "ProviderRevision"}
	icGK    = schema.GroupKind{Group: "pkg.crossplane.io", Kind: "ImageConfig"}
	revs    = []string{"r1", "r2"}
	// tag of the source <-> revision alias
	tagOf = map[string]string{"r1": "v1", "r2": "v2"}

	metaScheme, objScheme *kruntime.Scheme
)

// the ImageConfigs the environment may create: prefixes and pull secret ("" = no registry authentication: a
// verification-only config that PullSecretFor has to skip)
type icAttr struct {
	prefixes []string
	secret   string
}

var icTable = map[string]icAttr{
	"ica": {[]string{"r.io/"}, "sa"},              // short prefix
	"icb": {[]string{"r.io/o/p"}, "sb"},           // longer
	"icc": {[]string{"r.io/o/p"}, "sc"},           // a tie with icb
	"icd": {[]string{"r.io/o/p:v1"}, "sd"},        // the longest, for source s1 only
	"icv": {[]string{"r.io/o/p:v"}, ""},           // longer than icb, but verification only
	"icm": {[]string{"zzz", "r.io/o"}, "sm"},      // several prefixes, the second one matches
	"icn": {[]string{"q.io/", "r.io/o/p2"}, "sn"}, // no prefix matches (the second is a look-alike)
}

func init() {
	metaScheme, _ = xpkg.BuildMetaScheme()
	objScheme, _ = xpkg.BuildObjectScheme()
}

func hexOf(tag string) string     { return strings.Repeat(tag[1:], 1) + strings.Repeat("0", 63) }
func revName(alias string) string { return xpkg.FriendlyID(pkgName, hexOf(tagOf[alias])) }
func source(s string) string {
	switch s {
	case "s1":
		return repo + ":v1"
	case "s2":
		return repo + ":v2"
	}
	return s
}
func srcToken(src string) string {
	switch src {
	case repo + ":v1":
		return "s1"
	case repo + ":v2":
		return "s2"
	case "":
		return "none"
	}
	return src
}
func aliasOfName(n string) string {
	for _, a := range revs {
		if revName(a) == n {
			return a
		}
	}
	if n == "" {
		return "none"
	}
	return "other:" + n
}
func revKey(alias string) simapi.Key {
	return simapi.Key{Group: "pkg.crossplane.io", Kind: "ProviderRevision", Name: revName(alias)}
}
func icKey(n string) simapi.Key {
	return simapi.Key{Group: "pkg.crossplane.io", Kind: "ImageConfig", Name: n}
}
func drcKey(n string) simapi.Key {
	return simapi.Key{Group: "pkg.crossplane.io", Kind: "DeploymentRuntimeConfig", Name: n}
}

// ---------------------------------------------------------------- package content and images

func packageStream(compat bool) []byte {
	var b strings.Builder
	b.WriteString("apiVersion: meta.pkg.crossplane.io/v1\nkind: Provider\nmetadata:\n  name: " + metaName + "\n  labels:\n    " + metaLabel + ": \"yes\"\nspec:\n")
	if !compat {
		b.WriteString("  crossplane:\n    version: \">=v99.0.0\"\n")
	}
	b.WriteString("  controller:\n    image: r.io/o/p-runtime:v1\n")
	crd := &extv1.CustomResourceDefinition{TypeMeta: metav1.TypeMeta{APIVersion: "apiextensions.k8s.io/v1", Kind: "CustomResourceDefinition"},
		ObjectMeta: metav1.ObjectMeta{Name: "things.example.org"},
		Spec: extv1.CustomResourceDefinitionSpec{Group: "example.org", Scope: extv1.ClusterScoped,
			Names: extv1.CustomResourceDefinitionNames{Plural: "things", Singular: "thing", Kind: "Thing", ListKind: "ThingList"},
			Versions: []extv1.CustomResourceDefinitionVersion{{Name: "v1", Served: true, Storage: true,
				Schema: &extv1.CustomResourceValidation{OpenAPIV3Schema: &extv1.JSONSchemaProps{Type: "object"}}}}}}
	j, _ := json.Marshal(crd)
	b.WriteString("---\n")
	b.Write(j)
	b.WriteString("\n")
	return []byte(b.String())
}

var imgCache = map[bool]ggcr.Image{}

// image builds a package image with one annotated base layer holding package.yaml.
func image(compat bool) ggcr.Image {
	if im, ok := imgCache[compat]; ok {
		return im
	}
	data := packageStream(compat)
	var buf bytes.Buffer
	tw := tar.NewWriter(&buf)
	_ = tw.WriteHeader(&tar.Header{Name: xpkg.StreamFile, Mode: int64(xpkg.StreamFileMode), Size: int64(len(data))})
	_, _ = tw.Write(data)
	_ = tw.Close()
	b := buf.Bytes()
	l, err := tarball.LayerFromOpener(func() (io.ReadCloser, error) { return io.NopCloser(bytes.NewReader(b)), nil })
	if err != nil {
		panic(err)
	}
	im, err := mutate.Append(empty.Image, mutate.Addendum{Layer: l, Annotations: map[string]string{"io.crossplane.xpkg": "base"}})
	if err != nil {
		panic(err)
	}
	imgCache[compat] = im
	return im
}

// ---------------------------------------------------------------- the world

type world struct {
	s        *simapi.Server
	sch      *kruntime.Scheme
	mc, rcl  *simapi.Client // the clients of the package manager / of the revision controller
	mgr, rev reconcile.Reconciler
	scenID   string
	buf      []map[string]any
	compat   map[string]bool // revision alias -> its image is compatible with the running Crossplane

	mu    sync.Mutex
	cache map[string][]byte // package cache: id -> content
	ctl   string            // recording establisher: the revision that controls the package's objects
	owns  map[string]bool   // ... and the revisions that own them

	al    *replay.Aligner
	recNo int
	actor string // "mgr" | "rev" | "" (between reconciles)
	tgt   string // the revision the revision reconciler handles

	// per reconcile
	seen       map[string]any
	seenSrc    string // spec.package / spec.image as the reconcile read it
	listed     []any
	configs    []any
	cur        string
	stages     []any
	fails      []any
	evs        []any
	statusOK   bool
	pendingAbs string
	created    bool // the manager created a revision in this reconcile

	lastClean    map[string]string // actor/target -> digest of the world after its last clean reconcile
	contents     map[string]string // key@resourceVersion -> content hash
	chg          map[string]int    // Kind/name -> accepted writes that changed the object
	envSeq       int               // environment steps so far
	lastCleaning map[string]bool
	lastWatch    map[string]string // actor/target -> digest of what it watches, as of its last reconcile
	again        map[string]bool   // actor/target -> its last reconcile failed / asked for a requeue
	touched      int
	moved        int  // reconciles that changed the store
	verbose      bool // record every call of the settle rounds too
	settling     bool // the fault-free rounds after the scenario: only reconcile ends are recorded
}

func orNone(s string) string {
	if s == "" {
		return "none"
	}
	return s
}

func (w *world) client() *simapi.Client {
	if w.actor == "rev" {
		return w.rcl
	}
	return w.mc
}

// ---------------------------------------------------------------- projection

func labTok(m map[string]string) string {
	switch {
	case len(m) == 0:
		return "none"
	case len(m) == 2 && m["team"] == "x" && m["tier"] == "one":
		return "x"
	case len(m) == 1 && m["team"] == "y":
		return "y"
	case len(m) == 2 && m["team"] == "y" && m["tier"] == "one":
		return "xy"
	}
	b, _ := json.Marshal(m)
	return "other:" + string(b)
}

func labMap(tok string) map[string]any {
	switch tok {
	case "x":
		return map[string]any{"team": "x", "tier": "one"}
	case "y":
		return map[string]any{"team": "y"}
	}
	return nil
}

func nestedStrMap(o map[string]any, f ...string) map[string]string {
	m, _, _ := unstructured.NestedStringMap(o, f...)
	return m
}

func secNames(u *unstructured.Unstructured) []any {
	out := []any{}
	l, _, _ := unstructured.NestedSlice(u.Object, "spec", "packagePullSecrets")
	for _, e := range l {
		if m, ok := e.(map[string]any); ok {
			n, _ := m["name"].(string)
			out = append(out, n)
		}
	}
	return out
}

func joinAny(l []any) string {
	if len(l) == 0 {
		return "none"
	}
	s := make([]string, len(l))
	for i, e := range l {
		s[i] = fmt.Sprint(e)
	}
	return strings.Join(s, ",")
}

func short(b []byte) string { return fmt.Sprintf("%x", sha256.Sum256(b))[:10] }

var revStep = [][2]string{
	{"cannot get image pull secret from config", "listic"},
	{"cannot prepare runtime manifest builder options", "options"},
	{"failed to get pre-cached package with pull policy Never", "never"},
	{"cannot initialize parser backend", "fetch"},
	{"cannot parse package contents", "parse"},
	{"linting package contents failed", "lint"},
	{"cannot install package with multiple meta types", "onemeta"},
	{"cannot update package revision object metadata", "meta"},
	{"incompatible Crossplane version", "incompat"},
	{"cannot resolve package dependencies", "resolve"},
	{"pre establish runtime hook failed", "pre"},
	{"cannot establish control of object", "establish"},
	{"post establish runtime hook failed", "post"},
}
var pkgStep = [][2]string{
	{"cannot get image pull secret from config", "pullconfig"},
	{"cannot unpack package", "unpack"},
	{"Waiting for unpack to complete", "waiting"},
	{"Package is inactive", "inactive"},
}

func stepOf(msg string, table [][2]string) string {
	if msg == "" {
		return "none"
	}
	for _, p := range table {
		if strings.HasPrefix(msg, p[0]) {
			return p[1]
		}
	}
	return "other"
}

// specFields projects the fields the package hands down to its revisions (same names on both kinds).
func specFields(u *unstructured.Unstructured, m map[string]any) {
	m["pull"], m["ign"], m["skip"], m["rtc"], m["ccr"] = "none", "none", "none", "none", "none"
	if v, ok, _ := unstructured.NestedString(u.Object, "spec", "packagePullPolicy"); ok {
		m["pull"] = v
	}
	if v, ok, _ := unstructured.NestedBool(u.Object, "spec", "ignoreCrossplaneConstraints"); ok {
		m["ign"] = fmt.Sprint(v)
	}
	if v, ok, _ := unstructured.NestedBool(u.Object, "spec", "skipDependencyResolution"); ok {
		m["skip"] = fmt.Sprint(v)
	}
	if v, ok, _ := unstructured.NestedString(u.Object, "spec", "runtimeConfigRef", "name"); ok {
		m["rtc"] = v
	}
	if v, ok, _ := unstructured.NestedString(u.Object, "spec", "controllerConfigRef", "name"); ok {
		m["ccr"] = v
	}
	m["lab"] = labTok(nestedStrMap(u.Object, "spec", "commonLabels"))
	m["sec"] = joinAny(secNames(u))
}

func conditions(u *unstructured.Unstructured, m map[string]any, table [][2]string) {
	m["synced"], m["inst"], m["istep"], m["healthy"], m["hstep"], m["hmsg"], m["nconds"] = "none", "none", "none", "none", "none", "none", 0
	cs, _, _ := unstructured.NestedSlice(u.Object, "status", "conditions")
	m["nconds"] = len(cs)
	for _, c := range cs {
		cm, _ := c.(map[string]any)
		msg, _ := cm["message"].(string)
		v := fmt.Sprintf("%v:%v", cm["status"], cm["reason"])
		switch cm["type"] {
		case "Synced":
			m["synced"] = v
		case "Installed":
			m["inst"] = v
			m["istep"] = stepOf(msg, pkgStep)
		case "Healthy":
			m["healthy"] = v
			m["hstep"] = stepOf(msg, table)
			if msg != "" {
				m["hmsg"] = short([]byte(msg))
			}
		}
	}
}

func noPkg() map[string]any {
	return map[string]any{"ex": false, "paused": false, "del": false, "src": "none", "pull": "none", "ign": "none", "skip": "none", "rtc": "none", "ccr": "none",
		"lab": "none", "sec": "none", "pol": "none", "synced": "none", "inst": "none", "istep": "none", "healthy": "none", "hstep": "none",
		"hmsg": "none", "nconds": 0, "curRev": "none", "curId": "none", "rest": ""}
}

func pkgProj(u *unstructured.Unstructured) map[string]any {
	m := noPkg()
	if u == nil {
		return m
	}
	m["ex"] = true
	m["paused"] = u.GetAnnotations()[pausedAnn] == "true"
	m["del"] = u.GetDeletionTimestamp() != nil
	src, _, _ := unstructured.NestedString(u.Object, "spec", "package")
	m["src"] = srcToken(src)
	specFields(u, m)
	delete(m, "secs")
	if v, ok, _ := unstructured.NestedString(u.Object, "spec", "revisionActivationPolicy"); ok {
		m["pol"] = v
	}
	conditions(u, m, revStep)
	if v, _, _ := unstructured.NestedString(u.Object, "status", "currentRevision"); v != "" {
		m["curRev"] = aliasOfName(v)
	}
	if v, _, _ := unstructured.NestedString(u.Object, "status", "currentIdentifier"); v != "" {
		m["curId"] = srcToken(v)
	}
	// everything else the controller has no business changing
	ann := map[string]string{}
	for k, v := range u.GetAnnotations() {
		if k != pausedAnn || v != "true" {
			ann[k] = v
		}
	}
	spec, _, _ := unstructured.NestedMap(u.Object, "spec")
	b, _ := json.Marshal(map[string]any{"ann": ann, "lab": u.GetLabels(), "fin": u.GetFinalizers(), "own": u.GetOwnerReferences(), "spec": spec})
	m["rest"] = short(b)
	return m
}

func noRev(alias string) map[string]any {
	return map[string]any{"name": alias, "ex": false, "del": false, "paused": false, "fin": false, "ofin": false, "ctrl": "none", "bod": false, "plab": "none",
		"des": "none", "src": "none", "pull": "none", "ign": "none", "skip": "none", "rtc": "none", "ccr": "none", "lab": "none", "sec": "none",
		"refs": 0, "synced": "none", "healthy": "none", "hstep": "none", "hmsg": "none", "nconds": 0,
		"mlab": false, "ulab": false, "rest": ""}
}

func (w *world) revProj(alias string, u *unstructured.Unstructured, puid types.UID) map[string]any {
	m := noRev(alias)
	if u == nil {
		return m
	}
	m["ex"] = true
	m["del"] = u.GetDeletionTimestamp() != nil
	m["paused"] = u.GetAnnotations()[pausedAnn] == "true"
	var fins []string
	for _, f := range u.GetFinalizers() {
		switch f {
		case ourFin:
			m["fin"] = true
		case otherFin:
			m["ofin"] = true
		default:
			fins = append(fins, f)
		}
	}
	if c := metav1.GetControllerOf(u); c != nil {
		m["ctrl"] = "foreign"
		if puid != "" && c.UID == puid {
			m["ctrl"] = "pkg"
		}
		m["bod"] = c.BlockOwnerDeletion != nil && *c.BlockOwnerDeletion
	}
	m["plab"] = orNone(u.GetLabels()[pkgv1.LabelParentPackage])
	m["mlab"] = u.GetLabels()[metaLabel] == "yes"
	m["ulab"] = u.GetLabels()[userLabel] == "kept"
	if v, ok, _ := unstructured.NestedString(u.Object, "spec", "desiredState"); ok {
		m["des"] = v
		if v == "" {
			m["des"] = "empty"
		}
	}
	src, _, _ := unstructured.NestedString(u.Object, "spec", "image")
	m["src"] = srcToken(src)
	specFields(u, m)
	delete(m, "secs")
	refs, _, _ := unstructured.NestedSlice(u.Object, "status", "objectRefs")
	m["refs"] = len(refs)
	conditions(u, m, revStep)
	delete(m, "inst")
	delete(m, "istep")
	ann := map[string]string{}
	for k, v := range u.GetAnnotations() {
		if k != pausedAnn || v != "true" {
			ann[k] = v
		}
	}
	lab := map[string]string{}
	for k, v := range u.GetLabels() {
		if k != pkgv1.LabelParentPackage && k != metaLabel && k != userLabel {
			lab[k] = v
		}
	}
	b, _ := json.Marshal(map[string]any{"ann": ann, "lab": lab, "fin": fins})
	m["rest"] = short(b)
	return m
}

func (w *world) post() map[string]any {
	var pk map[string]any
	rv := []any{}
	lock := map[string]any{"ex": false, "entries": []any{}}
	ics := []any{}
	drcs := []any{}
	h := sha256.New()
	w.s.Read(func(keys []simapi.Key, all map[simapi.Key]*unstructured.Unstructured) {
		p := all[pkgKey]
		pk = pkgProj(p)
		var puid types.UID
		if p != nil {
			puid = p.GetUID()
		}
		for _, a := range revs {
			rv = append(rv, w.revProj(a, all[revKey(a)], puid))
		}
		for _, k := range keys {
			fmt.Fprintf(h, "%s=%s;", k, all[k].GetResourceVersion())
			switch k.Kind {
			case "ImageConfig":
				ics = append(ics, k.Name)
			case "DeploymentRuntimeConfig":
				drcs = append(drcs, k.Name)
			}
		}
		if l := all[lockKey]; l != nil {
			lock["ex"] = true
			es := []any{}
			ps, _, _ := unstructured.NestedSlice(l.Object, "packages")
			for _, e := range ps {
				if m, ok := e.(map[string]any); ok {
					n, _ := m["name"].(string)
					es = append(es, aliasOfName(n))
				}
			}
			lock["entries"] = es
		}
	})
	w.mu.Lock()
	cache, owns := w.cacheList(), w.ownsList()
	fmt.Fprintf(h, "cache=%v;ctl=%s;owns=%v", cache, w.ctl, owns)
	est := map[string]any{"ctl": orNone(w.ctl), "owns": owns}
	w.mu.Unlock()
	imgs := map[string]any{}
	for _, a := range revs {
		imgs[a] = w.compat[a]
	}
	return map[string]any{"pkg": pk, "revs": rv, "lock": lock, "cache": cache, "ics": ics, "drcs": drcs, "est": est, "compat": imgs,
		"digest": fmt.Sprintf("%x", h.Sum(nil)[:8])}
}

func noSeen() map[string]any {
	return map[string]any{"got": false, "ex": false, "del": false, "paused": false, "pcond": false, "fin": false, "des": "none", "refs": 0, "src": "none",
		"pull": "none", "ign": "none", "skip": "none", "rtc": "none", "ccr": "none", "lab": "none", "secs": []any{}, "sec": "none", "pol": "none",
		"healthy": "none", "curRev": "none", "curId": "none", "ctrl": "none"}
}

func seenFrom(p map[string]any, u *unstructured.Unstructured) map[string]any {
	m := noSeen()
	if u != nil {
		m["secs"] = secNames(u)
	}
	for k := range m {
		if v, ok := p[k]; ok {
			m[k] = v
		}
	}
	m["got"] = true
	m["pcond"] = p["synced"] == "False:ReconcilePaused"
	return m
}

func noArg() map[string]any {
	return map[string]any{"control": false, "fin": false, "des": "none", "secrets": []any{}, "src": []any{}, "nrefs": 0}
}

func (w *world) emit(ev string, m map[string]any) {
	if w.settling && ev != "end" && ev != "settled" {
		return
	}
	seen := w.seen
	if seen == nil {
		seen = noSeen()
	}
	base := map[string]any{"ev": ev, "scenario": w.scenID, "actor": orNone(w.actor), "tgt": orNone(w.tgt), "rec": w.recNo,
		"verb": "", "kind": "", "name": "none", "abs": "", "cls": "", "outcome": "", "injected": "", "applied": false, "noop": false,
		"seen": seen, "listed": append([]any{}, w.listed...), "configs": []any{}, "cur": orNone(w.cur), "stages": append([]any{}, w.stages...),
		"fails": append([]any{}, w.fails...), "evs": append([]any{}, w.evs...), "statusOK": w.statusOK, "created": w.created, "arg": noArg(),
		"result": "", "requeue": false, "after": 0, "faulty": false, "quiet": false, "clean": false, "steady": false, "prevCleaning": false, "stable": false, "rounds": 0,
		"prevDigest": "", "post": w.post()}
	for k, v := range m {
		base[k] = v
	}
	if a, _ := base["abs"].(string); a != "" {
		base["cls"] = strings.SplitN(a, ":", 2)[0]
	}
	w.buf = append(w.buf, base)
}

func chars(s string) []any {
	out := make([]any, 0, len(s))
	for _, c := range s {
		out = append(out, string(c))
	}
	return out
}

// ---------------------------------------------------------------- classification of the real calls

func (w *world) classify(c *simapi.Call) string {
	verb := c.Verb
	switch c.Key.Kind {
	case "Provider":
		if c.Sub == "status" {
			return "status:pkg"
		}
		return verb + ":pkg"
	case "ProviderRevision":
		if verb == "list" {
			return "list:rev"
		}
		a := aliasOfName(c.Key.Name)
		if c.Actor == "mgr" {
			switch {
			case verb == "get":
				return "aget:" + a
			case strings.HasPrefix(verb, "patch"):
				return "patch:" + a
			}
			return verb + ":" + a
		}
		switch {
		case c.Sub == "status":
			return "status:" + a
		case verb == "update":
			return w.classifyUpdate(a, c.Obj) + ":" + a
		}
		return verb + ":" + a
	case "ImageConfig":
		return verb + ":ic"
	case "DeploymentRuntimeConfig":
		return verb + ":drc"
	case "ControllerConfig":
		return verb + ":cc"
	case "ServiceAccount":
		return verb + ":sa"
	case "Lock":
		return verb + ":lock"
	}
	return "other:" + c.Key.Kind
}

// classifyUpdate names an Update of a revision by the revision reconciler after what its body does to our finalizer.
func (w *world) classifyUpdate(alias string, body *unstructured.Unstructured) string {
	if body == nil {
		return "update"
	}
	has := false
	for _, f := range body.GetFinalizers() {
		if f == ourFin {
			has = true
		}
	}
	had := false
	if cur := w.s.Peek(revKey(alias)); cur != nil {
		for _, f := range cur.GetFinalizers() {
			if f == ourFin {
				had = true
			}
		}
	} else if w.seen != nil {
		had, _ = w.seen["fin"].(bool)
	}
	switch {
	case has && !had:
		return "addfin"
	case !has && had:
		return "rmfin"
	}
	return "meta"
}

func (w *world) intercept(cl *simapi.Call) simapi.Decision {
	abs := w.classify(cl)
	w.pendingAbs = abs
	if w.al == nil {
		return simapi.Proceed
	}
	d := w.al.OnCall(abs, cl.Write)
	if m := w.al.Matched; m != nil && m.F != "ok" {
		w.al.Injected = m.F
		if m.F == "conflict" {
			if cl.Write {
				return simapi.FailConflict
			}
			return simapi.FailError
		}
	}
	return d
}

func (w *world) fail(abs, kind, outcome string) {
	w.fails = append(w.fails, map[string]any{"abs": abs, "cls": strings.SplitN(abs, ":", 2)[0], "kind": kind, "outcome": outcome})
}

var kindOf = map[string]string{"Provider": "pkg", "ProviderRevision": "rev", "ImageConfig": "ic", "DeploymentRuntimeConfig": "drc",
	"ControllerConfig": "cc", "ServiceAccount": "sa", "Lock": "lock"}

func (w *world) onEvent(e *simapi.Event) {
	if e.Outcome == "dropped" && e.Injected == "" {
		return
	}
	abs := w.pendingAbs
	kind := kindOf[e.Kind]
	if kind == "" {
		kind = "other"
	}
	verb := e.Verb
	if e.Sub != "" {
		verb += "-" + e.Sub
	}
	nm := "none"
	if e.Kind == "ProviderRevision" && e.Verb != "list" {
		nm = aliasOfName(e.Name)
	}
	applied := e.Applied && !e.DryRun
	if applied && !e.Noop {
		w.chg[e.Kind+"/"+e.Name]++
	}
	clean := e.Injected == "" && (e.Outcome == "ok" || e.Outcome == "notfound")
	switch {
	case abs == "get:pkg" && clean:
		w.seen = seenFrom(pkgProj(w.s.Peek(pkgKey)), w.s.Peek(pkgKey))
		w.seenSrc = ""
		if p := w.s.Peek(pkgKey); p != nil {
			w.seenSrc, _, _ = unstructured.NestedString(p.Object, "spec", "package")
		}
		if e.Outcome == "notfound" {
			w.seen["ex"] = false
		}
	case w.actor == "rev" && e.Verb == "get" && e.Kind == "ProviderRevision" && e.Idx == 1 && clean:
		var puid types.UID
		if p := w.s.Peek(pkgKey); p != nil {
			puid = p.GetUID()
		}
		w.seen = seenFrom(w.revProj(nm, w.s.Peek(revKey(nm)), puid), w.s.Peek(revKey(nm)))
		w.seenSrc = ""
		if r := w.s.Peek(revKey(nm)); r != nil {
			w.seenSrc, _, _ = unstructured.NestedString(r.Object, "spec", "image")
		}
	case abs == "list:rev" && e.Outcome == "ok":
		p := w.post()
		w.listed = []any{}
		for _, r := range p["revs"].([]any) {
			if rm := r.(map[string]any); rm["ex"] == true && rm["plab"] == pkgName {
				w.listed = append(w.listed, map[string]any{"name": rm["name"], "des": rm["des"], "ctrl": rm["ctrl"], "healthy": rm["healthy"], "hmsg": rm["hmsg"]})
			}
		}
	case abs == "list:ic" && e.Outcome == "ok":
		w.configs = []any{}
		for _, u := range w.s.All(icGK) {
			ic := &pkgv1beta1.ImageConfig{}
			_ = kruntime.DefaultUnstructuredConverter.FromUnstructured(u.Object, ic)
			ps := []any{}
			for _, m := range ic.Spec.MatchImages {
				ps = append(ps, chars(m.Prefix))
			}
			sec := "none"
			if ic.Spec.Registry != nil && ic.Spec.Registry.Authentication != nil && ic.Spec.Registry.Authentication.PullSecretRef.Name != "" {
				sec = ic.Spec.Registry.Authentication.PullSecretRef.Name
			}
			w.configs = append(w.configs, map[string]any{"name": ic.Name, "prefixes": ps, "secret": sec})
		}
	}
	if e.Outcome != "ok" {
		w.fail(abs, kind, e.Outcome)
	}
	if strings.HasPrefix(abs, "status:") && e.Outcome == "ok" && e.Injected == "" {
		w.statusOK = true
	}
	// stage markers of the manager: its Apply of a revision went through
	if w.actor == "mgr" && (strings.HasPrefix(abs, "patch:") || strings.HasPrefix(abs, "create:")) && e.Outcome == "ok" && e.Injected == "" {
		w.stages = append(w.stages, "apply:"+nm)
		if strings.HasPrefix(abs, "create:") {
			w.created = true
		}
	}
	if w.actor == "rev" && strings.HasPrefix(abs, "meta:") && e.Outcome == "ok" && e.Injected == "" {
		w.stages = append(w.stages, "meta:ok")
	}
	w.emit("call", map[string]any{"verb": verb, "kind": kind, "name": nm, "abs": abs, "outcome": e.Outcome, "injected": e.Injected,
		"applied": applied, "noop": e.Noop})
}

// ---------------------------------------------------------------- the seams

// virtual asks the scenario how a seam call is to answer ("ok" unless the scenario says otherwise).
func (w *world) virtual(abs string) string {
	if w.client().Dead() {
		return "dead"
	}
	out := "ok"
	if w.al != nil {
		w.al.OnCall(abs, false)
		if m := w.al.Matched; m != nil {
			out = m.F
			if out != "ok" {
				w.al.Injected = out
			}
		}
	}
	return out
}

func (w *world) seam(abs, outcome string, arg map[string]any, extra map[string]any) {
	w.stages = append(w.stages, strings.SplitN(abs, ":", 2)[0]+":"+outcome)
	if outcome != "ok" && outcome != "hit" && outcome != "absent" {
		w.fail(abs, "seam", outcome)
	}
	m := map[string]any{"verb": "seam", "kind": "seam", "abs": abs, "outcome": outcome, "name": w.tgtOr()}
	if arg != nil {
		a := noArg()
		for k, v := range arg {
			a[k] = v
		}
		m["arg"] = a
	}
	for k, v := range extra {
		m[k] = v
	}
	w.emit("seam", m)
}

func (w *world) tgtOr() string { return orNone(w.tgt) }

func seamErr(what, out string) error {
	if out == "conflict" {
		return kerrors.NewConflict(schema.GroupResource{Group: "example.org", Resource: "things"}, "x", errors.New("injected "+what))
	}
	return errors.New("injected " + what + " failure")
}

// registry
type fetcher struct{ w *world }

func anyList(ss []string) []any {
	out := []any{}
	for _, s := range ss {
		out = append(out, s)
	}
	return out
}

func (f *fetcher) Head(_ context.Context, ref name.Reference, secrets ...string) (*ggcr.Descriptor, error) {
	w := f.w
	tag := ref.Identifier()
	s := "s" + strings.TrimPrefix(tag, "v")
	abs := "head:" + s
	out := w.virtual(abs)
	// (the image as the reconcile read it: spec.package, not the parsed reference)
	arg := map[string]any{"secrets": anyList(secrets), "src": chars(w.seenSrc)}
	ex := map[string]any{"configs": append([]any{}, w.configs...)}
	switch out {
	case "dead":
		return nil, simapi.ErrCrashed
	case "error":
		w.seam(abs, out, arg, ex)
		return nil, errors.New("injected registry failure")
	case "empty":
		w.seam(abs, out, arg, ex)
		return nil, nil
	}
	w.cur = "r" + strings.TrimPrefix(tag, "v")
	w.seam(abs, "ok", arg, ex)
	return &ggcr.Descriptor{Digest: ggcr.Hash{Algorithm: "sha256", Hex: hexOf(tag)}}, nil
}

func (f *fetcher) Fetch(_ context.Context, ref name.Reference, secrets ...string) (ggcr.Image, error) {
	w := f.w
	abs := "fetch:" + w.tgtOr()
	out := w.virtual(abs)
	arg := map[string]any{"secrets": anyList(secrets), "src": chars(w.seenSrc), "fin": w.copyFin(), "des": w.seenDes()}
	ex := map[string]any{"configs": append([]any{}, w.configs...)}
	switch out {
	case "dead":
		return nil, simapi.ErrCrashed
	case "error":
		w.seam(abs, out, arg, ex)
		return nil, errors.New("injected registry failure")
	}
	w.seam(abs, "ok", arg, ex)
	return image(w.compat[w.tgt]), nil
}

func (f *fetcher) Tags(context.Context, name.Reference, ...string) ([]string, error) {
	return nil, errors.New("not used")
}

func (w *world) copyFin() bool {
	if r := w.s.Peek(revKey(w.tgt)); r != nil {
		for _, f := range r.GetFinalizers() {
			if f == ourFin {
				return true
			}
		}
	}
	return false
}

func (w *world) seenDes() string {
	if w.seen != nil {
		s, _ := w.seen["des"].(string)
		return s
	}
	return "none"
}

// package cache
type memCache struct {
	w       *world
	failGet bool
}

func (c *memCache) Has(id string) bool {
	w := c.w
	c.failGet = false
	abs := "cache:" + aliasOfName(id)
	out := w.virtual(abs)
	if out == "dead" {
		return false
	}
	w.mu.Lock()
	_, has := w.cache[id]
	w.mu.Unlock()
	arg := map[string]any{"fin": w.copyFin(), "des": w.seenDes()}
	switch {
	case out == "miss":
		w.seam(abs, "miss", arg, nil)
		return false
	case out == "error" && has:
		c.failGet = true
		w.seam(abs, "error", arg, nil)
		return true
	case has:
		w.seam(abs, "hit", arg, nil)
	default:
		w.seam(abs, "absent", arg, nil)
	}
	return has
}

func (c *memCache) Get(id string) (io.ReadCloser, error) {
	w := c.w
	if w.client().Dead() {
		return nil, simapi.ErrCrashed
	}
	if c.failGet {
		c.failGet = false
		return nil, errors.New("injected cache read failure")
	}
	w.mu.Lock()
	defer w.mu.Unlock()
	b, ok := w.cache[id]
	if !ok {
		return nil, os.ErrNotExist
	}
	return io.NopCloser(bytes.NewReader(b)), nil
}

func (c *memCache) Store(id string, content io.ReadCloser) error {
	w := c.w
	b, err := io.ReadAll(content)
	if err != nil {
		return err
	}
	if w.client().Dead() {
		return simapi.ErrCrashed
	}
	w.mu.Lock()
	w.cache[id] = b
	w.mu.Unlock()
	return nil
}

func (c *memCache) Delete(id string) error {
	w := c.w
	if w.client().Dead() {
		return simapi.ErrCrashed
	}
	del := false
	if w.seen != nil {
		del, _ = w.seen["del"].(bool)
	}
	if !del {
		// the clean-up after a failed cache read / write: not a step of the model
		w.mu.Lock()
		delete(w.cache, id)
		w.mu.Unlock()
		return nil
	}
	abs := "cachedel:" + aliasOfName(id)
	out := w.virtual(abs)
	switch out {
	case "dead":
		return simapi.ErrCrashed
	case "error":
		w.seam(abs, out, nil, nil)
		return errors.New("injected cache failure")
	}
	w.mu.Lock()
	delete(w.cache, id)
	w.mu.Unlock()
	w.seam(abs, "ok", nil, nil)
	return nil
}

// parser and linter: the real ones; the scenario may make them fail after they did their work
type wrapParser struct {
	w *world
	p parser.Parser
}

func (p *wrapParser) Parse(ctx context.Context, rc io.ReadCloser) (*parser.Package, error) {
	w := p.w
	pkg, err := p.p.Parse(ctx, rc)
	if w.client().Dead() {
		return nil, simapi.ErrCrashed
	}
	abs := "parse:" + w.tgtOr()
	out := w.virtual(abs)
	arg := map[string]any{"fin": w.copyFin(), "des": w.seenDes()}
	if out == "error" || err != nil {
		w.seam(abs, "error", arg, nil)
		if err == nil {
			err = errors.New("injected parse failure")
		}
		return nil, err
	}
	w.seam(abs, "ok", arg, nil)
	return pkg, nil
}

type wrapLinter struct {
	w *world
	l parser.Linter
}

func (l *wrapLinter) Lint(p parser.Lintable) error {
	w := l.w
	err := l.l.Lint(p)
	if w.client().Dead() {
		return simapi.ErrCrashed
	}
	abs := "lint:" + w.tgtOr()
	out := w.virtual(abs)
	if out == "error" || err != nil {
		w.seam(abs, "error", nil, nil)
		if err == nil {
			err = errors.New("injected lint failure")
		}
		return err
	}
	w.seam(abs, "ok", nil, nil)
	return nil
}

// establisher: records who controls / owns the package's objects
type recEstablisher struct{ w *world }

func (e *recEstablisher) Establish(_ context.Context, objs []kruntime.Object, pr pkgv1.PackageRevision, control bool) ([]xpv1.TypedReference, error) {
	w := e.w
	abs := "establish:" + w.tgtOr()
	out := w.virtual(abs)
	arg := map[string]any{"control": control, "fin": w.copyFin(), "des": orNone(string(pr.GetDesiredState())), "nrefs": len(objs)}
	switch out {
	case "dead":
		return nil, simapi.ErrCrashed
	case "error", "conflict":
		w.seam(abs, out, arg, nil)
		return nil, seamErr("establish", out)
	}
	refs := []xpv1.TypedReference{}
	for _, o := range objs {
		gvk := o.GetObjectKind().GroupVersionKind()
		n := ""
		if m, ok := o.(metav1.Object); ok {
			n = m.GetName()
		}
		refs = append(refs, xpv1.TypedReference{APIVersion: gvk.GroupVersion().String(), Kind: gvk.Kind, Name: n, UID: types.UID("uid-" + n)})
	}
	w.mu.Lock()
	w.owns[w.tgt] = true
	if control {
		w.ctl = w.tgt
	}
	w.mu.Unlock()
	w.seam(abs, "ok", arg, nil)
	return refs, nil
}

func (e *recEstablisher) ReleaseObjects(_ context.Context, pr pkgv1.PackageRevision) error {
	w := e.w
	abs := "release:" + w.tgtOr()
	out := w.virtual(abs)
	arg := map[string]any{"fin": w.copyFin(), "des": orNone(string(pr.GetDesiredState()))}
	switch out {
	case "dead":
		return simapi.ErrCrashed
	case "error", "conflict":
		w.seam(abs, out, arg, nil)
		return seamErr("release", out)
	}
	w.mu.Lock()
	if w.ctl == w.tgt {
		w.ctl = ""
	}
	w.mu.Unlock()
	w.seam(abs, "ok", arg, nil)
	return nil
}

// runtime hooks
type recHooks struct{ w *world }

func (h *recHooks) hook(what string, pr pkgv1.PackageRevisionWithRuntime) error {
	w := h.w
	abs := what + ":" + w.tgtOr()
	out := w.virtual(abs)
	arg := map[string]any{"fin": w.copyFin(), "des": orNone(string(pr.GetDesiredState()))}
	switch out {
	case "dead":
		return simapi.ErrCrashed
	case "error", "conflict":
		w.seam(abs, out, arg, nil)
		return seamErr(what, out)
	}
	w.seam(abs, "ok", arg, nil)
	return nil
}

func (h *recHooks) Pre(_ context.Context, _ kruntime.Object, pr pkgv1.PackageRevisionWithRuntime, _ revision.ManifestBuilder) error {
	return h.hook("pre", pr)
}
func (h *recHooks) Post(_ context.Context, _ kruntime.Object, pr pkgv1.PackageRevisionWithRuntime, _ revision.ManifestBuilder) error {
	return h.hook("post", pr)
}
func (h *recHooks) Deactivate(_ context.Context, pr pkgv1.PackageRevisionWithRuntime, _ revision.ManifestBuilder) error {
	return h.hook("deactivate", pr)
}

// dependency manager: the real one; its entry and exit are recorded as stage markers
type recDeps struct {
	w *world
	d revision.DependencyManager
}

func res(err error) string {
	switch {
	case err == nil:
		return "ok"
	case kerrors.IsConflict(err):
		return "conflict"
	}
	return "error"
}

func (d *recDeps) mark(abs, outcome string, pr pkgv1.PackageRevision) {
	w := d.w
	w.stages = append(w.stages, strings.SplitN(abs, ":", 2)[0]+":"+outcome)
	if outcome != "ok" && outcome != "start" {
		w.fail(abs, "deps", outcome)
	}
	a := noArg()
	a["fin"], a["des"] = w.copyFin(), orNone(string(pr.GetDesiredState()))
	w.emit("seam", map[string]any{"verb": "seam", "kind": "deps", "abs": abs, "outcome": outcome, "name": w.tgtOr(), "arg": a})
}

func (d *recDeps) Resolve(ctx context.Context, m pkgmetav1.Pkg, pr pkgv1.PackageRevision) (int, int, int, error) {
	if d.w.client().Dead() {
		return 0, 0, 0, simapi.ErrCrashed
	}
	d.mark("resolving:"+d.w.tgtOr(), "start", pr)
	a, b, c, err := d.d.Resolve(ctx, m, pr)
	if d.w.client().Dead() {
		return a, b, c, err
	}
	d.mark("resolve:"+d.w.tgtOr(), res(err), pr)
	return a, b, c, err
}

func (d *recDeps) RemoveSelf(ctx context.Context, pr pkgv1.PackageRevision) error {
	if d.w.client().Dead() {
		return simapi.ErrCrashed
	}
	err := d.d.RemoveSelf(ctx, pr)
	if d.w.client().Dead() {
		return err
	}
	d.mark("removeself:"+d.w.tgtOr(), res(err), pr)
	return err
}

// the Crossplane version that runs: an image is incompatible iff it asks for >= v99
type fakeVer struct{ *version.Versioner }

func (fakeVer) GetVersionString() string { return "v1.18.0" }
func (fakeVer) InConstraints(c string) (bool, error) {
	return !strings.Contains(c, "v99"), nil
}

type recorder struct{ w *world }

func (r *recorder) Event(_ kruntime.Object, e event.Event) {
	r.w.evs = append(r.w.evs, string(e.Type)+":"+string(e.Reason))
}
func (r *recorder) WithAnnotations(...string) event.Recorder { return r }

// build (re)creates both controllers (a new process).
func (w *world) build() {
	flags := &feature.Flags{}
	flags.Enable(features.EnableBetaDeploymentRuntimeConfigs)
	f := &fetcher{w: w}
	mm := &fakes.Manager{Client: w.mc, Sch: w.sch}
	w.mgr = xperrors.WithSilentRequeueOnConflict(manager.NewReconciler(mm,
		manager.WithNewPackageFn(func() pkgv1.Package { return &pkgv1.Provider{} }),
		manager.WithNewPackageRevisionFn(func() pkgv1.PackageRevision { return &pkgv1.ProviderRevision{} }),
		manager.WithNewPackageRevisionListFn(func() pkgv1.PackageRevisionList { return &pkgv1.ProviderRevisionList{} }),
		manager.WithRevisioner(manager.NewPackageRevisioner(f)),
		manager.WithConfigStore(xpkg.NewImageConfigStore(w.mc, namespace)),
		manager.WithRecorder(&recorder{w: w}),
	))
	rm := &fakes.Manager{Client: w.rcl, Sch: w.sch}
	w.rev = xperrors.WithSilentRequeueOnConflict(revision.NewReconciler(rm,
		revision.WithCache(&memCache{w: w}),
		revision.WithDependencyManager(&recDeps{w: w, d: revision.NewPackageDependencyManager(w.rcl, dag.NewMapDag, pkgv1.ProviderGroupVersionKind)}),
		revision.WithEstablisher(&recEstablisher{w: w}),
		revision.WithNewPackageRevisionFn(func() pkgv1.PackageRevision { return &pkgv1.ProviderRevision{} }),
		revision.WithParser(&wrapParser{w: w, p: parser.New(metaScheme, objScheme)}),
		revision.WithParserBackend(revision.NewImageBackend(f)),
		revision.WithConfigStore(xpkg.NewImageConfigStore(w.rcl, namespace)),
		revision.WithLinter(&wrapLinter{w: w, l: xpkg.NewProviderLinter()}),
		revision.WithVersioner(fakeVer{version.New()}),
		revision.WithRecorder(&recorder{w: w}),
		revision.WithNamespace(namespace),
		revision.WithServiceAccount(xpSA),
		revision.WithFeatureFlags(flags),
		revision.WithRuntimeHooks(&recHooks{w: w}),
	))
}

// ---------------------------------------------------------------- the environment

func str(m map[string]any, k string) string { s, _ := m[k].(string); return s }
func boo(m map[string]any, k string) bool   { b, _ := m[k].(bool); return b }

func setSpec(u *unstructured.Unstructured, field, val string) {
	switch field {
	case "src":
		_ = unstructured.SetNestedField(u.Object, source(val), "spec", "package")
	case "pull":
		_ = unstructured.SetNestedField(u.Object, val, "spec", "packagePullPolicy")
	case "ign":
		_ = unstructured.SetNestedField(u.Object, val == "true", "spec", "ignoreCrossplaneConstraints")
	case "skip":
		_ = unstructured.SetNestedField(u.Object, val == "true", "spec", "skipDependencyResolution")
	case "pol":
		if val == "none" {
			unstructured.RemoveNestedField(u.Object, "spec", "revisionActivationPolicy")
		} else {
			_ = unstructured.SetNestedField(u.Object, val, "spec", "revisionActivationPolicy")
		}
	case "rtc":
		_ = unstructured.SetNestedField(u.Object, val, "spec", "runtimeConfigRef", "name")
	case "ccr":
		if val == "none" {
			unstructured.RemoveNestedField(u.Object, "spec", "controllerConfigRef")
		} else {
			_ = unstructured.SetNestedField(u.Object, val, "spec", "controllerConfigRef", "name")
		}
	case "lab":
		if m := labMap(val); m != nil {
			_ = unstructured.SetNestedField(u.Object, m, "spec", "commonLabels")
		} else {
			unstructured.RemoveNestedField(u.Object, "spec", "commonLabels")
		}
	case "sec":
		if val == "none" {
			unstructured.RemoveNestedField(u.Object, "spec", "packagePullSecrets")
		} else {
			l := []any{}
			for _, n := range strings.Split(val, ",") {
				l = append(l, map[string]any{"name": n})
			}
			_ = unstructured.SetNestedSlice(u.Object, l, "spec", "packagePullSecrets")
		}
	default:
		panic("unknown package field " + field)
	}
}

func (w *world) putIC(n string) {
	a, ok := icTable[n]
	if !ok {
		panic("unknown ImageConfig " + n)
	}
	ic := &pkgv1beta1.ImageConfig{ObjectMeta: metav1.ObjectMeta{Name: n}}
	for _, p := range a.prefixes {
		ic.Spec.MatchImages = append(ic.Spec.MatchImages, pkgv1beta1.ImageMatch{Type: pkgv1beta1.Prefix, Prefix: p})
	}
	if a.secret != "" {
		ic.Spec.Registry = &pkgv1beta1.RegistryConfig{Authentication: &pkgv1beta1.RegistryAuthentication{PullSecretRef: corev1.LocalObjectReference{Name: a.secret}}}
	} else {
		ic.Spec.Verification = &pkgv1beta1.ImageVerification{Provider: pkgv1beta1.ImageVerificationProviderCosign,
			Cosign: &pkgv1beta1.CosignVerificationConfig{}}
	}
	w.s.Put(ic)
}

func setHealth(u *unstructured.Unstructured, v string) {
	cs, _, _ := unstructured.NestedSlice(u.Object, "status", "conditions")
	out := []any{}
	for _, c := range cs {
		if cm, _ := c.(map[string]any); cm["type"] != "Healthy" {
			out = append(out, c)
		}
	}
	var c xpv1.Condition
	switch v {
	case "True":
		c = pkgv1.Healthy()
	case "False":
		c = pkgv1.Unhealthy().WithMessage("post establish runtime hook failed for package: the environment says so")
	case "Unknown":
		c = pkgv1.UnknownHealth().WithMessage("cannot resolve package dependencies: the environment says so")
	}
	if v != "none" {
		m, _ := kruntime.DefaultUnstructuredConverter.ToUnstructured(&c)
		out = append(out, m)
	}
	_ = unstructured.SetNestedSlice(u.Object, out, "status", "conditions")
}

func (w *world) env(e replay.Entry) {
	w.envSeq++
	switch e.K {
	case "pause":
		w.s.Mutate(pkgKey, func(u *unstructured.Unstructured) { addAnn(u, pausedAnn, "true") })
	case "unpause":
		w.s.Mutate(pkgKey, func(u *unstructured.Unstructured) { rmAnn(u, pausedAnn) })
	case "touch":
		// an edit the reconciler does not care about (where possible the look-alike crossplane.io/paused: "false")
		w.touched++
		k := pkgKey
		if e.O != "pkg" {
			k = revKey(e.O)
		}
		w.s.Mutate(k, func(u *unstructured.Unstructured) {
			if _, ok := u.GetAnnotations()[pausedAnn]; !ok {
				addAnn(u, pausedAnn, "false")
			} else {
				addAnn(u, touchAnn, fmt.Sprint(w.touched))
			}
		})
	case "edit":
		// O = field, F = value
		w.s.Mutate(pkgKey, func(u *unstructured.Unstructured) { setSpec(u, e.O, e.F) })
	case "delpkg":
		// background deletion: the package goes, the garbage collector deletes what it controlled
		w.s.MarkDeleted(pkgKey)
		w.s.GCStep()
	case "addic":
		w.putIC(e.O)
	case "delic":
		w.s.Remove(icKey(e.O))
	case "adddrc":
		w.s.Put(&pkgv1beta1.DeploymentRuntimeConfig{ObjectMeta: metav1.ObjectMeta{Name: e.O}})
	case "deldrc":
		w.s.Remove(drcKey(e.O))
	case "pauserev":
		w.s.Mutate(revKey(e.O), func(u *unstructured.Unstructured) { addAnn(u, pausedAnn, "true") })
	case "unpauserev":
		w.s.Mutate(revKey(e.O), func(u *unstructured.Unstructured) { rmAnn(u, pausedAnn) })
	case "delrev":
		w.s.MarkDeleted(revKey(e.O))
	case "deact":
		w.s.Mutate(revKey(e.O), func(u *unstructured.Unstructured) {
			_ = unstructured.SetNestedField(u.Object, "Inactive", "spec", "desiredState")
		})
	case "act":
		w.s.Mutate(revKey(e.O), func(u *unstructured.Unstructured) {
			_ = unstructured.SetNestedField(u.Object, "Active", "spec", "desiredState")
		})
	case "health":
		// stands in for the revision controller when it is not part of the scenario
		w.s.Mutate(revKey(e.O), func(u *unstructured.Unstructured) { setHealth(u, e.F) })
	case "revign":
		// stands in for the package manager when it is not part of the scenario
		w.s.Mutate(revKey(e.O), func(u *unstructured.Unstructured) { setSpec(u, "ign", e.F) })
	case "droprefs":
		// the status got lost (backup / restore)
		w.s.Mutate(revKey(e.O), func(u *unstructured.Unstructured) { unstructured.RemoveNestedField(u.Object, "status") })
	default:
		panic("unknown env step " + e.K)
	}
	sa, st := w.actor, w.tgt
	w.actor, w.tgt = "", ""
	w.emit("env", map[string]any{"verb": e.K, "abs": "env:" + e.K, "name": orNone(e.O), "outcome": orNone(e.F)})
	w.actor, w.tgt = sa, st
}

func addAnn(u *unstructured.Unstructured, k, v string) {
	a := u.GetAnnotations()
	if a == nil {
		a = map[string]string{}
	}
	a[k] = v
	u.SetAnnotations(a)
}

func rmAnn(u *unstructured.Unstructured, k string) {
	a := u.GetAnnotations()
	delete(a, k)
	if len(a) == 0 {
		a = nil
	}
	u.SetAnnotations(a)
}

func newWorld(id string, init map[string]any) *world {
	sch := kruntime.NewScheme()
	_ = pkgv1.AddToScheme(sch)
	_ = pkgv1beta1.AddToScheme(sch)
	_ = pkgv1alpha1.AddToScheme(sch)
	_ = corev1.AddToScheme(sch)
	s := simapi.NewServer(sch)
	s.Namespaced(schema.GroupKind{Kind: "ServiceAccount"})
	s.NoStatus(schema.GroupKind{Group: "pkg.crossplane.io", Kind: "Lock"}, icGK, schema.GroupKind{Group: "pkg.crossplane.io", Kind: "DeploymentRuntimeConfig"},
		schema.GroupKind{Group: "pkg.crossplane.io", Kind: "ControllerConfig"}, schema.GroupKind{Kind: "ServiceAccount"})
	w := &world{s: s, sch: sch, scenID: id, cache: map[string][]byte{}, owns: map[string]bool{}, compat: map[string]bool{}, lastClean: map[string]string{},
		lastWatch: map[string]string{}, again: map[string]bool{}, contents: map[string]string{}, lastCleaning: map[string]bool{}, chg: map[string]int{}}
	w.mc = simapi.NewClient(s, "mgr")
	w.rcl = simapi.NewClient(s, "rev")
	w.mc.Intercept, w.rcl.Intercept = w.intercept, w.intercept

	// the surroundings
	s.Put(&pkgv1beta1.DeploymentRuntimeConfig{ObjectMeta: metav1.ObjectMeta{Name: "default"}})
	s.Put(&pkgv1alpha1.ControllerConfig{ObjectMeta: metav1.ObjectMeta{Name: "cc"}})
	s.Put(&corev1.ServiceAccount{ObjectMeta: metav1.ObjectMeta{Name: xpSA, Namespace: namespace}})
	if ics, ok := init["ics"].([]any); ok {
		for _, n := range ics {
			w.putIC(n.(string))
		}
	}
	for _, a := range revs {
		w.compat[a] = true
	}
	if im, ok := init["img"].(map[string]any); ok {
		for a, v := range im {
			w.compat[a], _ = v.(bool)
		}
	}

	// the package
	ip, _ := init["pkg"].(map[string]any)
	p := &pkgv1.Provider{ObjectMeta: metav1.ObjectMeta{Name: pkgName}}
	p.Spec.Package = source(str(ip, "src"))
	pu := s.Put(p)
	s.Mutate(pkgKey, func(u *unstructured.Unstructured) {
		for _, f := range []string{"pull", "ign", "skip", "pol", "rtc", "ccr", "lab", "sec"} {
			v := str(ip, f)
			if b, ok := ip[f].(bool); ok {
				v = fmt.Sprint(b)
			}
			setSpec(u, f, v)
		}
		if boo(ip, "paused") {
			addAnn(u, pausedAnn, "true")
		}
	})

	// revisions that exist already (as the package manager / a foreign owner left them)
	ir, _ := init["revs"].(map[string]any)
	for _, a := range revs {
		rm, _ := ir[a].(map[string]any)
		if rm == nil || !boo(rm, "ex") {
			continue
		}
		r := &pkgv1.ProviderRevision{ObjectMeta: metav1.ObjectMeta{Name: revName(a), Labels: map[string]string{pkgv1.LabelParentPackage: pkgName, userLabel: "kept"}}}
		switch str(rm, "ctrl") {
		case "pkg":
			r.OwnerReferences = []metav1.OwnerReference{{APIVersion: "pkg.crossplane.io/v1", Kind: "Provider", Name: pkgName, UID: pu.GetUID(),
				Controller: ptr.To(true), BlockOwnerDeletion: ptr.To(true)}}
		case "foreign":
			r.OwnerReferences = []metav1.OwnerReference{{APIVersion: "pkg.crossplane.io/v1", Kind: "Provider", Name: "other", UID: "foreign-uid",
				Controller: ptr.To(true), BlockOwnerDeletion: ptr.To(true)}}
		}
		r.Spec.Package = repo + ":" + tagOf[a]
		r.Spec.Revision = 1
		r.Spec.DesiredState = pkgv1.PackageRevisionDesiredState(str(rm, "des"))
		if boo(rm, "fin") {
			r.Finalizers = append(r.Finalizers, ourFin)
		}
		if boo(rm, "ofin") {
			r.Finalizers = append(r.Finalizers, otherFin)
		}
		s.Put(r)
		s.Mutate(revKey(a), func(u *unstructured.Unstructured) {
			for _, f := range []string{"pull", "ign", "skip", "rtc", "ccr", "lab", "sec"} {
				v := str(rm, f)
				if b, ok := rm[f].(bool); ok {
					v = fmt.Sprint(b)
				}
				setSpec(u, f, v)
			}
			if boo(rm, "paused") {
				addAnn(u, pausedAnn, "true")
			}
			if h := str(rm, "healthy"); h != "" && h != "none" {
				setHealth(u, h)
			}
			if boo(rm, "refs") {
				_ = unstructured.SetNestedSlice(u.Object, []any{map[string]any{"apiVersion": "apiextensions.k8s.io/v1", "kind": "CustomResourceDefinition",
					"name": "things.example.org", "uid": "uid-things.example.org"}}, "status", "objectRefs")
			}
		})
		if boo(rm, "cached") {
			w.cache[revName(a)] = packageStream(w.compat[a])
		}
		if boo(rm, "locked") {
			w.lockAdd(a)
		}
	}
	if boo(init, "lockex") && s.Peek(lockKey) == nil {
		s.Put(&pkgv1beta1.Lock{ObjectMeta: metav1.ObjectMeta{Name: "lock"}})
	}
	w.build()
	s.OnEvent = w.onEvent
	return w
}

func (w *world) lockAdd(a string) {
	if w.s.Peek(lockKey) == nil {
		w.s.Put(&pkgv1beta1.Lock{ObjectMeta: metav1.ObjectMeta{Name: "lock"}})
	}
	w.s.Mutate(lockKey, func(u *unstructured.Unstructured) {
		ps, _, _ := unstructured.NestedSlice(u.Object, "packages")
		ps = append(ps, map[string]any{"name": revName(a), "apiVersion": "pkg.crossplane.io/v1", "kind": "Provider", "type": nil,
			"source": repo, "version": tagOf[a], "dependencies": []any{}})
		_ = unstructured.SetNestedSlice(u.Object, ps, "packages")
	})
}

// ---------------------------------------------------------------- running reconciles

type sweep struct {
	rec, idx int
	d        simapi.Decision
}

// rvDigest identifies the state of the store by the resourceVersions (any accepted write that is not a no-op moves it).
func (w *world) rvDigest() string {
	h := sha256.New()
	w.s.Read(func(keys []simapi.Key, all map[simapi.Key]*unstructured.Unstructured) {
		for _, k := range keys {
			fmt.Fprintf(h, "%s=%s;", k, all[k].GetResourceVersion())
		}
	})
	w.mu.Lock()
	fmt.Fprintf(h, "cache=%v;ctl=%s;owns=%v", w.cacheList(), w.ctl, w.ownsList())
	w.mu.Unlock()
	return fmt.Sprintf("%x", h.Sum(nil)[:8])
}

const agedTime = "2000-01-01T00:00:00Z"

// contentOf is a hash of an object without what moves with the clock or with every write
// (resourceVersion, managedFields, lastTransitionTime); cached by resourceVersion.
func (w *world) contentOf(k simapi.Key, u *unstructured.Unstructured) string {
	ck := k.String() + "@" + u.GetResourceVersion()
	if h, ok := w.contents[ck]; ok {
		return h
	}
	c := u.DeepCopy()
	c.SetResourceVersion("")
	c.SetManagedFields(nil)
	if cs, ok, _ := unstructured.NestedSlice(c.Object, "status", "conditions"); ok {
		for _, x := range cs {
			if m, ok := x.(map[string]any); ok {
				delete(m, "lastTransitionTime")
			}
		}
		_ = unstructured.SetNestedSlice(c.Object, cs, "status", "conditions")
	}
	b, _ := json.Marshal(c.Object)
	h := short(b)
	w.contents[ck] = h
	return h
}

// digest identifies the state of the world by content (the clock and write counters left out).
func (w *world) digest() string {
	h := sha256.New()
	w.s.Read(func(keys []simapi.Key, all map[simapi.Key]*unstructured.Unstructured) {
		for _, k := range keys {
			fmt.Fprintf(h, "%s=%s;", k, w.contentOf(k, all[k]))
		}
	})
	w.mu.Lock()
	fmt.Fprintf(h, "cache=%v;ctl=%s;owns=%v", w.cacheList(), w.ctl, w.ownsList())
	w.mu.Unlock()
	return fmt.Sprintf("%x", h.Sum(nil)[:8])
}

// age lets time pass: every lastTransitionTime in the store is moved into the past, so that a condition that is set
// again without having changed shows (the code stamps conditions with the wall clock, which cannot be injected).
func (w *world) age() {
	ks := []simapi.Key{pkgKey}
	for _, a := range revs {
		ks = append(ks, revKey(a))
	}
	for _, k := range ks {
		w.s.Mutate(k, func(u *unstructured.Unstructured) {
			cs, ok, _ := unstructured.NestedSlice(u.Object, "status", "conditions")
			if !ok {
				return
			}
			for _, x := range cs {
				if m, ok := x.(map[string]any); ok {
					m["lastTransitionTime"] = agedTime
				}
			}
			_ = unstructured.SetNestedSlice(u.Object, cs, "status", "conditions")
		})
	}
}

func (w *world) cacheList() []any {
	cache := []any{}
	for _, a := range revs {
		if _, ok := w.cache[revName(a)]; ok {
			cache = append(cache, a)
		}
	}
	return cache
}

func (w *world) ownsList() []any {
	owns := []any{}
	for _, a := range revs {
		if w.owns[a] {
			owns = append(owns, a)
		}
	}
	return owns
}

// reconcile runs one reconcile of the package manager (tgt = "") or of the revision reconciler for revision tgt.
func (w *world) reconcile(actor, tgt string, al *replay.Aligner, sw *sweep) int {
	w.recNo++
	w.actor, w.tgt, w.al = actor, tgt, al
	w.seen, w.listed, w.configs, w.cur, w.stages, w.fails, w.evs, w.statusOK, w.created = nil, nil, nil, "", nil, nil, nil, false, false
	c := w.client()
	c.BeginReconcile()
	inner := w.intercept
	icpt := inner
	if sw != nil && sw.rec == w.recNo {
		icpt = func(cl *simapi.Call) simapi.Decision {
			d := inner(cl)
			if cl.Idx == sw.idx && d == simapi.Proceed {
				sd := sw.d
				if (sd == simapi.FailConflict || sd == simapi.CrashAfter) && !cl.Write {
					sd = simapi.FailError
				}
				if sd == simapi.CacheMiss && (cl.Write || cl.Verb != "get") {
					sd = simapi.FailError
				}
				al.Injected = sd.String()
				return sd
			}
			return d
		}
	}
	c.Intercept = icpt
	w.age()
	before := w.digest()
	rvBefore := w.rvDigest()
	key := actor + "/" + tgt
	watchBefore := w.watched(actor, tgt)
	w.emit("start", map[string]any{"prevDigest": rvBefore})
	var res reconcile.Result
	var err error
	if actor == "mgr" {
		res, err = w.mgr.Reconcile(context.Background(), reconcile.Request{NamespacedName: types.NamespacedName{Name: pkgName}})
	} else {
		res, err = w.rev.Reconcile(context.Background(), reconcile.Request{NamespacedName: types.NamespacedName{Name: revName(tgt)}})
	}
	calls := c.Calls()
	envBefore := al.EnvSteps
	result := "ok"
	crashed := c.Dead()
	if crashed {
		result = "crashed"
	} else if err != nil {
		result = "error"
	}
	faulty := al.Injected != ""
	quiet := envBefore == 0
	thisOK := !faulty && quiet && !crashed
	steady := thisOK && w.lastClean[key] == before
	// (the reconcile before was the pass that only removes the conditions of an object that is no longer paused:
	//  the one after it is meant to do the work)
	prevCleaning := w.lastCleaning[key]
	w.emit("end", map[string]any{"result": result, "requeue": res.Requeue, "after": int(res.RequeueAfter / time.Millisecond),
		"faulty": faulty, "quiet": quiet, "clean": thisOK, "steady": steady, "prevCleaning": prevCleaning, "prevDigest": rvBefore})
	if w.rvDigest() != rvBefore {
		w.moved++
	}
	w.lastCleaning[key] = false
	if thisOK {
		w.lastClean[key] = w.digest()
		if w.seen != nil {
			pc, _ := w.seen["pcond"].(bool)
			pa, _ := w.seen["paused"].(bool)
			w.lastCleaning[key] = pc && !pa
		}
	} else {
		delete(w.lastClean, key)
	}
	// it runs again when it was disturbed (a fault, a cache that lagged, an environment step), or when it failed / asked
	// for a requeue and moved something (a fault-free reconcile that fails and changes nothing would fail again the same way)
	w.again[key] = crashed || faulty || !quiet || ((err != nil || res.Requeue) && w.digest() != before)
	// (its own writes trigger it as well: "We'll be requeued with the updated status and resume reconciliation")
	w.lastWatch[key] = watchBefore
	al.Finish() // environment steps the scenario placed after the last call it expected
	w.al = nil
	c.Intercept = inner
	w.actor, w.tgt = "", ""
	if crashed {
		w.build() // the process is gone: a new one starts
	}
	return calls
}

// watched says how often what triggers the actor has changed so far: the manager watches the package, its revisions and
// the ImageConfigs, the revision reconciler its revision, the ImageConfigs and the runtime configs.  (Counters, not
// contents: a revision that was deleted and created again in between has triggered its watchers.)
func (w *world) watched(actor, tgt string) string {
	n := w.envSeq
	for k, c := range w.chg {
		switch {
		case actor == "mgr" && (strings.HasPrefix(k, "Provider/") || strings.HasPrefix(k, "ProviderRevision/")),
			actor == "rev" && k == "ProviderRevision/"+revName(tgt):
			n += c
		}
	}
	return fmt.Sprint(n)
}

// settle plays the fault-free aftermath the way the controllers would be triggered: a reconciler runs when something it
// watches changed since its last reconcile started (its own writes included), or when that reconcile asked to be
// requeued / failed.  When nobody is
// triggered any more (or after maxRounds rounds) one more reconcile of everybody must change nothing; the state reached
// is recorded.
func (w *world) settle(maxRounds int) {
	rounds := 0
	w.settling = !w.verbose
	actors := func() [][2]string {
		out := [][2]string{{"mgr", ""}}
		for _, a := range revs {
			if w.s.Peek(revKey(a)) != nil {
				out = append(out, [2]string{"rev", a})
			}
		}
		return out
	}
	for rounds < maxRounds {
		rounds++
		ran := false
		if acted := w.s.GCStep(); len(acted) > 0 {
			w.envSeq++
			// the garbage collector is part of the fault-free environment (always recorded)
			st := w.settling
			w.settling = false
			w.emit("env", map[string]any{"verb": "gc", "abs": "env:gc"})
			w.settling = st
		}
		for _, at := range actors() {
			key := at[0] + "/" + at[1]
			if at[0] == "rev" && w.s.Peek(revKey(at[1])) == nil {
				continue
			}
			if w.again[key] || w.lastWatch[key] != w.watched(at[0], at[1]) {
				w.reconcile(at[0], at[1], &replay.Aligner{Env: w.env}, nil)
				ran = true
			}
		}
		if !ran {
			break
		}
	}
	w.moved = 0
	for _, at := range actors() {
		if at[0] == "mgr" || w.s.Peek(revKey(at[1])) != nil {
			w.reconcile(at[0], at[1], &replay.Aligner{Env: w.env}, nil)
		}
	}
	stable := w.moved == 0
	w.seen, w.listed, w.configs, w.cur, w.stages, w.fails, w.evs, w.statusOK, w.created = nil, nil, nil, "", nil, nil, nil, false, false
	w.emit("settled", map[string]any{"stable": stable, "rounds": rounds})
	w.settling = false
}

type summary struct {
	Scenarios  int            `json:"scenarios"`
	Runs       int            `json:"runs"`
	Reconciles int            `json:"reconciles"`
	Events     int            `json:"events"`
	Drift      int            `json:"drift"`
	DriftRuns  int            `json:"drift_runs"`
	SweepRuns  int            `json:"sweep_runs"`
	DriftByAbs map[string]int `json:"drift_by_abs"`
	Counts     map[string]int `json:"counts"`
	Samples    []any          `json:"samples"`
}

func isStart(e replay.Entry) bool {
	return e.Abs() == "get:pkg" || (e.K == "get" && len(e.O) == 2 && e.O[0] == 'r')
}

var verbose bool

func run(tw *trace.Writer, id string, hist []replay.Entry, sw *sweep, settleRounds int, sum *summary) []int {
	w := newWorld(id, hist[0].Raw)
	w.verbose = verbose
	w.emit("reset", nil)
	blocks, trailing := replay.Split(hist[1:], isStart)
	var calls []int
	drift := 0
	var driftAbs []string
	for _, b := range blocks {
		for _, e := range b.Pre {
			w.env(e)
		}
		al := &replay.Aligner{Steps: append([]replay.Entry(nil), b.Steps...), Env: w.env}
		actor, tgt := "mgr", ""
		if b.Steps[0].Abs() != "get:pkg" {
			actor, tgt = "rev", b.Steps[0].O
		}
		calls = append(calls, w.reconcile(actor, tgt, al, sw))
		drift += al.Drift
		driftAbs = append(driftAbs, al.DriftAbs...)
		sum.Reconciles++
	}
	for _, e := range trailing {
		w.env(e)
	}
	if settleRounds > 0 {
		n := w.recNo
		w.settle(settleRounds)
		sum.Reconciles += w.recNo - n
	}
	tw.Boundary()
	for _, e := range w.buf {
		tw.Emit(e)
	}
	sum.Runs++
	if sw == nil {
		sum.Drift += drift
		if drift > 0 {
			sum.DriftRuns++
		}
		for _, k := range driftAbs {
			sum.DriftByAbs[k]++
		}
	}
	return calls
}

func main() {
	scenarios := flag.String("scenarios", "", "NDJSON file of TLC histories")
	tracePath := flag.String("trace", "", "output trace")
	sumPath := flag.String("summary", "", "output summary JSON")
	chunk := flag.Int("chunk", 0, "split the trace into files of about this many events")
	sweepN := flag.Int("sweep", 0, "number of scenarios to sweep over every real call index x outcome")
	flag.BoolVar(&verbose, "verbose", false, "record every call of the settle rounds (default: only the reconcile ends)")
	settleN := flag.Int("settle", 5, "maximal number of fault-free rounds (manager, then every revision) appended to every scenario")
	prof := flag.String("cpuprofile", "", "write a CPU profile")
	flag.Parse()
	if *prof != "" {
		f, _ := os.Create(*prof)
		_ = pprof.StartCPUProfile(f)
		defer pprof.StopCPUProfile()
	}

	raws, err := scen.Load(*scenarios)
	if err != nil {
		fmt.Fprintln(os.Stderr, err)
		os.Exit(2)
	}
	tw, err := trace.New(*tracePath, *chunk)
	if err != nil {
		fmt.Fprintln(os.Stderr, err)
		os.Exit(2)
	}
	sum := &summary{DriftByAbs: map[string]int{}}
	dec := map[string]simapi.Decision{"error": simapi.FailError, "conflict": simapi.FailConflict, "crashBefore": simapi.CrashBefore,
		"crashAfter": simapi.CrashAfter, "cacheMiss": simapi.CacheMiss}
	for i, raw := range raws {
		var sc struct {
			ID     string          `json:"id"`
			Hist   json.RawMessage `json:"hist"`
			Settle *int            `json:"settle"`
			// SweepAll: replay this scenario once more for every real call index x outcome
			SweepAll bool `json:"sweepall"`
			// Free: a hand-written scenario that only names the reconciles (no drift is counted)
			Free  bool `json:"free"`
			Sweep *struct {
				Rec     int    `json:"rec"`
				Idx     int    `json:"idx"`
				Outcome string `json:"outcome"`
			} `json:"sweep"`
		}
		if err := json.Unmarshal(raw, &sc); err != nil {
			fmt.Fprintln(os.Stderr, "bad scenario:", err)
			os.Exit(2)
		}
		hist, err := replay.Parse(sc.Hist)
		if err != nil || len(hist) == 0 || hist[0].T != "init" {
			fmt.Fprintln(os.Stderr, "bad scenario history:", err)
			os.Exit(2)
		}
		sum.Scenarios++
		if len(sum.Samples) < 2 {
			sum.Samples = append(sum.Samples, json.RawMessage(raw))
		}
		st := *settleN
		if sc.Settle != nil {
			st = *sc.Settle
		}
		if sc.Sweep != nil {
			run(tw, sc.ID, hist, &sweep{rec: sc.Sweep.Rec, idx: sc.Sweep.Idx, d: dec[sc.Sweep.Outcome]}, st, sum)
			continue
		}
		d0, dr0 := sum.Drift, sum.DriftRuns
		var by map[string]int
		if sc.Free {
			by = sum.DriftByAbs
			sum.DriftByAbs = map[string]int{}
		}
		calls := run(tw, sc.ID, hist, nil, st, sum)
		if sc.Free {
			sum.Drift, sum.DriftRuns, sum.DriftByAbs = d0, dr0, by
		}
		if i < *sweepN || sc.SweepAll {
			// every real call index of every reconcile x every outcome, followed by the fault-free rounds
			for r, n := range calls {
				for k := 1; k <= n; k++ {
					for _, d := range []simapi.Decision{simapi.FailError, simapi.FailConflict, simapi.CrashBefore, simapi.CrashAfter, simapi.CacheMiss} {
						run(tw, fmt.Sprintf("%s/sweep-r%d-k%d-%s", sc.ID, r+1, k, d), hist, &sweep{rec: r + 1, idx: k, d: d}, st, sum)
						sum.SweepRuns++
					}
				}
			}
		}
	}
	sum.Events = tw.Lines
	sum.Counts = tw.Counts
	keys := make([]string, 0, len(sum.Counts))
	for k := range sum.Counts {
		keys = append(keys, k)
	}
	sort.Strings(keys)
	if err := tw.Close(); err != nil {
		fmt.Fprintln(os.Stderr, err)
		os.Exit(2)
	}
	if err := scen.WriteJSON(*sumPath, sum); err != nil {
		fmt.Fprintln(os.Stderr, err)
		os.Exit(2)
	}
}
