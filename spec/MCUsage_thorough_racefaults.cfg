SPECIFICATION Spec
CONSTANTS
  USeq <- S2
  Useds <- U1
  USel = {"u1"}
  UCtl = {"u1"}
  Versions = {"v1", "v1beta1"}
  Configs <- CfgMin
  Policies <- Pol1
  MaxCreates = 2
  MaxFaults = 1
  MaxDel = 1
  Interleave = TRUE
  MidEnv = TRUE
  BFin = FALSE
  FixBump = FALSE
VIEW view
ACTION_CONSTRAINT EmitAll
CHECK_DEADLOCK FALSE
INVARIANTS TypeOK Allowed Owned IndexAgree
PROPERTIES UsageAfterUser
