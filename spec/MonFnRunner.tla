----------------------------- MODULE MonFnRunner -----------------------------
(***************************************************************************)
(* Trace monitor for FnRunner (check X08): evaluates the properties listed *)
(* in the header of FnRunner.tla on every recorded step of executions of   *)
(* the real xfn.PackagedFunctionRunner (harness/drivers/fnrunner).         *)
(*                                                                         *)
(* One event per step of a schedule.  e.call is the record of the call the *)
(* acting caller is in: what the reader returned to it (listed, in the     *)
(* order handed to the code), the interceptors created on its goroutine,   *)
(* every RPC it issued as seen by the first interceptor (api, connection,  *)
(* target, code, the interceptors passed), every request a server handler  *)
(* received for it, digests of the messages at both ends, and - once done  *)
(* - the projected error.  e.gc is the collector run.  e.post is the state *)
(* at rest after the step: the runner's connection table (pool), every     *)
(* connection ever seen with its state, the number of dials, the           *)
(* environment.  e.acq marks the step in which the caller passed the fast  *)
(* / slow path; e.overlapped marks steps that really ran concurrently with *)
(* another actor (turnstile groups, atomicity probes): the state formulas  *)
(* are judged on them, the per-step deltas are not.                        *)
(***************************************************************************)
EXTENDS Integers, Sequences, FiniteSets, TLC, Json, IOUtils

Trace == ndJsonDeserialize(IOEnv.VERIF_TRACE)
VARIABLE l
Range(s) == {s[i] : i \in DOMAIN s}
Last(s) == s[Len(s)]

\* ---- what the call read
ActIdx(c) == {k \in DOMAIN c.listed : c.listed[k].act}
HasActive(c) == ActIdx(c) # {}
FA(c) == c.listed[CHOOSE k \in ActIdx(c) : \A j \in ActIdx(c) : k <= j]     \* the first Active revision of the list
Read(c) == c.didlist /\ ~c.listerr /\ HasActive(c)                           \* the call found an active revision
Serving == {"e1", "e2", "e3"}                                                \* endpoints whose server implements v1 or v1beta1
Dialable == Serving \cup {"e4"}

\* ---- the state at rest
Conn(P, id) == CHOOSE x \in Range(P.conns) : x.conn = id
Known(P, id) == \E x \in Range(P.conns) : x.conn = id
Closed(P, id) == Known(P, id) /\ Conn(P, id).closed
ClosedSet(P) == {x.conn : x \in {y \in Range(P.conns) : y.closed}}
HasEntry(P, f) == \E x \in Range(P.pool) : x.f = f
Entry(P, f) == CHOOSE x \in Range(P.pool) : x.f = f

PoolOpen(P) == \A x \in Range(P.pool) : ~Closed(P, x.conn)
PoolKeyed(P) == \A x \in Range(P.pool) : Known(P, x.conn) /\ Conn(P, x.conn).f = x.f /\ Conn(P, x.conn).target = x.target
PoolOneOpen(P) == \A x, y \in Range(P.conns) : (x.conn # y.conn /\ x.f = y.f) => (x.closed \/ y.closed)
NoLeak(P) == \A x \in Range(P.conns) : x.closed \/ x.pooled
DialsCount(P) == P.dials - P.dialerrs = Len(P.conns)

\* ---- a call
IsCall(e) == e.ev = "step" /\ e.op = "call"
Ended(e) == IsCall(e) /\ e.fin /\ e.call.done
GetConnErrs == {"list", "noactive", "emptyep", "dial"}

ErrorList(c) == (c.listerr <=> c.res = "list")
ErrorNoActive(c) == ((c.didlist /\ ~c.listerr /\ ~HasActive(c)) <=> c.res = "noactive")
ErrorEmptyEndpoint(c) == /\ ((Read(c) /\ FA(c).ep = "none") <=> c.res = "emptyep")
                         /\ (c.res = "emptyep" => (HasActive(c) /\ c.errrev = FA(c).name))
ErrorDial(c) == /\ ((Read(c) /\ FA(c).ep = "bad") <=> c.res = "dial")
                /\ (c.res = "dial" => (HasActive(c) /\ c.errrev = FA(c).name /\ c.errep = "bad"))
ErrorNothingSent(c) == /\ (c.res \in GetConnErrs => (c.rpcs = <<>> /\ c.served = <<>>))
                       /\ (c.res \in {"list", "noactive", "emptyep"} => c.icreated = <<>>)
ErrorWrapped(c) == /\ (c.res \in GetConnErrs => (c.wrap = "getconn" /\ c.wrapfn = c.f))
                   /\ (c.res = "rpc" => (c.wrap = "run" /\ c.wrapfn = c.f))
                   /\ (c.res = "ok" => c.wrap = "none")
ErrorKnown(c) == c.res \in GetConnErrs \cup {"rpc", "ok"}

\* every RPC travels on a connection to the endpoint of the active revision this call read, and arrives there
RoutingEndpoint(c) == (c.rpcs # <<>> \/ c.served # <<>>) =>
                        /\ Read(c)
                        /\ \A r \in Range(c.rpcs) : r.target = FA(c).ep
                        /\ \A s \in Range(c.served) : s.server = FA(c).ep
\* the reader was asked for the revisions of this function only
RoutingOwnRevisions(c) == \A x \in Range(c.listed) : x.parent = c.f
RoutingSent(c) == c.res \in {"ok", "rpc"} => c.rpcs # <<>>

FallbackV1First(c) == c.rpcs # <<>> => c.rpcs[1].api = "v1"
FallbackOnce(c) == /\ Len(c.rpcs) <= 2
                   /\ (Len(c.rpcs) = 2 => (c.rpcs[2].api = "v1beta1" /\ c.rpcs[2].conn = c.rpcs[1].conn))
FallbackOnlyUnimplemented(c) == Len(c.rpcs) >= 2 => c.rpcs[1].code = "Unimplemented"
FallbackRetries(c) == (c.rpcs # <<>> /\ c.rpcs[1].code = "Unimplemented") => Len(c.rpcs) >= 2
FallbackResult(c) == c.rpcs # <<>> => (c.code = Last(c.rpcs).code /\ (c.res = "ok" <=> Last(c.rpcs).code = "OK"))
\* the servers received exactly the RPCs that they answered (a request of this call arrives at most once per api)
FallbackServed(c) == /\ \A s \in Range(c.served) : \E r \in Range(c.rpcs) : r.api = s.api
                     /\ \A r \in Range(c.rpcs) : r.code = "OK" => \E s \in Range(c.served) : s.api = r.api
                     /\ \A i, j \in DOMAIN c.served : i # j => c.served[i].api # c.served[j].api

WireRequest(c) == \A s \in Range(c.served) : s.got = c.sent /\ c.sent # "none"
WireResponse(c) == c.res = "ok" => (c.served # <<>> /\ c.rgot = Last(c.served).rsent /\ c.rgot \notin {"none", "nil"})

InterceptCreated(c) == /\ \A k \in DOMAIN c.icreated : c.icreated[k].n = (IF k % 2 = 1 THEN 1 ELSE 2) /\ c.icreated[k].name = c.f
                       /\ Len(c.icreated) % 2 = 0
InterceptCreatedPackage(c) == \A k \in DOMAIN c.icreated : Read(c) /\ c.icreated[k].pkg = FA(c).pkg
InterceptChain(c) == \A r \in Range(c.rpcs) : r.iorder = <<1, 2>>
InterceptName(c) == \A r \in Range(c.rpcs) : \A n \in Range(r.inames) : n = c.f
\* F-a: the package the interceptors of an RPC were created with is the package of the active revision the call read
InterceptPackage(c) == \A r \in Range(c.rpcs) : Read(c) /\ \A k \in Range(r.ipkgs) : k = FA(c).pkg

CanceledOnlyIfClosed(e) == \A r \in Range(e.call.rpcs) : r.code = "Canceled" => Closed(e.post, r.conn)

\* ---- the step in which a caller obtained its connection (not overlapped): p is the previous event
Acquired(e) == IsCall(e) /\ e.acq /\ ~e.overlapped /\ Read(e.call) /\ FA(e.call).ep \in Dialable \cup {"bad"}
\* the pooled connection has the target this call read / its interceptors were created for the package this call read
Fresh(p, e) == HasEntry(p.post, e.call.f) /\ Entry(p.post, e.call.f).target = FA(e.call).ep
SamePkg(p, e) == Conn(p.post, Entry(p.post, e.call.f).conn).pkg = FA(e.call).pkg
Reused(p, e) == /\ e.post.dials = p.post.dials /\ e.call.icreated = <<>>
                /\ e.call.conn = Entry(p.post, e.call.f).conn
Dialed(p, e) == /\ e.post.dials = p.post.dials + 1 /\ Len(e.call.icreated) = 2
                /\ ~Known(p.post, e.call.conn) /\ e.call.conn # "none"
                /\ HasEntry(e.post, e.call.f) /\ Entry(e.post, e.call.f).conn = e.call.conn
                /\ Entry(e.post, e.call.f).target = FA(e.call).ep
PoolReuse(p, e) == (Acquired(e) /\ Fresh(p, e) /\ SamePkg(p, e)) => Reused(p, e)
PoolDialOnce(p, e) == (Acquired(e) /\ ~Fresh(p, e) /\ FA(e.call).ep \in Dialable) => Dialed(p, e)
ReplaceClosed(p, e) == (Acquired(e) /\ ~Fresh(p, e) /\ HasEntry(p.post, e.call.f)) => Closed(e.post, Entry(p.post, e.call.f).conn)
\* same target, but the pooled connection's interceptors carry another package (the function was upgraded in place): the code
\* as written reuses the connection (and violates Intercept.Package), a repaired runner replaces it - nothing else is allowed
PoolReuseOrRedial(p, e) == (Acquired(e) /\ Fresh(p, e) /\ ~SamePkg(p, e) /\ FA(e.call).ep \in Dialable) =>
                             (Reused(p, e) \/ (Dialed(p, e) /\ Closed(e.post, Entry(p.post, e.call.f).conn)))
PoolDialError(p, e) == (Acquired(e) /\ FA(e.call).ep = "bad") =>
                         /\ ~HasEntry(e.post, e.call.f) /\ e.post.dials = p.post.dials + 1 /\ e.post.dialerrs = p.post.dialerrs + 1
\* a call never touches another function's connection
PoolOthersUntouched(p, e) == (IsCall(e) /\ ~e.overlapped) =>
                               \A x \in Range(p.post.pool) : x.f # e.call.f => (x \in Range(e.post.pool) /\ ~Closed(e.post, x.conn))
\* listing, sending, answering and environment steps leave the pool alone
PoolQuietSteps(p, e) == ((IsCall(e) /\ ~e.acq /\ ~e.overlapped) \/ (e.ev = "step" /\ e.op = "env")) =>
                          /\ e.post.pool = p.post.pool /\ e.post.dials = p.post.dials /\ ClosedSet(e.post) = ClosedSet(p.post)
\* a call that does not get as far as choosing an endpoint leaves the pool alone as well
PoolErrorKeeps(p, e) == (IsCall(e) /\ e.acq /\ ~e.overlapped /\ e.call.res \in {"list", "noactive", "emptyep"}) =>
                          /\ e.post.pool = p.post.pool /\ e.post.dials = p.post.dials /\ ClosedSet(e.post) = ClosedSet(p.post)

\* ---- the collector (not overlapped): p is the previous event
IsGc(e) == e.ev = "step" /\ e.op = "gc" /\ e.fin /\ ~e.overlapped
Listed(e) == e.gc.didlist /\ ~e.gc.listerr
Gone(p, e) == {x \in Range(p.post.pool) : x.f \notin Range(e.gc.listed)}
GcNoWork(p, e) == (IsGc(e) /\ p.post.pool = <<>>) => (~e.gc.didlist /\ e.gc.n = 0 /\ ~e.gc.err)
GcLists(p, e) == (IsGc(e) /\ p.post.pool # <<>>) => e.gc.didlist
GcListError(p, e) == (IsGc(e) /\ e.gc.listerr) => (e.gc.err /\ e.gc.n = 0 /\ e.post.pool = p.post.pool /\ ClosedSet(e.post) = ClosedSet(p.post))
GcSpared(p, e) == (IsGc(e) /\ Listed(e)) => \A x \in Range(p.post.pool) \ Gone(p, e) : x \in Range(e.post.pool) /\ ~Closed(e.post, x.conn)
GcCollected(p, e) == (IsGc(e) /\ Listed(e)) => \A x \in Gone(p, e) : Closed(e.post, x.conn) /\ ~HasEntry(e.post, x.f)
GcCount(p, e) == (IsGc(e) /\ Listed(e)) => (e.gc.n = Cardinality(Gone(p, e)) /\ ~e.gc.err)
GcOnly(p, e) == IsGc(e) => (ClosedSet(e.post) \ ClosedSet(p.post) \subseteq {x.conn : x \in Gone(p, e)} /\ e.post.dials = p.post.dials)

\* ---- a turnstile group: several callers that read the same endpoint for the same function all missed on the fast path
\* (or all hit) before any of them took the slow path.  "Another Goroutine might have updated the connections between when
\* we released the read lock and took the write lock, so check again": they end up sharing ONE connection - at most one
\* dial, and nobody closes the connection another member just dialled.  (grp.pre is the state before the group.)
IsGroup(e) == e.ev = "group" /\ e.grp.ep \in Dialable
GroupFresh(e) == HasEntry(e.grp.pre, e.grp.f) /\ Entry(e.grp.pre, e.grp.f).target = e.grp.ep
GroupSamePkg(e) == Conn(e.grp.pre, Entry(e.grp.pre, e.grp.f).conn).pkg = e.grp.pkg
GroupDialOnce(e) == IsGroup(e) => LET d == e.post.dials - e.grp.pre.dials IN
                                  IF ~GroupFresh(e) THEN d = 1 ELSE IF GroupSamePkg(e) THEN d = 0 ELSE d \in {0, 1}
GroupShareOne(e) == IsGroup(e) => (HasEntry(e.post, e.grp.f) /\ \A m \in Range(e.grp.members) : m.conn = Entry(e.post, e.grp.f).conn)
GroupNoChurn(e) == IsGroup(e) => \A id \in ClosedSet(e.post) \ ClosedSet(e.grp.pre) :
                                    Conn(e.post, id).target # e.grp.ep \/ (Known(e.grp.pre, id) /\ Conn(e.post, id).pkg # e.grp.pkg)

\* ---- the fault-free calls that run alone at the end of every schedule: nothing that happened before poisons the pool
IsSolo(e) == Ended(e) /\ e.seg = "solo"
SoloSucceeds(e) == (IsSolo(e) /\ Read(e.call) /\ FA(e.call).ep \in Serving) => e.call.res = "ok"
SoloUnimplemented(e) == (IsSolo(e) /\ Read(e.call) /\ FA(e.call).ep = "e4") => (e.call.res = "rpc" /\ e.call.code = "Unimplemented" /\ Len(e.call.rpcs) = 2)

\* ---- after the teardown (every Function deleted, the collector ran - every fourth time as the real ticker loop)
FinalAllClosed(e) == e.ev = "final" => (e.post.pool = <<>> /\ \A x \in Range(e.post.conns) : x.closed)
GcLoopCollects(e) == (e.ev = "final" /\ e.loop.ran) => e.loop.collected
GcLoopSurvivesError(e) == (e.ev = "final" /\ e.loop.ran) => e.loop.errors >= 1
GcLoopStops(e) == (e.ev = "final" /\ e.loop.ran) => e.loop.stopped
\* the real xfn.Metrics interceptor (third creator) counted one request per RPC, under the function's name and method
MetricsRequests(e) == e.ev = "final" => e.metrics = e.rpcn

\* ---- the messages fill every field; the two schemas are the same
WireAllFields(e) == e.ev = "reset" => (e.wire.unfilled = <<>> /\ e.wire.fields > 40)
WireSameSchema(e) == e.ev = "reset" => e.wire.diff = <<>>

NoDeadlock(e) == e.ev # "hung"

Viol(name, i) == PrintT("VIOL|" \o name \o "|" \o ToString(i) \o "|" \o Trace[i].scenario)
CheckCall(e, i) ==
  LET c == e.call IN
  /\ (RoutingEndpoint(c) \/ Viol("Routing.Endpoint", i))
  /\ (RoutingOwnRevisions(c) \/ Viol("Routing.OwnRevisions", i))
  /\ (FallbackV1First(c) \/ Viol("Fallback.V1First", i))
  /\ (FallbackOnce(c) \/ Viol("Fallback.Once", i))
  /\ (FallbackOnlyUnimplemented(c) \/ Viol("Fallback.OnlyUnimplemented", i))
  /\ (WireRequest(c) \/ Viol("Wire.Request", i))
  /\ (InterceptCreated(c) \/ Viol("Intercept.Created", i))
  /\ (InterceptCreatedPackage(c) \/ Viol("Intercept.Created.Package", i))
  /\ (InterceptChain(c) \/ Viol("Intercept.Chain", i))
  /\ (InterceptName(c) \/ Viol("Intercept.Name", i))
  /\ (CanceledOnlyIfClosed(e) \/ Viol("Canceled.OnlyIfClosed", i))
  /\ (~Ended(e) \/
        /\ (ErrorList(c) \/ Viol("Error.List", i))
        /\ (ErrorNoActive(c) \/ Viol("Error.NoActive", i))
        /\ (ErrorEmptyEndpoint(c) \/ Viol("Error.EmptyEndpoint", i))
        /\ (ErrorDial(c) \/ Viol("Error.Dial", i))
        /\ (ErrorNothingSent(c) \/ Viol("Error.NothingSent", i))
        /\ (ErrorWrapped(c) \/ Viol("Error.Wrapped", i))
        /\ (ErrorKnown(c) \/ Viol("Error.Known", i))
        /\ (RoutingSent(c) \/ Viol("Routing.Sent", i))
        /\ (FallbackRetries(c) \/ Viol("Fallback.Retries", i))
        /\ (FallbackResult(c) \/ Viol("Fallback.Result", i))
        /\ (FallbackServed(c) \/ Viol("Fallback.Served", i))
        /\ (WireResponse(c) \/ Viol("Wire.Response", i))
        /\ (InterceptPackage(c) \/ Viol("Intercept.Package", i))
        /\ (SoloSucceeds(e) \/ Viol("Solo.Succeeds", i))
        /\ (SoloUnimplemented(e) \/ Viol("Solo.Unimplemented", i)))

Check(i) ==
  LET e == Trace[i] IN
  /\ (PoolOpen(e.post) \/ Viol("Pool.Open", i))
  /\ (PoolKeyed(e.post) \/ Viol("Pool.Keyed", i))
  /\ (PoolOneOpen(e.post) \/ Viol("Pool.OneOpen", i))
  /\ (NoLeak(e.post) \/ Viol("NoLeak", i))
  /\ (DialsCount(e.post) \/ Viol("Dials.Count", i))
  /\ (NoDeadlock(e) \/ Viol("NoDeadlock", i))
  /\ (WireAllFields(e) \/ Viol("Wire.AllFields", i))
  /\ (WireSameSchema(e) \/ Viol("Wire.SameSchema", i))
  /\ (FinalAllClosed(e) \/ Viol("Final.AllClosed", i))
  /\ (GcLoopCollects(e) \/ Viol("GcLoop.Collects", i))
  /\ (GcLoopSurvivesError(e) \/ Viol("GcLoop.SurvivesError", i))
  /\ (GcLoopStops(e) \/ Viol("GcLoop.Stops", i))
  /\ (MetricsRequests(e) \/ Viol("Metrics.Requests", i))
  /\ (GroupDialOnce(e) \/ Viol("Group.DialOnce", i))
  /\ (GroupShareOne(e) \/ Viol("Group.ShareOne", i))
  /\ (GroupNoChurn(e) \/ Viol("Group.NoChurn", i))
  /\ (~IsCall(e) \/ CheckCall(e, i))
  /\ (e.ev \in {"reset", "hung"} \/ i = 1 \/
        LET p == Trace[i - 1] IN
        /\ (PoolReuse(p, e) \/ Viol("Pool.Reuse", i))
        /\ (PoolDialOnce(p, e) \/ Viol("Pool.DialOnce", i))
        /\ (ReplaceClosed(p, e) \/ Viol("Replace.Closed", i))
        /\ (PoolReuseOrRedial(p, e) \/ Viol("Pool.ReuseOrRedial", i))
        /\ (PoolDialError(p, e) \/ Viol("Pool.DialError", i))
        /\ (PoolOthersUntouched(p, e) \/ Viol("Pool.OthersUntouched", i))
        /\ (PoolQuietSteps(p, e) \/ Viol("Pool.QuietSteps", i))
        /\ (PoolErrorKeeps(p, e) \/ Viol("Pool.ErrorKeeps", i))
        /\ (GcNoWork(p, e) \/ Viol("Gc.NoWork", i))
        /\ (GcLists(p, e) \/ Viol("Gc.Lists", i))
        /\ (GcListError(p, e) \/ Viol("Gc.ListError", i))
        /\ (GcSpared(p, e) \/ Viol("Gc.Spared", i))
        /\ (GcCollected(p, e) \/ Viol("Gc.Collected", i))
        /\ (GcCount(p, e) \/ Viol("Gc.Count", i))
        /\ (GcOnly(p, e) \/ Viol("Gc.Only", i)))

Init == l = 0
Next == /\ l < Len(Trace) /\ l' = l + 1 /\ Check(l')
        /\ (l' < Len(Trace) \/ PrintT("DONE|" \o ToString(l')))
Spec == Init /\ [][Next]_l
=============================================================================
