// Driver for spec/XCRD.tla (property C11): feeds every input vector that TLC
// enumerated from MCXCRD.tla to the real, unmodified Crossplane code
//
//   - internal/xcrd  ForCompositeResource, ForCompositeResourceClaim
//   - apis/apiextensions/v1  (*CompositeResourceDefinition).ValidateUpdate
//   - internal/validation/apiextensions/v1/xrd  the admission handler, reached
//     through its only exported entry point SetupWebhookWithManager: the
//     *admission.Webhook it registers with the (fake) webhook server is invoked
//     with real AdmissionRequests (CREATE of new, UPDATE old -> new); its client
//     is simapi (dry-run create / update of the rendered CRDs)
//
// and records one trace line per vector: the input verbatim plus the projected
// real output.  Each abstract XRD of the model is materialised as a real
// v1.CompositeResourceDefinition: every (version, part, property, tag) becomes
// a distinguishable OpenAPI schema (tagSchema), rule / oneOf tags become real
// x-kubernetes-validations / oneOf entries.  The CRDs the real code returns are
// projected back to the abstract maps of XCRD.tla:
//
//	tag of a property = the author tag whose materialised schema it equals exactly,
//	                    "std" if it equals the standard machinery schema,
//	                    "std+default=X" if it is the standard schema plus default "X",
//	                    "other" otherwise.
//
// ORACLE CHOICE for "standard schema": what the real code itself emits (from
// the real tables of internal/xcrd/schemas.go) for a reference XRD whose author
// schema is empty and that declares no default policies, i.e. the machinery
// schema when the author does not interfere.
//
// No property logic lives here: spec/MonXCRD.tla judges the recorded outputs.
// A panic of the real code is recovered and recorded as "no CRD" with the panic
// message.
package main

import (
	"context"
	"encoding/json"
	"flag"
	"fmt"
	"math/rand"
	"net/http"
	"os"
	"runtime/pprof"
	"sort"
	"strings"
	"time"

	"github.com/go-logr/logr"
	admissionv1 "k8s.io/api/admission/v1"
	extv1 "k8s.io/apiextensions-apiserver/pkg/apis/apiextensions/v1"
	metav1 "k8s.io/apimachinery/pkg/apis/meta/v1"
	"k8s.io/apimachinery/pkg/runtime"
	"k8s.io/apimachinery/pkg/types"
	"k8s.io/utils/ptr"
	"sigs.k8s.io/controller-runtime/pkg/healthz"
	ctrllog "sigs.k8s.io/controller-runtime/pkg/log"
	"sigs.k8s.io/controller-runtime/pkg/webhook/admission"

	xpv1 "github.com/crossplane/crossplane-runtime/apis/common/v1"
	"github.com/crossplane/crossplane-runtime/pkg/controller"

	v1 "github.com/crossplane/crossplane/apis/apiextensions/v1"
	xrdval "github.com/crossplane/crossplane/internal/validation/apiextensions/v1/xrd"
	"github.com/crossplane/crossplane/internal/xcrd"
	"github.com/crossplane/crossplane/zzverif/fakes"
	"github.com/crossplane/crossplane/zzverif/scen"
	"github.com/crossplane/crossplane/zzverif/simapi"
	"github.com/crossplane/crossplane/zzverif/trace"
)

// ---------------------------------------------------------------- abstract values (XCRD.tla)

type Names struct {
	Kind     string `json:"kind"`
	Plural   string `json:"plural"`
	Singular string `json:"singular"`
	ListKind string `json:"listKind"`
}

type Claim struct {
	Present  bool   `json:"present"`
	Kind     string `json:"kind"`
	Plural   string `json:"plural"`
	Singular string `json:"singular"`
	ListKind string `json:"listKind"`
}

type Prop struct {
	N string `json:"n"`
	T string `json:"t"`
}

type Part struct {
	Props []Prop   `json:"props"`
	Req   []string `json:"req"`
	Xval  []string `json:"xval"`
	OneOf []string `json:"oneOf"`
	Puf   bool     `json:"puf"`
}

type Schema struct {
	Spec    Part `json:"spec"`
	Status  Part `json:"status"`
	NameMax int  `json:"nameMax"`
}

type Version struct {
	Name   string `json:"name"`
	Served bool   `json:"served"`
	Ref    bool   `json:"ref"`
	Schema Schema `json:"schema"`
}

type XRD struct {
	Group    string    `json:"group"`
	Names    Names     `json:"names"`
	Claim    Claim     `json:"claim"`
	Cup      string    `json:"cup"`
	Cdp      string    `json:"cdp"`
	Conv     string    `json:"conv"`
	Versions []Version `json:"versions"`
}

type Input struct {
	Fam string `json:"fam"`
	Sub string `json:"sub"`
	Old XRD    `json:"old"`
	New XRD    `json:"new"`
}

var allTags = []string{"t1", "t2", "t3"}

// ---------------------------------------------------------------- materialisation

func mustJSON(v any) []byte {
	b, err := json.Marshal(v)
	if err != nil {
		panic(err)
	}
	return b
}

// tagSchema is the schema the author "wrote" for property name of part of version ver under tag.
// The description makes every (version, part, name, tag) distinguishable; the tags differ in the
// OpenAPI features they carry (nested oneOf, CEL rule, preserve-unknown-fields, default, enum ...).
func tagSchema(ver, part, name, tag string) extv1.JSONSchemaProps {
	id := fmt.Sprintf("author:%s:%s:%s:%s", ver, part, name, tag)
	switch tag {
	case "t1":
		return extv1.JSONSchemaProps{Type: "integer", Description: id, Minimum: ptr.To(1.0)}
	case "t2":
		return extv1.JSONSchemaProps{
			Type: "object", Description: id, XPreserveUnknownFields: ptr.To(true),
			Properties: map[string]extv1.JSONSchemaProps{"name": {Type: "string", MaxLength: ptr.To[int64](7)}},
			Required:   []string{"name"},
			OneOf:      []extv1.JSONSchemaProps{{Required: []string{"name"}}, {Required: []string{"id"}}},
		}
	default: // t3
		return extv1.JSONSchemaProps{
			Type: "string", Description: id,
			XValidations: extv1.ValidationRules{{Rule: "self.size() > 0", Message: id}},
			Enum:         []extv1.JSON{{Raw: []byte(`"a"`)}, {Raw: []byte(`"b"`)}},
			Default:      &extv1.JSON{Raw: []byte(`"a"`)},
		}
	}
}

func ruleOf(ver, part, tag string) extv1.ValidationRule {
	return extv1.ValidationRule{Rule: "has(self." + tag + ") || true", Message: fmt.Sprintf("author:%s:%s:%s", ver, part, tag)}
}

func altOf(ver, part, tag string) extv1.JSONSchemaProps {
	return extv1.JSONSchemaProps{Required: []string{tag}, Description: fmt.Sprintf("author:%s:%s:%s", ver, part, tag)}
}

func (p Part) empty() bool {
	return len(p.Props) == 0 && len(p.Req) == 0 && len(p.Xval) == 0 && len(p.OneOf) == 0 && !p.Puf
}

func partSchema(ver, part string, p Part, rng *rand.Rand) extv1.JSONSchemaProps {
	s := extv1.JSONSchemaProps{Type: "object", Description: "author:" + ver + ":" + part}
	if len(p.Props) > 0 {
		s.Properties = map[string]extv1.JSONSchemaProps{}
	}
	for _, pr := range p.Props {
		s.Properties[pr.N] = tagSchema(ver, part, pr.N, pr.T)
	}
	req := append([]string(nil), p.Req...)
	sort.Strings(req)
	rng.Shuffle(len(req), func(i, j int) { req[i], req[j] = req[j], req[i] })
	s.Required = req
	xv := append([]string(nil), p.Xval...)
	sort.Strings(xv)
	for _, t := range xv {
		s.XValidations = append(s.XValidations, ruleOf(ver, part, t))
	}
	oo := append([]string(nil), p.OneOf...)
	sort.Strings(oo)
	for _, t := range oo {
		s.OneOf = append(s.OneOf, altOf(ver, part, t))
	}
	if p.Puf {
		s.XPreserveUnknownFields = ptr.To(true)
	}
	return s
}

// materialise builds the real XRD. An entirely empty part is either written as an empty object
// schema or left out altogether (chosen by the per-vector seed).
func materialise(x XRD, rng *rand.Rand) *v1.CompositeResourceDefinition {
	d := &v1.CompositeResourceDefinition{}
	d.APIVersion = v1.SchemeGroupVersion.String()
	d.Kind = v1.CompositeResourceDefinitionKind
	d.SetName(x.Names.Plural + "." + x.Group)
	d.SetUID(types.UID("uid-" + d.GetName()))
	d.Spec.Group = x.Group
	d.Spec.Names = extv1.CustomResourceDefinitionNames{Kind: x.Names.Kind, Plural: x.Names.Plural, Singular: x.Names.Singular, ListKind: x.Names.ListKind}
	if x.Claim.Present {
		d.Spec.ClaimNames = &extv1.CustomResourceDefinitionNames{Kind: x.Claim.Kind, Plural: x.Claim.Plural, Singular: x.Claim.Singular, ListKind: x.Claim.ListKind}
	}
	if x.Cup != "unset" {
		d.Spec.DefaultCompositionUpdatePolicy = ptr.To(xpv1.UpdatePolicy(x.Cup))
	}
	if x.Cdp != "unset" {
		d.Spec.DefaultCompositeDeletePolicy = ptr.To(xpv1.CompositeDeletePolicy(x.Cdp))
	}
	switch x.Conv {
	case "None":
		d.Spec.Conversion = &extv1.CustomResourceConversion{Strategy: extv1.NoneConverter}
	case "Webhook":
		d.Spec.Conversion = &extv1.CustomResourceConversion{Strategy: extv1.WebhookConverter, Webhook: &extv1.WebhookConversion{
			ClientConfig:             &extv1.WebhookClientConfig{URL: ptr.To("https://conv.example.org/convert")},
			ConversionReviewVersions: []string{"v1"},
		}}
	case "WebhookNoConfig":
		d.Spec.Conversion = &extv1.CustomResourceConversion{Strategy: extv1.WebhookConverter}
	}
	for _, v := range x.Versions {
		root := extv1.JSONSchemaProps{Type: "object", Description: "author:" + v.Name + ":root", Properties: map[string]extv1.JSONSchemaProps{}}
		if !v.Schema.Spec.empty() || rng.Intn(2) == 0 {
			root.Properties["spec"] = partSchema(v.Name, "spec", v.Schema.Spec, rng)
		}
		if !v.Schema.Status.empty() || rng.Intn(2) == 0 {
			root.Properties["status"] = partSchema(v.Name, "status", v.Schema.Status, rng)
		}
		if v.Schema.NameMax >= 0 {
			root.Properties["metadata"] = extv1.JSONSchemaProps{Type: "object", Properties: map[string]extv1.JSONSchemaProps{
				"name": {Type: "string", MaxLength: ptr.To(int64(v.Schema.NameMax))},
			}}
		}
		d.Spec.Versions = append(d.Spec.Versions, v1.CompositeResourceDefinitionVersion{
			Name: v.Name, Served: v.Served, Referenceable: v.Ref,
			Schema: &v1.CompositeResourceValidation{OpenAPIV3Schema: runtime.RawExtension{Raw: mustJSON(root)}},
		})
	}
	return d
}

// ---------------------------------------------------------------- the "standard schema" oracle

type stdTables struct {
	// kind ("xr" | "claim") -> part ("spec" | "status") -> property -> marshalled standard schema
	props map[string]map[string]map[string]string
	// keys of the real tables of schemas.go
	mach map[string][]string
}

func keysOf(m map[string]extv1.JSONSchemaProps) []string {
	out := make([]string, 0, len(m))
	for k := range m {
		out = append(out, k)
	}
	sort.Strings(out)
	return out
}

func newStd() *stdTables {
	ref := &v1.CompositeResourceDefinition{}
	ref.SetName("xrefs.ref.example.org")
	ref.SetUID("uid-ref")
	ref.Spec.Group = "ref.example.org"
	ref.Spec.Names = extv1.CustomResourceDefinitionNames{Kind: "XRef", Plural: "xrefs", Singular: "xref", ListKind: "XRefList"}
	ref.Spec.ClaimNames = &extv1.CustomResourceDefinitionNames{Kind: "Ref", Plural: "refs", Singular: "ref", ListKind: "RefList"}
	ref.Spec.Versions = []v1.CompositeResourceDefinitionVersion{{
		Name: "v1", Served: true, Referenceable: true,
		Schema: &v1.CompositeResourceValidation{OpenAPIV3Schema: runtime.RawExtension{Raw: []byte(`{"type":"object"}`)}},
	}}
	st := &stdTables{props: map[string]map[string]map[string]string{}, mach: map[string][]string{
		"xr":     keysOf(xcrd.CompositeResourceSpecProps()),
		"claim":  keysOf(xcrd.CompositeResourceClaimSpecProps()),
		"status": keysOf(xcrd.CompositeResourceStatusProps()),
	}}
	for kind, fn := range map[string]func(*v1.CompositeResourceDefinition) (*extv1.CustomResourceDefinition, error){
		"xr": xcrd.ForCompositeResource, "claim": xcrd.ForCompositeResourceClaim,
	} {
		crd, err := fn(ref)
		if err != nil || len(crd.Spec.Versions) != 1 || crd.Spec.Versions[0].Schema == nil || crd.Spec.Versions[0].Schema.OpenAPIV3Schema == nil {
			must(fmt.Errorf("cannot render the reference XRD (%s): %v", kind, err))
		}
		st.props[kind] = map[string]map[string]string{}
		for _, part := range []string{"spec", "status"} {
			st.props[kind][part] = map[string]string{}
			for n, p := range crd.Spec.Versions[0].Schema.OpenAPIV3Schema.Properties[part].Properties {
				st.props[kind][part][n] = string(mustJSON(p))
			}
		}
	}
	return st
}

// ---------------------------------------------------------------- projection

type projector struct {
	std      *stdTables
	tagCache map[string]string
}

func (p *projector) tagJSON(ver, part, name, tag string) string {
	k := ver + "|" + part + "|" + name + "|" + tag
	if s, ok := p.tagCache[k]; ok {
		return s
	}
	s := string(mustJSON(tagSchema(ver, part, name, tag)))
	p.tagCache[k] = s
	return s
}

func (p *projector) classify(kind, ver, part, name string, s extv1.JSONSchemaProps) string {
	j := string(mustJSON(s))
	for _, t := range allTags {
		if j == p.tagJSON(ver, part, name, t) {
			return t
		}
	}
	if std, ok := p.std.props[kind][part][name]; ok {
		if j == std {
			return "std"
		}
		if s.Default != nil {
			q := s
			q.Default = nil
			var str string
			if string(mustJSON(q)) == std && json.Unmarshal(s.Default.Raw, &str) == nil {
				return "std+default=" + str
			}
		}
	}
	return "other"
}

func (p *projector) part(kind, ver, part string, s extv1.JSONSchemaProps) map[string]any {
	props := []any{}
	for _, n := range keysOf(s.Properties) {
		props = append(props, map[string]any{"n": n, "t": p.classify(kind, ver, part, n, s.Properties[n])})
	}
	req := []string{}
	req = append(req, s.Required...)
	xval := []string{}
	for _, r := range s.XValidations {
		t := "other"
		for _, c := range []string{"r1", "r2"} {
			if string(mustJSON(r)) == string(mustJSON(ruleOf(ver, part, c))) {
				t = c
			}
		}
		xval = append(xval, t)
	}
	oneOf := []string{}
	for _, a := range s.OneOf {
		t := "other"
		for _, c := range []string{"o1", "o2"} {
			if string(mustJSON(a)) == string(mustJSON(altOf(ver, part, c))) {
				t = c
			}
		}
		oneOf = append(oneOf, t)
	}
	return map[string]any{"props": props, "req": req, "xval": xval, "oneOf": oneOf,
		"puf": s.XPreserveUnknownFields != nil && *s.XPreserveUnknownFields, "type": s.Type}
}

func errCRD(msg string) map[string]any {
	return map[string]any{"err": true, "msg": msg, "scope": "none", "group": "",
		"names": Names{}, "name": "",
		"owner":    map[string]any{"count": 0, "ctrls": 0, "ctrl": false, "kind": "", "api": "", "name": "", "uid": ""},
		"versions": []any{}}
}

func (p *projector) crd(kind string, c *extv1.CustomResourceDefinition) map[string]any {
	owner := map[string]any{"count": len(c.OwnerReferences), "ctrls": 0, "ctrl": false, "kind": "", "api": "", "name": "", "uid": ""}
	ctrls := 0
	for i, o := range c.OwnerReferences {
		isCtrl := o.Controller != nil && *o.Controller
		if isCtrl {
			ctrls++
		}
		if i == 0 {
			owner["ctrl"], owner["kind"], owner["api"], owner["name"], owner["uid"] = isCtrl, o.Kind, o.APIVersion, o.Name, string(o.UID)
		}
	}
	owner["ctrls"] = ctrls
	vers := []any{}
	for _, v := range c.Spec.Versions {
		var root extv1.JSONSchemaProps
		if v.Schema != nil && v.Schema.OpenAPIV3Schema != nil {
			root = *v.Schema.OpenAPIV3Schema
		}
		nameMax := -1
		xn := root.Properties["metadata"].Properties["name"]
		if xn.MaxLength != nil {
			nameMax = int(*xn.MaxLength)
		}
		vers = append(vers, map[string]any{
			"name": v.Name, "served": v.Served, "storage": v.Storage,
			"statusSub": v.Subresources != nil && v.Subresources.Status != nil,
			"nameMax":   nameMax, "nameType": xn.Type,
			"spec":   p.part(kind, v.Name, "spec", root.Properties["spec"]),
			"status": p.part(kind, v.Name, "status", root.Properties["status"]),
		})
	}
	return map[string]any{"err": false, "msg": "", "scope": string(c.Spec.Scope), "group": c.Spec.Group,
		"names": Names{Kind: c.Spec.Names.Kind, Plural: c.Spec.Names.Plural, Singular: c.Spec.Names.Singular, ListKind: c.Spec.Names.ListKind},
		"name":  c.GetName(), "owner": owner, "versions": vers}
}

func short(s string) string {
	if len(s) > 200 {
		return s[:200]
	}
	return s
}

// guard runs fn and reports a panic.
func guard(fn func()) (msg string) {
	defer func() {
		if r := recover(); r != nil {
			msg = fmt.Sprint("panic: ", r)
		}
	}()
	fn()
	return ""
}

func (p *projector) render(kind string, d *v1.CompositeResourceDefinition) (map[string]any, *extv1.CustomResourceDefinition) {
	var crd *extv1.CustomResourceDefinition
	var err error
	// the renderers get their own copy: what they do to their argument must not leak into later calls
	in := d.DeepCopy()
	if pm := guard(func() {
		if kind == "xr" {
			crd, err = xcrd.ForCompositeResource(in)
		} else {
			crd, err = xcrd.ForCompositeResourceClaim(in)
		}
	}); pm != "" {
		return errCRD(short(pm)), nil
	}
	if err != nil || crd == nil {
		return errCRD(short(fmt.Sprint(err))), nil
	}
	return p.crd(kind, crd), crd
}

// ---------------------------------------------------------------- admission

// hookServer is the webhook.Server the real SetupWebhookWithManager registers its handler with.
type hookServer struct {
	hooks map[string]http.Handler
}

func (h *hookServer) NeedLeaderElection() bool                { return false }
func (h *hookServer) Register(path string, hook http.Handler) { h.hooks[path] = hook }
func (h *hookServer) Start(context.Context) error             { return nil }
func (h *hookServer) StartedChecker() healthz.Checker {
	return func(*http.Request) error { return nil }
}
func (h *hookServer) WebhookMux() *http.ServeMux { return nil }

type admitter struct {
	srv *simapi.Server
	wh  *admission.Webhook
}

func newAdmitter(scheme *runtime.Scheme) *admitter {
	s := simapi.NewServer(scheme)
	c := simapi.NewClient(s, "xrd-webhook")
	hs := &hookServer{hooks: map[string]http.Handler{}}
	mgr := &fakes.Manager{Client: c, Sch: scheme, Indexer: c, Webhook: hs}
	must(xrdval.SetupWebhookWithManager(mgr, controller.Options{}))
	for _, h := range hs.hooks {
		if wh, ok := h.(*admission.Webhook); ok {
			return &admitter{srv: s, wh: wh}
		}
	}
	must(fmt.Errorf("SetupWebhookWithManager registered no admission webhook: %v", hs.hooks))
	return nil
}

func (a *admitter) admit(op admissionv1.Operation, old, obj *v1.CompositeResourceDefinition) (string, string) {
	req := admission.Request{AdmissionRequest: admissionv1.AdmissionRequest{
		UID:       "req",
		Kind:      metav1.GroupVersionKind{Group: v1.Group, Version: v1.Version, Kind: v1.CompositeResourceDefinitionKind},
		Name:      obj.GetName(),
		Operation: op,
		Object:    runtime.RawExtension{Raw: mustJSON(obj)},
	}}
	if old != nil {
		req.OldObject = runtime.RawExtension{Raw: mustJSON(old)}
	}
	var resp admission.Response
	if pm := guard(func() { resp = a.wh.Handle(context.Background(), req) }); pm != "" {
		return "panic", short(pm)
	}
	msg := ""
	if resp.Result != nil {
		msg = resp.Result.Message
	}
	if resp.Allowed {
		return "allowed", short(msg)
	}
	return "denied", short(msg)
}

// ---------------------------------------------------------------- main

type summary struct {
	Vectors      int            `json:"vectors"`
	Events       int            `json:"events"`
	Families     map[string]int `json:"families"`
	Outcomes     map[string]int `json:"outcomes"`
	Antecedents  map[string]int `json:"antecedents"`
	Observations map[string]int `json:"observations"`
	Machinery    map[string]any `json:"machinery_tables"`
	Samples      []any          `json:"samples"`
}

func must(err error) {
	if err != nil {
		fmt.Fprintln(os.Stderr, "driver:", err)
		os.Exit(2)
	}
}

func inSet(s []string, x string) bool {
	for _, y := range s {
		if y == x {
			return true
		}
	}
	return false
}

// count records, for the evidence file, how often the antecedent of each formula is exercised
// (coverage bookkeeping only; the formulas themselves live in MonXCRD.tla).
func (s *summary) count(in Input, mach map[string][]string, out map[string]any) {
	x := in.New
	for _, v := range x.Versions {
		for _, p := range v.Schema.Spec.Props {
			if inSet(mach["xr"], p.N) {
				s.Antecedents["author-prop-named-like-xr-machinery"]++
			}
			if inSet(mach["claim"], p.N) {
				s.Antecedents["author-prop-named-like-claim-machinery"]++
			}
			if !inSet(mach["xr"], p.N) || !inSet(mach["claim"], p.N) {
				s.Antecedents["author-spec-prop-to-keep"]++
			}
		}
		for _, p := range v.Schema.Status.Props {
			if inSet(mach["status"], p.N) {
				s.Antecedents["author-prop-named-like-status-machinery"]++
			} else {
				s.Antecedents["author-status-prop-to-keep"]++
			}
		}
		if len(v.Schema.Spec.Req)+len(v.Schema.Status.Req) > 0 {
			s.Antecedents["author-required"]++
		}
		if len(v.Schema.Spec.Xval)+len(v.Schema.Status.Xval)+len(v.Schema.Spec.OneOf)+len(v.Schema.Status.OneOf) > 0 {
			s.Antecedents["author-rules"]++
		}
		if v.Schema.NameMax >= 0 {
			s.Antecedents["author-name-maxlength"]++
		}
		if v.Schema.Status.Puf {
			s.Observations["input-status-preserve-unknown-fields"]++
		}
		if v.Schema.Spec.Puf {
			s.Observations["input-spec-preserve-unknown-fields"]++
		}
	}
	if len(x.Versions) > 1 {
		s.Antecedents["multi-version"]++
	}
	if x.Cup != "unset" || x.Cdp != "unset" {
		s.Antecedents["default-policy"]++
	}
	c := x.Claim
	if c.Present && (c.Kind == x.Names.Kind || c.Plural == x.Names.Plural || (c.Singular != "" && c.Singular == x.Names.Singular) ||
		(c.ListKind != "" && c.ListKind == x.Names.ListKind)) {
		s.Antecedents["claim-names-collide"]++
	}
	o := in.Old
	if o.Group != x.Group || o.Names.Kind != x.Names.Kind || o.Names.Plural != x.Names.Plural {
		s.Antecedents["immutable-composite-field-changed"]++
	}
	if o.Claim.Present && c.Present && (o.Claim.Kind != c.Kind || o.Claim.Plural != c.Plural) {
		s.Antecedents["immutable-claim-field-changed"]++
	}
	for _, k := range []string{"xr", "claim"} {
		if out[k].(map[string]any)["err"].(bool) {
			s.Outcomes[k+":no-crd"]++
		} else {
			s.Outcomes[k+":crd"]++
			for i, v := range out[k].(map[string]any)["versions"].([]any) {
				vm := v.(map[string]any)
				if i < len(x.Versions) && x.Versions[i].Schema.Status.Puf && !vm["status"].(map[string]any)["puf"].(bool) {
					s.Observations[k+":status-preserve-unknown-fields-dropped"]++
				}
				if i < len(x.Versions) && x.Versions[i].Schema.Spec.Puf && !vm["spec"].(map[string]any)["puf"].(bool) {
					s.Observations[k+":spec-preserve-unknown-fields-dropped"]++
				}
			}
		}
	}
	s.Outcomes["update:"+out["upd"].(map[string]any)["direct"].(string)]++
	adm := out["adm"].(map[string]any)
	s.Outcomes["admission-create:"+adm["create"].(string)]++
	s.Outcomes["admission-update:"+adm["update"].(string)]++
}

func main() {
	scenarios := flag.String("scenarios", "", "NDJSON file of input vectors")
	tracePath := flag.String("trace", "", "output trace")
	sumPath := flag.String("summary", "", "output summary JSON")
	chunk := flag.Int("chunk", 0, "split the trace into files of about this many events")
	seed := flag.Int64("seed", 1, "seed for list orders / optional parts (a scenario's own seed field wins)")
	cpuprof := flag.String("cpuprofile", "", "write a CPU profile (diagnostics)")
	flag.Parse()
	if *cpuprof != "" {
		f, err := os.Create(*cpuprof)
		must(err)
		must(pprof.StartCPUProfile(f))
		defer pprof.StopCPUProfile()
	}
	ctrllog.SetLogger(logr.Discard())

	scheme := runtime.NewScheme()
	must(v1.AddToScheme(scheme))
	must(extv1.AddToScheme(scheme))

	raws, err := scen.Load(*scenarios)
	must(err)
	tw, err := trace.New(*tracePath, *chunk)
	must(err)
	std := newStd()
	proj := &projector{std: std, tagCache: map[string]string{}}
	sum := &summary{Families: map[string]int{}, Outcomes: map[string]int{}, Antecedents: map[string]int{}, Observations: map[string]int{},
		Machinery: map[string]any{"xr": std.mach["xr"], "claim": std.mach["claim"], "status": std.mach["status"]}, Samples: []any{}}
	sampled := map[string]bool{}
	for i, raw := range raws {
		var sc struct {
			ID    string          `json:"id"`
			Input json.RawMessage `json:"input"`
			Seed  *int64          `json:"seed"`
		}
		must(json.Unmarshal(raw, &sc))
		var in Input
		must(json.Unmarshal(sc.Input, &in))
		sd := *seed*1000003 + int64(i)
		if sc.Seed != nil {
			sd = *sc.Seed
		}
		rng := rand.New(rand.NewSource(sd))
		newX := materialise(in.New, rng)
		oldX := materialise(in.Old, rng)

		out := map[string]any{"mach": map[string]any{"xr": std.mach["xr"], "claim": std.mach["claim"], "status": std.mach["status"]}}
		out["xr"], _ = proj.render("xr", newX)
		out["claim"], _ = proj.render("claim", newX)

		// ValidateUpdate(old -> new), called directly
		var errsFields []string
		direct := "accept"
		if pm := guard(func() {
			_, errs := newX.DeepCopy().ValidateUpdate(oldX.DeepCopy())
			for _, e := range errs {
				errsFields = append(errsFields, e.Field)
			}
			if len(errs) > 0 {
				direct = "reject"
			}
		}); pm != "" {
			direct = "panic"
		}
		sort.Strings(errsFields)
		if errsFields == nil {
			errsFields = []string{}
		}
		out["upd"] = map[string]any{"direct": direct, "fields": errsFields}

		// the admission handler: CREATE new on an empty cluster; UPDATE old -> new on a cluster that holds old's CRDs
		adm := newAdmitter(scheme)
		cr, crMsg := adm.admit(admissionv1.Create, nil, newX)
		for _, k := range []string{"xr", "claim"} {
			if _, crd := proj.render(k, oldX); crd != nil {
				adm.srv.Put(crd)
			}
		}
		up, upMsg := adm.admit(admissionv1.Update, oldX, newX)
		// ... and the same UPDATE on an XRD that is being deleted but still exists (deletionTimestamp set, held by a
		// finalizer while instances exist): it is still an XRD, the verdict must be the same
		// (added after the seeded change C11-m8 - "a terminating XRD needs no validation" - was missed)
		term := func(x *v1.CompositeResourceDefinition) *v1.CompositeResourceDefinition {
			c := x.DeepCopy()
			now := metav1.NewTime(time.Unix(1700000000, 0))
			c.SetDeletionTimestamp(&now)
			c.SetFinalizers([]string{"defined.apiextensions.crossplane.io"})
			return c
		}
		upT, _ := adm.admit(admissionv1.Update, term(oldX), term(newX))
		out["adm"] = map[string]any{"create": cr, "createMsg": crMsg, "update": up, "updateMsg": upMsg, "updateTerminating": upT}

		tw.Boundary()
		ev := map[string]any{"ev": "out", "scenario": sc.ID, "fam": in.Fam, "sub": in.Sub, "seed": fmt.Sprint(sd), "input": sc.Input, "output": out}
		tw.Emit(ev)
		sum.Vectors++
		sum.Families[in.Fam+"/"+in.Sub]++
		sum.count(in, std.mach, out)
		key := in.Fam + "/" + in.Sub
		if !sampled[key] && len(sum.Samples) < 4 && (i%7 == 3 || len(raws) < 50) && !strings.HasPrefix(in.Sub, "nm") {
			sampled[key] = true
			sum.Samples = append(sum.Samples, ev)
		}
	}
	sum.Events = tw.Lines
	must(tw.Close())
	must(scen.WriteJSON(*sumPath, sum))
}
