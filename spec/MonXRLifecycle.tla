---------------------------- MODULE MonXRLifecycle ----------------------------
(***************************************************************************)
(* Trace monitor for XRLifecycle (X03): evaluates the properties P1..P7 of *)
(* XRLifecycle.tla on every recorded state / step of executions of the     *)
(* real composite.Reconciler in the wiring of                              *)
(* definition.Reconciler.CompositeReconcilerOptions (real finalizer,       *)
(* selector chain, revision fetcher, configurators, secret publisher; stub *)
(* Composer).  Fully logged trace, linear search.  Record fields:          *)
(*   ev       reset | start | call | compose | unpublish | env | end       *)
(*   abs/cls/kind/verb/outcome/applied/noop : the call                     *)
(*   seen     the XR as this reconcile's first Get returned it             *)
(*   listed   the Compositions that existed when this reconcile listed     *)
(*   sdef     the XRD's default reference when this reconcile read it      *)
(*   gotcomp  the Composition this reconcile fetched; lrevs: the revisions *)
(*            that existed when it listed them                             *)
(*   fails    the calls of this reconcile that did not answer ok           *)
(*   composed what the Composer answered in this reconcile (none if not    *)
(*            called); arg: the XR copy and revision handed to it          *)
(*   unpub    UnpublishConnection returned nil in this reconcile           *)
(*   statusOK a status update of this reconcile was accepted               *)
(*   evs      the events recorded in this reconcile ("Type:Reason")         *)
(*   post     projection of the store after the step                       *)
(* A false formula prints VIOL|name|line|scenario; the monitor goes on.    *)
(***************************************************************************)
EXTENDS Integers, Sequences, FiniteSets, TLC, Json, IOUtils

Trace == ndJsonDeserialize(IOEnv.VERIF_TRACE)
VARIABLE l
Range(s) == {s[i] : i \in DOMAIN s}
PollMs == 60000

X(e) == e.post.xr
Comps(e) == Range(e.post.comps)
CompOf(e, n) == {c \in Comps(e) : c.name = n}
Enf(e) == e.post.xrd.captured          \* the enforced reference the running XR controller was started with
IsCall(e) == e.ev = "call"
Wrote(e) == IsCall(e) /\ e.applied /\ ~e.noop
XrWrite(e) == Wrote(e) /\ e.kind = "xr"
StatusWrite(e) == XrWrite(e) /\ e.verb = "update-status"
MetaWrite(e) == XrWrite(e) /\ e.verb # "update-status"
StatusLanded(e) == IsCall(e) /\ e.abs = "status:xr" /\ e.outcome = "ok" /\ e.injected # "crashBefore"
ByCtl(e) == e.ev \in {"call", "compose", "unpublish", "end"}      \* a step of the controller, not of the environment
SawLive(e) == e.seen.got /\ e.seen.ex
SawPaused(e) == SawLive(e) /\ e.seen.paused
SawDeleting(e) == SawLive(e) /\ e.seen.del /\ ~e.seen.paused
\* everything of the XR but our finalizer and the status
Core(x) == <<x.ex, x.del, x.paused, x.ofin, x.ref, x.sel, x.rev, x.lab, x.wsec, x.rest, x.uid>>
Composed(e) == e.composed \in {"ok", "unready"}

\* the calls of this reconcile that failed (a missing connection secret is what Get answers before the first publish;
\* RemoveFinalizer ignores NotFound)
RealFails(e) == SelectSeq(e.fails, LAMBDA f : ~(f.outcome = "notfound" /\ (f.abs = "get:secret" \/ f.abs = "rmfin:xr")))
StepOf(f) ==
  CASE f.cls = "addfin" -> "addfin"
    [] f.cls = "rmfin" -> "rmfin"
    [] f.cls = "unpublish" -> "unpublish"
    [] f.cls = "compose" -> "compose"
    [] f.cls = "setref" -> "select"
    [] f.cls \in {"label", "wsec"} -> "configure"
    [] f.kind = "xrd" -> "select"
    [] f.kind = "comp" /\ f.cls = "list" -> "select"
    [] f.kind = "comp" -> "fetch"
    [] f.kind = "rev" -> "fetch"
    [] f.kind = "xr" /\ f.cls \in {"reget", "create", "patch"} -> "fetch"
    [] f.kind = "secret" -> "publish"
    [] OTHER -> "unknown"
EventOf(step) ==
  CASE step = "addfin" -> "Warning:InitializeCompositeResource"
    [] step \in {"rmfin", "unpublish"} -> "Warning:DeleteCompositeResource"
    [] step = "select" -> "Warning:SelectComposition"
    [] step \in {"fetch", "validate", "configure", "compose"} -> "Warning:ComposeResources"
    [] step = "publish" -> "Warning:PublishConnectionSecret"
    [] OTHER -> "?"

\* ------------------------------------------------------------------ P1 paused
\* no write other than a status write reaches an XR that is paused in the store
PausedOnlyStatus(p, e) == (XrWrite(e) /\ X(p).ex /\ X(p).paused) => e.verb = "update-status"
\* a status write changes nothing but the status
StatusOnlyStatus(p, e) == (StatusWrite(e) /\ X(p).ex /\ X(e).ex) => (Core(X(e)) = Core(X(p)) /\ X(e).fin = X(p).fin)
\* a reconcile that read a paused XR makes no call but the one status update, and never composes / unpublishes
PausedCalls(e) == (e.ev \in {"call", "compose", "unpublish"} /\ SawPaused(e)) => (IsCall(e) /\ e.abs \in {"get:xr", "status:xr"})
PausedCondition(e) == (StatusLanded(e) /\ SawPaused(e)) => X(e).synced = "False:ReconcilePaused"
\* ("if status update fails, we will reconcile again to retry to update the status": only then is it requeued)
PausedExit(e) == (e.ev = "end" /\ e.result # "crashed" /\ SawPaused(e)) =>
                   /\ "Normal:ReconciliationPaused" \in Range(e.evs)
                   /\ (e.fails = <<>> => (e.result = "ok" /\ ~e.requeue /\ e.after = 0))
                   /\ (e.fails # <<>> => (e.requeue \/ e.result = "error"))

\* ------------------------------------------------------------------ P2 deleting
DeletingNoCompose(e) == e.ev = "compose" => (~e.seen.del /\ ~e.arg.del)
DeletingCalls(e) == (IsCall(e) /\ SawDeleting(e)) => e.abs \in {"get:xr", "rmfin:xr", "status:xr"}
DeletingWritesOnlyXR(e) == (Wrote(e) /\ SawDeleting(e)) => e.kind = "xr"
\* the only non-status write to an XR that is being deleted removes our finalizer and nothing else
DeletingOnlyFinalizer(p, e) ==
  (MetaWrite(e) /\ X(p).ex /\ X(p).del) =>
     (X(p).fin /\ (~X(e).ex \/ (~X(e).fin /\ Core(X(e)) = Core(X(p)))))
\* the finalizer is removed only after UnpublishConnection returned without error in this reconcile
UnpublishFirst(p, e) == (ByCtl(e) /\ X(p).ex /\ X(p).fin /\ (~X(e).ex \/ ~X(e).fin)) => e.unpub
\* every status write of the deletion path says Ready=False/Deleting (the branch starts with SetConditions(Deleting())).
\* Named separately: the status write that follows the removal of our finalizer in the same reconcile (the XR is still
\* there because it carries another finalizer, e.g. foregroundDeletion).
RemovedFin(e) == e.seen.fin /\ X(e).ex /\ ~X(e).fin
DeletingCondition(e) == (StatusLanded(e) /\ SawDeleting(e) /\ ~RemovedFin(e)) => X(e).ready = "False:Deleting"
DeletingConditionAfterRemoval(e) == (StatusLanded(e) /\ SawDeleting(e) /\ RemovedFin(e)) => X(e).ready = "False:Deleting"
\* our finalizer only ever leaves an XR that is being deleted
FinalizerKept(p, e) == (ByCtl(e) /\ X(p).ex /\ X(p).fin /\ ~X(p).del) => (X(e).ex /\ X(e).fin)

\* ------------------------------------------------------------------ P3 finalizer first
FinalizerBeforeCompose(e) == e.ev = "compose" => (e.arg.fin /\ (X(e).ex => X(e).fin))
PublishAfterCompose(e) == (Wrote(e) /\ e.kind = "secret") => (Composed(e) /\ (X(e).ex => X(e).fin))

\* ------------------------------------------------------------------ P4 selection
RefStable(p, e) ==
  (ByCtl(e) /\ X(p).ex /\ X(e).ex /\ X(p).ref # "none" /\ X(e).ref # X(p).ref) => (Enf(e) # "none" /\ X(e).ref = Enf(e))
RefSet(p, e) == ByCtl(e) /\ X(p).ex /\ X(e).ex /\ X(p).ref = "none" /\ X(e).ref # "none"
SelectEnforced(p, e) == (RefSet(p, e) /\ Enf(e) # "none") => X(e).ref = Enf(e)
SelectDefault(p, e) == (RefSet(p, e) /\ Enf(e) = "none" /\ e.seen.sel = "none" /\ e.sdef # "none") => X(e).ref = e.sdef
Cands(e) == {k \in Range(e.listed) : k.compat /\ (e.seen.sel = "none" \/ k.lab = e.seen.sel)}
SelectCompatible(p, e) ==
  (RefSet(p, e) /\ Enf(e) = "none" /\ (e.seen.sel # "none" \/ e.sdef = "none")) => \E k \in Cands(e) : k.name = X(e).ref
\* the Composer only runs with the revision the XR references, of the Composition the XR references, valid and compatible
ComposeRef(e) == e.ev = "compose" =>
                   (e.arg.ref # "none" /\ e.arg.revcomp = e.arg.ref /\ e.arg.rev = e.arg.reqrev /\ (Enf(e) # "none" => e.arg.ref = Enf(e)))
ComposeCompatible(e) == e.ev = "compose" => e.arg.compat
ComposeValid(e) == e.ev = "compose" => e.arg.valid
ComposeConfigured(e) == e.ev = "compose" =>
                          (e.arg.lab \notin {"none", "empty"} /\
                           \A c \in CompOf(e, e.arg.ref) : c.wns # "none" => e.arg.wsec # "none")
ComposeNotPaused(e) == e.ev = "compose" => (~e.seen.paused /\ ~e.arg.paused)

\* ------------------------------------------------------------------ P5 configure
LabelKept(p, e) == (ByCtl(e) /\ X(p).ex /\ X(e).ex /\ X(p).lab # "none") => X(e).lab = X(p).lab
SecretRefKept(p, e) == (ByCtl(e) /\ X(p).ex /\ X(e).ex /\ X(p).wsec # "none") => X(e).wsec = X(p).wsec
LabelIsName(p, e) == (ByCtl(e) /\ X(p).ex /\ X(e).ex /\ X(p).lab = "none" /\ X(e).lab # "none") => X(e).lab = X(e).name
SecretRefDerived(p, e) ==
  (ByCtl(e) /\ X(p).ex /\ X(e).ex /\ X(p).wsec = "none" /\ X(e).wsec # "none") =>
     \E c \in CompOf(e, X(e).ref) : c.wns # "none" /\ X(e).wsec = c.wns \o "/" \o X(e).uid
\* what the user owns is never changed by the controller
UserFieldsKept(p, e) ==
  (ByCtl(e) /\ X(p).ex /\ X(e).ex) =>
     (X(e).rest = X(p).rest /\ X(e).sel = X(p).sel /\ X(e).ofin = X(p).ofin /\ X(e).paused = X(p).paused /\ X(e).del = X(p).del /\ X(e).uid = X(p).uid)
\* fixed point: a second fault-free reconcile in an unchanged world changes no object at all (no resourceVersion moves)
\* (named separately: the reconcile after the one that removed our finalizer from an XR that outlives it)
AfterRemoval(e) == SawDeleting(e) /\ ~e.seen.fin
Quiescent(e) == (e.ev = "end" /\ e.steady /\ ~AfterRemoval(e)) => e.post.digest = e.prevDigest
QuiescentAfterRemoval(e) == (e.ev = "end" /\ e.steady /\ AfterRemoval(e)) => e.post.digest = e.prevDigest

\* ------------------------------------------------------------------ P6 exits
SyncedTrueNeedsCompose(e) ==
  (StatusLanded(e) /\ X(e).ex /\ X(e).synced = "True:ReconcileSuccess") => (Composed(e) \/ SawDeleting(e))
ErrorExit(e) == StatusLanded(e) /\ X(e).ex /\ X(e).synced = "False:ReconcileError"
\* every status write of a reconcile that did not run to the end says Synced=False
ExitSyncedFalse(e) ==
  (StatusLanded(e) /\ X(e).ex /\ ~SawPaused(e) /\ ~SawDeleting(e) /\ (~Composed(e) \/ RealFails(e) # <<>>)) =>
     X(e).synced = "False:ReconcileError"
\* ... with the reason of the step that failed
ExitReasonCall(e) ==
  (ErrorExit(e) /\ RealFails(e) # <<>>) => X(e).step = StepOf(RealFails(e)[Len(RealFails(e))])
ExitReasonState(e) ==
  (ErrorExit(e) /\ RealFails(e) = <<>>) =>
     \/ X(e).step = "select" /\ X(e).detail = "nocand" /\ Cands(e) = {} /\ X(e).ref = "none"
     \/ X(e).step = "fetch" /\ X(e).detail = "norev" /\ \E c \in CompOf(e, e.gotcomp) : c.revname \notin Range(e.lrevs)
     \/ X(e).step = "validate" /\ \E c \in CompOf(e, e.gotcomp) : ~c.valid
     \/ X(e).step = "configure" /\ X(e).detail = "incompat" /\ \E c \in CompOf(e, e.gotcomp) : ~c.compat
ExitEvent(e) == ErrorExit(e) => EventOf(X(e).step) \in Range(e.evs)
\* a reconcile that returned without error and without an accepted status write ran into a Conflict
ExitSilent(e) ==
  (e.ev = "end" /\ e.result = "ok" /\ SawLive(e) /\ ~e.statusOK) => \E f \in Range(e.fails) : f.outcome = "conflict"
Success(e) == Composed(e) /\ RealFails(e) = <<>>
DeletedOK(e) == SawDeleting(e) /\ RealFails(e) = <<>>
Ended(e) == e.ev = "end" /\ e.result # "crashed"
RequeueGone(e) == (Ended(e) /\ e.seen.got /\ ~e.seen.ex) => (e.result = "ok" /\ ~e.requeue /\ e.after = 0)
RequeuePoll(e) == (Ended(e) /\ e.result = "ok" /\ SawLive(e) /\ Success(e) /\ e.composed = "ok") =>
                    (~e.requeue /\ e.after * 10 >= PollMs * 9 /\ e.after * 10 <= PollMs * 11)
RequeueUnready(e) == (Ended(e) /\ e.result = "ok" /\ SawLive(e) /\ Success(e) /\ e.composed = "unready") => e.requeue
RequeueDeleted(e) == (Ended(e) /\ e.result = "ok" /\ DeletedOK(e)) => (~e.requeue /\ e.after = 0)
RequeueOnFailure(e) ==
  (Ended(e) /\ SawLive(e) /\ ~SawPaused(e) /\ ~Success(e) /\ ~DeletedOK(e)) => (e.requeue \/ e.result = "error")

\* ------------------------------------------------------------------ P7 repair
Clean(e) == e.ev = "end" /\ e.clean /\ X(e).ex
Eff(e) == IF Enf(e) # "none" THEN Enf(e) ELSE X(e).ref
Healthy(e) == \E c \in CompOf(e, Eff(e)) : c.ex /\ c.rev /\ c.valid /\ c.compat
Live(e) == ~X(e).paused /\ ~X(e).del
RepairPaused(e) == (Clean(e) /\ X(e).paused) => X(e).synced = "False:ReconcilePaused"
RepairDeleted(e) == (Clean(e) /\ ~X(e).paused /\ X(e).del) => ~X(e).fin
RepairComposes(e) ==
  (Clean(e) /\ Live(e) /\ Healthy(e)) =>
     /\ X(e).fin /\ Composed(e) /\ X(e).synced = "True:ReconcileSuccess"
     /\ X(e).ref = Eff(e) /\ X(e).lab # "none"
     /\ \A c \in CompOf(e, Eff(e)) : X(e).rev = c.revname /\ (c.wns # "none" => X(e).wsec # "none")
     /\ (X(e).wsec # "none" => X(e).wsec \in Range(e.post.secs))
RepairReason(e) ==
  (Clean(e) /\ Live(e) /\ ~Healthy(e)) => (X(e).fin /\ ~Composed(e) /\ X(e).synced = "False:ReconcileError")

Viol(name, i) == PrintT("VIOL|" \o name \o "|" \o ToString(i) \o "|" \o Trace[i].scenario)
Check(i) ==
  LET e == Trace[i] IN
  /\ (PausedCalls(e) \/ Viol("Paused.Calls", i))
  /\ (PausedCondition(e) \/ Viol("Paused.Condition", i))
  /\ (PausedExit(e) \/ Viol("Paused.Exit", i))
  /\ (DeletingNoCompose(e) \/ Viol("Deleting.NoCompose", i))
  /\ (DeletingCalls(e) \/ Viol("Deleting.Calls", i))
  /\ (DeletingWritesOnlyXR(e) \/ Viol("Deleting.WritesOnlyXR", i))
  /\ (DeletingCondition(e) \/ Viol("Deleting.Condition", i))
  /\ (DeletingConditionAfterRemoval(e) \/ Viol("Deleting.Condition.AfterFinalizerRemoval", i))
  /\ (FinalizerBeforeCompose(e) \/ Viol("Finalizer.BeforeCompose", i))
  /\ (PublishAfterCompose(e) \/ Viol("Finalizer.BeforePublish", i))
  /\ (ComposeRef(e) \/ Viol("Compose.Ref", i))
  /\ (ComposeCompatible(e) \/ Viol("Compose.Compatible", i))
  /\ (ComposeValid(e) \/ Viol("Compose.Valid", i))
  /\ (ComposeConfigured(e) \/ Viol("Compose.Configured", i))
  /\ (ComposeNotPaused(e) \/ Viol("Compose.NotPaused", i))
  /\ (Quiescent(e) \/ Viol("Quiescent", i))
  /\ (QuiescentAfterRemoval(e) \/ Viol("Quiescent.AfterFinalizerRemoval", i))
  /\ (SyncedTrueNeedsCompose(e) \/ Viol("Exit.SyncedTrueNeedsCompose", i))
  /\ (ExitSyncedFalse(e) \/ Viol("Exit.SyncedFalse", i))
  /\ (ExitReasonCall(e) \/ Viol("Exit.Reason.Call", i))
  /\ (ExitReasonState(e) \/ Viol("Exit.Reason.State", i))
  /\ (ExitEvent(e) \/ Viol("Exit.Event", i))
  /\ (ExitSilent(e) \/ Viol("Exit.Silent", i))
  /\ (RequeueGone(e) \/ Viol("Requeue.Gone", i))
  /\ (RequeuePoll(e) \/ Viol("Requeue.Poll", i))
  /\ (RequeueUnready(e) \/ Viol("Requeue.Unready", i))
  /\ (RequeueDeleted(e) \/ Viol("Requeue.Deleted", i))
  /\ (RequeueOnFailure(e) \/ Viol("Requeue.OnFailure", i))
  /\ (RepairPaused(e) \/ Viol("Repair.Paused", i))
  /\ (RepairDeleted(e) \/ Viol("Repair.Deleted", i))
  /\ (RepairComposes(e) \/ Viol("Repair.Composes", i))
  /\ (RepairReason(e) \/ Viol("Repair.Reason", i))
  /\ (e.ev = "reset" \/ i = 1 \/
        LET p == Trace[i - 1] IN
        /\ (PausedOnlyStatus(p, e) \/ Viol("Paused.OnlyStatus", i))
        /\ (StatusOnlyStatus(p, e) \/ Viol("Status.OnlyStatus", i))
        /\ (DeletingOnlyFinalizer(p, e) \/ Viol("Deleting.OnlyFinalizer", i))
        /\ (UnpublishFirst(p, e) \/ Viol("Deleting.UnpublishFirst", i))
        /\ (FinalizerKept(p, e) \/ Viol("Finalizer.Kept", i))
        /\ (RefStable(p, e) \/ Viol("Select.RefStable", i))
        /\ (SelectEnforced(p, e) \/ Viol("Select.Enforced", i))
        /\ (SelectDefault(p, e) \/ Viol("Select.Default", i))
        /\ (SelectCompatible(p, e) \/ Viol("Select.Compatible", i))
        /\ (LabelKept(p, e) \/ Viol("Configure.LabelKept", i))
        /\ (SecretRefKept(p, e) \/ Viol("Configure.SecretRefKept", i))
        /\ (LabelIsName(p, e) \/ Viol("Configure.LabelIsName", i))
        /\ (SecretRefDerived(p, e) \/ Viol("Configure.SecretRefDerived", i))
        /\ (UserFieldsKept(p, e) \/ Viol("Configure.UserFieldsKept", i)))

Init == l = 0
Next == /\ l < Len(Trace) /\ l' = l + 1 /\ Check(l')
        /\ (l' < Len(Trace) \/ PrintT("DONE|" \o ToString(l')))
Spec == Init /\ [][Next]_l
=============================================================================
