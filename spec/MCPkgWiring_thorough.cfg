SPECIFICATION Spec
CONSTANTS
  Profiles <- Profiles8
  Perturb = "none"
ACTION_CONSTRAINT Emit
CHECK_DEADLOCK FALSE
INVARIANTS RefConsistent RefRegistered RefHooks RefWatches RefEnqueue RefSymmetric RefDeps RefInstall
