SPECIFICATION Spec
CONSTANTS
  USeq <- S1
  Useds <- U1
  Configs <- CfgDel
  InitSel <- NoSet
  InitCtl <- NoSet
  Policies <- Pol1
  DryRuns <- OnlyFalse
  HookFaults <- HookOk
  EnvKinds <- EnvDel
  FaultKinds <- FaultsAll
  MaxCreates = 1
  MaxRecs = 4
  MaxFaults = 1
  MaxEnv = 3
  MaxDel = 1
  MidEnv = TRUE
  BFin = TRUE
  FinFirst = TRUE
  DryRunAware = TRUE
  PanicFree = TRUE
VIEW view
ACTION_CONSTRAINT Emit
CHECK_DEADLOCK FALSE
INVARIANTS TypeOK StepProps FinBeforeLabel FinResolved OwnOnlyBy PendSane Repaired
