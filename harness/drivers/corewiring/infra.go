package main

// Stand-ins BELOW the production wiring (nothing here decides what a controller gets):
//   - capManager: a manager.Manager that keeps the controllers the production Setup functions register (defined here,
//     by embedding harness/fakes.Manager and overriding Add / GetControllerOptions and the accessors whose results the
//     driver wants to tell apart: client, API reader, cache, field indexer, event recorder, REST mapper);
//   - the three API clients of a Crossplane pod, as three NAMED simapi clients on one store: "mgr" (mgr.GetClient()),
//     "cached" / "uncached" (the two clients of the controller engine); every API call is logged with the client's name;
//   - faultClient: delivers one error VALUE (a Conflict or a plain error) on the next read;
//   - recording global rate limiter, logger, event recorder, field indexer, work queue, webhook server;
//   - capEngine: the seam below definition / offered reconcilers: it serves the clients and the indexer of the REAL
//     engine.ControllerEngine handed in through Options and keeps what is started on it;
//   - reflect + unsafe helpers to read (never to rebuild) what the production code constructed.

import (
	"context"
	"fmt"
	"net/http"
	"reflect"
	"sort"
	"strings"
	"sync"
	"time"
	"unsafe"

	"github.com/go-logr/logr"
	apimeta "k8s.io/apimachinery/pkg/api/meta"
	"k8s.io/apimachinery/pkg/runtime"
	"k8s.io/apimachinery/pkg/runtime/schema"
	"k8s.io/client-go/tools/record"
	"k8s.io/utils/ptr"
	"sigs.k8s.io/controller-runtime/pkg/cache"
	"sigs.k8s.io/controller-runtime/pkg/client"
	"sigs.k8s.io/controller-runtime/pkg/config"
	"sigs.k8s.io/controller-runtime/pkg/healthz"
	"sigs.k8s.io/controller-runtime/pkg/manager"
	"sigs.k8s.io/controller-runtime/pkg/reconcile"

	"github.com/crossplane/crossplane-runtime/pkg/logging"

	"github.com/crossplane/crossplane/internal/engine"
	"github.com/crossplane/crossplane/zzverif/fakes"
	"github.com/crossplane/crossplane/zzverif/simapi"
)

// ---------------------------------------------------------------- reflection

// fieldOf returns an addressable, settable view of a struct field whatever its visibility.
func fieldOf(v reflect.Value, name string) (reflect.Value, bool) {
	if !v.IsValid() || v.Kind() != reflect.Struct || !v.CanAddr() {
		return reflect.Value{}, false
	}
	f := v.FieldByName(name)
	if !f.IsValid() || !f.CanAddr() {
		return reflect.Value{}, false
	}
	return reflect.NewAt(f.Type(), unsafe.Pointer(f.UnsafeAddr())).Elem(), true
}

// structOf dereferences interfaces and pointers down to an addressable struct.
func structOf(v reflect.Value) (reflect.Value, bool) {
	for v.IsValid() && (v.Kind() == reflect.Interface || v.Kind() == reflect.Ptr) {
		if v.IsNil() {
			return reflect.Value{}, false
		}
		v = v.Elem()
	}
	if !v.IsValid() || v.Kind() != reflect.Struct || !v.CanAddr() {
		return reflect.Value{}, false
	}
	return v, true
}

// path follows field names from an addressable struct (through pointers and interfaces).
func path(v reflect.Value, names ...string) (reflect.Value, bool) {
	cur := v
	for _, n := range names {
		st, ok := structOf(cur)
		if !ok {
			return reflect.Value{}, false
		}
		f, ok := fieldOf(st, n)
		if !ok {
			return reflect.Value{}, false
		}
		cur = f
	}
	return cur, true
}

func typeName(x any) string {
	if x == nil {
		return "nil"
	}
	v := reflect.ValueOf(x)
	if (v.Kind() == reflect.Ptr || v.Kind() == reflect.Interface || v.Kind() == reflect.Func || v.Kind() == reflect.Slice || v.Kind() == reflect.Map) && v.IsNil() {
		return "nil"
	}
	return reflect.TypeOf(x).String()
}

// typeOfValue names the dynamic type held by an interface-typed field ("nil" when empty).
func typeOfValue(v reflect.Value) string {
	if !v.IsValid() {
		return "absent"
	}
	if v.Kind() == reflect.Interface || v.Kind() == reflect.Ptr || v.Kind() == reflect.Func || v.Kind() == reflect.Slice || v.Kind() == reflect.Map {
		if v.IsNil() {
			return "nil"
		}
	}
	if v.Kind() == reflect.Interface {
		return v.Elem().Type().String()
	}
	return v.Type().String()
}

// chainTypes lists the element types of a chain (a slice of interfaces, or a struct with a 'list' field), or the
// single type when the value is no chain.
func chainTypes(v reflect.Value) []any {
	out := []any{}
	if !v.IsValid() {
		return out
	}
	for v.Kind() == reflect.Interface || v.Kind() == reflect.Ptr {
		if v.IsNil() {
			return out
		}
		if v.Kind() == reflect.Ptr && v.Elem().Kind() == reflect.Struct {
			if l, ok := fieldOf(v.Elem(), "list"); ok && l.Kind() == reflect.Slice {
				v = l
				break
			}
			return []any{v.Type().String()}
		}
		v = v.Elem()
	}
	if v.Kind() != reflect.Slice {
		return []any{v.Type().String()}
	}
	for i := 0; i < v.Len(); i++ {
		out = append(out, typeOfValue(v.Index(i)))
	}
	return out
}

func sortedSet(m map[string]bool) []any {
	ks := make([]string, 0, len(m))
	for k := range m {
		ks = append(ks, k)
	}
	sort.Strings(ks)
	out := make([]any, 0, len(ks))
	for _, k := range ks {
		out = append(out, k)
	}
	return out
}

func strs(ss []string) []any {
	out := make([]any, 0, len(ss))
	for _, s := range ss {
		out = append(out, s)
	}
	return out
}

// ---------------------------------------------------------------- the API call log

type apiCall struct {
	phase, client, verb, kind, sub, name, outcome string
	dry, write                                   bool
}

// callRows projects the calls of a phase: one row per distinct (client, verb, kind, subresource, dry-run).
func (w *world) callRows(phase string) []any {
	seen := map[string]bool{}
	out := []any{}
	w.mu.Lock()
	defer w.mu.Unlock()
	for _, c := range w.calls {
		if c.phase != phase {
			continue
		}
		v := c.verb
		if c.sub != "" {
			v += "/" + c.sub
		}
		k := c.client + "|" + v + "|" + c.kind + "|" + fmt.Sprint(c.dry)
		if seen[k] {
			continue
		}
		seen[k] = true
		out = append(out, map[string]any{"c": c.client, "v": v, "k": c.kind, "dry": c.dry, "w": c.write})
	}
	sort.Slice(out, func(i, j int) bool {
		a, b := out[i].(map[string]any), out[j].(map[string]any)
		return fmt.Sprint(a["c"], a["v"], a["k"], a["dry"]) < fmt.Sprint(b["c"], b["v"], b["k"], b["dry"])
	})
	return out
}

func (w *world) callCount(phase string) int {
	w.mu.Lock()
	defer w.mu.Unlock()
	n := 0
	for _, c := range w.calls {
		if c.phase == phase {
			n++
		}
	}
	return n
}

// missReads lists, for a phase, every read of a composed resource: which client, and whether it was found.
func (w *world) readsOf(phase, kind string) []any {
	out := []any{}
	w.mu.Lock()
	defer w.mu.Unlock()
	for _, c := range w.calls {
		if c.phase == phase && c.kind == kind && c.verb == "get" {
			out = append(out, map[string]any{"c": c.client, "n": c.name, "found": c.outcome == "ok"})
		}
	}
	return out
}

// ---------------------------------------------------------------- a client that can deliver one error value

type faultClient struct {
	client.Client
	mu    sync.Mutex
	armed error
	used  bool
}

func (f *faultClient) arm(err error) {
	f.mu.Lock()
	f.armed, f.used = err, false
	f.mu.Unlock()
}

func (f *faultClient) take() error {
	f.mu.Lock()
	defer f.mu.Unlock()
	if f.armed == nil {
		return nil
	}
	err := f.armed
	f.armed, f.used = nil, true
	return err
}

func (f *faultClient) consumed() bool {
	f.mu.Lock()
	defer f.mu.Unlock()
	return f.used
}

func (f *faultClient) Get(ctx context.Context, key client.ObjectKey, obj client.Object, opts ...client.GetOption) error {
	if err := f.take(); err != nil {
		return err
	}
	return f.Client.Get(ctx, key, obj, opts...)
}

func (f *faultClient) List(ctx context.Context, list client.ObjectList, opts ...client.ListOption) error {
	if err := f.take(); err != nil {
		return err
	}
	return f.Client.List(ctx, list, opts...)
}

// ---------------------------------------------------------------- the global rate limiter (Options.GlobalRateLimiter)

type recLimiter struct {
	mu   sync.Mutex
	hold time.Duration
	keys []string
}

func (l *recLimiter) When(item string) time.Duration {
	l.mu.Lock()
	defer l.mu.Unlock()
	l.keys = append(l.keys, item)
	return l.hold
}
func (l *recLimiter) Forget(string)          {}
func (l *recLimiter) NumRequeues(string) int { return 0 }

func (l *recLimiter) set(d time.Duration) {
	l.mu.Lock()
	l.hold, l.keys = d, nil
	l.mu.Unlock()
}

func (l *recLimiter) seen() []string {
	l.mu.Lock()
	defer l.mu.Unlock()
	return append([]string(nil), l.keys...)
}

// ---------------------------------------------------------------- the logger (Options.Logger)

type recLogger struct {
	w  *world
	kv []any
}

func (l *recLogger) note(extra []any) {
	ctl := "none"
	all := append(append([]any(nil), l.kv...), extra...)
	for i := 0; i+1 < len(all); i += 2 {
		if k, _ := all[i].(string); k == "controller" {
			ctl = fmt.Sprint(all[i+1])
		}
		if k, _ := all[i].(string); k == "webhook" {
			ctl = "webhook:" + fmt.Sprint(all[i+1])
		}
	}
	l.w.mu.Lock()
	if l.w.logs[l.w.phase] == nil {
		l.w.logs[l.w.phase] = map[string]bool{}
	}
	l.w.logs[l.w.phase][ctl] = true
	l.w.mu.Unlock()
}
func (l *recLogger) Info(_ string, kv ...any)  { l.note(kv) }
func (l *recLogger) Debug(_ string, kv ...any) { l.note(kv) }
func (l *recLogger) WithValues(kv ...any) logging.Logger {
	return &recLogger{w: l.w, kv: append(append([]any(nil), l.kv...), kv...)}
}

// ---------------------------------------------------------------- the event recorder a manager hands out per controller name

type evRecorder struct {
	w    *world
	name string
}

func (r *evRecorder) note(ann map[string]string) {
	r.w.mu.Lock()
	defer r.w.mu.Unlock()
	if r.w.evsrc[r.w.phase] == nil {
		r.w.evsrc[r.w.phase], r.w.evann[r.w.phase] = map[string]bool{}, map[string]bool{}
	}
	r.w.evsrc[r.w.phase][r.name] = true
	a := "none"
	if v, ok := ann["controller"]; ok {
		a = v
	}
	r.w.evann[r.w.phase][a] = true
}
func (r *evRecorder) Event(runtime.Object, string, string, string)          { r.note(nil) }
func (r *evRecorder) Eventf(runtime.Object, string, string, string, ...any) { r.note(nil) }
func (r *evRecorder) AnnotatedEventf(_ runtime.Object, ann map[string]string, _, _, _ string, _ ...any) {
	r.note(ann)
}

var _ record.EventRecorder = &evRecorder{}

// ---------------------------------------------------------------- field indexers (the manager's and the engine's)

type recIndexer struct {
	w     *world
	id    string
	inner client.FieldIndexer
}

func (r *recIndexer) IndexField(ctx context.Context, obj client.Object, field string, fn client.IndexerFunc) error {
	r.w.mu.Lock()
	r.w.indexes = append(r.w.indexes, r.id+":"+kindOf(obj)+":"+field)
	r.w.mu.Unlock()
	return r.inner.IndexField(ctx, obj, field, fn)
}

// engineInformers is the TrackingInformers of the real controller engine: only its FieldIndexer side is ever used
// here (no informer is started: the engine's Start / StartWatches are captured above it).
type engineInformers struct {
	cache.Informers
	idx *recIndexer
}

func (e *engineInformers) IndexField(ctx context.Context, obj client.Object, field string, fn client.IndexerFunc) error {
	return e.idx.IndexField(ctx, obj, field, fn)
}
func (e *engineInformers) ActiveInformers() []schema.GroupVersionKind { return nil }

// tagCache is the manager's cache: never started, only recognised.
type tagCache struct {
	cache.Cache
	id string
}

// ---------------------------------------------------------------- a work queue that records what a watch handler enqueues

type recQueue struct {
	mu    sync.Mutex
	names map[string]bool
}

func newRecQueue() *recQueue { return &recQueue{names: map[string]bool{}} }

func (q *recQueue) add(r reconcile.Request) {
	q.mu.Lock()
	n := r.Name
	if r.Namespace != "" {
		n = r.Namespace + "/" + r.Name
	}
	q.names[n] = true
	q.mu.Unlock()
}
func (q *recQueue) Add(r reconcile.Request)                       { q.add(r) }
func (q *recQueue) AddAfter(r reconcile.Request, _ time.Duration) { q.add(r) }
func (q *recQueue) AddRateLimited(r reconcile.Request)            { q.add(r) }
func (q *recQueue) Forget(reconcile.Request)                      {}
func (q *recQueue) NumRequeues(reconcile.Request) int             { return 0 }
func (q *recQueue) Len() int                                      { return len(q.names) }
func (q *recQueue) Get() (reconcile.Request, bool)                { return reconcile.Request{}, true }
func (q *recQueue) Done(reconcile.Request)                        {}
func (q *recQueue) ShutDown()                                     {}
func (q *recQueue) ShutDownWithDrain()                            {}
func (q *recQueue) ShuttingDown() bool                            { return false }

// ---------------------------------------------------------------- the webhook server

type whServer struct {
	mu    sync.Mutex
	hooks map[string]http.Handler
	order []string
}

func (s *whServer) NeedLeaderElection() bool { return false }
func (s *whServer) Register(p string, hook http.Handler) {
	s.mu.Lock()
	defer s.mu.Unlock()
	if _, dup := s.hooks[p]; dup {
		s.order = append(s.order, "dup:"+p)
		return
	}
	s.hooks[p] = hook
	s.order = append(s.order, p)
}
func (s *whServer) Start(context.Context) error     { return nil }
func (s *whServer) StartedChecker() healthz.Checker { return func(*http.Request) error { return nil } }
func (s *whServer) WebhookMux() *http.ServeMux      { return http.NewServeMux() }

// ---------------------------------------------------------------- the manager

type capManager struct {
	*fakes.Manager
	w *world

	mu    sync.Mutex
	added []manager.Runnable
}

var _ manager.Manager = &capManager{}

// Add keeps the Runnable (nothing is ever started).
func (m *capManager) Add(r manager.Runnable) error {
	m.mu.Lock()
	defer m.mu.Unlock()
	m.added = append(m.added, r)
	return nil
}

func (m *capManager) runnables() []manager.Runnable {
	m.mu.Lock()
	defer m.mu.Unlock()
	return append([]manager.Runnable(nil), m.added...)
}

// GetControllerOptions skips controller-runtime's process-wide check that controller names are unique: the driver
// builds the same controllers once per vector in one process.
func (m *capManager) GetControllerOptions() config.Controller {
	return config.Controller{SkipNameValidation: ptr.To(true)}
}
func (m *capManager) GetClient() client.Client               { return m.w.mgrC }
func (m *capManager) GetAPIReader() client.Reader            { return m.w.apiReader }
func (m *capManager) GetScheme() *runtime.Scheme             { return theScheme }
func (m *capManager) GetCache() cache.Cache                  { return m.w.mgrCache }
func (m *capManager) GetFieldIndexer() client.FieldIndexer   { return m.w.mgrIdx }
func (m *capManager) GetRESTMapper() apimeta.RESTMapper      { return theMapper }
func (m *capManager) GetLogger() logr.Logger                 { return logr.Discard() }
func (m *capManager) GetEventRecorderFor(n string) record.EventRecorder {
	return &evRecorder{w: m.w, name: n}
}

// ---------------------------------------------------------------- the engine seam

// engStart is one Start call on the engine.
type engStart struct {
	name string
	opts []engine.ControllerOption
}

// engWatches is one StartWatches call.
type engWatches struct {
	name string
	ws   []engine.Watch
}

// capEngine stands below the definition and offered reconcilers. Clients and indexer come from the REAL engine the
// production Setup was given (so a Setup that hands on another engine, or an engine wired with swapped clients, shows).
type capEngine struct {
	w    *world
	real *engine.ControllerEngine

	mu      sync.Mutex
	running map[string]bool
	starts  []engStart
	watches []engWatches
	stops   []string
}

func newCapEngine(w *world, real *engine.ControllerEngine) *capEngine {
	return &capEngine{w: w, real: real, running: map[string]bool{}}
}

func (e *capEngine) Start(name string, o ...engine.ControllerOption) error {
	e.mu.Lock()
	defer e.mu.Unlock()
	e.running[name] = true
	e.starts = append(e.starts, engStart{name: name, opts: o})
	return nil
}
func (e *capEngine) Stop(_ context.Context, name string) error {
	e.mu.Lock()
	defer e.mu.Unlock()
	e.running[name] = false
	e.stops = append(e.stops, name)
	return nil
}
func (e *capEngine) IsRunning(name string) bool {
	e.mu.Lock()
	defer e.mu.Unlock()
	return e.running[name]
}
func (e *capEngine) GetWatches(string) ([]engine.WatchID, error) { return nil, nil }
func (e *capEngine) StartWatches(name string, ws ...engine.Watch) error {
	e.mu.Lock()
	defer e.mu.Unlock()
	e.watches = append(e.watches, engWatches{name: name, ws: ws})
	return nil
}
func (e *capEngine) StopWatches(context.Context, string, ...engine.WatchID) (int, error) {
	return 0, nil
}
func (e *capEngine) GetCached() client.Client             { return e.real.GetCached() }
func (e *capEngine) GetUncached() client.Client           { return e.real.GetUncached() }
func (e *capEngine) GetFieldIndexer() client.FieldIndexer { return e.real.GetFieldIndexer() }

func (e *capEngine) startOf(prefix string) (engStart, bool) {
	e.mu.Lock()
	defer e.mu.Unlock()
	for _, s := range e.starts {
		if strings.HasPrefix(s.name, prefix) {
			return s, true
		}
	}
	return engStart{}, false
}

func (e *capEngine) watchCalls() []engWatches {
	e.mu.Lock()
	defer e.mu.Unlock()
	return append([]engWatches(nil), e.watches...)
}

func (e *capEngine) forgetWatches() {
	e.mu.Lock()
	e.watches = nil
	e.mu.Unlock()
}

// ---------------------------------------------------------------- kinds

func kindOf(o any) string {
	if o == nil {
		return "none"
	}
	v := reflect.ValueOf(o)
	if v.Kind() == reflect.Ptr && v.IsNil() {
		return "none"
	}
	ro, ok := o.(runtime.Object)
	if !ok {
		return "unknown:" + typeName(o)
	}
	if k := ro.GetObjectKind().GroupVersionKind().Kind; k != "" {
		return k
	}
	if gvks, _, err := theScheme.ObjectKinds(ro); err == nil && len(gvks) > 0 {
		return gvks[0].Kind
	}
	return "unknown:" + typeName(o)
}

func newMapper() apimeta.RESTMapper {
	m := apimeta.NewDefaultRESTMapper(nil)
	root := func(g, v string, kinds ...string) {
		for _, k := range kinds {
			m.Add(schema.GroupVersionKind{Group: g, Version: v, Kind: k}, apimeta.RESTScopeRoot)
		}
	}
	root("apiextensions.crossplane.io", "v1", "CompositeResourceDefinition", "Composition", "CompositionRevision")
	root("apiextensions.crossplane.io", "v1beta1", "Usage")
	root("apiextensions.k8s.io", "v1", "CustomResourceDefinition")
	root("pkg.crossplane.io", "v1", "ProviderRevision", "Provider")
	root("rbac.authorization.k8s.io", "v1", "ClusterRole", "ClusterRoleBinding")
	m.Add(schema.GroupVersionKind{Group: "apps", Version: "v1", Kind: "Deployment"}, apimeta.RESTScopeNamespace)
	return m
}

var _ = simapi.Proceed
