package main

// The composition function "fn1": an in-process gRPC server on a unix socket, called through the REAL
// xfn.PackagedFunctionRunner (what cmd/crossplane/core puts into Options.FunctionRunner). It returns one desired
// composed resource "a" (ready) whatever it is asked, and counts its calls in the current world.

import (
	"context"
	"fmt"
	"net"
	"os"
	"path/filepath"
	"sync"

	"google.golang.org/grpc"
	"google.golang.org/protobuf/types/known/structpb"
	"sigs.k8s.io/controller-runtime/pkg/client"

	fnv1 "github.com/crossplane/crossplane/apis/apiextensions/fn/proto/v1"
	"github.com/crossplane/crossplane/internal/xfn"
	"github.com/crossplane/crossplane/zzverif/simapi"
)

var (
	curMu       sync.Mutex
	curWorld    *world
	fnTarget    string
	theRunner   *xfn.PackagedFunctionRunner
	theFnReader = &fnReader{}
	fnSock      string
)

func setCurrent(w *world) {
	curMu.Lock()
	curWorld = w
	curMu.Unlock()
}

func current() *world {
	curMu.Lock()
	defer curMu.Unlock()
	return curWorld
}

// fnReader is the client.Reader of the function runner: the current world's API server under the name "xfn".
type fnReader struct{ _ int }

func (fnReader) Get(ctx context.Context, key client.ObjectKey, obj client.Object, opts ...client.GetOption) error {
	return simapi.NewClient(current().s, "xfn").Get(ctx, key, obj, opts...)
}

func (fnReader) List(ctx context.Context, list client.ObjectList, opts ...client.ListOption) error {
	return simapi.NewClient(current().s, "xfn").List(ctx, list, opts...)
}

type fnImpl struct {
	fnv1.UnimplementedFunctionRunnerServiceServer
}

func (fnImpl) RunFunction(_ context.Context, req *fnv1.RunFunctionRequest) (*fnv1.RunFunctionResponse, error) {
	w := current()
	w.mu.Lock()
	w.fnCalls++
	w.mu.Unlock()
	body, _ := structpb.NewStruct(map[string]any{"apiVersion": "ex.org/v1", "kind": "Thing", "spec": map[string]any{"param": "a"}})
	xrs, _ := structpb.NewStruct(map[string]any{"apiVersion": "ex.org/v1", "kind": "XThing"})
	return &fnv1.RunFunctionResponse{Context: req.GetContext(), Desired: &fnv1.State{
		Composite: &fnv1.Resource{Resource: xrs},
		Resources: map[string]*fnv1.Resource{"a": {Resource: body, Ready: fnv1.Ready_READY_TRUE}},
	}}, nil
}

func startFunction(dir string) {
	if abs, err := filepath.Abs(dir); err == nil {
		dir = abs
	}
	if err := os.MkdirAll(dir, 0o755); err != nil {
		panic(err)
	}
	fnSock = filepath.Join(dir, fmt.Sprintf("x12-fn1-%d.sock", os.Getpid()))
	if len(fnSock) > 100 {
		// unix socket paths are short
		fnSock = filepath.Join(os.TempDir(), fmt.Sprintf("x12-fn1-%d.sock", os.Getpid()))
	}
	_ = os.Remove(fnSock)
	lis, err := net.Listen("unix", fnSock)
	if err != nil {
		panic(err)
	}
	gs := grpc.NewServer()
	fnv1.RegisterFunctionRunnerServiceServer(gs, fnImpl{})
	go func() { _ = gs.Serve(lis) }()
	fnTarget = "unix://" + fnSock
	theRunner = xfn.NewPackagedFunctionRunner(theFnReader)
}

func stopFunction() { _ = os.Remove(fnSock) }
