SPECIFICATION Spec
CONSTANTS
  InitRevs <- RevInactiveRoute
  InitICs <- IcVb
  InitVst <- VstDefault
  InitOk <- OkBoth
  Feats <- OnlyTrue
  Orders <- Fwd
  ICs <- IcsVb
  Imgs <- ImgsNone
  MaxSig = 2
  MaxRev = 3
  MaxFaults = 1
  MaxEnv = 3
  MidEnv = FALSE
  EnvKinds <- EnvRev
  FaultKinds <- FaultsFew
  GateOn = TRUE
  GateSkipsInactive = TRUE
  Sticky = TRUE
  VecICs <- NoICs
  VecEvICs <- NoICs
  VecImgs <- NoICs
VIEW view
ACTION_CONSTRAINT Emit
CHECK_DEADLOCK FALSE
INVARIANTS GateSafe RepairedSig VerdictShape RepairedRev InactiveDeactivates
