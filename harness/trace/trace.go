// Package trace writes the NDJSON traces that the TLA+ monitor specifications
// (spec/Mon*.tla) validate. Every line is one JSON object; objects of one
// trace file all carry the same set of top-level keys so that the TLA+ side
// can access any field of any record. Long runs are split into chunk files
// (at scenario boundaries) that are validated by parallel monitor runs.
package trace

import (
	"bufio"
	"encoding/json"
	"fmt"
	"os"
	"sync"
)

// Writer appends events to a trace file.
type Writer struct {
	mu     sync.Mutex
	prefix string
	chunk  int
	n      int // lines in the current file
	files  int
	f      *os.File
	w      *bufio.Writer
	Lines  int
	// Counts per "ev" (and "abs" when present) for the evidence file.
	Counts map[string]int
}

// New creates a writer. With chunk > 0 the trace is written to
// <path>.0001, <path>.0002, ... each holding about chunk lines; with chunk = 0
// to <path> itself.
func New(path string, chunk ...int) (*Writer, error) {
	t := &Writer{prefix: path, Counts: map[string]int{}}
	if len(chunk) > 0 {
		t.chunk = chunk[0]
	}
	return t, t.open()
}

func (t *Writer) open() error {
	p := t.prefix
	if t.chunk > 0 {
		t.files++
		p = fmt.Sprintf("%s.%04d", t.prefix, t.files)
	}
	f, err := os.Create(p)
	if err != nil {
		return err
	}
	t.f, t.w, t.n = f, bufio.NewWriterSize(f, 1<<20), 0
	return nil
}

// Boundary tells the writer that a new independent run starts: the place
// where a chunked trace may be cut.
func (t *Writer) Boundary() {
	t.mu.Lock()
	defer t.mu.Unlock()
	if t.chunk > 0 && t.n >= t.chunk {
		_ = t.w.Flush()
		_ = t.f.Close()
		if err := t.open(); err != nil {
			panic(err)
		}
	}
}

// Emit writes one event.
func (t *Writer) Emit(ev map[string]any) {
	t.mu.Lock()
	defer t.mu.Unlock()
	b, err := json.Marshal(ev)
	if err != nil {
		panic(err)
	}
	_, _ = t.w.Write(b)
	_ = t.w.WriteByte('\n')
	t.Lines++
	t.n++
	if k, ok := ev["ev"].(string); ok {
		t.Counts[k]++
	}
	if k, ok := ev["abs"].(string); ok && k != "" {
		t.Counts["abs:"+k]++
	}
}

// Close flushes and closes the file.
func (t *Writer) Close() error {
	t.mu.Lock()
	defer t.mu.Unlock()
	if err := t.w.Flush(); err != nil {
		return err
	}
	return t.f.Close()
}
