------------------------------- MODULE MCXCRD -------------------------------
(***************************************************************************)
(* C11 vector model: enumerates the bounded domain of abstract XRDs and of *)
(* (old, new) XRD pairs and emits every input as a "VEC" line (families    *)
(* "crd": old = new, "update": old # new).  The scenarios are inputs only; *)
(* the expected relation stays in TLA+ (XCRD.tla) and is applied to the    *)
(* real outputs by MonXCRD.tla.                                            *)
(*                                                                         *)
(* The full product of the dimensions the property quantifies over         *)
(* (versions x served x referenceable x per-version spec/status schema x   *)
(* names x claim names x policies x conversion x update pairs) is far too  *)
(* large to enumerate, and crd.go treats the dimensions independently.     *)
(* The domain is therefore the union of sub-families; each one crosses ONE *)
(* group of dimensions EXHAUSTIVELY (within its bound) with every context  *)
(* XRD of a small pool for the remaining dimensions, and family "mix"      *)
(* draws seeded random points of the full product (TLC -seed VERIF_SEED):  *)
(*   spec    the spec part of one version: <= MaxSpecProps author          *)
(*           properties over SpecNames (user names, EVERY machinery name   *)
(*           of either CRD kind, decoys) x Tags, or all names at once;     *)
(*           required lists (incl. a machinery name); CEL rules; oneOf;    *)
(*           preserve-unknown-fields                                       *)
(*   status  same for the status part over StatusNames                     *)
(*   ver     1..MaxVer versions x referenceable index x served flags x a   *)
(*           schema of SchemaPool per version                              *)
(*   nm      metadata.name maxLength values around the 63 limit            *)
(*   names   composite singular/listKind set or not x claim names absent / *)
(*           distinct / colliding per field x default policies x conversion*)
(*   pairs   (old, new): group / kind / plural / singular changed or not x *)
(*           claim names absent / kept / kind, plural, singular changed x  *)
(*           other (mutable) changes x conversion                          *)
(*   mix     random: every dimension drawn independently; old = new or old *)
(*           differs in one or two immutable fields                        *)
(* The Compute step evaluates the DESIGN MODEL of crd.go (XCRD!ModelCRD)   *)
(* so that TLC checks that the design as coded satisfies every reference   *)
(* formula on every enumerated input (invariants D...), and -coverage shows*)
(* which branches of model and formulas are exercised.                     *)
(***************************************************************************)
EXTENDS XCRD, TLC, Json, Randomization

CONSTANTS
  SpecNames, StatusNames,   \* author property names
  Tags,                     \* author schema tags
  MaxSpecProps, MaxStatusProps,
  MaxVer,                   \* versions per XRD (<= 3)
  PoolSize,                 \* schemas of the pool used by family "ver" (<= 3)
  NameMaxes,                \* metadata.name maxLength values (family nm / mix); -1 = not set
  ClaimSing, ClaimList,     \* claim singular / listKind modes: "own", "empty", "same"
  Policies,                 \* <<cup, cdp>> pairs of family "names"
  Convs,                    \* conversion settings of family "names"
  PairConvs, PairSing,      \* family "pairs": conversion of new; whether names.singular may change
  NMix                      \* number of random points

VARIABLES input, exp, done
vars == <<input, exp, done>>

-----------------------------------------------------------------------------
(* constant sets for the cfg files *)
UserNames   == {"u1", "u2"}
\* "environmentConfigRefs" and "conditions" are NOT spec machinery at this commit, "claimRef" /
\* "compositionRef" are not status machinery: decoys that must be kept like any author property;
\* "claimRef"/"resourceRefs" are machinery of the composite only, "compositeDeletePolicy"/"resourceRef"
\* of the claim only.
SpecNamesAll   == UserNames \cup XrSpecMach \cup ClaimSpecMach \cup {"environmentConfigRefs", "conditions"}
StatusNamesAll == UserNames \cup StatusMach \cup {"claimRef", "compositionRef"}
Tags2 == {"t1", "t2"}
Tags3 == {"t1", "t2", "t3"}
NM4 == {-1, 20, 63, 64}
NM8 == {-1, 0, 1, 20, 62, 63, 64, 253}
Modes2 == {"own", "same"}
Modes3 == {"own", "empty", "same"}
ModesES == {"empty", "same"}
Pol3 == {<<"unset", "unset">>, <<"Automatic", "Foreground">>, <<"Manual", "Background">>}
Pol9 == {"unset", "Automatic", "Manual"} \X {"unset", "Background", "Foreground"}
Conv2 == {"unset", "WebhookNoConfig"}
Conv3 == {"unset", "Webhook", "WebhookNoConfig"}
Conv4 == {"unset", "None", "Webhook", "WebhookNoConfig"}

-----------------------------------------------------------------------------
(* building blocks *)
EmptyPart == [props |-> {}, req |-> {}, xval |-> {}, oneOf |-> {}, puf |-> FALSE]
Schema(sp, st, nm) == [spec |-> sp, status |-> st, nameMax |-> nm]
MinSchema == Schema(EmptyPart, EmptyPart, -1)
AllProps(N, t) == {[n |-> m, t |-> t] : m \in N}
\* every candidate name (machinery of both kinds included) is taken by the author
ShadowSchema ==
  Schema([props |-> AllProps(SpecNames, "t1"), req |-> {"u1", "claimRef"}, xval |-> {"r1"}, oneOf |-> {"o1", "o2"}, puf |-> TRUE],
         [props |-> AllProps(StatusNames, "t2"), req |-> {"conditions"}, xval |-> {"r2"}, oneOf |-> {}, puf |-> TRUE], 100)
UserSchema ==
  Schema([props |-> {[n |-> "u1", t |-> "t1"], [n |-> "u2", t |-> "t2"]}, req |-> {"u1"}, xval |-> {"r1", "r2"}, oneOf |-> {}, puf |-> FALSE],
         [props |-> {[n |-> "u1", t |-> "t2"]}, req |-> {}, xval |-> {}, oneOf |-> {"o1"}, puf |-> FALSE], 20)
SchemaPoolSeq == <<ShadowSchema, MinSchema, UserSchema>>
SchemaPool == {SchemaPoolSeq[i] : i \in 1..PoolSize}

VNames == <<"v1alpha1", "v1beta1", "v1">>
Ver(n, s, r, sch) == [name |-> n, served |-> s, ref |-> r, schema |-> sch]

G1 == "g1.example.org"
G2 == "g2.example.org"
Names1 == [kind |-> "XThing", plural |-> "xthings", singular |-> "xthing", listKind |-> "XThingList"]
Claim1 == [present |-> TRUE, kind |-> "Thing", plural |-> "things", singular |-> "thing", listKind |-> "ThingList"]
Claim2 == [present |-> TRUE, kind |-> "Thing", plural |-> "things", singular |-> "", listKind |-> ""]
NoClaim == [present |-> FALSE, kind |-> "", plural |-> "", singular |-> "", listKind |-> ""]

\* the context pool: the dimensions a family does not vary take each of these values
Ctx1 == [group |-> G1, names |-> Names1, claim |-> Claim1, cup |-> "unset", cdp |-> "unset", conv |-> "unset",
         versions |-> <<Ver("v1", TRUE, TRUE, MinSchema)>>]
Ctx2 == [group |-> G1, names |-> [Names1 EXCEPT !.listKind = ""], claim |-> Claim2, cup |-> "Automatic", cdp |-> "Foreground",
         conv |-> "None",
         versions |-> <<Ver("v1beta1", TRUE, FALSE, ShadowSchema), Ver("v1", FALSE, TRUE, UserSchema)>>]
Ctxs == {Ctx1, Ctx2}

Vec(sub, o, n) == [fam |-> (IF o = n THEN "crd" ELSE "update"), sub |-> sub, old |-> o, new |-> n]

\* subsets of N with at most K elements (K <= 2 without enumerating SUBSET N)
SubK(N, K) == IF K = 0 THEN {{}}
              ELSE IF K = 1 THEN {{}} \cup {{a} : a \in N}
              ELSE IF K = 2 THEN {{}} \cup {{a, b} : a \in N, b \in N}
              ELSE {S \in SUBSET N : Cardinality(S) <= K}
\* author property sets: <= K names with every tag assignment, and "every name" with one tag
PropChoices(N, K) ==
  UNION {{{[n |-> s, t |-> f[s]] : s \in S} : f \in [S -> Tags]} : S \in SubK(N, K)}
  \cup {AllProps(N, t) : t \in Tags}
ReqChoices(ps, extra) == {{}, {p.n : p \in ps}, {p.n : p \in ps} \cup {extra}}
XvalChoices  == {{}, {"r1", "r2"}}
OneOfChoices == {{}, {"o1", "o2"}}

-----------------------------------------------------------------------------
(* input families: predicates written with bounded quantifiers so that TLC enumerates them from Init *)
FamSpec(x) ==
  \E c \in Ctxs : \E i \in DOMAIN c.versions : \E ps \in PropChoices(SpecNames, MaxSpecProps) :
  \E rq \in ReqChoices(ps, "compositionRef") : \E xv \in XvalChoices : \E oo \in OneOfChoices : \E pf \in BOOLEAN :
    LET n == [c EXCEPT !.versions[i].schema.spec = [props |-> ps, req |-> rq, xval |-> xv, oneOf |-> oo, puf |-> pf]]
    IN x = Vec("spec", n, n)

FamStatus(x) ==
  \E c \in Ctxs : \E i \in DOMAIN c.versions : \E ps \in PropChoices(StatusNames, MaxStatusProps) :
  \E rq \in ReqChoices(ps, "conditions") : \E xv \in XvalChoices : \E oo \in OneOfChoices : \E pf \in BOOLEAN :
    LET n == [c EXCEPT !.versions[i].schema.status = [props |-> ps, req |-> rq, xval |-> xv, oneOf |-> oo, puf |-> pf]]
    IN x = Vec("status", n, n)

FamVer(x) ==
  \E k \in 1..MaxVer : \E r \in 1..k : \E sv \in [1..k -> BOOLEAN] : \E sc \in [1..k -> SchemaPool] :
    LET n == [Ctx1 EXCEPT !.versions = [i \in 1..k |-> Ver(VNames[i], sv[i], i = r, sc[i])]]
    IN x = Vec("ver", n, n)

FamNm(x) ==
  \E c \in Ctxs : \E i \in DOMAIN c.versions : \E nm \in NameMaxes :
    LET n == [c EXCEPT !.versions[i].schema.nameMax = nm] IN x = Vec("nm", n, n)

Pick(mode, own, same) == IF mode = "own" THEN own ELSE IF mode = "empty" THEN "" ELSE same
ClaimChoices(nm) ==
  {NoClaim} \cup
  {[present |-> TRUE, kind |-> Pick(k, "Thing", nm.kind), plural |-> Pick(p, "things", nm.plural),
    singular |-> Pick(s, "thing", nm.singular), listKind |-> Pick(l, "ThingList", nm.listKind)] :
     k \in Modes2, p \in Modes2, s \in ClaimSing, l \in ClaimList}

FamNames(x) ==
  \E cs \in {"xthing", ""} : \E cl \in {"XThingList", ""} :
  \E pol \in Policies : \E cv \in Convs :
    LET nm == [Names1 EXCEPT !.singular = cs, !.listKind = cl] IN
    \E cc \in ClaimChoices(nm) :
      LET n == [Ctx2 EXCEPT !.names = nm, !.claim = cc, !.cup = pol[1], !.cdp = pol[2], !.conv = cv]
      IN x = Vec("names", n, n)

FamPairs(x) ==
  \E oc \in {NoClaim, Claim1} : \E g \in {G1, G2} : \E k \in {"XThing", "XOther"} : \E p \in {"xthings", "xothers"} :
  \E s \in (IF PairSing THEN {"xthing", "xother"} ELSE {"xthing"}) :
  \E nc \in {NoClaim} \cup {[Claim1 EXCEPT !.kind = ck, !.plural = cp, !.singular = sg] :
                              ck \in {"Thing", "Other"}, cp \in {"things", "others"}, sg \in {"thing", "other"}} :
  \E mut \in BOOLEAN : \E cv \in PairConvs :
    LET o == [Ctx1 EXCEPT !.claim = oc]
        n == [Ctx1 EXCEPT !.group = g, !.names = [Names1 EXCEPT !.kind = k, !.plural = p, !.singular = s],
                          !.claim = nc, !.conv = cv,
                          !.versions = (IF mut THEN <<Ver("v1", TRUE, FALSE, MinSchema), Ver("v2", TRUE, TRUE, UserSchema)>>
                                               ELSE Ctx1.versions),
                          !.cup = (IF mut THEN "Manual" ELSE "unset")]
    IN x = Vec("pairs", o, n)

\* ---- family "mix": random points of the full product.  Every dimension is drawn independently
\* (RandomSubset(1, S), reproducible through TLC's -seed); the draws are split so that every S has
\* fewer than 2^31 elements, and each draw is bound by a quantifier so that it is evaluated once.
Absent == {"-", "-2", "-3"}     \* three of |Tags| + 3 draws leave a name out
TagOrNot == Tags \cup Absent
ReqPoolSpec   == {"u1", "u2", "claimRef", "resourceRef", "compositionRef", "nosuch"}
ReqPoolStatus == {"u1", "conditions", "nosuch"}
\* (the cost of a draw grows with |S|: the names are drawn in chunks)
SpecChunkA == SpecNames \cap SelectionMach
SpecChunkB == SpecNames \cap (XrSpecMach \ SelectionMach)
SpecChunkC == SpecNames \ XrSpecMach
StatChunkA == StatusNames \cap StatusMach
StatChunkB == StatusNames \ StatusMach
MetaSpace(RP) == [req : SUBSET RP, xval : SUBSET {"r1", "r2"}, oneOf : SUBSET {"o1", "o2"}, puf : BOOLEAN]
MixH1 == [k : 1..MaxVer, r : 1..MaxVer, sv : [1..3 -> BOOLEAN], cs : {"xthing", ""}, cl : {"XThingList", ""}]
MixH2 == [cpresent : BOOLEAN, ck : {"own", "own2", "same"}, cp : {"own", "own2", "same"}, csg : Modes3, clk : Modes3]
MixH3 == [cup : {"unset", "Automatic", "Manual"}, cdp : {"unset", "Background", "Foreground"}, conv : Conv4,
          chg : 0..15]
MixNM == [1..3 -> NameMaxes]
One(i, S) == RandomSubset((IF i > 0 THEN 1 ELSE 1), S)     \* depends on i: one fresh draw per vector
PropsOf(f) == {[n |-> m, t |-> f[m]] : m \in {y \in DOMAIN f : f[y] \notin Absent}}
PartFrom(P, m) == [props |-> P, req |-> m.req, xval |-> m.xval, oneOf |-> m.oneOf, puf |-> m.puf]
\* a singleton set: one random schema (fresh draws at every evaluation)
MixSchemas(i, nm) ==
  {Schema(PartFrom(PropsOf(a) \cup PropsOf(b) \cup PropsOf(c), sm), PartFrom(PropsOf(ta) \cup PropsOf(tb), tm), nm) :
     a \in One(i, [SpecChunkA -> TagOrNot]), b \in One(i, [SpecChunkB -> TagOrNot]), c \in One(i, [SpecChunkC -> TagOrNot]),
     sm \in One(i, MetaSpace(ReqPoolSpec)),
     ta \in One(i, [StatChunkA -> TagOrNot]), tb \in One(i, [StatChunkB -> TagOrNot]), tm \in One(i, MetaSpace(ReqPoolStatus))}
Mode3(m) == IF m = "own2" THEN "own" ELSE m
MixNew(h, sch) ==
  LET nm == [Names1 EXCEPT !.singular = h.cs, !.listKind = h.cl]
      r == ((h.r - 1) % h.k) + 1
  IN [group |-> G1, names |-> nm,
      claim |-> (IF h.cpresent
                 THEN [present |-> TRUE, kind |-> Pick(Mode3(h.ck), "Thing", nm.kind), plural |-> Pick(Mode3(h.cp), "things", nm.plural),
                       singular |-> Pick(h.csg, "thing", nm.singular), listKind |-> Pick(h.clk, "ThingList", nm.listKind)]
                 ELSE NoClaim),
      cup |-> h.cup, cdp |-> h.cdp, conv |-> h.conv,
      versions |-> [i \in 1..h.k |-> Ver(VNames[i], h.sv[i], i = r, sch[i])]]
\* old = new (chg < 8) or new with one or two immutable fields different
MixOld(n, chg) ==
  LET oc == IF n.claim.present THEN n.claim ELSE Claim1 IN
  CASE chg < 8  -> n
    [] chg = 8  -> [n EXCEPT !.group = G2]
    [] chg = 9  -> [n EXCEPT !.names.kind = "XOld"]
    [] chg = 10 -> [n EXCEPT !.names.plural = "xolds"]
    [] chg = 11 -> [n EXCEPT !.claim = [oc EXCEPT !.kind = "Old"]]
    [] chg = 12 -> [n EXCEPT !.claim = [oc EXCEPT !.plural = "olds"]]
    [] chg = 13 -> [n EXCEPT !.claim = NoClaim]
    [] chg = 14 -> [n EXCEPT !.group = G2, !.names.kind = "XOld"]
    [] chg = 15 -> [n EXCEPT !.claim = [oc EXCEPT !.kind = "Old", !.plural = "olds"]]
FamMix(x) ==
  \E i \in 1..NMix : \E h1 \in One(i, MixH1) : \E h2 \in One(i, MixH2) : \E h3 \in One(i, MixH3) : \E nm \in One(i, MixNM) :
  \E s1 \in MixSchemas(i, nm[1]) : \E s2 \in MixSchemas(i, nm[2]) : \E s3 \in MixSchemas(i, nm[3]) :
    LET h == [k |-> h1.k, r |-> h1.r, sv |-> h1.sv, cs |-> h1.cs, cl |-> h1.cl,
              cpresent |-> h2.cpresent, ck |-> h2.ck, cp |-> h2.cp, csg |-> h2.csg, clk |-> h2.clk,
              cup |-> h3.cup, cdp |-> h3.cdp, conv |-> h3.conv]
        n == MixNew(h, <<s1, s2, s3>>)
    IN x = Vec("mix", MixOld(n, h3.chg), n)

IsInput(x) == \/ FamSpec(x) \/ FamStatus(x) \/ FamVer(x) \/ FamNm(x) \/ FamNames(x) \/ FamPairs(x)
              \/ (NMix > 0 /\ FamMix(x))

-----------------------------------------------------------------------------
(* the design model evaluated on an input (never emitted) *)
NoExp == [xr |-> ErrCRD, claim |-> ErrCRD, reject |-> FALSE, deny |-> FALSE]
Expected(in) == [xr |-> ModelCRD(in.new, "xr"), claim |-> ModelCRD(in.new, "claim"),
                 reject |-> ModelUpdateRejects(in.old, in.new), deny |-> ModelCreateDenied(in.new)]

Init == IsInput(input) /\ exp = NoExp /\ done = FALSE
Compute == ~done /\ done' = TRUE /\ exp' = Expected(input) /\ UNCHANGED input
Spec == Init /\ [][Compute]_vars

\* scenario emission: the input only
Emit == PrintT(<<"VEC", ToJson(input)>>)

-----------------------------------------------------------------------------
(* the design as coded satisfies every reference formula (design level) *)
K2 == {"xr", "claim"}
C(k) == IF k = "xr" THEN exp.xr ELSE exp.claim
OneRef(x) == Cardinality({i \in DOMAIN x.versions : x.versions[i].ref}) = 1
DInputOK   == OneRef(input.new) /\ OneRef(input.old) /\ Len(input.new.versions) \in 1..3
DRendered  == done => \A k \in K2 : Rendered(input.new, C(k), k)
DVersions  == done => \A k \in K2 : /\ VersionsCarried(input.new, C(k)) /\ OneStorage(C(k))
                                     /\ StorageIsReferenceable(input.new, C(k)) /\ StatusSubresource(C(k))
DScope     == done => \A k \in K2 : Scope(C(k), k)
DOwner     == done => \A k \in K2 : Owner(input.new, C(k)) /\ Identity(input.new, C(k), k)
DAuthor    == done => \A k \in K2 : /\ AuthorProps(input.new, C(k), CoreMach(k)) /\ AuthorRequired(input.new, C(k))
                                     /\ AuthorRules(input.new, C(k)) /\ NameLimit(input.new, C(k))
DMachinery == done => \A k \in K2 : /\ MachineryPresent(C(k), CoreMach(k)) /\ MachineryStandard(input.new, C(k), CoreMach(k))
                                     /\ MachineryDefault(input.new, C(k), k)
DCollide   == done => /\ CollideNoCRD(input.new, exp.claim)
                      /\ (Collides(input.new) => exp.deny)
DImmutable == done => /\ Immutable(input.old, input.new, GroupChanged, exp.reject)
                      /\ Immutable(input.old, input.new, KindChanged, exp.reject)
                      /\ Immutable(input.old, input.new, PluralChanged, exp.reject)
                      /\ Immutable(input.old, input.new, ClaimKindChanged, exp.reject)
                      /\ Immutable(input.old, input.new, ClaimPluralChanged, exp.reject)

\* witnesses (expected to be VIOLATED when listed as invariants: anti-vacuity of the antecedents)
WNoShadow   == ~(done /\ \E v \in Range(input.new.versions) : \E p \in v.schema.spec.props : p.n \in XrSpecMach)
WNoCollide  == ~(done /\ Collides(input.new))
WNoChange   == ~(done /\ ImmutableChanged(input.old, input.new))
WNoClaimErr == ~(done /\ exp.claim.err)
=============================================================================
