---------------------------- MODULE MCConditions ----------------------------
EXTENDS Conditions, Json
CONSTANTS Full      \* TRUE: the full product; FALSE: pairs of function conditions only in a few shapes
VARIABLES v, out
Bools == {TRUE, FALSE}
Cond(t, s, g) == [type |-> t, status |-> s, target |-> g]
Singles == {<<Cond(t, s, g)>> : t \in {"Ready", "Synced", "Custom1"}, s \in {"True", "False"}, g \in {"Composite", "CompositeAndClaim"}}
Pairs == {<<Cond("Ready", "True", "Composite"), Cond("Custom1", "False", "CompositeAndClaim")>>,
          <<Cond("Custom1", "True", "Composite"), Cond("Custom1", "False", "Composite")>>,
          <<Cond("Synced", "True", "CompositeAndClaim"), Cond("Ready", "True", "CompositeAndClaim")>>}
CondLists == {<<>>} \cup Singles \cup Pairs
Outcomes == [Names -> {"ok", "invalid"}]
Renders == [Names -> {"ok", "fail"}]
AllOk == [n \in Names |-> "ok"]
PipeVecs == [fam : {"xr"}, mode : {"Pipeline"}, ready : [Names -> Bools], apply : Outcomes, render : {AllOk},
             xr : {"unset", "true", "false"}, conds : CondLists, err : {"none", "fatal"},
             prior : {"none", "ready", "custom", "both"}, xrReady : {"none"}, checks : {"default"}]
PTVecs == [fam : {"xr"}, mode : {"PT"}, ready : [Names -> Bools], apply : Outcomes, render : Renders,
           xr : {"unset"}, conds : {<<>>}, err : {"none"}, prior : {"none", "ready"}, xrReady : {"none"},
           \* how readiness is decided: "default" = no readinessChecks (the Ready condition); otherwise two checks
           \* (MatchString status.state = available, then MatchCondition Ready=True) of which, for a resource that is
           \* not ready, the first / the last one fails while the other passes - ready means EVERY check passes
           \* (added after the seeded change C05-m6, "the last check decides", was missed)
           checks : {"default", "failfirst", "faillast"}]
\* claim leg: the bound XR's Ready condition when the claim reconcile runs (and what it was in the reconcile before)
ClaimVecs == [fam : {"claim"}, mode : {"SSA", "CSA"}, ready : {[n \in Names |-> FALSE]}, apply : {AllOk}, render : {AllOk},
              xr : {"unset"}, conds : {<<>>}, err : {"none"}, prior : {"none", "ready"}, xrReady : {"True", "False", "Unknown", "absent"}, checks : {"default"}]
Vecs == PipeVecs \cup PTVecs \cup ClaimVecs
Init == v \in Vecs /\ out = "-"
Compute == out = "-" /\ out' = "x" /\ UNCHANGED v
Next == Compute
Spec == Init /\ [][Next]_<<v, out>>
Emit == PrintT(<<"VEC", ToJson(v)>>)
\* design sanity: the reference never allows Ready when something is explicitly unready
RefSane == (v.mode = "Pipeline" /\ v.xr = "false") => ~MayBeReady(v)
=============================================================================
