------------------------------- MODULE FnRunner -------------------------------
(***************************************************************************)
(* X08 (extension) - xfn.PackagedFunctionRunner                            *)
(* (/repo/internal/xfn/function_runner.go): the gRPC connection pool every *)
(* composition function call of every XR controller goes through, its      *)
(* garbage collector, and the v1 -> v1beta1 fallback client.               *)
(*                                                                         *)
(* The code.  RunFunction(name, req) = getClientConn(name) ; fallback RPC. *)
(*   getClientConn:                                                        *)
(*     L   List FunctionRevisions labelled pkg.crossplane.io/package=name  *)
(*         (no lock held); the FIRST revision of the list (in the order    *)
(*         the reader returns it) with desiredState Active is "the active  *)
(*         revision"; none => error; its status.endpoint empty => error.   *)
(*     R   connsMx.RLock: a pooled connection whose Target() equals the    *)
(*         endpoint just read is returned (fast path); RUnlock.            *)
(*     W   connsMx.Lock: look again ("another goroutine might have updated *)
(*         the connections between when we released the read lock and took *)
(*         the write lock"); equal target => return it; a pooled           *)
(*         connection with another target is closed and deleted; one       *)
(*         interceptor per InterceptorCreator is created with (name,       *)
(*         active.Spec.Package); grpc.NewClient(endpoint) (no I/O; fails   *)
(*         only on an unparsable target); the connection is stored; Unlock.*)
(*   RPC   v1 RunFunction on the connection; codes.Unimplemented => the    *)
(*         request is re-encoded (proto bytes) as v1beta1 and sent once    *)
(*         more on the same connection, the v1beta1 response re-encoded    *)
(*         back; any other code is returned as is.                         *)
(*   GarbageCollectConnectionsNow:                                         *)
(*     G1  RLock: empty pool => return 0 (no List, no write lock); RUnlock *)
(*     G2  Lock: List Functions (under the write lock); error => return it *)
(*         with nothing closed; else close + delete every pooled           *)
(*         connection whose Function is not in the list; Unlock.           *)
(*                                                                         *)
(* Grain of atomicity: one action per lock acquisition / API read / RPC    *)
(* send / RPC reply.  R and W contain no call-out except the interceptor   *)
(* creators and grpc.NewClient (both inside W, non-blocking), G2 contains  *)
(* the List: the model makes W and G2 one action each, and the conformance *)
(* harness probes that assumption (it holds the real code inside W / G2    *)
(* and releases the schedule's next lock-taking actor for a moment).       *)
(*                                                                         *)
(* Properties the authors evidently intend (each verified against code and *)
(* comments; names are those of the monitor formulas in MonFnRunner.tla):  *)
(*  Routing.Endpoint   every RPC of a call travels on a connection whose   *)
(*      target is the endpoint of the active revision AS READ BY THAT CALL *)
(*      ("Verify that it has the correct target every time the Function is *)
(*      called"), and is received by that endpoint's server, no other.     *)
(*      Never an inactive revision's endpoint, never an endpoint the       *)
(*      runner saw earlier.  With two active revisions the first of the    *)
(*      list wins (the code's choice; "exactly one" is only expected).     *)
(*  Error.*   list error / no active revision / empty endpoint /           *)
(*      undialable endpoint / function error: the call fails, wrapped with *)
(*      the function's name (errFmtGetClientConn / errFmtRunFunction), the *)
(*      inner message names the revision; nothing is dialled or sent when  *)
(*      the connection cannot be determined.                               *)
(*  Pool.Reuse / Pool.DialOnce   "Create a connection the first time       *)
(*      someone runs a Function.  Cache it": a call whose endpoint equals  *)
(*      the pooled connection's target dials nothing and uses that         *)
(*      connection; otherwise exactly one dial, the new connection is      *)
(*      pooled and used, the stale one closed (Replace.Closed).  (When the *)
(*      target is the same but the pooled connection's interceptors were   *)
(*      created for another package, reuse and replace-by-one-dial are     *)
(*      both accepted here - Pool.ReuseOrRedial - so that these formulas   *)
(*      hold for the code as written and for a repair of F-a alike.)       *)
(*  Group.DialOnce / .ShareOne / .NoChurn   "Another Goroutine might have  *)
(*      updated the connections between when we released the read lock and *)
(*      took the write lock, so check again": callers that read the same   *)
(*      endpoint and all miss on the fast path before any of them takes    *)
(*      the slow path end up sharing ONE connection: at most one dial, and *)
(*      none of them closes the connection another one just dialled.       *)
(*  Pool.Open / Pool.OneOpen / NoLeak / Dials.Count   a pooled connection  *)
(*      is open; per function at most one open connection exists; every    *)
(*      connection ever dialled is pooled or closed ("You must call        *)
(*      GarbageCollect... to ensure connections are properly closed");     *)
(*      there are no dials besides the connections accounted for -         *)
(*      under ANY interleaving of callers, collector and environment.      *)
(*  Pool.OthersUntouched   a call for F never touches another function's   *)
(*      connection.                                                        *)
(*  Gc.*   the collector closes exactly the pooled connections whose       *)
(*      Function is not in the list it read (Spared / Collected / Count),  *)
(*      tolerates a List error (closes nothing, returns it), does not list *)
(*      when the pool is empty (NoWork); a later call for a re-created     *)
(*      function dials again (Pool.DialOnce).                              *)
(*  Fallback.*   v1 first; Unimplemented => exactly one v1beta1 RPC on the *)
(*      same connection; any other code => no second RPC; the result is    *)
(*      the last RPC's.                                                    *)
(*  Wire.*   toBeta / fromBeta are lossless: the v1beta1 server receives   *)
(*      every field of the v1 request, the caller every field of the       *)
(*      v1beta1 response (messages that fill EVERY field of every message  *)
(*      type reachable from RunFunctionRequest / RunFunctionResponse; the  *)
(*      two schemas are compared field by field).                          *)
(*  Intercept.*   per dial one interceptor per creator, created with the   *)
(*      function's name and the package of the active revision; every RPC  *)
(*      (the fallback RPC too) passes each of them once, in order.         *)
(*      Intercept.Package: the package an RPC's interceptor was created    *)
(*      with is the package of the active revision as read by that call    *)
(*      (the label function_package of the metrics).  THE CODE AS WRITTEN  *)
(*      DOES NOT GUARANTEE THIS: the interceptor is created once per       *)
(*      connection, and a new revision of a Function keeps the endpoint    *)
(*      (the Service is named after the Function), so after an upgrade the *)
(*      pooled connection - and the old package label - lives on           *)
(*      (FixPkg = FALSE is the code as written; finding F-a).              *)
(*  Solo.Succeeds   none of the failures poisons the pool: a later call    *)
(*      that runs alone against a healthy function succeeds.               *)
(*  GcLoop.*   GarbageCollectConnections(ctx, interval) keeps running      *)
(*      after a failed collection, collects, and returns once its context  *)
(*      is cancelled.  Metrics.Requests: the real xfn.Metrics creator,     *)
(*      wired as a third InterceptorCreator, counts one request per RPC    *)
(*      under the function's name and method.  NoRace: truly concurrent    *)
(*      runs under the Go race detector report nothing.                    *)
(*                                                                         *)
(* Dropped / interpretations:                                              *)
(*  O1 (what the code does, not asserted): a connection is closed under    *)
(*      concurrent callers.  When a caller (or the collector) closes a     *)
(*      pooled connection, a call of another goroutine that already holds  *)
(*      it - about to send, or in flight - fails with codes.Canceled       *)
(*      ("grpc: the client connection is closing"), wrapped; it is not     *)
(*      retried.  A caller with a STALE listing can thereby close the      *)
(*      connection a caller with the current listing just dialled, and     *)
(*      pool a connection to the old endpoint (repaired by the next call). *)
(*      Nothing in the code or comments promises otherwise; the composite  *)
(*      reconciler requeues.  The monitor only demands that Canceled is    *)
(*      reported for no other reason (Canceled.OnlyIfClosed); the model    *)
(*      reaches it (witness cfg closedunder) and the evidence counts it.   *)
(*  - an error path of getClientConn leaves the pool as it was, except     *)
(*      that a dial error comes after the stale connection was closed.     *)
(*  - a Function without its object but with revisions is still served     *)
(*      (callers never read Functions); the collector closes the           *)
(*      connection, the next call dials again.                             *)
(*  - the List under the write lock (G2) buys no safety property that can  *)
(*      be observed (the environment is not stopped by the lock), so the   *)
(*      collector is judged against the list it read.                      *)
(*  - timeouts / waitForReady against a dead endpoint, TLS, round robin    *)
(*      over several backends: not modelled.                               *)
(***************************************************************************)
EXTENDS Integers, Sequences, FiniteSets, TLC

CONSTANTS
  Fns,          \* function names, strings ("fa", "fb")
  Callers,      \* concurrent callers (goroutines of XR controllers): 1, 2, 3
  MaxCalls,     \* RunFunction calls per caller
  MaxGC,        \* collector runs
  MaxEnv,       \* environment steps
  MaxConn,      \* bound on connections ever dialled
  MaxFaults,    \* injected List errors (callers' and the collector's together)
  EnvOps,       \* which environment steps may happen
  EnvEps,       \* endpoints the environment may give a revision
  InitEps,      \* initial endpoint of fa's active revision (a set: nondeterministic)
  Orders,       \* list orders of the reader: "asc" (r1 before r2), "desc"
  Codes,        \* status codes a function may answer with: "ok", "internal", "unavailable", "unimpl"
  FaultKinds,   \* kinds of List error: "err", "forbidden", "timeout"
  Recheck,      \* W looks the connection up again under the write lock (FALSE: it dials and overwrites)
  VerifyTarget, \* R / W compare the pooled connection's target with the endpoint just read
  CloseStale,   \* W closes the stale connection it replaces
  FixPkg        \* candidate repair of F-a: a pooled connection created for another package counts as stale

Revs == {"r1", "r2"}
\* endpoints: e1 serves v1 only, e2 v1beta1 only, e3 both, e4 neither; "bad" cannot be dialled; "none" = empty status.endpoint
HasV1(e) == e \in {"e1", "e3"}
HasBeta(e) == e \in {"e2", "e3"}
GC == 9        \* actor id of the collector; 0 is the environment

VARIABLES
  fnEx,      \* f -> the Function object exists
  revs,      \* f -> r -> [ex, act, ep]: FunctionRevisions of f (package of revision r of f = "f:r")
  order,     \* list order of the reader
  conns,     \* f -> pooled connection id (0 = none): r.conns
  ctarget, cfn, cpkg,   \* connection id -> its target / the function it was dialled for / the revision whose package its interceptors carry
  closed,    \* connection ids that were closed
  nconn,
  pc, cf, cep, crv, ccn, ncalls,   \* per caller: segment, function, endpoint + revision read by L, connection obtained, calls done
  via,       \* per caller: "slow" while it holds a connection it found by looking again under the write lock; part of the state
             \* so that TLC keeps the behaviours in which callers really race on the slow path apart from the sequential ones
  gpc, ngc,  \* collector
  nenv, nfault,
  bad,       \* ghost: violated step properties
  obs,       \* ghost: observations (O1)
  hist

vars == <<fnEx, revs, order, conns, ctarget, cfn, cpkg, closed, nconn, pc, cf, cep, crv, ccn, ncalls, via, gpc, ngc, nenv, nfault, bad, obs, hist>>
view == <<fnEx, revs, order, conns, ctarget, cfn, cpkg, closed, nconn, pc, cf, cep, crv, ccn, ncalls, via, gpc, ngc, nenv, nfault, bad, obs>>

ConnIds == 1..MaxConn
\* one entry per action: p actor, op "call" | "gc" | "env", seg the segment, f the function, a / b the environment's choices
\* (fault kind, reply code, revision, endpoint), r what the model expects (not used to drive the code, only to measure drift)
H(p, o, seg, f, a, b, r) == [p |-> p, op |-> o, seg |-> seg, f |-> f, a |-> a, b |-> b, r |-> r]
Log(e) == hist' = Append(hist, e)

ListSeq == IF order = "asc" THEN <<"r1", "r2">> ELSE <<"r2", "r1">>
\* the revision the code takes for "the active one": the first Active revision in list order
ActRev(f) == LET s == ListSeq IN
             IF revs[f][s[1]].ex /\ revs[f][s[1]].act THEN s[1]
             ELSE IF revs[f][s[2]].ex /\ revs[f][s[2]].act THEN s[2] ELSE "none"
OtherRev(r) == IF r = "r1" THEN "r2" ELSE "r1"

InitRevs(f, e) == IF f = "fa" THEN [r \in Revs |-> IF r = "r1" THEN [ex |-> TRUE, act |-> TRUE, ep |-> e]
                                                               ELSE [ex |-> TRUE, act |-> FALSE, ep |-> "e2"]]
                  ELSE [r \in Revs |-> IF r = "r1" THEN [ex |-> TRUE, act |-> TRUE, ep |-> "e1"]
                                                   ELSE [ex |-> FALSE, act |-> FALSE, ep |-> "none"]]

Init ==
  /\ fnEx = [f \in Fns |-> TRUE]
  /\ \E e \in InitEps : revs = [f \in Fns |-> InitRevs(f, e)]
  /\ order \in Orders
  /\ conns = [f \in Fns |-> 0] /\ ctarget = [c \in ConnIds |-> "none"] /\ cfn = [c \in ConnIds |-> "none"]
  /\ cpkg = [c \in ConnIds |-> "none"] /\ closed = {} /\ nconn = 0
  /\ pc = [p \in Callers |-> "idle"] /\ cf = [p \in Callers |-> "none"] /\ cep = [p \in Callers |-> "none"]
  /\ crv = [p \in Callers |-> "none"] /\ ccn = [p \in Callers |-> 0] /\ ncalls = [p \in Callers |-> 0]
  /\ via = [p \in Callers |-> "none"]
  /\ gpc = "idle" /\ ngc = 0 /\ nenv = 0 /\ nfault = 0 /\ bad = {} /\ obs = {}
  /\ hist = << [p |-> 0, op |-> "init", seg |-> order, f |-> "fa", a |-> "r1", b |-> revs["fa"]["r1"].ep, r |-> ""] >>

Env == <<fnEx, revs, order>>
Pool == <<conns, ctarget, cfn, cpkg, closed, nconn>>
Gc == <<gpc, ngc>>

\* a call ends: back to idle
Finish(p) == /\ pc' = [pc EXCEPT ![p] = "idle"] /\ ncalls' = [ncalls EXCEPT ![p] = @ + 1]
             /\ cf' = [cf EXCEPT ![p] = "none"] /\ cep' = [cep EXCEPT ![p] = "none"] /\ crv' = [crv EXCEPT ![p] = "none"]
             /\ ccn' = [ccn EXCEPT ![p] = 0] /\ via' = [via EXCEPT ![p] = "none"]
Goto(p, l) == pc' = [pc EXCEPT ![p] = l] /\ UNCHANGED <<ncalls, cf, cep, crv>>
Via(p, v) == via' = [via EXCEPT ![p] = v]

----------------------------------------------------------------------------
\* L: RunFunction(f) begins: list the revisions of f, pick the active one
L(p, f, fault) ==
  /\ pc[p] = "idle" /\ ncalls[p] < MaxCalls
  /\ IF fault # "ok"
     THEN /\ nfault < MaxFaults /\ nfault' = nfault + 1
          /\ Finish(p) /\ Log(H(p, "call", "L", f, fault, "", "list"))
     ELSE /\ UNCHANGED nfault
          /\ LET rv == ActRev(f) IN
             IF rv = "none" THEN Finish(p) /\ Log(H(p, "call", "L", f, "ok", "", "noactive"))
             ELSE IF revs[f][rv].ep = "none" THEN Finish(p) /\ Log(H(p, "call", "L", f, "ok", "", "emptyep"))
             ELSE /\ pc' = [pc EXCEPT ![p] = "R"] /\ cf' = [cf EXCEPT ![p] = f] /\ cep' = [cep EXCEPT ![p] = revs[f][rv].ep]
                  /\ crv' = [crv EXCEPT ![p] = rv] /\ UNCHANGED <<ncalls, ccn, via>>
                  /\ Log(H(p, "call", "L", f, "ok", "", "listed"))
  /\ UNCHANGED Env /\ UNCHANGED Pool /\ UNCHANGED Gc /\ UNCHANGED <<nenv, bad, obs>>

\* does the pooled connection c serve caller p?
Usable(p, c) == c # 0 /\ (VerifyTarget => ctarget[c] = cep[p]) /\ (FixPkg => cpkg[c] = crv[p])

\* R: the fast path under the read lock
R(p) ==
  /\ pc[p] = "R"
  /\ LET c == conns[cf[p]] IN
     IF Usable(p, c) THEN Goto(p, "C1") /\ ccn' = [ccn EXCEPT ![p] = c] /\ UNCHANGED via /\ Log(H(p, "call", "R", cf[p], "", "", "hit"))
     ELSE Goto(p, "W") /\ UNCHANGED <<ccn, via>> /\ Log(H(p, "call", "R", cf[p], "", "", "miss"))
  /\ UNCHANGED Env /\ UNCHANGED Pool /\ UNCHANGED Gc /\ UNCHANGED <<nenv, nfault, bad, obs>>

\* W: the slow path under the write lock: look again, replace a stale connection, dial
W(p) ==
  /\ pc[p] = "W"
  /\ LET f == cf[p]
         c == conns[f] IN
     IF Recheck /\ Usable(p, c)
     THEN /\ Goto(p, "C1") /\ ccn' = [ccn EXCEPT ![p] = c] /\ UNCHANGED Pool /\ Via(p, "slow")
          /\ Log(H(p, "call", "W", f, "", "", "hit"))
     ELSE /\ closed' = (IF Recheck /\ c # 0 /\ CloseStale THEN closed \cup {c} ELSE closed)
          /\ IF cep[p] = "bad"
             THEN /\ conns' = [conns EXCEPT ![f] = IF Recheck THEN 0 ELSE @]
                  /\ Finish(p) /\ UNCHANGED <<ctarget, cfn, cpkg, nconn>>
                  /\ Log(H(p, "call", "W", f, "", "", "dial"))
             ELSE /\ nconn < MaxConn
                  /\ nconn' = nconn + 1
                  /\ conns' = [conns EXCEPT ![f] = nconn + 1]
                  /\ ctarget' = [ctarget EXCEPT ![nconn + 1] = cep[p]]
                  /\ cfn' = [cfn EXCEPT ![nconn + 1] = f]
                  /\ cpkg' = [cpkg EXCEPT ![nconn + 1] = crv[p]]
                  /\ Goto(p, "C1") /\ ccn' = [ccn EXCEPT ![p] = nconn + 1] /\ UNCHANGED via
                  /\ Log(H(p, "call", "W", f, "", "", IF c = 0 THEN "dialed" ELSE "replaced"))
  /\ UNCHANGED Env /\ UNCHANGED Gc /\ UNCHANGED <<nenv, nfault, bad, obs>>

\* the call fails because its connection was closed under it (O1)
Canceled(p, seg) == /\ Finish(p) /\ obs' = obs \cup {"ClosedUnder"} /\ UNCHANGED bad
                    /\ Log(H(p, "call", seg, cf[p], "", "", "canceled"))

\* C1: the v1 RPC is sent on the connection obtained
Send1(p) ==
  /\ pc[p] = "C1"
  /\ LET c == ccn[p] IN
     IF c \in closed THEN Canceled(p, "C1")
     ELSE /\ bad' = bad \cup (IF ctarget[c] # cep[p] THEN {"Routing.Endpoint"} ELSE {})
                      \cup (IF cfn[c] # cf[p] THEN {"Routing.Function"} ELSE {})
                      \cup (IF cpkg[c] # crv[p] THEN {"Intercept.Package"} ELSE {})
          /\ UNCHANGED obs
          /\ IF HasV1(ctarget[c]) THEN Goto(p, "S1") /\ Log(H(p, "call", "C1", cf[p], "", "", "sent"))
             ELSE Goto(p, "C2") /\ Log(H(p, "call", "C1", cf[p], "", "", "unimpl"))
          /\ UNCHANGED <<ccn, via>>
  /\ UNCHANGED Env /\ UNCHANGED Pool /\ UNCHANGED Gc /\ UNCHANGED <<nenv, nfault>>

\* S1: the function answers the v1 RPC with a code of the environment's choice
Reply1(p, code) ==
  /\ pc[p] = "S1"
  /\ IF ccn[p] \in closed THEN code = "ok" /\ Canceled(p, "S1")
     ELSE /\ UNCHANGED <<bad, obs>>
          /\ IF code = "unimpl" THEN Goto(p, "C2") /\ UNCHANGED <<ccn, via>> /\ Log(H(p, "call", "S1", cf[p], code, "", "unimpl"))
             ELSE Finish(p) /\ Log(H(p, "call", "S1", cf[p], code, "", IF code = "ok" THEN "ok" ELSE "fnerr"))
  /\ UNCHANGED Env /\ UNCHANGED Pool /\ UNCHANGED Gc /\ UNCHANGED <<nenv, nfault>>

\* C2: the v1beta1 RPC is sent on the same connection
Send2(p) ==
  /\ pc[p] = "C2"
  /\ LET c == ccn[p] IN
     IF c \in closed THEN Canceled(p, "C2")
     ELSE /\ UNCHANGED <<bad, obs>>
          /\ IF HasBeta(ctarget[c]) THEN Goto(p, "S2") /\ UNCHANGED <<ccn, via>> /\ Log(H(p, "call", "C2", cf[p], "", "", "sent"))
             ELSE Finish(p) /\ Log(H(p, "call", "C2", cf[p], "", "", "unimpl"))
  /\ UNCHANGED Env /\ UNCHANGED Pool /\ UNCHANGED Gc /\ UNCHANGED <<nenv, nfault>>

Reply2(p, code) ==
  /\ pc[p] = "S2"
  /\ IF ccn[p] \in closed THEN code = "ok" /\ Canceled(p, "S2")
     ELSE /\ UNCHANGED <<bad, obs>>
          /\ Finish(p) /\ Log(H(p, "call", "S2", cf[p], code, "", IF code = "ok" THEN "ok" ELSE IF code = "unimpl" THEN "unimpl" ELSE "fnerr"))
  /\ UNCHANGED Env /\ UNCHANGED Pool /\ UNCHANGED Gc /\ UNCHANGED <<nenv, nfault>>

----------------------------------------------------------------------------
\* the collector
G1 ==
  /\ gpc = "idle" /\ ngc < MaxGC
  /\ IF \A f \in Fns : conns[f] = 0
     THEN ngc' = ngc + 1 /\ UNCHANGED gpc /\ Log(H(GC, "gc", "G1", "", "", "", "empty"))
     ELSE gpc' = "G2" /\ UNCHANGED ngc /\ Log(H(GC, "gc", "G1", "", "", "", "work"))
  /\ UNCHANGED Env /\ UNCHANGED Pool /\ UNCHANGED <<pc, cf, cep, crv, ccn, ncalls, via, nenv, nfault, bad, obs>>

G2(fault) ==
  /\ gpc = "G2" /\ gpc' = "idle" /\ ngc' = ngc + 1
  /\ IF fault # "ok"
     THEN /\ nfault < MaxFaults /\ nfault' = nfault + 1 /\ UNCHANGED Pool
          /\ Log(H(GC, "gc", "G2", "", fault, "", "err"))
     ELSE /\ UNCHANGED nfault
          /\ LET victims == {f \in Fns : conns[f] # 0 /\ ~fnEx[f]} IN
             /\ closed' = closed \cup {conns[f] : f \in victims}
             /\ conns' = [f \in Fns |-> IF f \in victims THEN 0 ELSE conns[f]]
             /\ Log(H(GC, "gc", "G2", "", "ok", "", IF victims = {} THEN "none" ELSE "collected"))
          /\ UNCHANGED <<ctarget, cfn, cpkg, nconn>>
  /\ UNCHANGED Env /\ UNCHANGED <<pc, cf, cep, crv, ccn, ncalls, via, nenv, bad, obs>>

----------------------------------------------------------------------------
\* the environment (package manager, user)
EnvStep(seg, f, a, b) == /\ nenv < MaxEnv /\ nenv' = nenv + 1 /\ seg \in EnvOps /\ Log(H(0, "env", seg, f, a, b, ""))
                         /\ UNCHANGED Pool /\ UNCHANGED Gc /\ UNCHANGED <<pc, cf, cep, crv, ccn, ncalls, via, nfault, bad, obs, order>>
\* a revision's endpoint changes
SetEp(f, r, e) == /\ revs[f][r].ex /\ revs[f][r].ep # e /\ e \in EnvEps
                  /\ revs' = [revs EXCEPT ![f][r].ep = e] /\ UNCHANGED fnEx /\ EnvStep("SetEp", f, r, e)
\* a revision is (de)activated on its own: none / two active revisions become possible
SetAct(f, r) == /\ revs[f][r].ex /\ revs' = [revs EXCEPT ![f][r].act = ~@] /\ UNCHANGED fnEx
                /\ EnvStep("SetAct", f, r, IF revs[f][r].act THEN "off" ELSE "on")
\* the package is upgraded: the active revision becomes inactive, the other one active with endpoint e
\* (e = the old endpoint is what the package manager does: the Service is named after the Function)
Roll(f, e) == LET r == ActRev(f) IN
              /\ fnEx[f] /\ r # "none" /\ e \in EnvEps \ {"none", "bad"}
              /\ revs' = [revs EXCEPT ![f][r].act = FALSE, ![f][OtherRev(r)] = [ex |-> TRUE, act |-> TRUE, ep |-> e]]
              /\ UNCHANGED fnEx /\ EnvStep("Roll", f, OtherRev(r), e)
\* the Function is deleted, with its revisions or (revisions held by finalizers) without
DeleteFn(f, keep) == /\ fnEx[f] /\ fnEx' = [fnEx EXCEPT ![f] = FALSE]
                     /\ revs' = (IF keep THEN revs ELSE [revs EXCEPT ![f] = [r \in Revs |-> [ex |-> FALSE, act |-> FALSE, ep |-> "none"]]])
                     /\ EnvStep("DeleteFn", f, IF keep THEN "keep" ELSE "all", "")
\* ... and installed again
CreateFn(f, e) == /\ ~fnEx[f] /\ e \in EnvEps \ {"none", "bad"} /\ fnEx' = [fnEx EXCEPT ![f] = TRUE]
                  /\ revs' = [revs EXCEPT ![f] = [r \in Revs |-> IF r = "r1" THEN [ex |-> TRUE, act |-> TRUE, ep |-> e]
                                                                            ELSE [ex |-> FALSE, act |-> FALSE, ep |-> "none"]]]
                  /\ EnvStep("CreateFn", f, "r1", e)

EnvNext == \E f \in Fns :
             \/ \E r \in Revs, e \in EnvEps : SetEp(f, r, e)
             \/ \E r \in Revs : SetAct(f, r)
             \/ \E e \in EnvEps : Roll(f, e) \/ CreateFn(f, e)
             \/ \E k \in BOOLEAN : DeleteFn(f, k)

Next == \/ \E p \in Callers :
             \/ \E f \in Fns, k \in {"ok"} \cup FaultKinds : L(p, f, k)
             \/ R(p) \/ W(p) \/ Send1(p) \/ Send2(p)
             \/ \E c \in Codes : Reply1(p, c) \/ Reply2(p, c)
        \/ G1 \/ (\E k \in {"ok"} \cup FaultKinds : G2(k))
        \/ EnvNext
Spec == Init /\ [][Next]_vars

----------------------------------------------------------------------------
\* every connection ever dialled is pooled or closed
NoLeak == \A c \in 1..nconn : c \in closed \/ \E f \in Fns : conns[f] = c
\* a pooled connection is open and was dialled for the function it is pooled under
PoolOpen == \A f \in Fns : conns[f] # 0 => (conns[f] \notin closed /\ cfn[conns[f]] = f)
\* per function at most one open connection, pooled or not
OneOpen == \A f \in Fns : Cardinality({c \in 1..nconn : cfn[c] = f /\ c \notin closed}) <= 1
\* Routing.* step properties
StepProps == bad \ {"Intercept.Package"} = {}
\* the repaired design also keeps the interceptors' package fresh
PkgFresh == "Intercept.Package" \notin bad
\* O1: NOT an invariant of the design (witness cfg closedunder expects the violation)
NeverClosedUnder == obs = {}
=============================================================================
