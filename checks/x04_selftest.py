#!/usr/bin/env python3
"""Anti-vacuity self test of the X04 check (run by hand: python3 checks/x04_selftest.py [mutant-name ...]).

1. sanity mutants of the real code (cmd/crank/render/render.go), applied ONLY through `go build -overlay` on scratch copies
   under /verif/.work/X04/selftest (nothing is written to /repo): each must make MonRenderParity report the expected
   formulas (formulas that do not fire, or fire less often, on the unchanged tree);
2. the candidate repair of the finding Parity.XRReadyExplicit (render ignores the desired composite's explicit readiness),
   applied the same way: with it the monitor must report nothing at all;
3. seeded corruption of one recorded field of a real trace: MonRenderParity must reject exactly that line."""
import json
import os
import subprocess
import sys

sys.path.insert(0, os.path.dirname(os.path.dirname(os.path.abspath(__file__))))
import vlib  # noqa: E402
from checks import x04  # noqa: E402

RENDER = "/repo/cmd/crank/render/render.go"
MUTANTS = [
    # (name, old text, new text, formulas that must fire)
    ("context-not-threaded",
     "\t\tfctx = rsp.GetContext()\n", "\t\t_ = rsp.GetContext()\n",
     ["Render.ThreadContext", "Parity.Calls", "Reference.Calls"]),
    ("desired-not-threaded",
     "req := &fnv1.RunFunctionRequest{Observed: o, Desired: d, Context: fctx}",
     "req := &fnv1.RunFunctionRequest{Observed: o, Desired: &fnv1.State{}, Context: fctx}",
     ["Render.ThreadDesired", "Parity.Calls"]),
    ("fatal-does-not-stop",
     "\t\t\tcase fnv1.Severity_SEVERITY_FATAL:\n", "\t\t\tcase fnv1.Severity(99):\n",
     ["Render.FatalStops", "Render.Outcome", "Parity.Outcome"]),
    ("system-condition-not-filtered",
     "\t\tif xpv1.IsSystemConditionType(c.Type) {", "\t\tif false && xpv1.IsSystemConditionType(c.Type) {",
     ["Render.ReadyFromResources", "Parity.XRReady"]),
    ("credentials-ignore-namespace",
     "\t\tif s.GetName() == name && s.GetNamespace() == nameSpace {", "\t\tif s.GetName() == name {",
     ["Render.OwnCreds", "Parity.Calls"]),
    ("no-sort",
     "\tsort.Slice(desired, func(i, j int) bool {", "\t_ = sort.Slice\n\tfunc(any, any) {}(desired, func(i, j int) bool {",
     ["Render.Sorted"]),
    ("observed-name-not-kept",
     "\t\t\tcd.SetName(or.Resource.GetName())\n", "",
     ["Render.KeepsObservedName", "Parity.ComposedNames"]),
    ("fetcher-ignores-kind",
     "\t\tif rs.GetKind() != er.GetKind() {", "\t\tif false && rs.GetKind() != er.GetKind() {",
     ["Render.RoundsExtra", "Parity.Calls"]),
    ("owner-not-controller",
     "\tor := meta.AsController(meta.TypedReferenceTo(xr, xr.GetObjectKind().GroupVersionKind()))",
     "\tor := meta.AsOwner(meta.TypedReferenceTo(xr, xr.GetObjectKind().GroupVersionKind()))",
     ["Render.Owner", "Parity.ComposedMeta"]),
    ("output-xr-aliases-input",
     "\txr := ucomposite.New()\n", "\txr := in.CompositeResource\n",
     ["Render.InputsUntouched"]),
    ("observed-built-per-step",      # later steps are given an observed state without the composed resources
     "\t\treq := &fnv1.RunFunctionRequest{Observed: o, Desired: d, Context: fctx}\n",
     "\t\treq := &fnv1.RunFunctionRequest{Observed: o, Desired: d, Context: fctx}\n"
     "\t\tif fn.Step != \"s1\" {\n\t\t\to2, _ := composite.AsState(in.CompositeResource, nil, composite.ComposedResourceStates{})\n"
     "\t\t\treq.Observed = o2\n\t\t}\n",
     ["Render.ObservedContent", "Parity.Observed"]),
]
# the candidate repair of the finding: honour the desired composite's explicit readiness like updateXRConditions does
REPAIR = ("repair-composite-ready",
          "\txrCond.LastTransitionTime = conditionTime()\n",
          "\tswitch d.GetComposite().GetReady() { //nolint:exhaustive // only true or false matter\n"
          "\tcase fnv1.Ready_READY_TRUE:\n\t\txrCond = xpv1.Available()\n"
          "\tcase fnv1.Ready_READY_FALSE:\n\t\tif len(unready) == 0 {\n"
          "\t\t\txrCond = xpv1.Creating().WithMessage(\"Composite resource was explicitly marked as unready by the composer\")\n"
          "\t\t}\n\t}\n"
          "\txrCond.LastTransitionTime = conditionTime()\n")


# once the repair is in /repo: the mutant that takes it out again must bring the finding back
FIXED_ANCHOR = "\tswitch d.GetComposite().GetReady() {\n"
UNREPAIR = ("composite-readiness-ignored", FIXED_ANCHOR, "\tswitch fnv1.Ready_READY_UNSPECIFIED {\n", ["Parity.XRReadyExplicit"])


def build_mutant(ctx, name, old, new):
    src = open(RENDER).read()
    if src.count(old) != 1:
        raise SystemExit("mutant %s: anchor text occurs %d times in %s" % (name, src.count(old), RENDER))
    d = os.path.join(ctx.work, "mutants", name)
    os.makedirs(d, exist_ok=True)
    mp = os.path.join(d, "render.go")
    with open(mp, "w") as f:
        f.write(src.replace(old, new))
    ov = os.path.join(d, "overlay.json")
    with open(ov, "w") as f:
        json.dump({"Replace": {RENDER: mp}}, f)
    out = os.path.join(d, "renderparity")
    e = dict(os.environ)
    e.update(vlib.GOENV)
    p = subprocess.run(["go", "build", "-overlay", ov, "-o", out, "./drivers/renderparity"], cwd=vlib.HARNESS, env=e,
                       stdout=subprocess.PIPE, stderr=subprocess.STDOUT, text=True)
    if p.returncode != 0:
        raise SystemExit("mutant %s does not build:\n%s" % (name, p.stdout[-3000:]))
    return out


def judge(ctx, binp, scs, tag):
    viols, s, _ = x04.drive(ctx, binp, scs, 6, name="trace_" + tag)
    by = {}
    for f, _, _ in viols:
        by[f] = by.get(f, 0) + 1
    return by, s


def main():
    only = set(sys.argv[1:])
    ctx = vlib.Ctx("X04/selftest", "quick", 1)
    mc = ctx.model_check(x04.MODULE, x04.MODULE + "_quick.cfg", workers=8, timeout=300)
    allscs = x04.scenarios_from(mc["emitted_file"])
    scs = x04.regression() + allscs[::3]
    ok = True
    base, _ = judge(ctx, ctx.go_build("./drivers/renderparity"), scs, "base")
    print("unchanged tree (%d vectors):" % len(scs), base, flush=True)
    for name, old, new, expect in MUTANTS:
        if only and name not in only:
            continue
        got, _ = judge(ctx, build_mutant(ctx, name, old, new), scs, name)
        raised = {f: n for f, n in got.items() if n > base.get(f, 0)}
        hit = all(f in raised for f in expect)
        ok &= hit
        print("mutant %-34s %s  new/raised: %s" % (name, "DETECTED" if hit else "MISSED (expected %s)" % expect, raised), flush=True)
    if FIXED_ANCHOR in open(RENDER).read():
        # the tree already honours the composite's explicit readiness (finding repaired in /repo, 8962cf6): take it out again
        if not only or UNREPAIR[0] in only:
            got, _ = judge(ctx, build_mutant(ctx, *UNREPAIR[:3]), scs, UNREPAIR[0])
            raised = {f: n for f, n in got.items() if n > base.get(f, 0)}
            hit = all(f in raised for f in UNREPAIR[3])
            ok &= hit
            print("mutant %-34s %s  new/raised: %s" % (UNREPAIR[0], "DETECTED" if hit else "MISSED (expected %s)" % UNREPAIR[3], raised), flush=True)
    elif not only or REPAIR[0] in only:
        got, _ = judge(ctx, build_mutant(ctx, *REPAIR), scs, REPAIR[0])
        good = not got and base.get("Parity.XRReadyExplicit", 0) > 0
        ok &= good
        print("repair %-34s %s  remaining: %s" % (REPAIR[0], "CLEAN" if good else "NOT CLEAN", got), flush=True)
    if only:
        print("selftest (subset)", "PASSED" if ok else "FAILED")
        return 0 if ok else 1

    # seeded corruption of recorded fields of a real trace
    first = sorted(f for f in os.listdir(ctx.work) if f.startswith("trace_base.ndjson"))[0]
    lines = open(os.path.join(ctx.work, first)).read().splitlines()

    def okrun(e):
        return not e["rnd"]["err"] and e["input"]["ctx0"] == "none"
    corruptions = [
        ("render skipped a round", lambda e: e["input"]["ctx0"] == "none" and len(e["rnd"]["calls"]) >= 2 and e["rnd"]["calls"][-1]["round"] > 0,
         lambda e: e["rnd"]["calls"].pop(), ["Render.RoundsRerun", "Reference.Calls", "Parity.Calls"]),
        ("a composed resource the functions did not desire", lambda e: okrun(e) and len(e["rnd"]["composed"]) == 1 and e["rnd"]["composed"][0]["n"] == "a",
         lambda e: e["rnd"]["composed"].append(dict(e["rnd"]["composed"][0], n="b")), ["Render.Final", "Parity.Composed"]),
        ("output in descending order", lambda e: okrun(e) and len(e["rnd"]["composed"]) >= 2,
         lambda e: e["rnd"]["composed"].reverse(), ["Render.Sorted"]),
        ("a warning dropped from the results", lambda e: okrun(e) and len(e["rnd"]["results"]) >= 1,
         lambda e: e["rnd"]["results"].pop(0), ["Render.Results", "Parity.Results", "Reference.Outcome"]),
        ("second run printed other bytes", lambda e: okrun(e), lambda e: e["rnd"].update(same=False), ["Render.Deterministic"]),
        ("XR carries a spec", lambda e: okrun(e), lambda e: e["rnd"]["xr"]["keys"].append("spec"), ["Render.XRIdentity"]),
        ("error with output", lambda e: e["rnd"]["errKind"] == "fatal", lambda e: e["rnd"].update(nilOut=False), ["Render.FatalStops"]),
        ("controller saw another extra resource", lambda e: okrun(e) and any(c["extra"] for c in e["ctl"]["calls"]),
         lambda e: [c for c in e["ctl"]["calls"] if c["extra"]][0]["extra"][0]["names"].append("e7"), ["Parity.Calls"]),
        ("custom condition lost", lambda e: okrun(e) and len(e["rnd"]["xr"]["conds"]) >= 1,
         lambda e: e["rnd"]["xr"]["conds"].pop(), ["Render.XRConditions", "Parity.XRConditions"]),
    ]
    for what, pick, mutate, expect in corruptions:
        idx = next((i for i, ln in enumerate(lines) if pick(json.loads(ln))), None)
        if idx is None:
            print("corruption %-50s NO CANDIDATE LINE" % what)
            ok = False
            continue
        e = json.loads(lines[idx])
        mutate(e)
        tp = os.path.join(ctx.work, "corrupt.ndjson")
        with open(tp, "w") as f:
            f.write(json.dumps(e) + "\n")
        viols, _ = ctx.monitor("MonRenderParity", tp)
        got = sorted({f for f, _, _ in viols} - set(base))
        hit = all(f in got for f in expect)
        ok &= hit
        print("corruption %-50s %s  fired: %s" % (what, "REJECTED" if hit else "MISSED (expected %s)" % expect, got), flush=True)
    print("selftest", "PASSED" if ok else "FAILED")
    return 0 if ok else 1


if __name__ == "__main__":
    sys.exit(main())
