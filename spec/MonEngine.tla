------------------------------ MODULE MonEngine ------------------------------
(***************************************************************************)
(* Trace monitor for Engine: evaluates the C13 formulas on every recorded  *)
(* state of executions of the real ControllerEngine / StoppableSource /    *)
(* InformerTrackingCache / watch garbage collector.  Each event is one     *)
(* lock-protected segment of an engine operation (or the quiescent state   *)
(* of a truly concurrent stress run); post is the observable state: live   *)
(* handler registrations on the (fake) informers attributed to (controller *)
(* instance, watch id), which controller instances run / were cancelled /  *)
(* were stopped, the active informers.                                     *)
(***************************************************************************)
EXTENDS Integers, Sequences, FiniteSets, TLC, Json, IOUtils

Trace == ndJsonDeserialize(IOEnv.VERIF_TRACE)
VARIABLE l
Range(s) == {s[i] : i \in DOMAIN s}
Composed(w) == w \notin {"xr", "rev"}

Regs(e) == e.post.regs
Live(e, i, w) == {k \in DOMAIN Regs(e) : Regs(e)[k].inst = i /\ Regs(e)[k].wid = w}
InstOf(e, c) == LET m == {x \in Range(e.post.running) : x.c = c} IN IF m = {} THEN 0 ELSE (CHOOSE x \in m : TRUE).inst

\* at most one live watch (event handler registration) per controller instance, watch type and kind
OneWatch(e) == \A k1, k2 \in DOMAIN Regs(e) :
                 (k1 # k2 /\ Regs(e)[k1].inst # 0) => ~(Regs(e)[k1].inst = Regs(e)[k2].inst /\ Regs(e)[k1].wid = Regs(e)[k2].wid)
\* a controller whose Stop returned was cancelled and has none of its event handlers left - from then on
StopCancelled(e) == \A i \in Range(e.post.stopped) : i \in Range(e.post.cancelled)
StopNoHandlers(e) == \A i \in Range(e.post.stopped) : \A k \in DOMAIN Regs(e) : Regs(e)[k].inst # i
\* the collector stops only composed-resource watches whose kind no XR (as it listed them) references
IsGcStop(e) == e.ev = "step" /\ e.op = "GC" /\ e.fin
GcOnlyComposed(e) == IsGcStop(e) => \A w \in Range(e.gcstop) : Composed(w)
GcOnlyUnreferenced(e) == IsGcStop(e) => \A w \in Range(e.gcstop) : w \notin Range(e.used)
\* IsRunning answers whether the controller is running: from a successful Start until its Stop
RunningExact(p, e) == (e.ev = "step" /\ e.op = "IsRunning" /\ e.fin) => ((e.r = "true") <=> (InstOf(p, e.c) # 0))
\* GetWatches reports every watch of the running controller that has a live handler
GetWatchesCovers(p, e) == (e.ev = "step" /\ e.op = "GetWatches" /\ e.fin /\ e.r = "ok") =>
                             \A k \in DOMAIN Regs(p) : Regs(p)[k].inst = InstOf(p, e.c) => Regs(p)[k].wid \in Range(e.ra)
\* a start request that found a watch's informer inactive (re-)establishes the watch
Reestablish(e) == (e.ev = "step" /\ e.op = "StartWatches" /\ e.fin /\ e.r = "ok" /\ e.seg > 1 /\ e.inst # 0 /\ ~e.overlapped) =>
                     \A w \in Range(e.ra) : (w \notin Range(e.snapshot) /\ e.inst \notin Range(e.post.stopped)) => Live(e, e.inst, w) # {}
\* ... and so does any start request for a watch that had no live event handler when the request began - however the
\* handler was lost.  (Not judged for operations that an atomicity probe made overlap with another operation: the
\* recorded state is then the state after both.)
ReestablishLost(e) == (e.ev = "step" /\ e.op = "StartWatches" /\ e.fin /\ e.r = "ok" /\ e.seg > 1 /\ e.inst # 0 /\ ~e.overlapped
                       /\ e.inst \notin Range(e.post.stopped)) =>
                        \A w \in Range(e.lost) : Live(e, e.inst, w) # {}
\* the tracking cache reports a kind active only while the cache has an informer for it (InformerTrackingCache.active:
\* "kinds with a started informer") - otherwise a lost watch of that kind could never be re-established
ActiveMeansInformer(e) == Range(e.post.active) \subseteq Range(e.post.informers)
\* after every controller was stopped (end of a stress run) every instance ever started is cancelled
AllStopped(e) == (e.ev = "quiescent" /\ e.op = "stopall") => Cardinality(Range(e.post.cancelled)) = e.post.ninst
\* no operation hangs
NoDeadlock(e) == e.ev # "hung"

Viol(name, i) == PrintT("VIOL|" \o name \o "|" \o ToString(i) \o "|" \o Trace[i].scenario)
Check(i) ==
  LET e == Trace[i] IN
  /\ (OneWatch(e) \/ Viol("OneWatch", i))
  /\ (StopCancelled(e) \/ Viol("StopClean.NotCancelled", i))
  /\ (StopNoHandlers(e) \/ Viol("StopClean.HandlerLeft", i))
  /\ (GcOnlyComposed(e) \/ Viol("GcOnlyUnused.NotComposed", i))
  /\ (GcOnlyUnreferenced(e) \/ Viol("GcOnlyUnused.Referenced", i))
  /\ (Reestablish(e) \/ Viol("Reestablish", i))
  /\ (ReestablishLost(e) \/ Viol("Reestablish.Lost", i))
  /\ (ActiveMeansInformer(e) \/ Viol("Reestablish.ActiveWithoutInformer", i))
  /\ (AllStopped(e) \/ Viol("StopClean.NotCancelled", i))
  /\ (NoDeadlock(e) \/ Viol("NoDeadlock", i))
  /\ (e.ev = "reset" \/ i = 1 \/
        LET p == Trace[i - 1] IN
        /\ (RunningExact(p, e) \/ Viol("RunningExact", i))
        /\ (GetWatchesCovers(p, e) \/ Viol("GetWatchesCovers", i)))

Init == l = 0
Next == /\ l < Len(Trace) /\ l' = l + 1 /\ Check(l')
        /\ (l' < Len(Trace) \/ PrintT("DONE|" \o ToString(l')))
Spec == Init /\ [][Next]_l
=============================================================================
