SPECIFICATION Spec
CONSTANTS
  Tier = "mid"
  Fams = {"transform", "patch", "render"}
ACTION_CONSTRAINT Emit
CHECK_DEADLOCK FALSE
INVARIANTS RefTotal OptionalXorRequired
