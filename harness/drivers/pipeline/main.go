// Driver for spec/Pipeline.tla (C04): replays the input vectors TLC enumerates
// against the REAL composite.Reconciler + FunctionComposer + FetchingFunctionRunner
// + ExistingExtraResourcesFetcher on simapi, with scripted functions that execute
// the program family of Pipeline.tla (a function finds its program in its own
// step input, so it is a pure function of its request) and log a summary of every
// RunFunctionRequest they receive. The functions run either in process
// (composite.FunctionRunnerFn) or behind the REAL xfn.PackagedFunctionRunner, as
// gRPC servers on unix sockets (one of them speaks v1beta1 only, which exercises
// the fallback re-encoding). Family "routing" drives the PackagedFunctionRunner's
// connection table directly: FunctionRevisions with status.endpoint in simapi,
// endpoint changes, uninstall, GarbageCollectConnectionsNow.
//
// The driver only observes and records; every judgement is made by
// spec/MonPipeline.tla on the trace written here (one "out" record per vector).
package main

import (
	"context"
	"crypto/sha256"
	"encoding/json"
	"flag"
	"fmt"
	"net"
	"os"
	"path/filepath"
	"reflect"
	"regexp"
	"sort"
	"strconv"
	"strings"
	"sync"
	"time"
	"unsafe"

	"google.golang.org/grpc"
	"google.golang.org/grpc/connectivity"
	"google.golang.org/grpc/stats"
	"google.golang.org/protobuf/proto"
	"google.golang.org/protobuf/types/known/durationpb"
	"google.golang.org/protobuf/types/known/structpb"
	corev1 "k8s.io/api/core/v1"
	metav1 "k8s.io/apimachinery/pkg/apis/meta/v1"
	"k8s.io/apimachinery/pkg/apis/meta/v1/unstructured"
	"k8s.io/apimachinery/pkg/runtime"
	"k8s.io/apimachinery/pkg/runtime/schema"
	"k8s.io/apimachinery/pkg/types"
	"k8s.io/utils/ptr"
	"sigs.k8s.io/controller-runtime/pkg/reconcile"

	xpv1 "github.com/crossplane/crossplane-runtime/apis/common/v1"
	"github.com/crossplane/crossplane-runtime/pkg/event"
	"github.com/crossplane/crossplane-runtime/pkg/resource"
	ucomposite "github.com/crossplane/crossplane-runtime/pkg/resource/unstructured/composite"

	fnv1 "github.com/crossplane/crossplane/apis/apiextensions/fn/proto/v1"
	fnv1beta1 "github.com/crossplane/crossplane/apis/apiextensions/fn/proto/v1beta1"
	v1 "github.com/crossplane/crossplane/apis/apiextensions/v1"
	pkgv1 "github.com/crossplane/crossplane/apis/pkg/v1"
	"github.com/crossplane/crossplane/internal/controller/apiextensions/composite"
	"github.com/crossplane/crossplane/internal/xfn"
	"github.com/crossplane/crossplane/zzverif/scen"
	"github.com/crossplane/crossplane/zzverif/simapi"
	"github.com/crossplane/crossplane/zzverif/trace"
)

// ---------------------------------------------------------------- scenario input

type prog struct {
	Name  string `json:"name"`
	Des   string `json:"des"`
	Dn    string `json:"dn"`
	Ctx   string `json:"ctx"`
	Req   string `json:"req"`
	N     int    `json:"n"`
	Res   string `json:"res"`
	Rt    string `json:"rt"`
	Cond  string `json:"cond"`
	Cs    string `json:"cs"`
	Ct    string `json:"ct"`
	Creds bool   `json:"creds"`
}

type input struct {
	Family    string   `json:"family"`
	Steps     []prog   `json:"steps"`
	Extras    []string `json:"extras"`
	Existing  []string `json:"existing"`
	Transport string   `json:"transport"`
	Ops       []string `json:"ops"`
}

const (
	xrName   = "xr1"
	revName  = "rev1"
	compName = "comp1"
	ns       = "ns"
	annName  = "crossplane.io/composition-resource-name"
)

var (
	xrGVK    = schema.GroupVersionKind{Group: "ex.org", Version: "v1", Kind: "XThing"}
	cdGVK    = schema.GroupVersionKind{Group: "ex.org", Version: "v1", Kind: "Thing"}
	claimGVK = schema.GroupVersionKind{Group: "ex.org", Version: "v1", Kind: "ThingClaim"}
	xrKey    = simapi.Key{Group: "ex.org", Kind: "XThing", Name: xrName}
	tokRE    = regexp.MustCompile(`fnres:[A-Za-z0-9]+:[a-z]+`)
	stepRE   = regexp.MustCompile(`^Pipeline step "([^"]*)"$`)
)

// ---------------------------------------------------------------- summaries (projections only)

func kv(k, v string) map[string]any { return map[string]any{"k": k, "v": v} }

func sortBy(l []any, key string) []any {
	sort.SliceStable(l, func(i, j int) bool {
		return l[i].(map[string]any)[key].(string) < l[j].(map[string]any)[key].(string)
	})
	if l == nil {
		return []any{}
	}
	return l
}

func strList(ss []string) []any {
	sort.Strings(ss)
	out := make([]any, len(ss))
	for i, s := range ss {
		out[i] = s
	}
	return out
}

func resVal(r *fnv1.Resource) string {
	sp := r.GetResource().GetFields()["spec"].GetStructValue()
	if v, ok := sp.GetFields()["val"]; ok {
		if s, ok := v.GetKind().(*structpb.Value_StringValue); ok {
			return s.StringValue
		}
	}
	return "?"
}

func desSummary(st *fnv1.State) ([]any, string) {
	var l []any
	for n, r := range st.GetResources() {
		l = append(l, map[string]any{"n": n, "v": resVal(r)})
	}
	dxr := "none"
	if c := st.GetComposite(); c != nil {
		dxr = "?"
		if v, ok := c.GetResource().GetFields()["status"].GetStructValue().GetFields()["marker"]; ok {
			dxr = v.GetStringValue()
		}
	}
	return sortBy(l, "n"), dxr
}

func ctxSummary(c *structpb.Struct) []any {
	var l []any
	for k, v := range c.GetFields() {
		s, ok := v.GetKind().(*structpb.Value_StringValue)
		if !ok {
			l = append(l, kv(k, "?"))
			continue
		}
		l = append(l, kv(k, s.StringValue))
	}
	return sortBy(l, "k")
}

func connSummary(m map[string][]byte) []any {
	var l []any
	for k, v := range m {
		l = append(l, kv(k, string(v)))
	}
	return sortBy(l, "k")
}

func objName(s *structpb.Struct) string {
	name := s.GetFields()["metadata"].GetStructValue().GetFields()["name"].GetStringValue()
	if k := s.GetFields()["kind"].GetStringValue(); k != "Extra" {
		return k + "/" + name
	}
	return name
}

func extraSummary(m map[string]*fnv1.Resources) []any {
	var l []any
	for k, rs := range m {
		var names []string
		for _, it := range rs.GetItems() {
			names = append(names, objName(it.GetResource()))
		}
		l = append(l, map[string]any{"k": k, "names": strList(names)})
	}
	return sortBy(l, "k")
}

func credSummary(m map[string]*fnv1.Credentials) []any {
	var l []any
	for n, c := range m {
		for k, v := range c.GetCredentialData().GetData() {
			l = append(l, map[string]any{"n": n, "k": k, "v": string(v)})
		}
	}
	sort.SliceStable(l, func(i, j int) bool {
		a, b := l[i].(map[string]any), l[j].(map[string]any)
		return a["n"].(string)+"/"+a["k"].(string) < b["n"].(string)+"/"+b["k"].(string)
	})
	if l == nil {
		return []any{}
	}
	return l
}

func obsSummary(st *fnv1.State) map[string]any {
	var res []any
	for n, r := range st.GetResources() {
		res = append(res, map[string]any{"n": n, "conn": connSummary(r.GetConnectionDetails())})
	}
	name := st.GetComposite().GetResource().GetFields()["metadata"].GetStructValue().GetFields()["name"].GetStringValue()
	if name == "" {
		name = "none"
	}
	return map[string]any{"xr": name, "xrconn": connSummary(st.GetComposite().GetConnectionDetails()), "res": sortBy(res, "n")}
}

func digest(m proto.Message) string {
	b, err := proto.MarshalOptions{Deterministic: true}.Marshal(m)
	if err != nil {
		return "marshal-error"
	}
	h := sha256.Sum256(b)
	return fmt.Sprintf("%x", h[:8])
}

func reqsSummary(r *fnv1.Requirements) []any {
	var l []any
	for k, s := range r.GetExtraResources() {
		switch m := s.GetMatch().(type) {
		case *fnv1.ResourceSelector_MatchName:
			l = append(l, map[string]any{"k": k, "t": "name", "v": m.MatchName})
		case *fnv1.ResourceSelector_MatchLabels:
			v := m.MatchLabels.GetLabels()["grp"]
			if sub, ok := m.MatchLabels.GetLabels()["sub"]; ok {
				v += "+" + sub
			}
			l = append(l, map[string]any{"k": k, "t": "labels", "v": v})
		}
	}
	return sortBy(l, "k")
}

var sevName = map[fnv1.Severity]string{fnv1.Severity_SEVERITY_FATAL: "fatal", fnv1.Severity_SEVERITY_WARNING: "warning", fnv1.Severity_SEVERITY_NORMAL: "normal"}
var statusName = map[fnv1.Status]string{fnv1.Status_STATUS_CONDITION_TRUE: "True", fnv1.Status_STATUS_CONDITION_FALSE: "False", fnv1.Status_STATUS_CONDITION_UNKNOWN: "Unknown"}

func tgt(t fnv1.Target) string {
	if t == fnv1.Target_TARGET_COMPOSITE_AND_CLAIM {
		return "claim"
	}
	return "xr"
}

func rspSummary(rsp *fnv1.RunFunctionResponse) map[string]any {
	des, dxr := desSummary(rsp.GetDesired())
	results := []any{}
	for _, r := range rsp.GetResults() {
		results = append(results, map[string]any{"sev": sevName[r.GetSeverity()], "tok": r.GetMessage(), "target": tgt(r.GetTarget())})
	}
	conds := []any{}
	for _, c := range rsp.GetConditions() {
		conds = append(conds, map[string]any{"type": c.GetType(), "status": statusName[c.GetStatus()], "reason": c.GetReason(), "target": tgt(c.GetTarget())})
	}
	return map[string]any{"des": des, "dxr": dxr, "ctx": ctxSummary(rsp.GetContext()), "reqs": reqsSummary(rsp.GetRequirements()),
		"results": results, "conds": conds}
}

// ---------------------------------------------------------------- the scripted function: the program family of Pipeline.tla

func thingStruct(val string) *structpb.Struct {
	s, _ := structpb.NewStruct(map[string]any{"apiVersion": "ex.org/v1", "kind": "Thing", "spec": map[string]any{"val": val}})
	return s
}

func namesGiven(req *fnv1.RunFunctionRequest, key string) []string {
	var out []string
	for _, it := range req.GetExtraResources()[key].GetItems() {
		out = append(out, objName(it.GetResource()))
	}
	sort.Strings(out)
	return out
}

func has(ss []string, s string) bool {
	for _, x := range ss {
		if x == s {
			return true
		}
	}
	return false
}

func byName(n string) *fnv1.ResourceSelector {
	return &fnv1.ResourceSelector{ApiVersion: "ex.org/v1", Kind: "Extra", Match: &fnv1.ResourceSelector_MatchName{MatchName: n}}
}

// byLabel: "g" selects {grp: g}, "g+1" selects {grp: g, sub: 1}.
func byLabel(v string) *fnv1.ResourceSelector {
	l := map[string]string{"grp": v}
	if g, sub, ok := strings.Cut(v, "+"); ok {
		l = map[string]string{"grp": g, "sub": sub}
	}
	return &fnv1.ResourceSelector{ApiVersion: "ex.org/v1", Kind: "Extra",
		Match: &fnv1.ResourceSelector_MatchLabels{MatchLabels: &fnv1.MatchLabels{Labels: l}}}
}

// progOf reads the program and the marker a function finds in its input.
func progOf(req *fnv1.RunFunctionRequest) (prog, string) {
	in := req.GetInput()
	if in == nil {
		return prog{Name: "none", Des: "keep", Ctx: "keep", Req: "none", Res: "none", Cond: "none"}, "none"
	}
	var p prog
	b, _ := json.Marshal(in.GetFields()["prog"].GetStructValue().AsMap())
	_ = json.Unmarshal(b, &p)
	return p, in.GetFields()["marker"].GetStringValue()
}

// runProgram is a deterministic function of its request.
func runProgram(req *fnv1.RunFunctionRequest) *fnv1.RunFunctionResponse {
	p, m := progOf(req)
	rsp := &fnv1.RunFunctionResponse{Meta: &fnv1.ResponseMeta{Tag: req.GetMeta().GetTag()}}

	// desired
	d := &fnv1.State{}
	if req.GetDesired() != nil {
		d = proto.Clone(req.GetDesired()).(*fnv1.State)
	}
	if d.Resources == nil {
		d.Resources = map[string]*fnv1.Resource{}
	}
	switch p.Des {
	case "add":
		d.Resources[p.Dn] = &fnv1.Resource{Resource: thingStruct(m)}
	case "drop":
		delete(d.Resources, p.Dn)
	case "dropall":
		d = &fnv1.State{}
	case "rename":
		if r, ok := d.Resources[p.Dn]; ok {
			delete(d.Resources, p.Dn)
			d.Resources["c"] = r
		}
	case "reorder":
		names := make([]string, 0, len(d.Resources))
		for n := range d.Resources {
			names = append(names, n)
		}
		sort.Sort(sort.Reverse(sort.StringSlice(names)))
		nm := map[string]*fnv1.Resource{}
		for _, n := range names {
			nm[n] = proto.Clone(d.Resources[n]).(*fnv1.Resource)
		}
		d.Resources = nm
	case "mutate":
		for n := range d.Resources {
			d.Resources[n] = &fnv1.Resource{Resource: thingStruct(m)}
		}
		xs, _ := structpb.NewStruct(map[string]any{"apiVersion": "ex.org/v1", "kind": "XThing", "status": map[string]any{"marker": m}})
		d.Composite = &fnv1.Resource{Resource: xs}
	}
	rsp.Desired = d

	// context
	var c *structpb.Struct
	if req.GetContext() != nil {
		c = proto.Clone(req.GetContext()).(*structpb.Struct)
	}
	set := func(k, v string) {
		if c == nil {
			c = &structpb.Struct{}
		}
		if c.Fields == nil {
			c.Fields = map[string]*structpb.Value{}
		}
		c.Fields[k] = structpb.NewStringValue(v)
	}
	count := 0
	if v, ok := req.GetContext().GetFields()["n"]; ok {
		count, _ = strconv.Atoi(v.GetStringValue())
	}
	switch p.Ctx {
	case "set":
		set("k", m)
	case "own":
		set("k-"+m, m)
	case "del":
		if c != nil {
			delete(c.Fields, "k")
		}
	case "drop":
		c = nil
	}
	if (p.Req == "count" || p.Req == "flip") && count < p.N {
		set("n", strconv.Itoa(count+1))
	}
	rsp.Context = c

	// requirements
	sel := map[string]*fnv1.ResourceSelector{}
	switch p.Req {
	case "name":
		sel["k1"] = byName("e1")
	case "labels":
		sel["k1"] = byLabel("g")
	case "absent":
		sel["k1"] = byName("zz")
	case "chase":
		sel["k1"] = byName("e1")
		if has(namesGiven(req, "k1"), "e1") {
			sel["k2"] = byName("e2")
		}
	case "grow":
		sel["k1"] = byLabel("g")
		for _, o := range namesGiven(req, "k1") {
			sel["n-"+o] = byName(o)
		}
	case "relabel":
		if _, given := req.GetExtraResources()["k1"]; given {
			sel["k1"] = byLabel("g")
		} else {
			sel["k1"] = byLabel("h")
		}
	case "widen":
		if _, given := req.GetExtraResources()["k1"]; given {
			sel["k1"] = byLabel("g")
		} else {
			sel["k1"] = byLabel("g+1")
		}
	case "flip":
		sel["k1"] = byName("x" + strconv.Itoa((count+1)%2))
	case "count":
		n := count
		if n > p.N {
			n = p.N
		}
		sel["k1"] = byName("x" + strconv.Itoa(n))
	}
	if len(sel) > 0 {
		rsp.Requirements = &fnv1.Requirements{ExtraResources: sel}
	}

	// results and conditions
	target := func(t string) *fnv1.Target {
		if t == "claim" {
			return fnv1.Target_TARGET_COMPOSITE_AND_CLAIM.Enum()
		}
		return fnv1.Target_TARGET_COMPOSITE.Enum()
	}
	result := func(sev fnv1.Severity) *fnv1.Result {
		return &fnv1.Result{Severity: sev, Message: "fnres:" + m + ":" + sevName[sev], Target: target(p.Rt)}
	}
	switch p.Res {
	case "normal":
		rsp.Results = []*fnv1.Result{result(fnv1.Severity_SEVERITY_NORMAL)}
	case "warning":
		rsp.Results = []*fnv1.Result{result(fnv1.Severity_SEVERITY_WARNING)}
	case "fatal":
		rsp.Results = []*fnv1.Result{result(fnv1.Severity_SEVERITY_FATAL)}
	case "warnfatal":
		rsp.Results = []*fnv1.Result{result(fnv1.Severity_SEVERITY_WARNING), result(fnv1.Severity_SEVERITY_FATAL)}
	}
	st := map[string]fnv1.Status{"True": fnv1.Status_STATUS_CONDITION_TRUE, "False": fnv1.Status_STATUS_CONDITION_FALSE, "Unknown": fnv1.Status_STATUS_CONDITION_UNKNOWN}[p.Cs]
	switch p.Cond {
	case "own":
		rsp.Conditions = []*fnv1.Condition{{Type: "Own-" + m, Status: st, Reason: "R-" + m, Target: target(p.Ct)}}
	case "shared":
		rsp.Conditions = []*fnv1.Condition{{Type: "Shared", Status: st, Reason: "R-" + m, Target: target(p.Ct)}}
	}
	return rsp
}

// ---------------------------------------------------------------- gRPC function servers (in process, unix sockets)

type connKey struct{}

type fnServer struct {
	id     string
	beta   bool // serves apiextensions.fn.proto.v1beta1 only
	target string
}

// registry of server-side connections (stats handler)
var reg struct {
	mu      sync.Mutex
	seq     int64
	closed  map[int64]bool
	opened  int
	nclosed int
}

type statsH struct{ s *fnServer }

func (h *statsH) TagRPC(ctx context.Context, _ *stats.RPCTagInfo) context.Context { return ctx }
func (h *statsH) HandleRPC(context.Context, stats.RPCStats)                       {}
func (h *statsH) TagConn(ctx context.Context, _ *stats.ConnTagInfo) context.Context {
	reg.mu.Lock()
	defer reg.mu.Unlock()
	reg.seq++
	reg.opened++
	return context.WithValue(ctx, connKey{}, reg.seq)
}
func (h *statsH) HandleConn(ctx context.Context, s stats.ConnStats) {
	if _, ok := s.(*stats.ConnEnd); ok {
		id, _ := ctx.Value(connKey{}).(int64)
		reg.mu.Lock()
		reg.closed[id] = true
		reg.nclosed++
		reg.mu.Unlock()
	}
}

func serverClosed(id int64) bool {
	reg.mu.Lock()
	defer reg.mu.Unlock()
	return reg.closed[id]
}

// handler is what the servers do with a request: set per scenario by the driver.
// It gets the server, the API version spoken, the server-side connection and the digest of the message as received.
var handler func(s *fnServer, api string, conn int64, req *fnv1.RunFunctionRequest, got string) (*fnv1.RunFunctionResponse, error)

// lastRspSent is the digest of the response message the server handed to gRPC (in the API version it speaks).
var lastRspSent string

// hmu orders what the server goroutines record with what the driver goroutine reads and sets.
var hmu sync.Mutex

type v1Impl struct {
	fnv1.UnimplementedFunctionRunnerServiceServer
	s *fnServer
}

func (i *v1Impl) RunFunction(ctx context.Context, req *fnv1.RunFunctionRequest) (*fnv1.RunFunctionResponse, error) {
	hmu.Lock()
	defer hmu.Unlock()
	conn, _ := ctx.Value(connKey{}).(int64)
	rsp, err := handler(i.s, "v1", conn, req, digest(req))
	if err == nil {
		lastRspSent = digest(rsp)
	}
	return rsp, err
}

type betaImpl struct {
	fnv1beta1.UnimplementedFunctionRunnerServiceServer
	s *fnServer
}

func (i *betaImpl) RunFunction(ctx context.Context, breq *fnv1beta1.RunFunctionRequest) (*fnv1beta1.RunFunctionResponse, error) {
	hmu.Lock()
	defer hmu.Unlock()
	conn, _ := ctx.Value(connKey{}).(int64)
	got := digest(breq)
	// the scripted function is written against v1: the harness converts (wire-compatible messages)
	b, err := proto.Marshal(breq)
	if err != nil {
		return nil, err
	}
	req := &fnv1.RunFunctionRequest{}
	if err := proto.Unmarshal(b, req); err != nil {
		return nil, err
	}
	rsp, err := handler(i.s, "v1beta1", conn, req, got)
	if err != nil {
		return nil, err
	}
	b, err = proto.Marshal(rsp)
	if err != nil {
		return nil, err
	}
	brsp := &fnv1beta1.RunFunctionResponse{}
	if err := proto.Unmarshal(b, brsp); err != nil {
		return nil, err
	}
	lastRspSent = digest(brsp)
	return brsp, nil
}

var servers = map[string]*fnServer{}

func startServers(dir string) error {
	reg.closed = map[int64]bool{}
	if err := os.MkdirAll(dir, 0o755); err != nil {
		return err
	}
	for _, d := range []struct {
		id   string
		beta bool
	}{{"A1", false}, {"A2", true}, {"B1", false}, {"S1", false}, {"S2", true}, {"S3", false}} {
		p := filepath.Join(dir, d.id+".sock")
		_ = os.Remove(p)
		lis, err := net.Listen("unix", p)
		if err != nil {
			return err
		}
		s := &fnServer{id: d.id, beta: d.beta, target: "unix://" + p}
		gs := grpc.NewServer(grpc.StatsHandler(&statsH{s: s}))
		if d.beta {
			fnv1beta1.RegisterFunctionRunnerServiceServer(gs, &betaImpl{s: s})
		} else {
			fnv1.RegisterFunctionRunnerServiceServer(gs, &v1Impl{s: s})
		}
		go func() { _ = gs.Serve(lis) }()
		servers[d.id] = s
	}
	return nil
}

// ---------------------------------------------------------------- client-side connection table (observation only)

// connTable reads the PackagedFunctionRunner's connection table. It is only used to know WHICH client
// connection carried a call and to wait until the servers have noticed the closures the client performed
// (propagation is asynchronous); what is judged is the server-side view.
func connTable(r *xfn.PackagedFunctionRunner) (map[string]*grpc.ClientConn, bool) {
	v := reflect.ValueOf(r).Elem().FieldByName("conns")
	if !v.IsValid() || v.Type() != reflect.TypeOf(map[string]*grpc.ClientConn{}) {
		return nil, false
	}
	return *(*map[string]*grpc.ClientConn)(unsafe.Pointer(v.UnsafeAddr())), true
}

// ---------------------------------------------------------------- event recorder

type recorded struct {
	obj, typ, msg string
}

type recorder struct{ evs *[]recorded }

func (r recorder) Event(obj runtime.Object, e event.Event) {
	k := obj.GetObjectKind().GroupVersionKind().Kind
	*r.evs = append(*r.evs, recorded{obj: k, typ: string(e.Type), msg: e.Message})
}
func (r recorder) WithAnnotations(...string) event.Recorder { return r }

// ---------------------------------------------------------------- family "pipeline"

type world struct {
	in       input
	s        *simapi.Server
	c, uc    *simapi.Client
	xrUID    types.UID
	calls    []any
	rounds   map[string]int
	curFn    string
	sent     string
	evs      []recorded
	branches map[string]int
	res      composite.CompositionResult
	cerr     error
	ran      bool
}

func unstr(gvk schema.GroupVersionKind, name, namespace string) *unstructured.Unstructured {
	u := &unstructured.Unstructured{Object: map[string]any{}}
	u.SetGroupVersionKind(gvk)
	u.SetName(name)
	if namespace != "" {
		u.SetNamespace(namespace)
	}
	return u
}

func secret(name string, data map[string]string, owner *metav1.OwnerReference) *corev1.Secret {
	s := &corev1.Secret{ObjectMeta: metav1.ObjectMeta{Name: name, Namespace: ns}, Data: map[string][]byte{}}
	for k, v := range data {
		s.Data[k] = []byte(v)
	}
	if owner != nil {
		s.OwnerReferences = []metav1.OwnerReference{*owner}
		s.Type = resource.SecretTypeConnection
	}
	return s
}

// onCall records the summary of a request a scripted function received and runs the program.
func (w *world) onCall(server, got string, req *fnv1.RunFunctionRequest) *fnv1.RunFunctionResponse {
	step, _ := strconv.Atoi(strings.TrimPrefix(w.curFn, "fn"))
	round := w.rounds[w.curFn]
	w.rounds[w.curFn]++
	p, m := progOf(req)
	des, dxr := desSummary(req.GetDesired())
	rsp := runProgram(req)
	for _, b := range []string{"prog-" + p.Name, "des-" + p.Des, "ctx-" + p.Ctx, "req-" + p.Req, "res-" + p.Res, "cond-" + p.Cond, "round-" + strconv.Itoa(round)} {
		w.branches[b]++
	}
	w.calls = append(w.calls, map[string]any{
		"fn": w.curFn, "step": step, "round": round, "prog": p.Name, "input": m,
		"des": des, "dxr": dxr, "ctx": ctxSummary(req.GetContext()), "extra": extraSummary(req.GetExtraResources()),
		"creds": credSummary(req.GetCredentials()), "obs": obsSummary(req.GetObserved()), "digest": digest(req.GetObserved()),
		"server": server, "sent": w.sent, "got": got, "rsp": rspSummary(rsp),
	})
	return rsp
}

func newWorld(in input) *world {
	sch := runtime.NewScheme()
	_ = v1.AddToScheme(sch)
	_ = corev1.AddToScheme(sch)
	_ = pkgv1.AddToScheme(sch)
	s := simapi.NewServer(sch)
	s.Namespaced(schema.GroupKind{Kind: "Secret"}, claimGVK.GroupKind())
	w := &world{in: in, s: s, rounds: map[string]int{}, branches: map[string]int{}}
	w.c = simapi.NewClient(s, "xr")
	w.uc = w.c.Sibling("xr-uncached")

	// the XR: existing composed resources (and one controlled by somebody else) are referenced
	xr := unstr(xrGVK, xrName, "")
	_ = unstructured.SetNestedField(xr.Object, compName, "spec", "compositionRef", "name")
	_ = unstructured.SetNestedField(xr.Object, revName, "spec", "compositionRevisionRef", "name")
	_ = unstructured.SetNestedField(xr.Object, "Manual", "spec", "compositionUpdatePolicy")
	_ = unstructured.SetNestedMap(xr.Object, map[string]any{"name": "xr-conn", "namespace": ns}, "spec", "writeConnectionSecretToRef")
	_ = unstructured.SetNestedMap(xr.Object, map[string]any{"apiVersion": "ex.org/v1", "kind": "ThingClaim", "namespace": ns, "name": "claim1"}, "spec", "claimRef")
	refs := []any{map[string]any{"apiVersion": "ex.org/v1", "kind": "Thing", "name": "foreign-obj"}}
	for _, n := range in.Existing {
		refs = append(refs, map[string]any{"apiVersion": "ex.org/v1", "kind": "Thing", "name": n + "-obj"})
	}
	_ = unstructured.SetNestedSlice(xr.Object, refs, "spec", "resourceRefs")
	w.xrUID = s.Put(xr).GetUID()
	owner := &metav1.OwnerReference{APIVersion: "ex.org/v1", Kind: "XThing", Name: xrName, UID: w.xrUID, Controller: ptr.To(true), BlockOwnerDeletion: ptr.To(true)}
	s.Put(secret("xr-conn", map[string]string{"xk": "xv"}, owner))
	s.Put(unstr(claimGVK, "claim1", ns))

	for _, n := range in.Existing {
		t := unstr(cdGVK, n+"-obj", "")
		t.SetAnnotations(map[string]string{annName: n})
		t.SetLabels(map[string]string{"crossplane.io/composite": xrName})
		t.SetOwnerReferences([]metav1.OwnerReference{*owner})
		_ = unstructured.SetNestedField(t.Object, "old", "spec", "val")
		if n == "a" {
			_ = unstructured.SetNestedMap(t.Object, map[string]any{"name": "a-conn", "namespace": ns}, "spec", "writeConnectionSecretToRef")
			s.Put(secret("a-conn", map[string]string{"ak": "av"}, nil))
		}
		s.Put(t)
	}
	f := unstr(cdGVK, "foreign-obj", "")
	f.SetAnnotations(map[string]string{annName: "f"})
	f.SetOwnerReferences([]metav1.OwnerReference{{APIVersion: "ex.org/v1", Kind: "XThing", Name: "other-xr", UID: "other-uid", Controller: ptr.To(true)}})
	_ = unstructured.SetNestedField(f.Object, "old", "spec", "val")
	_ = unstructured.SetNestedMap(f.Object, map[string]any{"name": "f-conn", "namespace": ns}, "spec", "writeConnectionSecretToRef")
	s.Put(f)
	s.Put(secret("f-conn", map[string]string{"fk": "fv"}, nil))

	// extra resources: e1, e2 (label grp=g) as the vector says; e9 (grp=h) and a same-named object of another kind always
	extra := func(kind, name, grp string) {
		u := unstr(schema.GroupVersionKind{Group: "ex.org", Version: "v1", Kind: kind}, name, "")
		sub := "2"
		if name == "e1" {
			sub = "1"
		}
		u.SetLabels(map[string]string{"grp": grp, "sub": sub})
		s.Put(u)
	}
	for _, n := range in.Extras {
		extra("Extra", n, "g")
	}
	extra("Extra", "e9", "h")
	extra("Decoy", "e1", "g")
	extra("Decoy", "zz", "g")

	// the composition revision: step i = function fn<i>, its own input (program + marker) and credentials
	rev := &v1.CompositionRevision{ObjectMeta: metav1.ObjectMeta{Name: revName, Labels: map[string]string{v1.LabelCompositionName: compName}}}
	rev.Spec.CompositeTypeRef = v1.TypeReference{APIVersion: "ex.org/v1", Kind: "XThing"}
	rev.Spec.Revision = 1
	mode := v1.CompositionModePipeline
	rev.Spec.Mode = &mode
	for i, p := range in.Steps {
		m := "s" + strconv.Itoa(i+1)
		raw, _ := json.Marshal(map[string]any{"apiVersion": "verif.example.org/v1", "kind": "Prog", "marker": m, "prog": p})
		st := v1.PipelineStep{Step: m, FunctionRef: v1.FunctionReference{Name: "fn" + strconv.Itoa(i+1)}, Input: &runtime.RawExtension{Raw: raw}}
		if p.Creds {
			st.Credentials = []v1.FunctionCredentials{{Name: "c", Source: v1.FunctionCredentialsSourceSecret,
				SecretRef: &xpv1.SecretReference{Namespace: ns, Name: "cred-" + m}}}
		}
		rev.Spec.Pipeline = append(rev.Spec.Pipeline, st)
		s.Put(secret("cred-"+m, map[string]string{"key": "val-" + m}, nil))
	}
	s.Put(rev)
	return w
}

func (w *world) run(tw *trace.Writer, id string, sum *summary) {
	in := w.in
	var inner composite.FunctionRunner
	var pr *xfn.PackagedFunctionRunner
	if in.Transport == "grpc" {
		for i := range in.Steps {
			fn := "fn" + strconv.Itoa(i+1)
			w.s.Put(&pkgv1.Function{ObjectMeta: metav1.ObjectMeta{Name: fn}})
			// an inactive revision on another endpoint, listed before the active one
			old := &pkgv1.FunctionRevision{ObjectMeta: metav1.ObjectMeta{Name: fn + "-a-old", Labels: map[string]string{pkgv1.LabelParentPackage: fn}}}
			old.Spec.DesiredState = pkgv1.PackageRevisionInactive
			old.Status.Endpoint = servers["B1"].target
			w.s.Put(old)
			fr := &pkgv1.FunctionRevision{ObjectMeta: metav1.ObjectMeta{Name: fn + "-b-new", Labels: map[string]string{pkgv1.LabelParentPackage: fn}}}
			fr.Spec.DesiredState = pkgv1.PackageRevisionActive
			fr.Status.Endpoint = servers["S"+strconv.Itoa(i+1)].target
			w.s.Put(fr)
		}
		pr = xfn.NewPackagedFunctionRunner(simapi.NewClient(w.s, "xfn"))
		handler = func(s *fnServer, api string, _ int64, req *fnv1.RunFunctionRequest, got string) (*fnv1.RunFunctionResponse, error) {
			sum.Hits["grpc-call-"+api]++
			return w.onCall(s.id, got, req), nil
		}
		// a shim between the fetching runner and the packaged runner: notes the function name and what was sent
		inner = composite.FunctionRunnerFn(func(ctx context.Context, name string, req *fnv1.RunFunctionRequest) (*fnv1.RunFunctionResponse, error) {
			hmu.Lock()
			w.curFn, w.sent = name, digest(req)
			hmu.Unlock()
			cctx, cancel := context.WithTimeout(ctx, 20*time.Second)
			defer cancel()
			return pr.RunFunction(cctx, name, req)
		})
	} else {
		inner = composite.FunctionRunnerFn(func(_ context.Context, name string, req *fnv1.RunFunctionRequest) (*fnv1.RunFunctionResponse, error) {
			w.curFn, w.sent = name, digest(req)
			return w.onCall("inproc", w.sent, req), nil
		})
	}

	// the production wiring of definition.Reconciler.CompositeReconcilerOptions
	fetcher := composite.NewSecretConnectionDetailsFetcher(w.c)
	runner := composite.NewFetchingFunctionRunner(inner, composite.NewExistingExtraResourcesFetcher(w.c))
	fc := composite.NewFunctionComposer(w.c, w.uc, runner,
		composite.WithComposedResourceObserver(composite.NewExistingComposedResourceObserver(w.c, w.uc, fetcher)),
		composite.WithCompositeConnectionDetailsFetcher(fetcher))
	rec := composite.NewReconciler(w.c, w.uc, resource.CompositeKind(xrGVK),
		composite.WithRecorder(recorder{evs: &w.evs}),
		composite.WithConnectionPublishers(composite.NewAPIFilteredSecretPublisher(w.c, nil)),
		composite.WithCompositionSelector(composite.NewCompositionSelectorChain(composite.NewAPILabelSelectorResolver(w.c))),
		composite.WithComposer(composite.ComposerFn(func(ctx context.Context, xr *ucomposite.Unstructured, req composite.CompositionRequest) (composite.CompositionResult, error) {
			res, err := fc.Compose(ctx, xr, req)
			w.res, w.cerr, w.ran = res, err, true // observed only
			return res, err
		})))
	_, rerr := rec.Reconcile(context.Background(), reconcile.Request{NamespacedName: types.NamespacedName{Name: xrName}})

	if pr != nil {
		// close the connections: uninstall everything and collect
		for i := range in.Steps {
			w.s.Remove(simapi.Key{Group: "pkg.crossplane.io", Kind: "Function", Name: "fn" + strconv.Itoa(i+1)})
		}
		_, _ = pr.GarbageCollectConnectionsNow(context.Background())
	}

	// ---- project the outcome
	hmu.Lock()
	defer hmu.Unlock()
	out := map[string]any{"calls": w.calls, "ran": w.ran, "err": w.cerr != nil, "recErr": rerr != nil}
	if w.calls == nil {
		out["calls"] = []any{}
	}
	errMsg := ""
	if w.cerr != nil {
		errMsg = w.cerr.Error()
	}
	out["errMsg"] = errMsg

	events, conds := []any{}, []any{}
	for _, e := range w.res.Events {
		step := "none"
		if m := stepRE.FindStringSubmatch(e.Detail); m != nil {
			step = m[1]
		}
		events = append(events, map[string]any{"type": string(e.Type), "tok": tokOf(e.Message), "target": string(e.Target), "step": step})
	}
	for _, c := range w.res.Conditions {
		conds = append(conds, map[string]any{"type": string(c.Type), "status": string(c.Status), "reason": string(c.Reason), "target": string(c.Target)})
	}
	out["events"], out["conds"] = events, conds

	xrEvents, claimEvents, errToks := []any{}, []any{}, []any{}
	for _, e := range w.evs {
		tok := tokOf(e.msg)
		if tok == "none" {
			continue
		}
		switch {
		case e.obj == "XThing" && strings.HasPrefix(e.msg, "cannot compose resources"):
			errToks = append(errToks, tok)
		case e.obj == "XThing":
			xrEvents = append(xrEvents, map[string]any{"type": e.typ, "tok": tok})
		case e.obj == "ThingClaim":
			claimEvents = append(claimEvents, map[string]any{"type": e.typ, "tok": tok})
		}
	}
	out["xrEvents"], out["claimEvents"], out["errToks"] = xrEvents, claimEvents, errToks

	applied, refs, xrConds, claimTypes := []any{}, []string{}, []any{}, []string{}
	xrm := "none"
	w.s.Read(func(keys []simapi.Key, all map[simapi.Key]*unstructured.Unstructured) {
		byName := map[string]*unstructured.Unstructured{}
		for _, k := range keys {
			o := all[k]
			if k.Kind != "Thing" {
				continue
			}
			byName[o.GetName()] = o
			if c := metav1.GetControllerOf(o); c == nil || c.UID != w.xrUID || o.GetDeletionTimestamp() != nil {
				continue
			}
			v, _, _ := unstructured.NestedString(o.Object, "spec", "val")
			applied = append(applied, map[string]any{"n": o.GetAnnotations()[annName], "v": v})
		}
		xr := all[xrKey]
		if xr == nil {
			return
		}
		rs, _, _ := unstructured.NestedSlice(xr.Object, "spec", "resourceRefs")
		for _, r := range rs {
			m, _ := r.(map[string]any)
			n, _ := m["name"].(string)
			if o := byName[n]; o != nil {
				refs = append(refs, o.GetAnnotations()[annName])
			} else {
				refs = append(refs, "?"+n)
			}
		}
		if v, ok, _ := unstructured.NestedString(xr.Object, "status", "marker"); ok {
			xrm = v
		}
		cs, _, _ := unstructured.NestedSlice(xr.Object, "status", "conditions")
		for _, c := range cs {
			m, _ := c.(map[string]any)
			t, _ := m["type"].(string)
			if t == "Ready" || t == "Synced" || t == "Healthy" {
				continue
			}
			st, _ := m["status"].(string)
			rs, _ := m["reason"].(string)
			xrConds = append(xrConds, map[string]any{"type": t, "status": st, "reason": rs})
		}
		ct, _, _ := unstructured.NestedStringSlice(xr.Object, "status", "claimConditionTypes")
		claimTypes = append(claimTypes, ct...)
	})
	out["applied"], out["refs"], out["xrm"] = sortBy(applied, "n"), strList(refs), xrm
	out["xrConds"], out["claimTypes"] = sortBy(xrConds, "type"), strList(claimTypes)

	// anti-vacuity counters
	for b, n := range w.branches {
		sum.Branches[b] += n
	}
	sum.Hits["calls"] += len(w.calls)
	for _, c := range w.calls {
		m := c.(map[string]any)
		if m["round"].(int) > 0 {
			sum.Hits["calls-round>0"]++
		}
		if m["step"].(int) > 1 && m["round"].(int) == 0 {
			sum.Hits["calls-threaded"]++
		}
		if len(m["creds"].([]any)) > 0 {
			sum.Hits["calls-with-creds"]++
		}
		if len(m["extra"].([]any)) > 0 {
			sum.Hits["calls-with-extra"]++
		}
	}
	switch {
	case w.cerr == nil:
		sum.Hits["runs-ok"]++
	case strings.Contains(errMsg, "fatal result"):
		sum.Hits["runs-fatal"]++
	case strings.Contains(errMsg, "didn't stabilize"):
		sum.Hits["runs-unstable"]++
		last := w.calls[len(w.calls)-1].(map[string]any)["step"].(int)
		for _, c := range w.calls {
			m := c.(map[string]any)
			r := m["rsp"].(map[string]any)
			if m["step"].(int) < last && m["round"].(int) == 0 && len(r["results"].([]any))+len(r["conds"].([]any)) > 0 {
				// observation (not judged): Compose returns no events / conditions at all when a later step fails with an error
				sum.Hits["runs-unstable-dropping-earlier-steps-results"]++
				break
			}
		}
	default:
		sum.Hits["runs-other-error"]++
		if len(sum.Errors) < 5 {
			sum.Errors = append(sum.Errors, id+": "+errMsg)
		}
	}
	if !w.ran {
		sum.Hits["compose-not-reached"]++
		if len(sum.Errors) < 5 && len(w.evs) > 0 {
			sum.Errors = append(sum.Errors, id+": compose not reached: "+w.evs[len(w.evs)-1].msg)
		}
	}
	if len(events) > 0 {
		sum.Hits["runs-with-events"]++
	}
	if len(conds) > 0 {
		sum.Hits["runs-with-conditions"]++
	}

	rec2 := map[string]any{"ev": "out", "scenario": id, "family": "pipeline", "input": in, "out": out}
	tw.Emit(rec2)
	if len(sum.Samples) < 2 {
		sum.Samples = append(sum.Samples, rec2)
	}
}

func tokOf(msg string) string {
	if t := tokRE.FindString(msg); t != "" {
		return t
	}
	return "none"
}

// ---------------------------------------------------------------- family "routing"

func routeRequest() *fnv1.RunFunctionRequest {
	xr, _ := structpb.NewStruct(map[string]any{"apiVersion": "ex.org/v1", "kind": "XThing", "metadata": map[string]any{"name": "xr1", "labels": map[string]any{"a": "b"}},
		"spec": map[string]any{"n": 1.5, "i": 42.0, "b": true, "z": nil, "l": []any{"x", 2.0, false, map[string]any{"deep": []any{}}}, "e": map[string]any{}, "u": "unicode é世"}})
	cd, _ := structpb.NewStruct(map[string]any{"apiVersion": "ex.org/v1", "kind": "Thing", "metadata": map[string]any{"name": "t"}})
	in, _ := structpb.NewStruct(map[string]any{"apiVersion": "verif.example.org/v1", "kind": "Route", "data": []any{1.0, "two"}})
	cx, _ := structpb.NewStruct(map[string]any{"apiextensions.crossplane.io/environment": map[string]any{"k": "v"}, "n": "3"})
	return &fnv1.RunFunctionRequest{
		Meta: &fnv1.RequestMeta{Tag: "tag-1"},
		Observed: &fnv1.State{Composite: &fnv1.Resource{Resource: xr, ConnectionDetails: map[string][]byte{"bin": {0, 255, 254, 10}, "txt": []byte("v")}, Ready: fnv1.Ready_READY_FALSE},
			Resources: map[string]*fnv1.Resource{"a": {Resource: cd, ConnectionDetails: map[string][]byte{"k": []byte("v")}, Ready: fnv1.Ready_READY_TRUE}, "b": {Resource: cd}}},
		Desired:        &fnv1.State{Composite: &fnv1.Resource{Resource: xr}, Resources: map[string]*fnv1.Resource{"a": {Resource: cd, Ready: fnv1.Ready_READY_TRUE}}},
		Input:          in,
		Context:        cx,
		ExtraResources: map[string]*fnv1.Resources{"found": {Items: []*fnv1.Resource{{Resource: cd}, {Resource: xr}}}, "none": {}, "nil": nil},
		Credentials:    map[string]*fnv1.Credentials{"c": {Source: &fnv1.Credentials_CredentialData{CredentialData: &fnv1.CredentialData{Data: map[string][]byte{"key": {1, 2, 3, 0}}}}}},
	}
}

func routeResponse(req *fnv1.RunFunctionRequest) *fnv1.RunFunctionResponse {
	reason := "Why"
	msg := "message"
	return &fnv1.RunFunctionResponse{
		Meta:    &fnv1.ResponseMeta{Tag: req.GetMeta().GetTag(), Ttl: durationpb.New(90 * time.Second)},
		Desired: proto.Clone(req.GetObserved()).(*fnv1.State),
		Results: []*fnv1.Result{{Severity: fnv1.Severity_SEVERITY_WARNING, Message: "w", Reason: &reason, Target: fnv1.Target_TARGET_COMPOSITE_AND_CLAIM.Enum()},
			{Severity: fnv1.Severity_SEVERITY_NORMAL, Message: "n"}},
		Context:      proto.Clone(req.GetContext()).(*structpb.Struct),
		Requirements: &fnv1.Requirements{ExtraResources: map[string]*fnv1.ResourceSelector{"x": byName("n"), "y": byLabel("g")}},
		Conditions:   []*fnv1.Condition{{Type: "T", Status: fnv1.Status_STATUS_CONDITION_FALSE, Reason: "R", Message: &msg, Target: fnv1.Target_TARGET_COMPOSITE.Enum()}},
	}
}

type routeWorld struct {
	s       *simapi.Server
	pr      *xfn.PackagedFunctionRunner
	cur     string // name of fa's current revision ("" = not installed)
	revNo   int
	desc    bool
	ccIDs   map[*grpc.ClientConn]string  // client connection -> abstract id
	ccSrv   map[*grpc.ClientConn][]int64 // client connection -> server-side connections that carried its calls
	ccOrder []*grpc.ClientConn
	canSee  bool
}

func fnRevKey(name string) simapi.Key {
	return simapi.Key{Group: "pkg.crossplane.io", Kind: "FunctionRevision", Name: name}
}

func (w *routeWorld) newRev(fn, endpoint string) string {
	w.revNo++
	// revision names sort ascending or descending, so that the active one is not always listed last
	n := w.revNo
	if w.desc {
		n = 99 - w.revNo
	}
	name := fmt.Sprintf("%s-r%02d", fn, n)
	fr := &pkgv1.FunctionRevision{ObjectMeta: metav1.ObjectMeta{Name: name, Labels: map[string]string{pkgv1.LabelParentPackage: fn}}}
	fr.Spec.DesiredState = pkgv1.PackageRevisionActive
	fr.Spec.Package = "xpkg.example.org/" + fn + ":v1"
	fr.Spec.Revision = int64(w.revNo)
	fr.Status.Endpoint = endpoint
	w.s.Put(fr)
	return name
}

func (w *routeWorld) endpointOf(name string) string {
	u := w.s.Peek(fnRevKey(name))
	e, _, _ := unstructured.NestedString(u.Object, "status", "endpoint")
	return e
}

func (w *routeWorld) other(ep string) string {
	if ep == servers["A1"].target {
		return servers["A2"].target
	}
	return servers["A1"].target
}

func (w *routeWorld) setState(name string, st pkgv1.PackageRevisionDesiredState) {
	w.s.Mutate(fnRevKey(name), func(u *unstructured.Unstructured) {
		_ = unstructured.SetNestedField(u.Object, string(st), "spec", "desiredState")
	})
}

// sync waits until the servers have seen the end of every connection the client has closed.
func (w *routeWorld) sync(sum *summary) {
	if !w.canSee {
		// fallback: wait until the number of closed server-side connections has been stable for a while
		last, since := -1, time.Now()
		for time.Since(since) < 60*time.Millisecond {
			reg.mu.Lock()
			n := reg.nclosed
			reg.mu.Unlock()
			if n != last {
				last, since = n, time.Now()
			}
			time.Sleep(2 * time.Millisecond)
		}
		return
	}
	deadline := time.Now().Add(30 * time.Second)
	for _, cc := range w.ccOrder {
		if cc.GetState() != connectivity.Shutdown {
			continue
		}
		for _, sc := range w.ccSrv[cc] {
			for !serverClosed(sc) && time.Now().Before(deadline) {
				time.Sleep(200 * time.Microsecond)
				sum.Hits["close-wait-spins"]++
			}
		}
	}
}

func (w *routeWorld) closedIDs() []any {
	out := []any{}
	for _, cc := range w.ccOrder {
		all := len(w.ccSrv[cc]) > 0
		for _, sc := range w.ccSrv[cc] {
			if !serverClosed(sc) {
				all = false
			}
		}
		if all {
			out = append(out, w.ccIDs[cc])
		}
	}
	return out
}

func runRouting(tw *trace.Writer, id string, in input, desc bool, sum *summary) {
	sch := runtime.NewScheme()
	_ = pkgv1.AddToScheme(sch)
	s := simapi.NewServer(sch)
	w := &routeWorld{s: s, desc: desc, ccIDs: map[*grpc.ClientConn]string{}, ccSrv: map[*grpc.ClientConn][]int64{}}
	w.pr = xfn.NewPackagedFunctionRunner(simapi.NewClient(s, "xfn"))
	_, w.canSee = connTable(w.pr)
	if !w.canSee {
		sum.Hits["conn-table-not-visible"]++
	}
	s.Put(&pkgv1.Function{ObjectMeta: metav1.ObjectMeta{Name: "fa"}})
	s.Put(&pkgv1.Function{ObjectMeta: metav1.ObjectMeta{Name: "fb"}})
	w.cur = w.newRev("fa", servers["A1"].target)
	w.newRev("fb", servers["B1"].target)

	type got struct {
		server, api, dig string
		conn             int64
		rsent            string
	}
	var g *got
	handler = func(sv *fnServer, api string, conn int64, req *fnv1.RunFunctionRequest, dig string) (*fnv1.RunFunctionResponse, error) {
		g = &got{server: sv.id, api: api, dig: dig, conn: conn}
		return routeResponse(req), nil
	}

	ops := []any{}
	for _, op := range in.Ops {
		sum.Branches["op-"+op]++
		o := map[string]any{"op": op, "ok": true, "server": "none", "conn": "none", "api": "none", "sent": "none", "got": "none",
			"rsent": "none", "rgot": "none", "gcn": -1, "err": ""}
		switch op {
		case "runA", "runB":
			fn := map[string]string{"runA": "fa", "runB": "fb"}[op]
			req := routeRequest()
			o["sent"] = digest(req)
			hmu.Lock()
			g = nil
			hmu.Unlock()
			ctx, cancel := context.WithTimeout(context.Background(), 20*time.Second)
			rsp, err := w.pr.RunFunction(ctx, fn, req)
			cancel()
			hmu.Lock()
			o["ok"] = err == nil
			if err != nil {
				o["err"] = err.Error()
			}
			if g != nil {
				o["server"], o["api"], o["got"], o["rsent"] = g.server, g.api, g.dig, lastRspSent
				sum.Hits["route-call-"+g.api]++
				if tbl, ok := connTable(w.pr); ok {
					if cc := tbl[fn]; cc != nil {
						if _, seen := w.ccIDs[cc]; !seen {
							w.ccIDs[cc] = "c" + strconv.Itoa(len(w.ccOrder)+1)
							w.ccOrder = append(w.ccOrder, cc)
						}
						o["conn"] = w.ccIDs[cc]
						known := false
						for _, sc := range w.ccSrv[cc] {
							known = known || sc == g.conn
						}
						if !known {
							w.ccSrv[cc] = append(w.ccSrv[cc], g.conn)
						}
					}
				} else {
					o["conn"] = "s" + strconv.FormatInt(g.conn, 10)
				}
			} else {
				sum.Hits["route-call-undelivered"]++
			}
			hmu.Unlock()
			if rsp != nil {
				o["rgot"] = digest(rsp)
			}
		case "moveA":
			if w.cur != "" {
				ep := w.other(w.endpointOf(w.cur))
				s.Mutate(fnRevKey(w.cur), func(u *unstructured.Unstructured) {
					_ = unstructured.SetNestedField(u.Object, ep, "status", "endpoint")
				})
			}
		case "rollA":
			if w.cur != "" {
				ep := w.other(w.endpointOf(w.cur))
				w.setState(w.cur, pkgv1.PackageRevisionInactive)
				w.cur = w.newRev("fa", ep)
			}
		case "pauseA":
			if w.cur != "" {
				w.setState(w.cur, pkgv1.PackageRevisionInactive)
			}
		case "uninstA":
			s.Remove(simapi.Key{Group: "pkg.crossplane.io", Kind: "Function", Name: "fa"})
			for _, u := range s.All(schema.GroupKind{Group: "pkg.crossplane.io", Kind: "FunctionRevision"}) {
				if u.GetLabels()[pkgv1.LabelParentPackage] == "fa" {
					s.Remove(fnRevKey(u.GetName()))
				}
			}
			w.cur = ""
		case "instA":
			if w.cur == "" {
				s.Put(&pkgv1.Function{ObjectMeta: metav1.ObjectMeta{Name: "fa"}})
				w.cur = w.newRev("fa", servers["A1"].target)
			}
		case "gc":
			n, err := w.pr.GarbageCollectConnectionsNow(context.Background())
			o["gcn"], o["ok"] = n, err == nil
			if n > 0 {
				sum.Hits["gc-closed-something"]++
			}
		}
		w.sync(sum)
		o["closed"] = w.closedIDs()
		ops = append(ops, o)
	}

	// tidy up: close every connection of this runner
	s.Remove(simapi.Key{Group: "pkg.crossplane.io", Kind: "Function", Name: "fa"})
	s.Remove(simapi.Key{Group: "pkg.crossplane.io", Kind: "Function", Name: "fb"})
	_, _ = w.pr.GarbageCollectConnectionsNow(context.Background())

	rec := map[string]any{"ev": "out", "scenario": id, "family": "routing", "input": in, "out": map[string]any{"ops": ops}}
	tw.Emit(rec)
	if len(sum.Samples) < 4 && len(in.Ops) >= 3 && in.Ops[0] == "runA" {
		sum.Samples = append(sum.Samples, rec)
	}
}

// ---------------------------------------------------------------- main

type summary struct {
	Vectors  int            `json:"vectors"`
	Families map[string]int `json:"families"`
	Events   int            `json:"events"`
	Hits     map[string]int `json:"hits"`
	Branches map[string]int `json:"branches"`
	Errors   []string       `json:"errors"`
	Samples  []any          `json:"samples"`
}

func main() {
	scenarios := flag.String("scenarios", "", "NDJSON file of input vectors")
	tracePath := flag.String("trace", "", "output trace")
	sumPath := flag.String("summary", "", "output summary JSON")
	chunk := flag.Int("chunk", 0, "split the trace into files of about this many records")
	_ = flag.Int("seed", 1, "unused: the driver makes no random choices")
	sockDir := flag.String("sockdir", "", "directory for the unix sockets of the function servers")
	flag.Parse()

	fail := func(err error) {
		fmt.Fprintln(os.Stderr, err)
		os.Exit(2)
	}
	raws, err := scen.Load(*scenarios)
	if err != nil {
		fail(err)
	}
	tw, err := trace.New(*tracePath, *chunk)
	if err != nil {
		fail(err)
	}
	dir := *sockDir
	if dir == "" {
		dir = filepath.Join(filepath.Dir(*tracePath), fmt.Sprintf("sock-%d", os.Getpid()))
	}
	if dir, err = filepath.Abs(dir); err != nil {
		fail(err)
	}
	if err := startServers(dir); err != nil {
		fail(err)
	}
	defer os.RemoveAll(dir)

	sum := &summary{Families: map[string]int{}, Hits: map[string]int{}, Branches: map[string]int{}}
	for _, raw := range raws {
		var sc struct {
			ID    string `json:"id"`
			Order string `json:"order"` // routing: whether newer revisions sort after (asc) or before (desc) older ones
			Input input  `json:"input"`
		}
		if err := json.Unmarshal(raw, &sc); err != nil {
			fail(fmt.Errorf("bad scenario: %w", err))
		}
		tw.Boundary()
		sum.Vectors++
		sum.Families[sc.Input.Family]++
		if sc.Input.Extras == nil {
			sc.Input.Extras = []string{}
		}
		if sc.Input.Existing == nil {
			sc.Input.Existing = []string{}
		}
		if sc.Input.Ops == nil {
			sc.Input.Ops = []string{}
		}
		if sc.Input.Steps == nil {
			sc.Input.Steps = []prog{}
		}
		switch sc.Input.Family {
		case "pipeline":
			newWorld(sc.Input).run(tw, sc.ID, sum)
		case "routing":
			runRouting(tw, sc.ID, sc.Input, sc.Order == "desc", sum)
		default:
			fail(fmt.Errorf("unknown family %q", sc.Input.Family))
		}
	}
	sum.Events = tw.Lines
	if err := tw.Close(); err != nil {
		fail(err)
	}
	os.RemoveAll(dir)
	if err := scen.WriteJSON(*sumPath, sum); err != nil {
		fail(err)
	}
}
