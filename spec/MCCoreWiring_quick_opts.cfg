SPECIFICATION Spec
CONSTANTS
  FlagSets <- FewFlags
  PollChoices <- Polls2
  ConcChoices <- Concs3
  ClaimChoices <- OnlyT
  KeyChoices <- Both
  AllowChoices <- Allows2
  RegChoices <- Regs1
ACTION_CONSTRAINT Emit
CHECK_DEADLOCK FALSE
INVARIANTS RefLocality RefMonotone RefBaseline RefNeverBlind
