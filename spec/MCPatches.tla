----------------------------- MODULE MCPatches -----------------------------
(***************************************************************************)
(* Vector enumeration for C10 (spec/Patches.tla): Init picks one input of  *)
(* the bounded domain, the single Compute step emits it as                 *)
(*   <<"VEC", ToJson(input)>>                                              *)
(* Every emitted vector becomes one (double) run of the real code in       *)
(* harness/drivers/patches; spec/MonPatches.tla judges the outcome.        *)
(* Families (input.fam): "transform" (Resolve / ResolveTransforms),        *)
(* "patch" (composite.Apply), "render" (sub: rpatch = RenderFrom/To-       *)
(* CompositePatches, meta = RenderComposedResourceMetadata, tmpl =         *)
(* ComposedTemplates, compose = PTComposer.Compose on simapi).             *)
(* (M) design-level sanity of the reference semantics is checked as        *)
(* invariants: RefTotal (the reference semantics are defined - evaluate    *)
(* without error - on the whole domain), RoundTrip (the reference convert  *)
(* semantics satisfy the round-trip law of the property text themselves),  *)
(* OptionalXorRequired.                                                    *)
(***************************************************************************)
EXTENDS Patches, Json
CONSTANTS Tier, Fams
VARIABLES input, out
vars == <<input, out>>

\* ------------------------------------------------------------ transforms
FmtS == <<"%","s">>
FmtPS == <<"p","-","%","s">>
FmtD == <<"%","d">>
FmtV == <<"%","v">>
CvUpper == <<"T","o","U","p","p","e","r">>
CvLower == <<"T","o","L","o","w","e","r">>
CvJson == <<"T","o","J","s","o","n">>
CvB64 == <<"T","o","B","a","s","e","6","4">>
CvFromB64 == <<"F","r","o","m","B","a","s","e","6","4">>
CvSha1 == <<"T","o","S","h","a","1">>
CvSha256 == <<"T","o","S","h","a","2","5","6">>
CvSha512 == <<"T","o","S","h","a","5","1","2">>
CvAdler == <<"T","o","A","d","l","e","r","3","2">>
FNone == <<"n","o","n","e">>
FQuantity == <<"q","u","a","n","t","i","t","y">>
FJson == <<"j","s","o","n">>
FWrong == <<"w","r","o","n","g">>

MathSet == {Math("Multiply", TRUE, 2), Math("Multiply", TRUE, 0), Math("Multiply", TRUE, -1), Math("", TRUE, 3),
            Math("ClampMin", TRUE, 1), Math("ClampMax", TRUE, 1), Math("ClampMax", TRUE, 0),
            Math("Multiply", FALSE, 0), Math("ClampMin", FALSE, 0), Math("Bogus", TRUE, 2), NoCfg("math")}
MapSet == {MapT("pairs"), MapT("empty"), NoCfg("map")}
MatchSet == {Match(ps, fb) : ps \in {"lit", "re", "litre", "relit", "none"}, fb \in {"none", "value", "input", "both"}}
            \cup {Match(ps, "value") : ps \in {"badre", "nolit", "bogus"}} \cup {NoCfg("match")}
Groups == {<<FALSE, 0>>, <<TRUE, -1>>, <<TRUE, 0>>, <<TRUE, 1>>, <<TRUE, 2>>, <<TRUE, 9>>}
StringSet ==
  {StringT("Format", TRUE, f) : f \in {FmtS, FmtPS, FmtD, FmtV, <<"%">>, <<"k">>}} \cup {StringT("", TRUE, FmtS), StringT("Format", FALSE, <<>>)}
  \cup {StringT("Convert", TRUE, c) : c \in {CvUpper, CvLower, CvJson, CvB64, CvFromB64, CvSha1, CvSha256, CvSha512, CvAdler, <<"B","o","g","u","s">>}}
  \cup {StringT("Convert", FALSE, <<>>)}
  \cup {StringT("TrimPrefix", TRUE, <<"x","-">>), StringT("TrimPrefix", TRUE, <<>>), StringT("TrimSuffix", TRUE, <<"-","y">>), StringT("TrimPrefix", FALSE, <<>>)}
  \cup {StringT("Join", TRUE, <<",">>), StringT("Join", TRUE, <<>>), StringT("Join", FALSE, <<>>)}
  \cup {Regexp(rx, g[1], g[2]) : rx \in {RxDigits, RxPair}, g \in Groups}
  \cup {Regexp(RxBad, FALSE, 0), Regexp(<<>>, FALSE, 0), StringT("Regexp", FALSE, <<>>), StringT("Bogus", TRUE, FmtS), NoCfg("string")}
ConvFormats == {<<FALSE, <<>>>>, <<TRUE, FNone>>, <<TRUE, FQuantity>>, <<TRUE, FJson>>, <<TRUE, FWrong>>}
ConvertSet == {Convert(to, f[1], f[2]) : to \in IOTypes \cup {"bogus"}, f \in ConvFormats} \cup {NoCfg("convert")}
AllTransforms == MathSet \cup MapSet \cup MatchSet \cup StringSet \cup ConvertSet \cup {NoCfg("bogus")}

\* chains: quick = core x core, mid = wide x wide, thorough = wide x all
CoreSet == {Convert("string", FALSE, <<>>), Convert("int64", FALSE, <<>>), Convert("float64", FALSE, <<>>), Convert("bool", FALSE, <<>>),
            Convert("object", TRUE, FJson), Math("Multiply", TRUE, 2), Math("ClampMax", TRUE, 1),
            StringT("Format", TRUE, FmtV), StringT("Convert", TRUE, CvUpper), StringT("Convert", TRUE, CvB64), StringT("Convert", TRUE, CvFromB64),
            StringT("Convert", TRUE, CvJson), StringT("TrimPrefix", TRUE, <<"x","-">>), Regexp(RxDigits, FALSE, 0), Regexp(RxPair, TRUE, -1),
            Match("litre", "input")}
WideSet == CoreSet \cup
           {Convert("int", TRUE, FNone), Convert("array", TRUE, FJson), Convert("float64", TRUE, FQuantity), Convert("string", TRUE, FJson), Convert("bogus", FALSE, <<>>),
            Math("Multiply", TRUE, -1), Math("Multiply", TRUE, 0), Math("", TRUE, 3), Math("ClampMin", TRUE, 1), Math("ClampMax", TRUE, 0), Math("Multiply", FALSE, 0),
            MapT("pairs"), Match("re", "value"), Match("relit", "none"), Match("lit", "both"), Match("badre", "value"),
            StringT("Format", TRUE, FmtS), StringT("Format", TRUE, FmtPS), StringT("Format", TRUE, FmtD), StringT("Format", TRUE, <<"%">>),
            StringT("Convert", TRUE, CvLower), StringT("Convert", TRUE, CvSha256), StringT("Convert", TRUE, CvAdler),
            StringT("TrimSuffix", TRUE, <<"-","y">>), StringT("Join", TRUE, <<",">>),
            Regexp(RxDigits, TRUE, 1), Regexp(RxPair, TRUE, 1), Regexp(RxPair, TRUE, 2), Regexp(RxPair, TRUE, 9), Regexp(RxDigits, TRUE, -1), Regexp(RxBad, FALSE, 0),
            NoCfg("string"), NoCfg("bogus")}
ChainSet1 == IF Tier = "quick" THEN CoreSet ELSE WideSet
ChainSet2 == IF Tier = "quick" THEN CoreSet ELSE IF Tier = "mid" THEN WideSet ELSE AllTransforms
TransformVectors ==
  {[fam |-> "transform", val |-> v, chain |-> <<t>>] : v \in Values, t \in AllTransforms}
  \cup {[fam |-> "transform", val |-> v, chain |-> <<t1, t2>>] : v \in Values, t1 \in ChainSet1, t2 \in ChainSet2}

\* --------------------------------------------------------------- patches
ValsA == IF Tier = "thorough" THEN Values ELSE {S(<<"a">>), IntV(1), Null, Obj(O2J), Arr(L2J)}
Pols == {"nil", "empty", "Optional", "Required"}
PV(v, p) == [fam |-> "patch", val |-> v, p |-> p]
PathPolicy == {PV(v, Simple(pt, f, to, pol)) : v \in ValsA, pt \in FieldTypes, f \in FromPresent \cup FromMissing \cup FromOdd \cup {FromUnset},
                                                to \in {ToUnset, ToPlain}, pol \in Pols}
OddTypes == {PV(S(<<"a">>), Simple(pt, f, ToPlain, pol)) : pt \in {"", "PatchSet", "Bogus"}, f \in {FP("plain", "spec.val", TRUE), FP("absent", "spec.nope", TRUE)},
                                                         pol \in {"nil", "Required"}}
ValueTo == {PV(v, Simple(pt, FP("plain", "spec.val", TRUE), to, "nil")) : v \in Values, pt \in FieldTypes, to \in ToSimple \cup ToWild \cup ToOdd}
MergeTo == {PV(v, P(pt, FP("plain", "spec.val", TRUE), to, "empty", mo, <<>>, <<>>, <<>>, "nocombine")) :
              v \in Values, pt \in FieldTypes, mo \in {"empty", "keep", "append", "both"},
              to \in {x \in ToSimple \cup ToWild : x.k \in {"obj", "lst", "plain", "idx0", "wild"}}}
PatchChains == {<<t>> : t \in CoreSet} \cup {<<Convert("string", FALSE, <<>>), StringT("Format", TRUE, FmtPS)>>, <<Math("Multiply", TRUE, 2), Convert("string", FALSE, <<>>)>>}
WithTransforms == {PV(v, P(pt, FP("plain", "spec.val", TRUE), ToPlain, "nil", "nil", ch, <<>>, <<>>, "nocombine")) :
                     v \in Values, pt \in (IF Tier = "quick" THEN {"FromCompositeFieldPath"} ELSE FieldTypes), ch \in PatchChains}
FAbsent == FP("absent", "spec.nope", TRUE)
FPlain == FP("plain", "spec.val", TRUE)
VarLists == {<<FPlain>>, <<FPlain, FromStr>>, <<FromStr, FPlain>>, <<FAbsent>>, <<FPlain, FAbsent>>, <<FAbsent, FP("thrustr", "spec.str.x", TRUE)>>,
             <<FP("thrustr", "spec.str.x", TRUE), FAbsent>>, <<FP("thrunull", "spec.nul.x", TRUE), FromStr>>, <<>>}
Combines == {PV(v, P(pt, FromUnset, to, pol, "nil", <<>>, vs, cf, "string")) :
               v \in ValsA, pt \in CombineTypes, to \in {ToPlain, ToUnset}, pol \in {"nil", "Optional", "Required"}, vs \in VarLists,
               cf \in {FmtS, <<"%","s","-","%","s">>}}
            \cup {PV(S(<<"a">>), P(pt, FromUnset, ToPlain, pol, "nil", ch, <<FPlain, FromStr>>, <<"%","s","-","%","s">>, cs)) :
                    pt \in CombineTypes, pol \in {"nil", "Required"}, cs \in {"string", "bogus", "nocfg", "nocombine"},
                    ch \in {<<>>, <<StringT("Convert", TRUE, CvUpper)>>}}
PatchVectors == PathPolicy \cup OddTypes \cup ValueTo \cup MergeTo \cup WithTransforms \cup Combines

\* ---------------------------------------------------------------- render
Copy(pt, f, to, pol) == Simple(pt, f, to, pol)
PFrom == "FromCompositeFieldPath"
PTo == "ToCompositeFieldPath"
PatchLists ==
  {<<Copy(PFrom, FPlain, ToPlain, "nil")>>,
   <<Copy(PTo, FPlain, ToPlain, "nil")>>,
   <<Copy("PatchSet", FPlain, ToPlain, "nil")>>,
   <<Copy(PFrom, FPlain, ToPlain, "nil"), Copy(PFrom, FAbsent, ToPlain, "Required")>>,
   <<Copy(PFrom, FAbsent, ToPlain, "Required"), Copy(PFrom, FPlain, ToPlain, "nil")>>,
   <<Copy(PTo, FPlain, ToPlain, "nil"), Copy(PTo, FAbsent, ToPlain, "Required")>>,
   <<Copy(PFrom, FAbsent, ToPlain, "Optional"), Copy(PTo, FAbsent, ToPlain, "nil")>>,
   <<Copy(PFrom, FAbsent, ToPlain, "nil"), Copy(PFrom, FPlain, ToPlain, "nil")>>,
   <<Copy(PFrom, FPlain, ToPlain, "nil"), Copy(PFrom, FromStr, ToPlain, "nil")>>,
   <<Copy(PTo, FPlain, ToPlain, "nil"), Copy(PTo, FromStr, ToPlain, "nil")>>,
   <<Copy(PTo, FAbsent, ToPlain, "Required"), Copy(PFrom, FromStr, ToPlain, "nil"), Copy(PFrom, FPlain, ToPlain, "nil")>>,
   <<P("CombineFromComposite", FromUnset, ToPlain, "Required", "nil", <<>>, <<FPlain, FAbsent>>, FmtS, "string")>>,
   <<P("CombineToComposite", FromUnset, ToPlain, "nil", "nil", <<>>, <<FAbsent>>, FmtS, "string"), Copy("", FPlain, ToPlain, "nil")>>,
   <<>>}
RPatch == {[fam |-> "render", sub |-> "rpatch", val |-> v, dir |-> d, ps |-> ps] : v \in {S(<<"a">>), IntV(1)}, d \in {"from", "to"}, ps \in PatchLists}
Meta == {[fam |-> "render", sub |-> "meta", label |-> l, rname |-> rn, ctrl |-> c, claim |-> cl] :
           l \in {"present", "empty", "missing"}, rn \in {"", "t1"}, c \in {"none", "same", "other", "otherowner"}, cl \in BOOLEAN}
Tmpl == {[fam |-> "render", sub |-> "tmpl", shape |-> s] : s \in {"ok", "two", "none", "undefined", "noname", "nested"}}
ComposeAll ==
  {[fam |-> "render", sub |-> "compose", n |-> n, kind |-> k, fail |-> f, phase |-> ph] :
     n \in 2..3, k \in {"required", "transform", "topath", "optional", "namegen", "namegen-nomatch"}, f \in 1..3, ph \in {"create", "update"}}
ComposeVectors == {r \in ComposeAll : r.fail <= r.n}
                  \cup {[fam |-> "render", sub |-> "compose", n |-> n, kind |-> k, fail |-> 0, phase |-> ph] : n \in 2..3, k \in {"label", "none"}, ph \in {"create", "update"}}
RenderVectors == RPatch \cup Meta \cup Tmpl \cup ComposeVectors

Domain(f) == CASE f = "transform" -> TransformVectors [] f = "patch" -> PatchVectors [] f = "render" -> RenderVectors

\* ------------------------------------------------------------------ spec
Init == /\ \E f \in Fams : input \in Domain(f)
        /\ out = "-"
Compute == /\ out = "-"
           /\ out' = "done"
           /\ UNCHANGED input
Spec == Init /\ [][Compute]_vars
Emit == PrintT(<<"VEC", ToJson(input')>>)

\* ------------------------------------------ design-level properties (M)
\* the reference semantics are defined on the whole transform domain and give one of the three answers
RefTotal == input.fam = "transform" => ChainExpect(input.chain, input.val).k \in {"val", "err", "any"} /\ LawName(input.chain, input.val) # ""
\* "convert round-trips between string, integer, boolean and float preserve the value": the reference semantics
\* themselves satisfy it for every representative and every pair of convert types for which they are defined
RoundTripTypes == {"string", "int64", "float64", "bool"}
Back(v) == IF v.t = "int" THEN "int64" ELSE IF v.t = "float" THEN "float64" ELSE v.t
Lossless(v, to) == \/ to = "string"
                   \/ v.t = "string" /\ ConvertExpect(Convert(to, FALSE, <<>>), v).k = "val"
                                     /\ v.s = ScalarText(ConvertExpect(Convert(to, FALSE, <<>>), v).v).cs       \* canonical numerals only
                   \/ v.t = "int" /\ to = "float64"
                   \/ v.t = "bool" /\ to \in {"int64", "float64"}
                   \/ v.t = "float" /\ to = "int64" /\ v.ex /\ v.i % 2 = 0
                   \/ v.t = "int" /\ to = "bool" /\ v.ex /\ v.i \in {0, 1}
                   \/ v.t = "float" /\ to = "bool" /\ v.ex /\ v.i \in {0, 2}
RoundTrip ==
  \A v \in ScalarValues : \A to \in RoundTripTypes :
    (v.t \in {"string", "int", "float", "bool"} /\ v.ex /\ Lossless(v, to)) =>
       LET x == ChainExpect(<<Convert(to, FALSE, <<>>), Convert(Back(v), FALSE, <<>>)>>, v) IN x.k = "val" /\ SameVal(x.v, v)
ASSUME RoundTrip
\* policy reading: a patch is optional or required, never both
OptionalXorRequired == input.fam = "patch" => (Optional(input.p) <=> input.p.pol # "Required")
=============================================================================
