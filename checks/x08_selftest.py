#!/usr/bin/env python3
"""Anti-vacuity self test of the X08 check (run by hand: python3 checks/x08_selftest.py [mutant-name ...]).

1. sanity mutants of the real code (internal/xfn/function_runner.go), applied ONLY through `go build -overlay` on scratch
   copies under /verif/.work/X08/selftest (nothing is written to /repo): each must make MonFnRunner report the expected
   formulas (formulas that do not fire, or fire less often, on the unchanged tree);
2. seeded corruption of one recorded field of a real trace: MonFnRunner must reject exactly that line."""
import json
import os
import subprocess
import sys

sys.path.insert(0, os.path.dirname(os.path.dirname(os.path.abspath(__file__))))
import vlib  # noqa: E402
from checks import x08  # noqa: E402

SRC = "/repo/internal/xfn/function_runner.go"
MUTANTS = [
    # (name, old text, new text, formulas that must fire)
    ("slow-path-without-recheck",   # the connection another caller just dialled is replaced (closed under that caller)
     "\t\tif conn.Target() == active.Status.Endpoint {\n\t\t\treturn conn, nil\n\t\t}\n\n\t\t// This connection is to an old endpoint.",
     "\t\t// This connection is to an old endpoint.",
     ["Group.DialOnce", "Group.NoChurn"]),
    ("slow-path-overwrites",        # no second look at all: dial and overwrite
     "\tconn, ok = r.conns[name]\n\tif ok {\n\t\t// We now have a connection for the up-to-date endpoint.",
     "\tconn, ok = r.conns[name]\n\tif ok && name == \"\" {\n\t\t// We now have a connection for the up-to-date endpoint.",
     ["NoLeak", "Pool.OneOpen", "Replace.Closed"]),
    ("stale-connection-not-closed",
     "\t\t_ = conn.Close()\n\t\tdelete(r.conns, name)\n\t}\n\n\tis := make(",
     "\t\tdelete(r.conns, name)\n\t}\n\n\tis := make(",
     ["NoLeak", "Replace.Closed"]),
    ("fast-path-ignores-target",
     "\tif ok && conn.Target() == active.Status.Endpoint {\n\t\tdefer r.connsMx.RUnlock()",
     "\tif ok {\n\t\tdefer r.connsMx.RUnlock()",
     ["Routing.Endpoint"]),
    ("last-active-revision-wins",
     "\t\t\tactive = &l.Items[i]\n\t\t\tbreak\n",
     "\t\t\tactive = &l.Items[i]\n",
     ["Routing.Endpoint"]),
    ("inactive-revision-used",
     "\t\tif l.Items[i].GetDesiredState() == pkgv1.PackageRevisionActive {",
     "\t\tif l.Items[i].GetDesiredState() == pkgv1.PackageRevisionActive || active == nil {",
     ["Routing.Endpoint", "Error.NoActive"]),
    ("lock-released-while-dialing",  # the slow path gives up the write lock around grpc.NewClient
     "\tconn, err := grpc.NewClient(active.Status.Endpoint,\n\t\tgrpc.WithTransportCredentials(r.creds),\n\t\tgrpc.WithDefaultServiceConfig(svcConfig),\n\t\tgrpc.WithChainUnaryInterceptor(is...))\n",
     "\tr.connsMx.Unlock()\n\truntime.Gosched()\n\tconn, err := grpc.NewClient(active.Status.Endpoint,\n\t\tgrpc.WithTransportCredentials(r.creds),\n\t\tgrpc.WithDefaultServiceConfig(svcConfig),\n\t\tgrpc.WithChainUnaryInterceptor(is...))\n\tr.connsMx.Lock()\n",
     ["NoLeak"]),
    ("gc-closes-installed-functions",
     "\t\tif functionExists[name] {\n\t\t\tcontinue\n\t\t}",
     "\t\tif functionExists[name] && len(functionExists) > 1 {\n\t\t\tcontinue\n\t\t}",
     ["Gc.Spared", "Gc.Count"]),
    ("gc-forgets-without-closing",
     "\t\t_ = r.conns[name].Close()\n\t\tdelete(r.conns, name)\n\t\tclosed++",
     "\t\tdelete(r.conns, name)\n\t\tclosed++",
     ["NoLeak", "Gc.Collected", "Final.AllClosed"]),
    ("gc-ignores-list-error",
     "\tif err := r.client.List(ctx, l); err != nil {\n\t\treturn 0, errors.Wrap(err, errListFunctions)\n\t}",
     "\tif err := r.client.List(ctx, l); err != nil {\n\t\tl.Items = nil\n\t}",
     ["Gc.ListError"]),
    ("gc-lists-with-an-empty-pool",
     "\tif len(r.conns) == 0 {\n\t\tdefer r.connsMx.RUnlock()\n\t\treturn 0, nil\n\t}",
     "\tif len(r.conns) < 0 {\n\t\tdefer r.connsMx.RUnlock()\n\t\treturn 0, nil\n\t}",
     ["Gc.NoWork"]),
    ("fallback-on-internal-too",
     "\tif status.Code(err) != codes.Unimplemented {\n\t\treturn nil, err\n\t}",
     "\tif status.Code(err) != codes.Unimplemented && status.Code(err) != codes.Internal {\n\t\treturn nil, err\n\t}",
     ["Fallback.OnlyUnimplemented"]),
    ("to-beta-drops-the-context",
     "\terr = proto.Unmarshal(b, out)\n\treturn out, errors.Wrapf(err, \"cannot unmarshal %T protobuf bytes into %T\", req, out)",
     "\terr = proto.Unmarshal(b, out)\n\tout.Context = nil\n\treturn out, errors.Wrapf(err, \"cannot unmarshal %T protobuf bytes into %T\", req, out)",
     ["Wire.Request"]),
    ("from-beta-drops-result-targets",
     "\terr = proto.Unmarshal(b, out)\n\treturn out, errors.Wrapf(err, \"cannot unmarshal %T protobuf bytes into %T\", rsp, out)",
     "\terr = proto.Unmarshal(b, out)\n\tfor _, rs := range out.GetResults() {\n\t\trs.Target = nil\n\t}\n\treturn out, errors.Wrapf(err, \"cannot unmarshal %T protobuf bytes into %T\", rsp, out)",
     ["Wire.Response"]),
    ("run-error-not-wrapped",
     "\treturn rsp, errors.Wrapf(err, errFmtRunFunction, name)",
     "\treturn rsp, err",
     ["Error.Wrapped"]),
    ("gc-lists-before-locking",      # no property is lost (see FnRunner.tla), but the atomicity probes must notice: expectation "probes"
     "\tr.connsMx.Lock()\n\tdefer r.connsMx.Unlock()\n\n\tl := &pkgv1.FunctionList{}\n\tif err := r.client.List(ctx, l); err != nil {\n\t\treturn 0, errors.Wrap(err, errListFunctions)\n\t}\n",
     "\tl := &pkgv1.FunctionList{}\n\tif err := r.client.List(ctx, l); err != nil {\n\t\treturn 0, errors.Wrap(err, errListFunctions)\n\t}\n\tr.connsMx.Lock()\n\tdefer r.connsMx.Unlock()\n",
     ["probes"]),
    ("interceptor-named-after-the-revision",
     "\t\tis[i] = r.interceptors[i].CreateInterceptor(name, active.Spec.Package)",
     "\t\tis[i] = r.interceptors[i].CreateInterceptor(active.GetName(), active.Spec.Package)",
     ["Intercept.Created", "Intercept.Name"]),
]


# candidate repair of F-a (Intercept.Package): the runner remembers the package each pooled connection's interceptors were
# created for and treats a connection created for another package as stale.  With it the check must report NOTHING.
REPAIR = [
    ("\tconnsMx sync.RWMutex\n\tconns   map[string]*grpc.ClientConn\n",
     "\tconnsMx sync.RWMutex\n\tconns   map[string]*grpc.ClientConn\n\tpkgs    map[string]string\n"),
    ("\t\tconns:  make(map[string]*grpc.ClientConn),\n", "\t\tconns:  make(map[string]*grpc.ClientConn),\n\t\tpkgs:   make(map[string]string),\n"),
    ("\tif ok && conn.Target() == active.Status.Endpoint {\n\t\tdefer r.connsMx.RUnlock()",
     "\tif ok && conn.Target() == active.Status.Endpoint && r.pkgs[name] == active.Spec.Package {\n\t\tdefer r.connsMx.RUnlock()"),
    ("\t\tif conn.Target() == active.Status.Endpoint {\n\t\t\treturn conn, nil\n\t\t}\n",
     "\t\tif conn.Target() == active.Status.Endpoint && r.pkgs[name] == active.Spec.Package {\n\t\t\treturn conn, nil\n\t\t}\n"),
    ("\t\t_ = conn.Close()\n\t\tdelete(r.conns, name)\n", "\t\t_ = conn.Close()\n\t\tdelete(r.conns, name)\n\t\tdelete(r.pkgs, name)\n"),
    ("\tr.conns[name] = conn\n", "\tr.conns[name] = conn\n\tr.pkgs[name] = active.Spec.Package\n"),
    ("\t\t_ = r.conns[name].Close()\n\t\tdelete(r.conns, name)\n", "\t\t_ = r.conns[name].Close()\n\t\tdelete(r.conns, name)\n\t\tdelete(r.pkgs, name)\n"),
]


def build_mutant(ctx, name, old, new):
    src = open(SRC).read()
    if isinstance(old, list):   # several replacements (the candidate repair)
        for o, n in old:
            if src.count(o) != 1:
                raise SystemExit("%s: anchor text occurs %d times in %s: %r" % (name, src.count(o), SRC, o))
            src = src.replace(o, n)
        old, new = src, src
    if src.count(old) != 1:
        raise SystemExit("mutant %s: anchor text occurs %d times in %s" % (name, src.count(old), SRC))
    d = os.path.join(ctx.work, "mutants", name)
    os.makedirs(d, exist_ok=True)
    mp = os.path.join(d, os.path.basename(SRC))
    out = src.replace(old, new)
    if "runtime.Gosched()" in new:
        out = out.replace('import (\n\t"context"', 'import (\n\t"context"\n\t"runtime"', 1)
    with open(mp, "w") as f:
        f.write(out)
    ov = os.path.join(d, "overlay.json")
    with open(ov, "w") as f:
        json.dump({"Replace": {SRC: mp}}, f)
    binp = os.path.join(d, "fnrunner")
    e = dict(os.environ)
    e.update(vlib.GOENV)
    p = subprocess.run(["go", "build", "-overlay", ov, "-o", binp, "./drivers/fnrunner"], cwd=vlib.HARNESS, env=e,
                       stdout=subprocess.PIPE, stderr=subprocess.STDOUT, text=True)
    if p.returncode != 0:
        raise SystemExit("mutant %s does not build:\n%s" % (name, p.stdout[-3000:]))
    return binp


def judge(ctx, binp, scs, tag):
    prefix, s = ctx.run_sharded(binp, scs, ["-chunk", "20000", "-probes", "8", "-repeat", "2"], shards=6, name="trace_" + tag)
    viols, _ = ctx.monitor("MonFnRunner", prefix, par=8)
    by = {}
    for f, _, _ in viols:
        by[f] = by.get(f, 0) + 1
    return by, prefix, s


def main():
    only = set(sys.argv[1:])
    ctx = vlib.Ctx("X08/selftest", "quick", 1)
    scs = x08.regression()
    res = x08.model_runs(ctx, [(name, []) for name, _ in x08.QUICK], 4)
    for name, n in x08.QUICK:
        mc = res[name]
        picked = ctx.sample_lines(mc["emitted_file"], n, mc["emitted"])
        picked += x08.pick_racy(ctx, mc["emitted_file"], n // 10, {i for i, _ in picked})
        scs += [{"id": "X08-%s-%07d" % (name, i), "hist": h} for i, h in picked]
    ok = True
    base, prefix, base_sum = judge(ctx, ctx.go_build("./drivers/fnrunner"), scs, "base")
    print("unchanged tree:", base, flush=True)
    if not only or "repair" in only:
        got, _, _ = judge(ctx, build_mutant(ctx, "repair", REPAIR, None), scs, "repair")
        ok &= not got
        print("candidate repair of F-a (connection re-dialled when the active revision's package changes): %s" %
              ("CLEAN: no formula fires" if not got else "STILL VIOLATED %s" % got), flush=True)
    for name, old, new, expect in MUTANTS:
        if only and name not in only:
            continue
        got, _, s = judge(ctx, build_mutant(ctx, name, old, new), scs, name)
        raised = {f: n for f, n in got.items() if n > base.get(f, 0)}
        if expect == ["probes"]:
            raised["probes"] = s.get("atomicity_probes_entered", 0) - base_sum.get("atomicity_probes_entered", 0)
            raised = {f: n for f, n in raised.items() if n > 0}
        hit = all(f in raised for f in expect)
        ok &= hit
        print("mutant %-40s %s  new/raised: %s  (probes: %d attempted, %d not blocked)" % (
            name, "DETECTED" if hit else "MISSED (expected %s)" % expect, raised, s.get("atomicity_probes", 0), s.get("atomicity_probes_entered", 0)), flush=True)
    if only:
        print("selftest (subset)", "PASSED" if ok else "FAILED")
        return 0 if ok else 1

    # seeded corruption of recorded fields of a real trace
    first = sorted(f for f in os.listdir(ctx.work) if f.startswith(os.path.basename(prefix)))[0]
    lines = open(os.path.join(ctx.work, first)).read().splitlines()

    def ended(e):
        return e["ev"] == "step" and e["op"] == "call" and e["fin"] and e["call"]["done"]
    corruptions = [
        ("RPC on a connection to another endpoint", lambda p, e: ended(e) and e["call"]["res"] == "ok",
         lambda e: e["call"]["rpcs"][0].update(target="e4"), "Routing.Endpoint"),
        ("request served by another endpoint's server", lambda p, e: ended(e) and e["call"]["served"],
         lambda e: e["call"]["served"][0].update(server="e4"), "Routing.Endpoint"),
        ("a pooled connection is closed", lambda p, e: e["post"]["pool"] and e["scenario"] == p["scenario"],
         lambda e: [c.update(closed=True) for c in e["post"]["conns"] if c["conn"] == e["post"]["pool"][0]["conn"]], "Pool.Open"),
        ("an open connection outside the pool", lambda p, e: any(c["closed"] for c in e["post"]["conns"]) and e["scenario"] == p["scenario"],
         lambda e: [c.update(closed=False) for c in e["post"]["conns"] if c["closed"]][:0], "NoLeak"),
        ("a dial nobody accounts for", lambda p, e: e["ev"] == "step" and e["post"]["dials"] > 0,
         lambda e: e["post"].update(dials=e["post"]["dials"] + 1), "Dials.Count"),
        ("second RPC after a code other than Unimplemented", lambda p, e: ended(e) and len(e["call"]["rpcs"]) == 2,
         lambda e: e["call"]["rpcs"][0].update(code="Internal"), "Fallback.OnlyUnimplemented"),
        ("request changed on the way", lambda p, e: ended(e) and e["call"]["served"],
         lambda e: e["call"]["served"][0].update(got="0000"), "Wire.Request"),
        ("response changed on the way", lambda p, e: ended(e) and e["call"]["res"] == "ok",
         lambda e: e["call"].update(rgot="0000"), "Wire.Response"),
        ("error without the function's name", lambda p, e: ended(e) and e["call"]["res"] == "noactive",
         lambda e: e["call"].update(wrapfn="other"), "Error.Wrapped"),
        ("collector closed the connection of a listed Function", lambda p, e: e["ev"] == "step" and e["op"] == "gc" and e["fin"] and not e["overlapped"]
         and e["gc"]["didlist"] and not e["gc"]["listerr"] and e["post"]["pool"] and e["post"]["pool"] == p["post"]["pool"] and e["scenario"] == p["scenario"],
         lambda e: [c.update(closed=True) for c in e["post"]["conns"] if c["conn"] == e["post"]["pool"][0]["conn"]], "Gc.Spared"),
        ("Canceled on an open connection", lambda p, e: ended(e) and e["call"]["res"] == "ok",
         lambda e: e["call"]["rpcs"][-1].update(code="Canceled"), "Canceled.OnlyIfClosed"),
        ("solo call failed", lambda p, e: ended(e) and e["seg"] == "solo" and e["call"]["res"] == "ok",
         lambda e: e["call"].update(res="rpc"), "Solo.Succeeds"),
    ]
    for what, pick, mutate, formula in corruptions:
        idx = None
        for i in range(1, len(lines)):
            if pick(json.loads(lines[i - 1]), json.loads(lines[i])):
                idx = i
                break
        if idx is None:
            ok = False
            print("corruption %-56s NO CANDIDATE LINE" % what)
            continue
        e = json.loads(lines[idx])
        mutate(e)
        lo = max(0, idx - 40)
        cp = os.path.join(ctx.work, "corrupt.ndjson")
        with open(cp, "w") as f:
            f.write("\n".join(lines[lo:idx] + [json.dumps(e)] + lines[idx + 1:idx + 40]) + "\n")
        viols, _ = ctx.monitor("MonFnRunner", cp)
        hit = any(f == formula and ln == idx - lo + 1 for f, ln, _ in viols)
        ok &= hit
        print("corruption %-56s line %d: %s" % (what, idx + 1, "REJECTED by " + formula if hit else "NOT NOTICED %s" % viols[:5]), flush=True)
    print("selftest", "PASSED" if ok else "FAILED")
    return 0 if ok else 1


if __name__ == "__main__":
    sys.exit(main())
