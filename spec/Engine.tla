------------------------------- MODULE Engine -------------------------------
(***************************************************************************)
(* The dynamic controller engine (internal/engine/engine.go, source.go,    *)
(* cache.go) and the composed-resource watch garbage collector             *)
(* (internal/controller/apiextensions/composite/watch/watch.go), as        *)
(* implemented at the pinned commit (+ the repairs recorded in             *)
(* known_findings.json, selected by the Fix* constants).                   *)
(*                                                                         *)
(* Grain of atomicity.  Every engine method takes its locks and releases   *)
(* them without calling out, except at three points where it reads shared  *)
(* state, releases every lock, and later acts on what it read:             *)
(*   - StartWatches looks the controller up under e.mx, snapshots          *)
(*     ActiveInformers(), and only then takes the controller's lock;       *)
(*   - the collector lists the XRs, then asks GetWatches, then calls       *)
(*     StopWatches.                                                        *)
(* Those are the windows in which other goroutines can interleave with an  *)
(* effect; the model has one action per lock-protected segment (SW1/SW2,   *)
(* GC1/GC2/GC3) and one atomic action for every other method.  The         *)
(* conformance harness gates the real goroutines at exactly these points   *)
(* (inside the fake informers / the recording engine wrapper, no hook in   *)
(* the repository), so every interleaving TLC explores is replayed         *)
(* deterministically on the real engine.                                   *)
(*                                                                         *)
(* Property C13: OneWatch, StopClean, GcOnlyUnused, RunningExact,          *)
(* GetWatchesExact, Reestablish; absence of deadlock is TLC's deadlock     *)
(* check on the terminating processes.                                     *)
(***************************************************************************)
EXTENDS Integers, Sequences, FiniteSets, TLC

CONSTANTS
  Ctrls,       \* controller names
  Wids,        \* watch ids, strings: "xr" (the XR watch), "rev" (CompositionRevision watch), "cdA", "cdB" (composed-resource watches)
  Procs,       \* concurrent callers (goroutines)
  MaxOps,      \* operations per caller
  MaxInst,     \* bound on controller instances ever started
  MaxSrc,      \* bound on watch sources ever created
  OpKinds,     \* which operations callers may choose
  SWSets,      \* the watch sets StartWatches may be called with (a set of sequences of wids)
  FixGC,       \* collector only considers composed-resource watches (repair of D2)
  FixSnapshot, \* StartWatches re-reads the active informers under the controller lock (repair of D10)
  FixStopped,  \* a stopped controller refuses late watches (repair of D8)
  FixLost,     \* StartWatches restarts a watch whose handler went with its informer even if a new informer of the kind is active (repair of D15)
  MaxStopFails \* how often removing an event handler may fail (the informer returns an error) while a controller is stopped

Composed == {w \in Wids : w \notin {"xr", "rev"}}
G(w) == w      \* every watch id has its own kind in this model (the XR kind, the revision kind, one kind per composed id)

VARIABLES
  ctl,       \* controller name -> running instance id (0 = not running)
  ninst,
  srcs,      \* instance -> (wid -> source id, 0 = none): controller.sources
  nsrc,
  srcInst, srcWid,   \* source id -> the instance / wid it was created for
  regs,      \* source ids with a live event handler registration on an informer
  active,    \* kinds with an active informer
  cancelled, \* instances whose context was cancelled
  stopped,   \* instances for which Stop returned (ghost)
  refs,      \* composed kinds some XR of the controller references (environment)
  drefs,     \* ... those of them that only an XR that is being deleted (held by a finalizer) references: they still count
  pc, op, arg, cI, aS, used, run,   \* per caller: segment, operation, argument, controller pointer, snapshot, collector locals
  lost,      \* per caller (ghost): the requested watches that had no live event handler when its StartWatches began
  nops,
  nfail,     \* failed handler removals so far
  bad,       \* ghost: violated step properties
  hist

vars == <<ctl, ninst, srcs, nsrc, srcInst, srcWid, regs, active, cancelled, stopped, refs, drefs, pc, op, arg, cI, aS, used, run, lost, nops, nfail, bad, hist>>
view == <<ctl, ninst, srcs, nsrc, srcInst, srcWid, regs, active, cancelled, stopped, refs, drefs, pc, op, arg, cI, aS, used, run, lost, nops, nfail, bad>>

Insts == 1..MaxInst
SrcIds == 1..MaxSrc
NoSrcs == [w \in Wids |-> 0]
Range(s) == {s[i] : i \in DOMAIN s}
H(p, o, seg, c, a, r) == [p |-> p, op |-> o, seg |-> seg, c |-> c, a |-> a, r |-> r, d |-> {}]
Log(e) == hist' = Append(hist, e)

Init ==
  /\ ctl = [c \in Ctrls |-> 0] /\ ninst = 0 /\ srcs = [i \in Insts |-> NoSrcs] /\ nsrc = 0
  /\ srcInst = [s \in SrcIds |-> 0] /\ srcWid = [s \in SrcIds |-> "xr"]
  /\ regs = {} /\ active = {} /\ cancelled = {} /\ stopped = {} /\ refs \in SUBSET Composed /\ drefs \in SUBSET refs
  /\ pc = [p \in Procs |-> "idle"] /\ op = [p \in Procs |-> "none"] /\ arg = [p \in Procs |-> <<>>]
  /\ cI = [p \in Procs |-> 0] /\ aS = [p \in Procs |-> {}] /\ used = [p \in Procs |-> {}] /\ run = [p \in Procs |-> {}]
  /\ lost = [p \in Procs |-> {}]
  /\ nops = [p \in Procs |-> 0] /\ nfail = 0 /\ bad = {}
  /\ hist = << [p |-> 0, op |-> "init", seg |-> 0, c |-> "", a |-> refs, r |-> "", d |-> drefs] >>

Idle(p) == pc[p] = "idle" /\ nops[p] < MaxOps
Done(p) == /\ pc' = [pc EXCEPT ![p] = "idle"] /\ nops' = [nops EXCEPT ![p] = @ + 1]
Locals == <<cI, aS, used, run, lost, op, arg>>
Eng == <<ctl, ninst, srcs, nsrc, srcInst, srcWid, regs, active, cancelled, stopped>>

----------------------------------------------------------------------------
\* Start(name): under e.mx; no-op if running.
Start(p, c) ==
  /\ Idle(p) /\ "Start" \in OpKinds /\ (ctl[c] # 0 \/ ninst < MaxInst)
  /\ (IF ctl[c] # 0 THEN UNCHANGED <<ctl, ninst>>
      ELSE ctl' = [ctl EXCEPT ![c] = ninst + 1] /\ ninst' = ninst + 1)
  /\ Log(H(p, "Start", 1, c, {}, "ok")) /\ Done(p)
  /\ UNCHANGED <<srcs, nsrc, srcInst, srcWid, regs, active, cancelled, stopped, refs, drefs, bad>> /\ UNCHANGED Locals

\* Stop(name): under e.mx and c.mx: stop every source (remove its handler), cancel, forget the controller.
Stop(p, c) ==
  /\ Idle(p) /\ "Stop" \in OpKinds
  /\ LET i == ctl[c] IN
     IF i = 0 THEN UNCHANGED <<ctl, srcs, regs, cancelled, stopped>>
     ELSE /\ regs' = regs \ {srcs[i][w] : w \in Wids}
          /\ srcs' = [srcs EXCEPT ![i] = NoSrcs]
          /\ cancelled' = cancelled \cup {i} /\ stopped' = stopped \cup {i}
          /\ ctl' = [ctl EXCEPT ![c] = 0]
  /\ Log(H(p, "Stop", 1, c, {}, "ok")) /\ Done(p)
  /\ UNCHANGED <<ninst, nsrc, srcInst, srcWid, active, refs, drefs, bad>> /\ UNCHANGED Locals

\* Stop(name) when removing the first event handler fails: Stop returns the error with nothing changed - the controller
\* is still running (and still known to the engine), so that the caller's retry finishes the job.
StopFails(p, c) ==
  /\ Idle(p) /\ "Stop" \in OpKinds /\ nfail < MaxStopFails
  /\ ctl[c] # 0 /\ \E w \in Wids : srcs[ctl[c]][w] \in regs
  \* (only while none of its watches is lost with its informer: stopping such a source looks the informer up, which
  \* re-creates it - a failure at that point leaves a started informer without handler behind, and failing informers
  \* are outside C13's quantifier; the failure is modelled to exercise the error path of Stop, not to widen the property)
  /\ \A w \in Wids : srcs[ctl[c]][w] # 0 => srcs[ctl[c]][w] \in regs
  /\ nfail' = nfail + 1
  /\ Log(H(p, "Stop", 1, c, {}, "err")) /\ Done(p)
  /\ UNCHANGED Eng /\ UNCHANGED <<refs, drefs, bad>> /\ UNCHANGED Locals

IsRunning(p, c) ==
  /\ Idle(p) /\ "IsRunning" \in OpKinds
  /\ Log(H(p, "IsRunning", 1, c, {}, IF ctl[c] # 0 THEN "true" ELSE "false")) /\ Done(p)
  /\ UNCHANGED Eng /\ UNCHANGED <<refs, drefs, bad>> /\ UNCHANGED Locals

GetWatches(p, c) ==
  /\ Idle(p) /\ "GetWatches" \in OpKinds
  /\ Log(H(p, "GetWatches", 1, c, IF ctl[c] = 0 THEN {} ELSE {w \in Wids : srcs[ctl[c]][w] # 0}, IF ctl[c] = 0 THEN "err" ELSE "ok")) /\ Done(p)
  /\ UNCHANGED Eng /\ UNCHANGED <<refs, drefs, bad>> /\ UNCHANGED Locals

\* StartWatches, segment 1: look the controller up (e.mx.RLock), snapshot the active informers. No lock is held afterwards.
SW1(p, c, ws) ==
  /\ Idle(p) /\ "StartWatches" \in OpKinds
  /\ (IF ctl[c] = 0
      THEN Log(H(p, "StartWatches", 1, c, Range(ws), "err")) /\ Done(p) /\ UNCHANGED Locals
      ELSE /\ Log(H(p, "StartWatches", 1, c, Range(ws), "")) /\ pc' = [pc EXCEPT ![p] = "sw2"] /\ UNCHANGED nops
           /\ cI' = [cI EXCEPT ![p] = ctl[c]] /\ aS' = [aS EXCEPT ![p] = active]
           /\ lost' = [lost EXCEPT ![p] = {w \in Range(ws) : srcs[ctl[c]][w] \notin regs}]
           /\ op' = [op EXCEPT ![p] = c] /\ arg' = [arg EXCEPT ![p] = ws] /\ UNCHANGED <<used, run>>)
  /\ UNCHANGED Eng /\ UNCHANGED <<refs, drefs, bad>>

\* StartWatches, segment 2: under c.mx: (read lock) anything to start? (write lock) start every watch that is missing or
\* whose informer is not active - according to the snapshot taken in segment 1, unless FixSnapshot.
RECURSIVE StartAll(_, _, _, _, _, _, _, _)
StartAll(ws, i, snap, s, sm, rg, ac, n) ==    \* folds over ws: sources map sm, registrations rg, active ac, source counter n
  IF ws = <<>> THEN <<sm, rg, ac, n>>
  ELSE LET w == ws[1] IN
       IF sm[w] # 0 /\ G(w) \in snap /\ (FixLost => sm[w] \in rg) THEN StartAll(Tail(ws), i, snap, s, sm, rg, ac, n)
       ELSE StartAll(Tail(ws), i, snap, s, [sm EXCEPT ![w] = n + 1], rg \cup {n + 1}, ac \cup {G(w)}, n + 1)
NewSrcs(ws, i, snap) == StartAll(ws, i, snap, 0, srcs[i], regs, active, nsrc)
SW2(p) ==
  /\ pc[p] = "sw2"
  /\ LET i == cI[p]
         ws == arg[p]
         snap == IF FixSnapshot THEN active ELSE aS[p]
         need == \E w \in Range(ws) : ~(srcs[i][w] # 0 /\ G(w) \in aS[p] /\ (FixLost => srcs[i][w] \in regs))
         res == NewSrcs(ws, i, snap)
     IN IF ~need THEN /\ Log(H(p, "StartWatches", 2, op[p], Range(ws), "ok")) /\ UNCHANGED <<srcs, regs, active, nsrc, srcInst, srcWid>>
                      /\ bad' = bad \cup (IF i \notin cancelled /\ \E w \in lost[p] : srcs[i][w] \notin regs THEN {"Reestablish.Lost"} ELSE {})
        ELSE IF FixStopped /\ i \in cancelled THEN Log(H(p, "StartWatches", 2, op[p], Range(ws), "err")) /\ UNCHANGED <<srcs, regs, active, nsrc, srcInst, srcWid, bad>>
        ELSE /\ res[4] <= MaxSrc
             /\ srcs' = [srcs EXCEPT ![i] = res[1]] /\ regs' = res[2] /\ active' = res[3] /\ nsrc' = res[4]
             /\ srcInst' = [s \in SrcIds |-> IF s > nsrc /\ s <= res[4] THEN i ELSE srcInst[s]]
             /\ srcWid' = [s \in SrcIds |-> IF s > nsrc /\ s <= res[4] THEN CHOOSE w \in Range(ws) : res[1][w] = s ELSE srcWid[s]]
             /\ Log(H(p, "StartWatches", 2, op[p], Range(ws), "ok"))
             \* Reestablish: a watch whose informer was not active when the request began is live afterwards ...
             /\ bad' = bad \cup (IF \E w \in Range(ws) : G(w) \notin aS[p] /\ ~(\E s \in res[2] : s > 0 /\ res[1][w] = s)
                                 THEN {"Reestablish"} ELSE {})
                            \* ... and so is every watch that had no live handler when the request began
                            \cup (IF \E w \in lost[p] : res[1][w] \notin res[2] THEN {"Reestablish.Lost"} ELSE {})
  /\ Done(p)
  /\ UNCHANGED <<ctl, ninst, cancelled, stopped, refs, drefs>> /\ UNCHANGED Locals

\* StopWatches(name, wids): atomic (no call-out between its lookup and its locks).
StopSet(i, ws) == {srcs[i][w] : w \in ws}
StopWatches(p, c, ws) ==
  /\ Idle(p) /\ "StopWatches" \in OpKinds
  /\ LET i == ctl[c] IN
     IF i = 0 THEN Log(H(p, "StopWatches", 1, c, ws, "err")) /\ UNCHANGED <<srcs, regs>>
     ELSE /\ regs' = regs \ StopSet(i, ws)
          /\ srcs' = [srcs EXCEPT ![i] = [w \in Wids |-> IF w \in ws THEN 0 ELSE @[w]]]
          /\ Log(H(p, "StopWatches", 1, c, ws, "ok"))
  /\ Done(p)
  /\ UNCHANGED <<ctl, ninst, nsrc, srcInst, srcWid, active, cancelled, stopped, refs, drefs, bad>> /\ UNCHANGED Locals

\* The collector: list the XRs (which composed kinds are referenced) ...
GC1(p, c) ==
  /\ Idle(p) /\ "GC" \in OpKinds
  /\ used' = [used EXCEPT ![p] = refs] /\ op' = [op EXCEPT ![p] = c]
  /\ pc' = [pc EXCEPT ![p] = "gc2"] /\ Log(H(p, "GC", 1, c, refs, ""))
  /\ UNCHANGED Eng /\ UNCHANGED <<refs, drefs, bad, nops, cI, aS, run, lost, arg>>
\* ... ask the engine which watches run ...
GC2(p) ==
  /\ pc[p] = "gc2"
  /\ LET i == ctl[op[p]] IN
     IF i = 0 THEN Log(H(p, "GC", 2, op[p], {}, "err")) /\ Done(p) /\ UNCHANGED run
     ELSE /\ run' = [run EXCEPT ![p] = {w \in Wids : srcs[i][w] # 0}] /\ pc' = [pc EXCEPT ![p] = "gc3"] /\ UNCHANGED nops
          /\ Log(H(p, "GC", 2, op[p], {w \in Wids : srcs[i][w] # 0}, ""))
  /\ UNCHANGED Eng /\ UNCHANGED <<refs, drefs, bad, cI, aS, used, lost, op, arg>>
\* ... and stop those it believes unused.
GcStops(p) == {w \in run[p] : w \notin used[p] /\ (FixGC => w \in Composed)}
GC3(p) ==
  /\ pc[p] = "gc3"
  /\ LET i == ctl[op[p]]
         ws == GcStops(p) IN
     /\ bad' = bad \cup (IF ws \ Composed # {} THEN {"GcOnlyUnused.NotComposed"} ELSE {})
     /\ (IF ws = {} \/ i = 0 THEN UNCHANGED <<srcs, regs>>
         ELSE /\ regs' = regs \ StopSet(i, ws)
              /\ srcs' = [srcs EXCEPT ![i] = [w \in Wids |-> IF w \in ws THEN 0 ELSE @[w]]])
     /\ Log(H(p, "GC", 3, op[p], ws, IF ws # {} /\ i = 0 THEN "err" ELSE "ok"))
  /\ Done(p)
  /\ UNCHANGED <<ctl, ninst, nsrc, srcInst, srcWid, active, cancelled, stopped, refs, drefs>> /\ UNCHANGED Locals

\* The informer of a kind is removed (its CRD was deleted): every handler registered on it is gone.
RemoveInformer(p, g) ==
  /\ Idle(p) /\ "RemoveInformer" \in OpKinds /\ g \in active
  /\ active' = active \ {g} /\ regs' = {s \in regs : G(srcWid[s]) # g}
  /\ Log(H(p, "RemoveInformer", 1, "", {g}, "ok")) /\ Done(p)
  \* a start request in flight is not the "next start request" after this loss (the engine documents that race)
  /\ lost' = [q \in Procs |-> {w \in lost[q] : G(w) # g}]
  /\ UNCHANGED <<ctl, ninst, srcs, nsrc, srcInst, srcWid, cancelled, stopped, refs, drefs, bad>> /\ UNCHANGED <<cI, aS, used, run, op, arg>>

\* A reconciler reads an object of kind g through the tracking cache (a cached Get / List): the informer of the kind is
\* (re)started and counts as active from then on - without any event handler of the engine's watches on it.
CachedRead(p, g) ==
  /\ Idle(p) /\ "CachedRead" \in OpKinds
  /\ active' = active \cup {g}
  /\ Log(H(p, "CachedRead", 1, "", {g}, "ok")) /\ Done(p)
  /\ UNCHANGED <<ctl, ninst, srcs, nsrc, srcInst, srcWid, regs, cancelled, stopped, refs, drefs, bad>> /\ UNCHANGED Locals

\* Environment: the XRs' resource references change.
ChangeRefs(p) ==
  /\ Idle(p) /\ "ChangeRefs" \in OpKinds
  /\ \E r \in SUBSET Composed : \E d \in SUBSET r :
        /\ <<r, d>> # <<refs, drefs>> /\ refs' = r /\ drefs' = d
        /\ Log([p |-> p, op |-> "ChangeRefs", seg |-> 1, c |-> "", a |-> r, r |-> "ok", d |-> d])
  /\ Done(p) /\ UNCHANGED Eng /\ UNCHANGED bad /\ UNCHANGED Locals

Other(p) ==
          \/ \E c \in Ctrls : Start(p, c) \/ Stop(p, c) \/ IsRunning(p, c) \/ GetWatches(p, c) \/ GC1(p, c)
                               \/ (\E ws \in SWSets : SW1(p, c, ws)) \/ (\E ws \in (SUBSET Wids) \ {{}} : StopWatches(p, c, ws))
          \/ SW2(p) \/ GC2(p) \/ GC3(p) \/ ChangeRefs(p)
          \/ \E g \in Wids : RemoveInformer(p, g) \/ CachedRead(p, g)
Next == \E p \in Procs : (Other(p) /\ UNCHANGED nfail) \/ \E c \in Ctrls : StopFails(p, c)
Spec == Init /\ [][Next]_vars

----------------------------------------------------------------------------
Live(i, w) == {s \in regs : srcInst[s] = i /\ srcWid[s] = w}
\* at most one live watch per controller (instance), watch type and kind
OneWatch == \A i \in Insts, w \in Wids : Cardinality(Live(i, w)) <= 1
\* after Stop returned: cancelled, and none of its event handlers left
StopClean == \A i \in stopped : i \in cancelled /\ {s \in regs : srcInst[s] = i} = {}
\* collector and re-establishment step properties
StepProps == bad = {}
\* every process can always finish its operation: no deadlock (all segments are lock-free at their start by construction;
\* TLC's deadlock check is disabled because behaviours end when the operation budget is used up)
=============================================================================
