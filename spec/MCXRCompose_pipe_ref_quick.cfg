SPECIFICATION Spec
CONSTANTS
  Mode = "Pipeline"
  Names = {"a", "b"}
  MaxObjs = 4
  MaxRecs = 2
  MaxFaults = 1
  MaxEnv = 1
  ForeignAt = "ref"
  RenderFails = FALSE
  CacheMisses = TRUE
  VerBumps = FALSE
  Forges = FALSE
  Legacies = TRUE
  FailKinds = {"fnerror2"}
VIEW view
ACTION_CONSTRAINT Emit
CHECK_DEADLOCK FALSE
INVARIANTS NoLeak AtMostOne StepProps GcExact
PROPERTIES NameStable
