---------------------------- MODULE MonCoreWiring ----------------------------
(***************************************************************************)
(* Trace monitor for X12.  Every trace line is one observation record of    *)
(* harness/drivers/corewiring for one input vector:                         *)
(*   t "setup"    what the real Setup registered                            *)
(*   t "ctl"      one statically registered controller                      *)
(*   t "dyn"      the XR / claim controller the captured definition /       *)
(*                offered reconciler started on the engine                  *)
(*   t "hook"     one webhook Setup function; "hookcfg" the shipped         *)
(*                ValidatingWebhookConfigurations next to what is served    *)
(*   t "uniform"  all controllers of the vector side by side                *)
(*   t "stray"    a registered controller the reference does not know       *)
(* The formulas compare the record with the reference CoreWiring.tla        *)
(* evaluated on the record's input.  Names: Wiring.<Controller>.<Aspect>    *)
(* (built per controller), Wiring.Webhook.*, Uniform.*.                     *)
(*                                                                          *)
(* Aspects of every controller C (R = rule of CoreWiring.tla):              *)
(*  .Runs          the probe reconciles worked (anti-vacuity)               *)
(*  .Limiter       the global rate limiter stands before the API (R2)       *)
(*  .LimiterKey    ... and is asked under this controller's name            *)
(*  .SilentRequeue a Conflict comes back as "requeue, no error" (R2)        *)
(*  .ErrorSurfaces a plain error comes back as an error (R2)                *)
(*  .Backoff       work queue back-off 1s..60s (XR: 1s..30s) (R2)           *)
(*  .Concurrency   MaxConcurrentReconciles handed on (R6)                   *)
(*  .Recorder      events reach the manager's recorder of this controller   *)
(*                 (XR / claim: of the XRD controller, annotated) (R6)      *)
(*  .Logger        log lines carry controller=<name> (R6)                   *)
(*  .Poll          the poll interval reaches a polling controller (R1, R6)  *)
(*  .Clients       API calls of the probe reconciles by client name (R3)    *)
(*  .ClientsHeld   the clients the reconciler reaches at all (R3)           *)
(*  .WatchClients  the clients of its watch handlers (R3)                   *)
(*  .Watches       the set of watched kinds (R1)                            *)
(*  .Cache         manager watches read the manager's cache (R3)            *)
(*  .Enqueue.<Kind> what every probe event of that kind enqueues (R1)       *)
(* plus per controller: see the Check* operators.                           *)
(***************************************************************************)
EXTENDS CoreWiring, TLC, Json, IOUtils

Trace == ndJsonDeserialize(IOEnv.VERIF_TRACE)
VARIABLE l

Viol(name, i) == PrintT("VIOL|" \o name \o "|" \o ToString(i) \o "|" \o Trace[i].scenario)

Cap(c) ==
  CASE c = "composition" -> "Composition"
    [] c = "definition"  -> "Definition"
    [] c = "offered"     -> "Offered"
    [] c = "usage"       -> "Usage"
    [] c = "rbacdef"     -> "RbacDefinition"
    [] c = "binding"     -> "RbacBinding"
    [] c = "roles"       -> "RbacRoles"
    [] c = "xr"          -> "XR"
    [] c = "claim"       -> "Claim"
    [] c = "xrd"         -> "Xrd"
    [] OTHER             -> "Unknown"
F(c, aspect) == "Wiring." \o Cap(c) \o "." \o aspect

Near(ms, secs) == ms * 10 >= secs * 9000 /\ ms * 10 <= secs * 11000     \* within 10 % (the XR poll interval jitters)

-----------------------------------------------------------------------------
(* what holds for every controller, static or started *)
ProbeKinds(o) == {o.probes[j].k : j \in DOMAIN o.probes}

CheckEnqueue(c, in, o, i) ==
  \A k \in ProbeKinds(o) :
    ((\A j \in DOMAIN o.probes : o.probes[j].k = k => EnqueueOK(c, in, o.world, o.probes[j]))
       \/ Viol(F(c, "Enqueue." \o k), i))

CheckStack(c, in, o, i) ==
  /\ (Limited(o) \/ c \in NoLimiterWhy \/ Viol(F(c, "Limiter"), i))
  /\ (LimiterKeyOK(o) \/ Viol(F(c, "LimiterKey"), i))
  /\ (Silent(o) \/ c \in NoSilentWhy \/ Viol(F(c, "SilentRequeue"), i))
  /\ (Surfaces(o) \/ Viol(F(c, "ErrorSurfaces"), i))
  /\ (BackoffOK(c, o) \/ Viol(F(c, "Backoff"), i))
  /\ ((o.conc = in.conc /\ o.recoverPanic) \/ Viol(F(c, "Concurrency"), i))

CheckClients(c, in, o, i) ==
  /\ ((Range(o.clients) \subseteq ClientsAllowed(c) /\ ClientsRequired(c) \subseteq Range(o.clients)) \/ Viol(F(c, "Clients"), i))
  /\ ((Range(o.wclients) \subseteq ClientsAllowed(c) /\ Range(o.wheld) \subseteq ClientsAllowed(c)) \/ Viol(F(c, "WatchClients"), i))

-----------------------------------------------------------------------------
(* statically registered controllers *)
Ran(o) == o.happy.res \in {"ok", "dynamic"}

CheckStatic(c, in, o, i) ==
  /\ (Ran(o) \/ Viol(F(c, "Runs"), i))
  /\ CheckStack(c, in, o, i)
  /\ CheckClients(c, in, o, i)
  /\ (Range(o.held) = {"mgr"} \/ Viol(F(c, "ClientsHeld"), i))
  /\ (Range(o.evsrc) = {o.name} \/ Viol(F(c, "Recorder"), i))
  /\ (Range(o.logctl) = {o.name} \/ Viol(F(c, "Logger"), i))
  /\ (Range(o.kinds) = WatchedKinds(c, in) \/ Viol(F(c, "Watches"), i))
  /\ (Range(o.caches) = {"mgr"} \/ Viol(F(c, "Cache"), i))
  /\ CheckEnqueue(c, in, o, i)
  \* R1 / R6: the poll interval
  /\ ((Polls(c) => (o.happy.after = in.poll * 1000 /\ o.pollField = in.poll * 1000)) \/ Viol(F(c, "Poll"), i))
  \* the XRD controllers keep the Options for the controllers they start, and use the engine they were given
  /\ ((c \in {"definition", "offered"} =>
         /\ o.opts.has /\ o.opts.poll = in.poll * 1000 /\ o.opts.conc = in.conc
         /\ o.opts.limiter /\ o.opts.features /\ o.opts.fnrunner) \/ Viol(F(c, "Options"), i))
  /\ ((c \in {"definition", "offered"} => o.opts.engine = "options") \/ Viol(F(c, "Engine"), i))

\* R5: the rbac roles controller
CheckRoles(in, o, i) ==
  LET gs == Range(o.extra.grants) IN
  /\ ((\A g \in gs : g.res = "ok" /\ (g.applied <=> Granted(in, g)) /\ (g.applied => g.own)) \/ Viol("Wiring.RbacRoles.Validator", i))
  \* p1 (acme/provider-a, registry defaulted) and p2 (<default registry>/acme/provider-b) are one family in one org
  \* (found violated without an allow list: D39, fixed fde63af; the missing family watch - Enqueue.ProviderRevision - was D38, fixed 95e3026)
  /\ ((Grant(o, "p2").applied /\ Grant(o, "p2").famA /\ (Grant(o, "p1").applied => Grant(o, "p1").famB)) \/ Viol("Wiring.RbacRoles.OrgRegistry", i))
  \* p6 carries the family label but lives in another registry
  /\ ((\A g \in gs : (g.pr # "p6" => ~g.famC) /\ (g.pr = "p6" => (~g.famA /\ ~g.famB))) \/ Viol("Wiring.RbacRoles.OrgForeign", i))
  \* outside a family nothing of another provider is granted
  /\ ((\A g \in gs : g.fam # "f" => (~g.famA /\ ~g.famB /\ ~g.famC)) \/ Viol("Wiring.RbacRoles.NoFamily", i))

CheckBinding(in, o, i) ==
  (o.extra.subjects = <<"crossplane-system/p1-sa">> \/ Viol("Wiring.RbacBinding.Binds", i))

-----------------------------------------------------------------------------
(* the XR controller *)
Composer(p, mode) == CHOOSE x \in Range(p.composers) : x.mode = mode
Run(o, id) == CHOOSE r \in Range(o.runs) : r.id = id

CheckXR(in, o, i) ==
  LET p == o.parts
      c == "xr" IN
  /\ ((o.start.started /\ o.start.name = XRName /\ Range(o.start.wnames) = {XRName} /\ o.id = "xr"
        /\ o.start.last.res = "ok" /\ o.xrdCond = "True:WatchingCompositeResource" /\ p.kind = XRK) \/ Viol(F(c, "Started"), i))
  /\ ((\A x \in Range(o.defcalls) \cup Range(o.defcalls2) : x.c = "mgr") \/ Viol("Wiring.Definition.Clients", i))
  /\ CheckStack(c, in, o, i)
  /\ CheckClients(c, in, o, i)
  /\ ((Range(p.held) \subseteq ClientsAllowed(c) /\ "cached" \in Range(p.held)) \/ Viol(F(c, "ClientsHeld"), i))
  \* (the composition selectors record through the XRD controller's bare recorder: their events carry no controller
  \*  annotation - observation O1 of the report, not judged)
  /\ ((Range(o.evsrc) = {o.parent} /\ o.name \in Range(o.evann) /\ Range(o.evann) \subseteq {o.name, "none"}) \/ Viol(F(c, "Recorder"), i))
  /\ (Range(o.logctl) = {o.name} \/ Viol(F(c, "Logger"), i))
  /\ ((Near(p.poll.min, in.poll) /\ Near(p.poll.max, in.poll) /\ Near(Run(o, "pt").result.after, in.poll)) \/ Viol(F(c, "Poll"), i))
  /\ (Range(o.kinds) = {EngineWatchName(k) : k \in WatchedKinds(c, in)} \/ Viol(F(c, "Watches"), i))
  /\ (Range(o.caches) = {"engine"} \/ Viol(F(c, "Cache"), i))
  /\ CheckEnqueue(c, in, o, i)
  \* R4: the parts
  /\ (p.publishers = XRPublishers(in) \/ Viol(F(c, "Publishers"), i))
  /\ ((p.pubFilter = XRPubFilter(in) /\ Range(Run(o, "pt").secretKeys) = XRSecretKeys(in)) \/ Viol(F(c, "PublisherFilter"), i))
  \* the selector chain at work: by label (xr3), through the XRD's default composition (xr4)
  /\ ((Run(o, "pt-select").ref = "c1" /\ Run(o, "pt-select").synced = "True:ReconcileSuccess"
        /\ Run(o, "pt-default").ref = "c1" /\ Run(o, "pt-default").synced = "True:ReconcileSuccess") \/ Viol(F(c, "Selects"), i))
  /\ (p.configurators = XRConfigurators(in) \/ Viol(F(c, "Configurators"), i))
  /\ (p.selectors = XRSelectors \/ Viol(F(c, "Selectors"), i))
  /\ ((\A m \in {"default", "Resources", "Pipeline", "Unknown"} :
         /\ \E x \in Range(p.composers) : x.mode = m
         /\ Composer(p, m).type = XRComposer(m)
         /\ Composer(p, m).fetcher = XRFetchers(in)
         /\ Range(Composer(p, m).held) \subseteq ClientsAllowed(c)
         /\ {"cached", "uncached"} \subseteq Range(Composer(p, m).held)) \/ Viol(F(c, "Composer"), i))
  /\ ((LET fc == Composer(p, "Pipeline") IN
         fc.observer = TObserver /\ fc.obsFetcher = XRFetchers(in) /\ fc.runner = TFnRunner /\ fc.extra = TExtra) \/ Viol(F(c, "Pipeline"), i))
  /\ (TlsOK(in, p.tls) \/ Viol(F(c, "StoreTLS"), i))
  /\ ((p.finalizer = TFinalizer) \/ Viol(F(c, "Finalizer"), i))
  \* R4: realtime compositions
  /\ ((IF in.rt THEN p.starterIsEngine /\ p.starterName = XRName ELSE (p.starter = TNopStarter /\ ~p.starterIsEngine)) \/ Viol(F(c, "WatchStarter"), i))
  /\ (o.start.gc = XRGc(in) \/ Viol(F(c, "WatchGC"), i))
  /\ (Range(o.index) = XRIndex(in) \/ Viol(F(c, "Index"), i))
  /\ ((\A r \in Range(o.runs) :
         IF in.rt /\ r.synced = "True:ReconcileSuccess"
         THEN Range(r.dynNames) = {XRName} /\ r.dyn # <<>>
         ELSE (~in.rt => (r.dyn = <<>> /\ r.dynNames = <<>>))) \/ Viol(F(c, "DynamicWatches"), i))
  \* R3: the reconciles
  /\ (((\A r \in Range(o.runs) : r.result.res = "ok")
        /\ Run(o, "pt").synced = "True:ReconcileSuccess" /\ Run(o, "fn").synced = "True:ReconcileSuccess"
        /\ Run(o, "fn-miss").synced = "True:ReconcileSuccess") \/ Viol(F(c, "Runs"), i))
  /\ ((\A r \in Range(o.runs) : UncachedOnlyRereads(r) /\ NoMissNoUncached(r)) \/ Viol(F(c, "Clients.UncachedOnlyRereads"), i))
  /\ ((\A r \in Range(o.runs) : MissIsReread(r)) \/ Viol(F(c, "Clients.MissReread"), i))
  /\ ((\A r \in Range(o.runs) : WritesCached(r) /\ XfnReadsFunctions(r)) \/ Viol(F(c, "Clients.Writes"), i))
  /\ ((Run(o, "pt").fn = 0 /\ Run(o, "pt-miss").fn = 0 /\ Run(o, "fn").fn >= 1 /\ Run(o, "fn-miss").fn >= 1) \/ Viol(F(c, "FunctionRunner"), i))

-----------------------------------------------------------------------------
(* the claim controller *)
CheckClaim(in, o, i) ==
  LET c == "claim" IN
  IF ~in.claim
  THEN \* an XRD that offers no claim starts no claim controller, even if its controller is asked
       ((~o.ran /\ ~o.start.started) \/ Viol(F(c, "NotOffered"), i))
  ELSE
  LET p == o.parts IN
  /\ ((o.start.started /\ o.start.name = ClaimName /\ Range(o.start.wnames) = {ClaimName} /\ o.id = "claim"
        /\ o.start.last.res = "ok" /\ p.claimKind = CMK /\ p.xrKind = XRK /\ o.start.gc = "nil") \/ Viol(F(c, "Started"), i))
  /\ ((\A x \in Range(o.offcalls) \cup Range(o.offcalls2) : x.c = "mgr") \/ Viol("Wiring.Offered.Clients", i))
  /\ CheckStack(c, in, o, i)
  /\ CheckClients(c, in, o, i)
  /\ (Range(p.held) = {"cached"} \/ Viol(F(c, "ClientsHeld"), i))
  /\ ((Range(o.evsrc) = {o.parent} /\ Range(o.evann) = {o.name}) \/ Viol(F(c, "Recorder"), i))
  /\ (Range(o.logctl) = {o.name} \/ Viol(F(c, "Logger"), i))
  /\ (p.poll = in.poll * 1000 \/ Viol(F(c, "Poll"), i))
  /\ (Range(o.kinds) = {EngineWatchName(k) : k \in WatchedKinds(c, in)} \/ Viol(F(c, "Watches"), i))
  /\ (Range(o.caches) = {"engine"} \/ Viol(F(c, "Cache"), i))
  /\ CheckEnqueue(c, in, o, i)
  /\ (p.syncer = ClaimSyncer(in) \/ Viol(F(c, "Syncer"), i))
  /\ (p.upgrader = ClaimUpgrader(in) \/ Viol(F(c, "Upgrader"), i))
  /\ (p.propagator = ClaimPropagator(in) \/ Viol(F(c, "Propagator"), i))
  /\ (p.unpublisher = ClaimUnpublisher(in) \/ Viol(F(c, "Unpublisher"), i))
  /\ (p.finalizer = TFinalizer \/ Viol(F(c, "Finalizer"), i))
  /\ (TlsOK(in, p.tls) \/ Viol(F(c, "StoreTLS"), i))
  /\ ((\A r \in Range(o.runs) : r.result.res = "ok" /\ r.ref = "set" /\ \A x \in Range(r.calls) : x.c = "cached") \/ Viol(F(c, "Runs"), i))

-----------------------------------------------------------------------------
(* Setup *)
NoDup(s) == \A a, b \in DOMAIN s : a # b => s[a] # s[b]

CheckSetup(in, o, i) ==
  IF in.fam = "core"
  THEN /\ ((o.err = "" /\ Range(o.ids) \ {"usage"} = CoreControllers(in) \ {"usage"} /\ NoDup(o.ids) /\ NoDup(o.names)) \/ Viol("Wiring.Core.Controllers", i))
       /\ ((("usage" \in Range(o.ids)) <=> in.usages) \/ Viol("Wiring.Usage.Flag", i))
  ELSE ((o.err = "" /\ Range(o.ids) = RbacControllers /\ NoDup(o.ids) /\ NoDup(o.names)) \/ Viol("Wiring.Rbac.Controllers", i))

-----------------------------------------------------------------------------
(* webhooks *)
CheckHook(h, in, o, i) ==
  /\ ((o.err = "" /\ o.paths = <<HookPath(h)>>) \/ Viol("Wiring.Webhook." \o Cap(h) \o ".Path", i))
  /\ (o.indexes = HookIndexes(h, in) \/ Viol("Wiring.Webhook." \o Cap(h) \o ".Index", i))
  /\ ((\A q \in Range(o.reqs) : q.o = "ok" /\ \A x \in Range(q.calls) : x.c = "mgr") \/ Viol("Wiring.Webhook." \o Cap(h) \o ".Clients", i))
  /\ (CASE h = "xrd" ->
             /\ (({"createGood", "updateGood", "updateGroup", "deleteGood"} \subseteq {q.id : q \in Range(o.reqs)}
                   /\ Req(o, "createGood").allowed /\ Req(o, "updateGood").allowed /\ ~Req(o, "updateGroup").allowed /\ Req(o, "deleteGood").allowed
                   /\ \E x \in Range(Req(o, "createGood").calls) : x.k = CRD /\ x.w) \/ Viol("Wiring.Webhook.Xrd.Validates", i))
             \* a validating webhook must not change anything: its writes are dry runs
             /\ ((\A q \in Range(o.reqs) : \A x \in Range(q.calls) : x.w => x.dry) \/ Viol("Wiring.Webhook.Xrd.DryRun", i))
        [] h = "composition" ->
             /\ (({"createGood", "createBadSchema", "updateBadSchema", "createBadSchemaWarn", "createBadLogic", "deleteBadSchema"} \subseteq {q.id : q \in Range(o.reqs)}
                   /\ Req(o, "createGood").allowed /\ ~Req(o, "createBadLogic").allowed /\ Req(o, "deleteBadSchema").allowed) \/ Viol("Wiring.Webhook.Composition.Logic", i))
             \* R4: schemas are consulted exactly under the flag
             /\ ((IF in.schema
                  THEN ~Req(o, "createBadSchema").allowed /\ ~Req(o, "updateBadSchema").allowed
                       /\ Req(o, "createBadSchemaWarn").allowed /\ Req(o, "createBadSchemaWarn").nwarn >= 1
                  ELSE Req(o, "createBadSchema").allowed /\ Req(o, "updateBadSchema").allowed
                       /\ Req(o, "createBadSchemaWarn").allowed /\ Req(o, "createBadSchemaWarn").nwarn = 0
                       /\ \A q \in Range(o.reqs) : q.calls = <<>>) \/ Viol("Wiring.Webhook.Composition.Schema", i))
             /\ ((\A q \in Range(o.reqs) : \A x \in Range(q.calls) : ~x.w) \/ Viol("Wiring.Webhook.Composition.ReadOnly", i))
        [] h = "usage" ->
             /\ (({"deleteUsed", "deleteFree", "createUsed", "updateUsed"} \subseteq {q.id : q \in Range(o.reqs)}
                   /\ ~Req(o, "deleteUsed").allowed /\ Req(o, "deleteUsed").code = 409 /\ Req(o, "deleteFree").allowed
                   /\ ~Req(o, "createUsed").allowed /\ ~Req(o, "updateUsed").allowed) \/ Viol("Wiring.Webhook.Usage.Blocks", i))
             /\ (Range(o.logctl) \subseteq {"webhook:no-usages"} \/ Viol("Wiring.Webhook.Usage.Logger", i)))

\* the shipped configurations send the API server to paths that are served, for operations the handler decides
CheckHookCfg(in, o, i) ==
  /\ ((\A c \in Range(o.cfg) : c.path \in Range(o.served)) \/ Viol("Wiring.Webhook.Config.Served", i))
  /\ (({PathXRD, PathComp, PathUsg} \subseteq {c.path : c \in Range(o.cfg)}) \/ Viol("Wiring.Webhook.Config.Complete", i))
  /\ ((\A c \in Range(o.cfg) : \A op \in Range(c.ops) :
         \E a \in Range(o.answers) : a.path = c.path /\ a.op = op /\ a.o = "ok" /\ a.code # 400) \/ Viol("Wiring.Webhook.Config.Operations", i))
  \* the usage webhook sees only resources that are in use (otherwise every DELETE in the cluster would pass through it)
  /\ ((\A c \in Range(o.cfg) : c.path = PathUsg => (c.selector /\ Range(c.ops) = {"DELETE"})) \/ Viol("Wiring.Webhook.Config.UsageSelector", i))

-----------------------------------------------------------------------------
(* uniformity: reference-free, all controllers of one vector side by side *)
CheckUniform(in, o, i) ==
  LET rows == Range(o.rows) IN
  /\ ((\A r \in rows : Limited(r) \/ r.ctl \in NoLimiterWhy) \/ Viol("Uniform.RateLimiter", i))
  /\ (((\A r \in rows : LimiterKeyOK(r)) /\ (\A a, b \in DOMAIN o.rows : a # b => o.rows[a].name # o.rows[b].name)) \/ Viol("Uniform.LimiterKey", i))
  /\ ((\A r \in rows : Silent(r) \/ r.ctl \in NoSilentWhy) \/ Viol("Uniform.SilentRequeue", i))
  /\ ((\A r \in rows : Surfaces(r)) \/ Viol("Uniform.ErrorSurfaces", i))
  /\ ((\A r \in rows : r.conc = in.conc) \/ Viol("Uniform.Concurrency", i))
  \* every reconciler that HAS the option got it from Options
  /\ ((\A r \in rows : r.hasPoll => Near(r.poll, in.poll)) \/ Viol("Uniform.HandOn.Poll", i))
  /\ ((\A r \in rows : r.hasRec => r.evsrc # <<>>) \/ Viol("Uniform.HandOn.Recorder", i))
  /\ ((\A r \in rows : r.hasLog => Range(r.logctl) = {r.name}) \/ Viol("Uniform.HandOn.Logger", i))

-----------------------------------------------------------------------------
Check(i) ==
  LET e == Trace[i]
      in == e.input
      o == e.o IN
  CASE e.t = "setup"   -> CheckSetup(in, o, i)
    [] e.t = "ctl"     -> /\ CheckStatic(e.ctl, in, o, i)
                          /\ (e.ctl = "roles" => CheckRoles(in, o, i))
                          /\ (e.ctl = "binding" => CheckBinding(in, o, i))
                          /\ (e.ctl \in Controllers(in) \/ Viol(F(e.ctl, "Unexpected"), i))
    [] e.t = "dyn"     -> IF e.ctl = "xr" THEN (IF o.ran THEN CheckXR(in, o, i) ELSE Viol("Wiring.XR.Started", i))
                          ELSE IF (o.ran \/ ~in.claim) THEN CheckClaim(in, o, i) ELSE Viol("Wiring.Claim.Started", i)
    [] e.t = "hook"    -> CheckHook(e.ctl, in, o, i)
    [] e.t = "hookcfg" -> CheckHookCfg(in, o, i)
    [] e.t = "uniform" -> CheckUniform(in, o, i)
    [] e.t = "stray"   -> Viol("Wiring.Stray", i)
    [] OTHER           -> Viol("UnknownRecord", i)

Init == l = 0
Next == /\ l < Len(Trace) /\ l' = l + 1 /\ Check(l')
        /\ (l' < Len(Trace) \/ PrintT("DONE|" \o ToString(l')))
Spec == Init /\ [][Next]_l
=============================================================================
