SPECIFICATION Spec
CONSTANTS
  Mode = "Pipeline"
  Names = {"a", "b"}
  MaxObjs = 4
  MaxRecs = 3
  MaxFaults = 2
  MaxEnv = 2
  ForeignAt = "name"
  RenderFails = FALSE
  CacheMisses = FALSE
  VerBumps = FALSE
  Forges = FALSE
  Legacies = FALSE
  FailKinds = {"reqloop1", "fatal2"}
VIEW view
ACTION_CONSTRAINT Emit
CHECK_DEADLOCK FALSE
INVARIANTS NoLeak AtMostOne StepProps GcExact
PROPERTIES NameStable
