package main

// Per-controller probes: watch handlers, the wrappers around the reconciler, and unit probes of the parts the Setup
// function chose (reached by reflection, driven behaviourally).

import (
	"bytes"
	"context"
	"io"
	"net/http"
	"reflect"
	"strings"
	"time"

	"github.com/google/go-containerregistry/pkg/name"
	"github.com/google/go-containerregistry/pkg/v1/remote"
	metav1 "k8s.io/apimachinery/pkg/apis/meta/v1"
	"k8s.io/apimachinery/pkg/runtime/schema"
	"k8s.io/utils/ptr"
	"sigs.k8s.io/controller-runtime/pkg/client"
	"sigs.k8s.io/controller-runtime/pkg/event"

	"github.com/crossplane/crossplane-runtime/pkg/parser"

	pkgmetav1 "github.com/crossplane/crossplane/apis/pkg/meta/v1"
	pkgv1 "github.com/crossplane/crossplane/apis/pkg/v1"
	pkgv1alpha1 "github.com/crossplane/crossplane/apis/pkg/v1alpha1"
	pkgv1beta1 "github.com/crossplane/crossplane/apis/pkg/v1beta1"
	"github.com/crossplane/crossplane/internal/controller/pkg/revision"
	"github.com/crossplane/crossplane/internal/controller/pkg/signature"
	"github.com/crossplane/crossplane/internal/xpkg"
	"github.com/crossplane/crossplane/zzverif/simapi"
)

// ---------------------------------------------------------------- the probe world of the watch handlers

const (
	srcA = "reg.a/acme/"  // + lower(type) + ":v1"
	srcB = "reg.b/other/" // + lower(type) + ":v1"
)

// seedProbeWorld stores two packages and two revisions of EVERY package type, so that a handler that lists the
// wrong type is seen to enqueue the wrong names:
//
//	<type>-a     source reg.a/acme/<type>:v1    <type>-a-r1  the same source, controllerConfigRef cc1, runtimeConfigRef rc1
//	<type>-b     source reg.b/other/<type>:v1   <type>-b-r1  the same source, runtimeConfigRef default
func (w *world) seedProbeWorld() {
	for _, t := range types3 {
		lt := lower(t)
		w.s.Put(newPkg(t, lt+"-a", srcA+lt+":v1"))
		w.s.Put(newPkg(t, lt+"-b", srcB+lt+":v1"))
		w.s.Put(newRev(t, lt+"-a-r1", srcA+lt+":v1", "cc1", "rc1", pkgv1.PackageRevisionActive))
		w.s.Put(newRev(t, lt+"-b-r1", srcB+lt+":v1", "", "default", pkgv1.PackageRevisionActive))
	}
}

type probe struct {
	id  string
	obj client.Object
}

var ownerKinds = []string{"Provider", "Configuration", "Function", "ProviderRevision", "ConfigurationRevision", "FunctionRevision"}

func probesFor(wt watch) []probe {
	switch wt.kind {
	case "ImageConfig":
		return []probe{
			{"icPull", imageConfig("ic1", []string{"reg.a/"}, "s1", false)},
			{"icPullB", imageConfig("ic2", []string{"reg.b/other"}, "s2", false)},
			{"icVerify", imageConfig("ic3", []string{"reg.a/"}, "", true)},
			{"icBare", imageConfig("ic4", []string{"reg.a/"}, "", false)},
			{"icBoth", imageConfig("ic5", []string{"reg.a/"}, "s5", true)},
		}
	case "ControllerConfig":
		return []probe{
			{"cc1", &pkgv1alpha1.ControllerConfig{ObjectMeta: metav1.ObjectMeta{Name: "cc1"}}},
			{"cc2", &pkgv1alpha1.ControllerConfig{ObjectMeta: metav1.ObjectMeta{Name: "cc2"}}},
		}
	case "DeploymentRuntimeConfig":
		return []probe{
			{"rc1", &pkgv1beta1.DeploymentRuntimeConfig{ObjectMeta: metav1.ObjectMeta{Name: "rc1"}}},
			{"default", &pkgv1beta1.DeploymentRuntimeConfig{ObjectMeta: metav1.ObjectMeta{Name: "default"}}},
			{"rc9", &pkgv1beta1.DeploymentRuntimeConfig{ObjectMeta: metav1.ObjectMeta{Name: "rc9"}}},
		}
	}
	if wt.obj == nil {
		return nil
	}
	mk := func(owner string) client.Object {
		o, ok := wt.obj.DeepCopyObject().(client.Object)
		if !ok {
			return nil
		}
		o.SetName("x1")
		if owner != "" {
			o.SetOwnerReferences([]metav1.OwnerReference{{APIVersion: "pkg.crossplane.io/v1", Kind: owner, Name: "own-r", UID: "uid-own", Controller: ptr.To(true)}})
		}
		return o
	}
	out := []probe{{"plain", mk("")}}
	for _, k := range ownerKinds {
		out = append(out, probe{"own:" + k, mk(k)})
	}
	return out
}

// watchRecords drives every watch handler with its probe events on a recording queue.
func (w *world) watchRecords(c *ctl) []any {
	out := []any{}
	for _, wt := range c.watches {
		ps := []any{}
		if wt.handler != nil {
			for _, p := range probesFor(wt) {
				if p.obj == nil {
					continue
				}
				q := newRecQueue()
				func() {
					defer func() {
						if r := recover(); r != nil {
							q.names["panic"] = true
						}
					}()
					wt.handler.Create(context.Background(), event.TypedCreateEvent[client.Object]{Object: p.obj}, q)
				}()
				ps = append(ps, map[string]any{"p": p.id, "names": sortedKeys(q.names)})
			}
		}
		out = append(out, map[string]any{"k": wt.kind, "probes": ps})
	}
	return out
}

// ---------------------------------------------------------------- the wrappers

// limiterProbe: while the global rate limiter says "wait 7s" the request must come back with RequeueAfter = 7s
// without having reached the API.
func (w *world) limiterProbe(c *ctl) map[string]any {
	w.lim.set(7 * time.Second)
	actor := "limit:" + c.name
	r := c.reconcile(w, actor, "held-obj")
	keys := w.lim.seen()
	w.lim.set(0)
	key := "none"
	if len(keys) > 0 {
		key = strings.TrimSuffix(keys[len(keys)-1], "/held-obj")
	}
	return map[string]any{"after": int(r.after / time.Second), "err": r.err != nil, "calls": w.calls(actor), "asked": len(keys), "key": key}
}

// conflictProbe: a Conflict on the first status write must surface as "requeue, no error".
func (w *world) conflictProbe(c *ctl) string {
	name := "cf-obj"
	switch {
	case c.fam == "manager" && c.t != "other" && c.t != "Lock":
		p := newPkg(c.t, name, "acme/cf:v1")
		p.SetAnnotations(map[string]string{"crossplane.io/paused": "true"})
		w.s.Put(p)
	case c.fam == "revision" && c.t != "other" && c.t != "Lock":
		r := newRev(c.t, name, "acme/cf:v1", "", "default", pkgv1.PackageRevisionActive)
		r.SetAnnotations(map[string]string{"crossplane.io/paused": "true"})
		w.s.Put(r)
	case c.fam == "signature" && c.t != "other" && c.t != "Lock":
		w.s.Put(newRev(c.t, name, "acme/cf:v1", "", "default", pkgv1.PackageRevisionActive))
	case c.fam == "resolver":
		name = "lock"
		w.s.Put(&pkgv1beta1.Lock{ObjectMeta: metav1.ObjectMeta{Name: "lock"}})
	default:
		return "none"
	}
	injected := 0
	w.conf = func(cl *simapi.Call) simapi.Decision {
		if cl.Write && cl.Sub == "status" {
			injected++
			return simapi.FailConflict
		}
		return simapi.Proceed
	}
	r := c.reconcile(w, "conflict:"+c.name, name)
	w.conf = nil
	switch {
	case injected == 0:
		return "none"
	case r.err == nil && r.requeue:
		return "requeue"
	case r.err != nil:
		return "error"
	}
	return "dropped"
}

// ---------------------------------------------------------------- the fetcher below revisioner / image backend / resolver

// rewireFetcher re-points the real K8sFetcher a Setup function built at the in-process registry and the clientset
// stub. holder is the (addressable) xpkg.Fetcher field. Returns what kind of fetcher is wired, and whether its
// transport had been given the CA bundle of Options.FetcherOptions.
func (w *world) rewireFetcher(holder reflect.Value) (string, bool) {
	if !holder.IsValid() || holder.Kind() != reflect.Interface || holder.IsNil() {
		return "none", false
	}
	f, ok := holder.Interface().(*xpkg.K8sFetcher)
	if !ok {
		return typeName(holder.Interface()), false
	}
	st := reflect.ValueOf(f).Elem()
	tf := unexported(st, "transport")
	ca := false
	if !tf.IsNil() {
		if t, ok := tf.Interface().(*http.Transport); ok && t.TLSClientConfig != nil && t.TLSClientConfig.RootCAs != nil {
			ca = t.TLSClientConfig.RootCAs.Equal(caPool)
		}
	}
	unexported(st, "client").Set(reflect.ValueOf(&kubeStub{}))
	tf.Set(reflect.ValueOf(theReg))
	return "k8s", ca
}

func ifaceField(core reflect.Value, name string) (reflect.Value, bool) {
	f, ok := fieldOf(core, name)
	if !ok || f.Kind() != reflect.Interface || f.IsNil() {
		return reflect.Value{}, false
	}
	return f, true
}

// storeRecord: the ImageConfig store a controller got - does it read through the manager's client (an ImageConfig
// put into simapi is found), and which namespace was it given.
func (w *world) storeRecord(c *ctl) map[string]any {
	out := map[string]any{"kind": "none", "ns": "?", "reads": false}
	f, ok := ifaceField(c.core, "config")
	if !ok {
		return out
	}
	out["kind"] = typeName(f.Interface())
	out["ns"] = strField(f, "namespace")
	cs, ok := f.Interface().(xpkg.ConfigStore)
	if !ok {
		return out
	}
	w.s.Put(imageConfig("store-probe", []string{"store.probe/"}, "store-secret", false))
	w.as("store:" + c.name)
	_, sec, err := cs.PullSecretFor(context.Background(), "store.probe/x:v1")
	w.as("env")
	out["reads"] = err == nil && sec == "store-secret"
	return out
}

// ---------------------------------------------------------------- unit probes per family

func callKind(core reflect.Value, field string) string {
	f, ok := fieldOf(core, field)
	if !ok || f.Kind() != reflect.Func || f.IsNil() {
		return "none"
	}
	out := f.Call(nil)
	if len(out) != 1 || out[0].IsNil() {
		return "none"
	}
	return kindOf(out[0].Interface())
}

func (w *world) managerUnit(c *ctl) map[string]any {
	o := map[string]any{
		"pkgKind": callKind(c.core, "newPackage"), "revKind": callKind(c.core, "newPackageRevision"), "listKind": callKind(c.core, "newPackageRevisionList"),
		"revisioner": "none", "fetcher": "none", "fetcherCA": false, "store": w.storeRecord(c),
	}
	if f, ok := ifaceField(c.core, "pkg"); ok {
		o["revisioner"] = typeName(f.Interface())
		if st, ok := structOf(f); ok {
			if ff, ok := fieldOf(st, "fetcher"); ok {
				o["fetcher"], o["fetcherCA"] = w.rewireFetcher(ff)
			}
		}
	}
	return o
}

// lintTable feeds small package streams to the WIRED parser and linter: one per meta kind, two metas, none, and
// the controller's own... every meta kind combined with every object kind.
func lintTable(core reflect.Value) (metas []any, objs []any) {
	metas, objs = []any{}, []any{}
	pf, ok1 := ifaceField(core, "parser")
	lf, ok2 := ifaceField(core, "linter")
	if !ok1 || !ok2 {
		return
	}
	p, ok1 := pf.Interface().(parser.Parser)
	l, ok2 := lf.Interface().(parser.Linter)
	if !ok1 || !ok2 {
		return
	}
	run := func(toks ...string) string {
		pkg, err := p.Parse(context.Background(), io.NopCloser(bytes.NewReader(stream("lint", toks...))))
		if err != nil {
			return "parse"
		}
		if err := l.Lint(pkg); err != nil {
			return "lint"
		}
		return "ok"
	}
	for _, m := range [][]string{{"mP"}, {"mC"}, {"mF"}, {"mP", "mP"}, {"mP", "mC"}, {"mC", "mF"}, {"mF", "mF"}, {}} {
		id := strings.Join(m, "+")
		if id == "" {
			id = "none"
		}
		metas = append(metas, map[string]any{"doc": id, "res": run(m...)})
	}
	for _, m := range []string{"mP", "mC", "mF"} {
		for _, k := range []string{"CRD", "XRD", "CMP", "MWC", "VWC"} {
			objs = append(objs, map[string]any{"meta": m, "k": k, "res": run(m, k)})
		}
	}
	return
}

// depCheck runs the WIRED dependency manager for a revision of the controller's type on a Lock that holds the
// dependency at a version violating the declared constraint: which entry does it write for the revision, and does
// it count the dependency as invalid (a plain DAG) or as missing (the upgrading DAG implies it).
func (w *world) depCheck(c *ctl) map[string]any {
	none := map[string]any{"name": "none", "apiVersion": "none", "kind": "none", "type": "none", "source": "none", "version": "none"}
	out := map[string]any{"kind": "none", "ran": false, "found": -1, "installed": -1, "invalid": -1, "res": "none", "res2": "none", "invalid2": -1, "entry": none}
	f, ok := ifaceField(c.core, "lock")
	if !ok {
		return out
	}
	out["kind"] = typeName(f.Interface())
	dm, ok := f.Interface().(revision.DependencyManager)
	if !ok || c.t == "other" || c.t == "Lock" {
		return out
	}
	v := "pkg.crossplane.io/v1"
	w.s.Put(&pkgv1beta1.Lock{ObjectMeta: metav1.ObjectMeta{Name: "lock"}, Packages: []pkgv1beta1.LockPackage{
		{Name: "dep-b-r1", APIVersion: &v, Kind: ptr.To("Provider"), Source: "reg.d/" + depRepo, Version: "v1.0.0", Dependencies: []pkgv1beta1.Dependency{}}}})
	dep := pkgmetav1.Dependency{Provider: ptr.To("reg.d/" + depRepo), Version: ">=v2.0.0"}
	var meta pkgmetav1.Pkg
	switch c.t {
	case "Provider":
		meta = &pkgmetav1.Provider{Spec: pkgmetav1.ProviderSpec{MetaSpec: pkgmetav1.MetaSpec{DependsOn: []pkgmetav1.Dependency{dep}}}}
	case "Configuration":
		meta = &pkgmetav1.Configuration{Spec: pkgmetav1.ConfigurationSpec{MetaSpec: pkgmetav1.MetaSpec{DependsOn: []pkgmetav1.Dependency{dep}}}}
	default:
		meta = &pkgmetav1.Function{Spec: pkgmetav1.FunctionSpec{MetaSpec: pkgmetav1.MetaSpec{DependsOn: []pkgmetav1.Dependency{dep}}}}
	}
	pr := newRev(c.t, "dc-r1", "reg.d/acme/dc:v1.0.0", "", "default", pkgv1.PackageRevisionActive)
	class := func(err error) string {
		switch {
		case err == nil:
			return "ok"
		case strings.Contains(err.Error(), "incompatible dependencies"):
			return "incompatible"
		case strings.Contains(err.Error(), "missing dependencies"):
			return "missing"
		}
		return "error"
	}
	w.as("dep:" + c.name)
	// first call: the revision is not in the Lock yet; second call: it is (the DAG is initialised with its edges)
	found, installed, invalid, err := dm.Resolve(context.Background(), meta, pr)
	_, _, invalid2, err2 := dm.Resolve(context.Background(), meta, pr)
	w.as("env")
	out["ran"], out["found"], out["installed"], out["invalid"], out["invalid2"] = true, found, installed, invalid, invalid2
	out["res"], out["res2"] = class(err), class(err2)
	out["entry"] = w.lockEntry("dc-r1", "dc-r1")
	return out
}

// lockEntry projects the Lock entry called name (the revision's own entry), "none" fields if absent.
func (w *world) lockEntry(name, alias string) map[string]any {
	e := map[string]any{"name": "none", "apiVersion": "none", "kind": "none", "type": "none", "source": "none", "version": "none"}
	u := w.s.Peek(simapi.Key{Group: "pkg.crossplane.io", Kind: "Lock", Name: "lock"})
	if u == nil {
		return e
	}
	pkgs, _ := u.Object["packages"].([]any)
	for _, p := range pkgs {
		m, _ := p.(map[string]any)
		if m["name"] != name {
			continue
		}
		e["name"] = alias
		for _, k := range []string{"apiVersion", "kind", "type", "source", "version"} {
			if s, ok := m[k].(string); ok {
				e[k] = s
			}
		}
	}
	return e
}

func (w *world) revisionUnit(c *ctl) map[string]any {
	metas, objs := lintTable(c.core)
	o := map[string]any{"revKind": callKind(c.core, "newPackageRevision"), "lintMeta": metas, "lintObj": objs,
		"backend": "none", "fetcher": "none", "fetcherCA": false, "hooks": "none", "est": "none", "estLimit": -1, "cacheShared": false,
		"ns": strFieldOfStruct(c.core, "namespace"), "sa": strFieldOfStruct(c.core, "serviceAccount"), "store": w.storeRecord(c), "dep": w.depCheck(c)}
	if f, ok := ifaceField(c.core, "backend"); ok {
		o["backend"] = typeName(f.Interface())
		if st, ok := structOf(f); ok {
			if ff, ok := fieldOf(st, "fetcher"); ok {
				o["fetcher"], o["fetcherCA"] = w.rewireFetcher(ff)
			}
		}
	}
	if f, ok := ifaceField(c.core, "runtimeHook"); ok {
		o["hooks"] = typeName(f.Interface())
	}
	if f, ok := ifaceField(c.core, "objects"); ok {
		o["est"] = typeName(f.Interface())
		if st, ok := structOf(f); ok {
			if lf, ok := fieldOf(st, "MaxConcurrentPackageEstablishers"); ok && lf.Kind() == reflect.Int {
				o["estLimit"] = int(lf.Int())
			}
		}
	}
	if f, ok := ifaceField(c.core, "cache"); ok {
		// behaviourally: a lookup through the wired cache reaches the cache handed in through Options.Cache
		if pc, ok := f.Interface().(xpkg.PackageCache); ok {
			before := w.cache.opCount()
			pc.Has("cache-identity-probe")
			o["cacheShared"] = w.cache.opCount() > before
		}
	}
	if f, ok := fieldOf(c.core, "features"); ok && f.Kind() == reflect.Ptr {
		o["featuresShared"] = !f.IsNil() && f.Interface() == any(w.feat)
	} else {
		o["featuresShared"] = false
	}
	return o
}

func strFieldOfStruct(st reflect.Value, name string) string {
	f, ok := fieldOf(st, name)
	if !ok || f.Kind() != reflect.String {
		return "?"
	}
	return f.String()
}

func (w *world) signatureUnit(c *ctl) map[string]any {
	o := map[string]any{"revKind": callKind(c.core, "newRevision"), "validator": "none", "valNS": "?", "valSA": "?",
		"ns": strFieldOfStruct(c.core, "namespace"), "sa": strFieldOfStruct(c.core, "serviceAccount"), "registry": strFieldOfStruct(c.core, "registry"),
		"store": w.storeRecord(c)}
	o["cosign"] = noFetchRecord()
	if f, ok := ifaceField(c.core, "validator"); ok {
		o["validator"] = typeName(f.Interface())
		o["valNS"], o["valSA"] = strField(f, "namespace"), strField(f, "serviceAccount")
		if cv, ok := f.Interface().(*signature.CosignValidator); ok {
			o["cosign"] = w.cosignProbe(c, cv)
		}
		// cosign needs signatures in a real registry: below this seam a recording validator
		f.Set(reflect.ValueOf(w.val))
	}
	return o
}

func noFetchRecord() map[string]any {
	r := newRegRT().record("", userAgent)
	r["err"], r["defaultTransport"] = "not run", false
	return r
}

// cosignProbe lets the REAL cosign validator the Setup function built check a reference once: how does it reach the
// registry? Its keychain's clientset is re-pointed at the stub; go-containerregistry's default transport (the one
// cosign ends up with when it is given no transport) serves from the in-process registry for the duration of the
// call and records the requests. There are no signatures in that registry, so the verdict is "failed" - only the
// requests matter: their host (DefaultRegistry), their User-Agent (Options.FetcherOptions: the operator's
// --user-agent / --ca-bundle-path reach the fetchers through it), the keychain's namespace / ServiceAccount.
func (w *world) cosignProbe(c *ctl, cv *signature.CosignValidator) map[string]any {
	if cf, ok := fieldOf(reflect.ValueOf(cv).Elem(), "clientset"); ok && cf.Kind() == reflect.Interface {
		cf.Set(reflect.ValueOf(&kubeStub{}))
	}
	ref, err := name.ParseReference("acme/pkg-provider:v1.0.0", name.WithDefaultRegistry(w.in.Reg))
	if err != nil {
		r := noFetchRecord()
		r["err"] = err.Error()
		return r
	}
	actor := "cosign:" + c.name
	saved := remote.DefaultTransport
	remote.DefaultTransport = theReg
	w.as(actor)
	ctx, cancel := context.WithTimeout(context.Background(), 10*time.Second)
	verr := cv.Validate(ctx, ref, imageConfig("probe", []string{"acme/"}, "", true).Spec.Verification, "ic-secret")
	cancel()
	w.as("env")
	remote.DefaultTransport = saved
	r := theReg.record(actor, userAgent)
	r["err"] = errText(verr)
	// the requests were served by what stood in for go-containerregistry's process-wide default transport: the
	// validator has no transport of its own that could carry a CA bundle
	r["defaultTransport"] = r["hits"].(int) > 0
	return r
}

func (w *world) resolverUnit(c *ctl) map[string]any {
	o := map[string]any{"fetcher": "none", "fetcherCA": false, "registry": strFieldOfStruct(c.core, "registry"), "store": w.storeRecord(c)}
	if ff, ok := fieldOf(c.core, "fetcher"); ok {
		o["fetcher"], o["fetcherCA"] = w.rewireFetcher(ff)
	}
	if f, ok := fieldOf(c.core, "features"); ok && f.Kind() == reflect.Ptr {
		o["featuresShared"] = !f.IsNil() && f.Interface() == any(w.feat)
	} else {
		o["featuresShared"] = false
	}
	return o
}

var _ = schema.GroupKind{}
