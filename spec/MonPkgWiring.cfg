SPECIFICATION Spec
CONSTANTS
  Perturb = "none"
CHECK_DEADLOCK FALSE
