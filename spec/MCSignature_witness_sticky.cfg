SPECIFICATION Spec
CONSTANTS
  InitRevs <- RevFresh
  InitICs <- IcNone
  InitVst <- VstDefault
  InitOk <- OkNone
  Feats <- OnlyTrue
  Orders <- Fwd
  ICs <- IcsVb
  Imgs <- ImgsNone
  MaxSig = 2
  MaxRev = 0
  MaxFaults = 0
  MaxEnv = 1
  MidEnv = FALSE
  EnvKinds <- EnvIc
  FaultKinds <- NoFaults
  GateOn = TRUE
  GateSkipsInactive = TRUE
  Sticky = TRUE
  VecICs <- NoICs
  VecEvICs <- NoICs
  VecImgs <- NoICs
VIEW view
ACTION_CONSTRAINT Emit
CHECK_DEADLOCK FALSE
INVARIANTS VerdictCurrent
