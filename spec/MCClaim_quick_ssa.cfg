SPECIFICATION Spec
CONSTANTS
  Syncer = "SSA"
  RvCheck = TRUE
  GenNames <- Gen3
  Starts <- StartsQuick
  Fgs <- FgBoth
  FailKinds <- KindsBoth
  Conn = TRUE
  MaxVers = 9
  MaxEnv = 2
  MaxFaults = 1
  MaxRecs = 3
  MaxStale = 1
  MaxCollide = 1
  Rebinds = TRUE
  MidEnv = TRUE
VIEW view
ACTION_CONSTRAINT Emit
CONSTRAINT Bounded
CHECK_DEADLOCK FALSE
INVARIANTS OneXR TypeOK
PROPERTIES RefFirst NoHijack
