// Driver for spec/PkgManager.tla: replays TLC behaviours against the real
// package manager reconciler (internal/controller/pkg/manager) running on
// simapi, and records one trace event per API call with the projected state.
package main

import (
	"context"
	"encoding/json"
	"errors"
	"flag"
	"fmt"
	"hash/fnv"
	"os"
	"sort"
	"strconv"
	"strings"

	"github.com/google/go-containerregistry/pkg/name"
	ggcr "github.com/google/go-containerregistry/pkg/v1"
	corev1 "k8s.io/api/core/v1"
	metav1 "k8s.io/apimachinery/pkg/apis/meta/v1"
	"k8s.io/apimachinery/pkg/apis/meta/v1/unstructured"
	"k8s.io/apimachinery/pkg/runtime"
	"k8s.io/apimachinery/pkg/types"
	"k8s.io/utils/ptr"
	"sigs.k8s.io/controller-runtime/pkg/reconcile"

	pkgv1 "github.com/crossplane/crossplane/apis/pkg/v1"
	pkgv1beta1 "github.com/crossplane/crossplane/apis/pkg/v1beta1"
	"github.com/crossplane/crossplane/internal/controller/pkg/manager"
	"github.com/crossplane/crossplane/internal/xpkg"
	"github.com/crossplane/crossplane/zzverif/fakes"
	"github.com/crossplane/crossplane/zzverif/replay"
	"github.com/crossplane/crossplane/zzverif/scen"
	"github.com/crossplane/crossplane/zzverif/simapi"
	"github.com/crossplane/crossplane/zzverif/trace"
)

const (
	pkgName = "pkg"
	repo    = "xpkg.example.org/org/pkg"
)

var pkgKey = simapi.Key{Group: "pkg.crossplane.io", Kind: "Provider", Name: pkgName}

// pkgKind is the package type of the current scenario (setFamily: by a hash of the scenario id): the package manager
// is one generic reconciler set up three times; what it does must hold for Providers, Configurations and Functions
// alike (their list / accessor helpers in apis/pkg/v1 are written out per type).
var pkgKind = "Provider"

func revKind() string { return pkgKind + "Revision" }

func setFamily(id string) {
	h := fnv.New32a()
	_, _ = h.Write([]byte(strings.SplitN(id, "/", 2)[0]))
	pkgKind = []string{"Provider", "Configuration", "Function"}[h.Sum32()%3]
	pkgKey.Kind = pkgKind
}

func newPkg() pkgv1.Package {
	switch pkgKind {
	case "Configuration":
		return &pkgv1.Configuration{}
	case "Function":
		return &pkgv1.Function{}
	}
	return &pkgv1.Provider{}
}

func newRev() pkgv1.PackageRevision {
	switch pkgKind {
	case "Configuration":
		return &pkgv1.ConfigurationRevision{}
	case "Function":
		return &pkgv1.FunctionRevision{}
	}
	return &pkgv1.ProviderRevision{}
}

func newRevList() pkgv1.PackageRevisionList {
	switch pkgKind {
	case "Configuration":
		return &pkgv1.ConfigurationRevisionList{}
	case "Function":
		return &pkgv1.FunctionRevisionList{}
	}
	return &pkgv1.ProviderRevisionList{}
}

func hexOf(d string) string    { return d + strings.Repeat("0", 64-len(d)) }
func revName(d string) string  { return xpkg.FriendlyID(pkgName, hexOf(d)) }
func source(tag string) string { return repo + ":" + tag }

type world struct {
	s      *simapi.Server
	c      *simapi.Client
	rec    reconcile.Reconciler
	reg    map[string]string // tag -> digest
	dseq   []string
	names  map[string]string // revision name -> digest id
	tw     *trace.Writer
	scenID string

	al      *replay.Aligner
	recNo   int
	seen    map[string]any // what the reconciler observed in this reconcile
	quiet   bool
	withFin bool
}

type fetcher struct{ w *world }

func (f *fetcher) Fetch(context.Context, name.Reference, ...string) (ggcr.Image, error) {
	return nil, errors.New("not used")
}
func (f *fetcher) Tags(context.Context, name.Reference, ...string) ([]string, error) {
	return nil, errors.New("not used")
}
func (f *fetcher) Head(_ context.Context, ref name.Reference, _ ...string) (*ggcr.Descriptor, error) {
	tag := ref.Identifier()
	d := simapi.Proceed
	if f.w.al != nil {
		d = f.w.al.OnCall("head:"+tag, false)
	}
	ev := map[string]any{"verb": "head", "kind": "registry", "name": tag, "abs": "head:" + tag, "outcome": "ok", "injected": d.String(), "applied": false, "target": "none"}
	if d != simapi.Proceed {
		ev["outcome"] = "error"
		f.w.emit("call", ev)
		return nil, errors.New("injected registry failure")
	}
	dg, ok := f.w.reg[tag]
	if !ok {
		ev["outcome"] = "error"
		f.w.emit("call", ev)
		return nil, errors.New("unknown tag")
	}
	f.w.seen["cur"] = dg
	f.w.emit("call", ev)
	return &ggcr.Descriptor{Digest: ggcr.Hash{Algorithm: "sha256", Hex: hexOf(dg)}}, nil
}

func (w *world) digestOf(revName string) string {
	if d, ok := w.names[revName]; ok {
		return d
	}
	return "unknown:" + revName
}

// projection of the store: the abstract state PkgManager.tla talks about.
func (w *world) post() map[string]any {
	p := w.s.Peek(pkgKey)
	pk := map[string]any{"src": "none", "limit": -1, "manual": false, "pull": "Always", "curRev": "none", "curId": "none"}
	var puid types.UID
	if p != nil {
		puid = p.GetUID()
		src, _, _ := unstructured.NestedString(p.Object, "spec", "package")
		pk["src"] = strings.TrimPrefix(src, repo+":")
		if l, ok, _ := unstructured.NestedInt64(p.Object, "spec", "revisionHistoryLimit"); ok {
			pk["limit"] = l
		}
		if a, _, _ := unstructured.NestedString(p.Object, "spec", "revisionActivationPolicy"); a == "Manual" {
			pk["manual"] = true
		}
		if a, ok, _ := unstructured.NestedString(p.Object, "spec", "packagePullPolicy"); ok && a != "" {
			pk["pull"] = a
		}
		if a, _, _ := unstructured.NestedString(p.Object, "status", "currentRevision"); a != "" {
			pk["curRev"] = w.digestOf(a)
		}
		if a, _, _ := unstructured.NestedString(p.Object, "status", "currentIdentifier"); a != "" {
			pk["curId"] = strings.TrimPrefix(a, repo+":")
		}
	}
	revs := []any{}
	for _, r := range w.s.All(simapi.Key{Group: "pkg.crossplane.io", Kind: revKind()}.GK()) {
		num, _, _ := unstructured.NestedInt64(r.Object, "spec", "revision")
		st, _, _ := unstructured.NestedString(r.Object, "spec", "desiredState")
		ctrl := "none"
		if c := metav1.GetControllerOf(r); c != nil {
			ctrl = "foreign"
			if c.UID == puid {
				ctrl = "pkg"
			}
		}
		_, known := w.names[r.GetName()]
		revs = append(revs, map[string]any{"known": known, "d": w.digestOf(r.GetName()), "num": num, "act": st == "Active", "del": r.GetDeletionTimestamp() != nil, "ctrl": ctrl})
	}
	return map[string]any{"pkg": pk, "revs": revs}
}

func (w *world) emit(ev string, m map[string]any) {
	base := map[string]any{"ev": ev, "scenario": w.scenID, "actor": "manager", "rec": w.recNo,
		"verb": "", "kind": "", "name": "", "abs": "", "outcome": "", "injected": "", "applied": false, "target": "none",
		"result": "", "quiet": false, "faulty": false, "seen": w.seenCopy(), "post": w.post()}
	for k, v := range m {
		base[k] = v
	}
	w.tw.Emit(base)
}

func (w *world) seenCopy() map[string]any {
	out := map[string]any{"limit": -1, "cur": "none", "listed": []any{}, "manual": false}
	for k, v := range w.seen {
		out[k] = v
	}
	return out
}

func (w *world) classify(c *simapi.Call) (abs string) {
	switch c.Key.Kind {
	case pkgKind:
		v := c.Verb
		if c.Sub != "" {
			v += "-" + c.Sub
		}
		return v + ":pkg"
	case revKind():
		if c.Verb == "list" {
			return "list:rev"
		}
		v := c.Verb
		if strings.HasPrefix(v, "patch-") {
			v = "patch"
		}
		return v + ":" + w.digestOf(c.Key.Name)
	}
	if c.Key.Kind == "ImageConfig" && c.Verb == "list" {
		return "list:imageconfig"
	}
	return "other:" + c.Key.Kind
}

func (w *world) onEvent(e *simapi.Event) {
	abs := w.classify(&simapi.Call{Verb: e.Verb, Sub: e.Sub, Key: simapi.Key{Group: e.Group, Kind: e.Kind, Name: e.Name}})
	if e.Outcome == "dropped" && e.Injected == "" {
		return
	}
	// record what the reconciler observed
	if abs == "get:pkg" && e.Outcome == "ok" {
		p := w.post()["pkg"].(map[string]any)
		w.seen["limit"], w.seen["manual"] = p["limit"], p["manual"]
		if p["pull"] == "IfNotPresent" && p["curId"] == p["src"] && p["curRev"] != "none" {
			w.seen["cur"] = p["curRev"]
		}
	}
	if abs == "list:rev" && e.Outcome == "ok" {
		l := []any{}
		for _, r := range w.post()["revs"].([]any) {
			rm := r.(map[string]any)
			l = append(l, map[string]any{"d": rm["d"], "num": rm["num"], "ctrl": rm["ctrl"]})
		}
		w.seen["listed"] = l
	}
	target := "none"
	if e.Kind == revKind() && e.Verb != "list" {
		target = w.digestOf(e.Name)
	}
	kind := map[string]string{pkgKind: "pkg", revKind(): "rev"}[e.Kind]
	if kind == "" {
		kind = "other"
	}
	verb := e.Verb
	if e.Sub != "" {
		verb += "-" + e.Sub
	}
	w.emit("call", map[string]any{"verb": verb, "kind": kind, "name": e.Name, "abs": abs, "outcome": e.Outcome,
		"injected": e.Injected, "applied": e.Applied && !e.DryRun, "target": target})
}

func (w *world) env(e replay.Entry) {
	w.quiet = false
	switch e.K {
	case "src":
		w.s.Mutate(pkgKey, func(u *unstructured.Unstructured) { _ = unstructured.SetNestedField(u.Object, source(e.O), "spec", "package") })
	case "limit":
		l, _ := strconv.ParseInt(e.O, 10, 64)
		w.s.Mutate(pkgKey, func(u *unstructured.Unstructured) {
			if l < 0 {
				unstructured.RemoveNestedField(u.Object, "spec", "revisionHistoryLimit")
			} else {
				_ = unstructured.SetNestedField(u.Object, l, "spec", "revisionHistoryLimit")
			}
		})
	case "manual":
		w.s.Mutate(pkgKey, func(u *unstructured.Unstructured) {
			v := "Automatic"
			if e.O == "true" {
				v = "Manual"
			}
			_ = unstructured.SetNestedField(u.Object, v, "spec", "revisionActivationPolicy")
		})
	case "pull":
		w.s.Mutate(pkgKey, func(u *unstructured.Unstructured) { _ = unstructured.SetNestedField(u.Object, e.O, "spec", "packagePullPolicy") })
	case "forgetid":
		w.s.Mutate(pkgKey, func(u *unstructured.Unstructured) { unstructured.RemoveNestedField(u.Object, "status", "currentIdentifier") })
	case "reg":
		w.reg[e.O] = e.F
	case "finalize":
		w.s.Mutate(simapi.Key{Group: "pkg.crossplane.io", Kind: revKind(), Name: revName(e.O)}, func(u *unstructured.Unstructured) {
			if u.GetDeletionTimestamp() != nil {
				u.SetFinalizers(nil)
			}
		})
	default:
		panic("unknown env step " + e.K)
	}
	w.emit("env", map[string]any{"verb": e.K, "name": e.O})
}

func newWorld(tw *trace.Writer, id string, init map[string]any) *world {
	setFamily(id)
	sch := runtime.NewScheme()
	_ = pkgv1.AddToScheme(sch)
	_ = pkgv1beta1.AddToScheme(sch)
	_ = corev1.AddToScheme(sch)
	s := simapi.NewServer(sch)
	c := simapi.NewClient(s, "manager")
	w := &world{s: s, c: c, reg: map[string]string{}, names: map[string]string{}, tw: tw, scenID: id, seen: map[string]any{}}
	for _, d := range init["dseq"].([]any) {
		w.dseq = append(w.dseq, d.(string))
		w.names[revName(d.(string))] = d.(string)
	}
	for t, d := range init["reg"].(map[string]any) {
		w.reg[t] = d.(string)
	}
	w.withFin, _ = init["withFin"].(bool)
	ip := init["pkg"].(map[string]any)
	p := newPkg()
	p.SetName(pkgName)
	p.SetSource(source(ip["src"].(string)))
	if l := int64(ip["limit"].(float64)); l >= 0 {
		p.SetRevisionHistoryLimit(ptr.To(l))
	}
	pp := corev1.PullPolicy(ip["pull"].(string))
	p.SetPackagePullPolicy(&pp)
	pu := s.Put(p)
	// pre-existing revisions controlled by a foreign owner (C02 placement)
	if fs, ok := init["foreign"].([]any); ok {
		for _, f := range fs {
			r := newRev()
			r.SetName(revName(f.(string)))
			r.SetLabels(map[string]string{pkgv1.LabelParentPackage: pkgName})
			r.SetOwnerReferences([]metav1.OwnerReference{{APIVersion: "pkg.crossplane.io/v1", Kind: pkgKind, Name: "other", UID: "foreign-uid", Controller: ptr.To(true)}})
			r.SetRevision(1)
			r.SetDesiredState(pkgv1.PackageRevisionInactive)
			if a, _ := init["foreignAct"].(bool); a {
				r.SetDesiredState(pkgv1.PackageRevisionActive)
			}
			r.SetSource(repo + "@sha256:" + hexOf(f.(string)))
			s.Put(r)
		}
	}
	_ = pu
	mgr := &fakes.Manager{Client: c, Sch: sch}
	w.rec = manager.NewReconciler(mgr,
		manager.WithNewPackageFn(newPkg),
		manager.WithNewPackageRevisionFn(newRev),
		manager.WithNewPackageRevisionListFn(newRevList),
		manager.WithRevisioner(manager.NewPackageRevisioner(&fetcher{w: w})),
		manager.WithConfigStore(xpkg.NewImageConfigStore(c, "crossplane-system")),
	)
	c.Intercept = func(cl *simapi.Call) simapi.Decision {
		if w.al == nil {
			return simapi.Proceed
		}
		return w.al.OnCall(w.classify(cl), cl.Write)
	}
	s.OnEvent = w.onEvent
	return w
}

// sweep: inject at a concrete real call index
type sweep struct {
	rec, idx int
	d        simapi.Decision
}

func (w *world) reconcile(al *replay.Aligner, sw *sweep) (calls int) {
	w.recNo++
	w.al = al
	w.seen = map[string]any{}
	w.quiet = true
	w.c.BeginReconcile()
	if sw != nil && sw.rec == w.recNo {
		inner := w.c.Intercept
		w.c.Intercept = func(cl *simapi.Call) simapi.Decision {
			d := inner(cl)
			if cl.Idx == sw.idx && d == simapi.Proceed {
				al.Injected = sw.d.String()
				if sw.d == simapi.FailConflict && !cl.Write {
					return simapi.FailError
				}
				return sw.d
			}
			return d
		}
		defer func() { w.c.Intercept = inner }()
	}
	w.emit("start", nil)
	_, err := w.rec.Reconcile(context.Background(), reconcile.Request{NamespacedName: types.NamespacedName{Name: pkgName}})
	calls = w.c.Calls()
	al.Finish()
	if w.withFin {
		// the revision controller adds its finalizer to new revisions
		for _, r := range w.s.All(simapi.Key{Group: "pkg.crossplane.io", Kind: revKind()}.GK()) {
			if r.GetDeletionTimestamp() == nil && len(r.GetFinalizers()) == 0 {
				w.s.Mutate(simapi.KeyOf(r), func(u *unstructured.Unstructured) { u.SetFinalizers([]string{"revision.pkg.crossplane.io"}) })
			}
		}
	}
	res := "ok"
	if w.c.Dead() {
		res = "crashed"
	} else if err != nil {
		res = "error"
	}
	faulty := al.Injected != ""
	w.emit("end", map[string]any{"result": res, "quiet": w.quiet && al.EnvSteps == 0, "faulty": faulty})
	w.al = nil
	return calls
}

type summary struct {
	Scenarios   int            `json:"scenarios"`
	Runs        int            `json:"runs"`
	Reconciles  int            `json:"reconciles"`
	Events      int            `json:"events"`
	Drift       int            `json:"drift"`
	DriftRuns   int            `json:"drift_runs"`
	SweepRuns   int            `json:"sweep_runs"`
	Counts      map[string]int `json:"counts"`
	Samples     []any          `json:"samples"`
	DriftByAbs  map[string]int `json:"drift_by_abs"`
}

func run(tw *trace.Writer, id string, hist []replay.Entry, variant simapi.Decision, sw *sweep, extra int, sum *summary) []int {
	tw.Boundary()
	w := newWorld(tw, id, hist[0].Raw)
	w.emit("reset", nil)
	blocks, trailing := replay.Split(hist[1:], func(e replay.Entry) bool { return e.Abs() == "get:pkg" })
	var calls []int
	drift := 0
	for _, b := range blocks {
		for _, e := range b.Pre {
			w.env(e)
		}
		al := &replay.Aligner{Steps: b.Steps, Variant: variant, Env: w.env}
		calls = append(calls, w.reconcile(al, sw))
		if sw == nil {
			drift += al.Drift
			for _, k := range al.DriftAbs {
				sum.DriftByAbs[k]++
			}
		}
		sum.Reconciles++
	}
	for _, e := range trailing {
		w.env(e)
	}
	for i := 0; i < extra; i++ {
		al := &replay.Aligner{Variant: variant, Env: w.env}
		calls = append(calls, w.reconcile(al, sw))
		sum.Reconciles++
	}
	sum.Runs++
	sum.Drift += drift
	if drift > 0 {
		sum.DriftRuns++
	}
	return calls
}

func main() {
	scenarios := flag.String("scenarios", "", "NDJSON file of TLC histories")
	tracePath := flag.String("trace", "", "output trace")
	sumPath := flag.String("summary", "", "output summary JSON")
	variants := flag.String("variants", "rotate", "rotate|all: how a model 'fail' is realised (error, conflict, crashBefore)")
	chunk := flag.Int("chunk", 0, "split the trace into files of about this many events")
	sweepN := flag.Int("sweep", 0, "number of scenarios to sweep over every real call index x outcome")
	flag.Parse()

	raws, err := scen.Load(*scenarios)
	if err != nil {
		fmt.Fprintln(os.Stderr, err)
		os.Exit(2)
	}
	tw, err := trace.New(*tracePath, *chunk)
	if err != nil {
		fmt.Fprintln(os.Stderr, err)
		os.Exit(2)
	}
	sum := &summary{DriftByAbs: map[string]int{}}
	fails := []simapi.Decision{simapi.FailError, simapi.FailConflict, simapi.CrashBefore}
	for i, raw := range raws {
		var sc struct {
			ID      string          `json:"id"`
			Hist    json.RawMessage `json:"hist"`
			Variant string          `json:"variant"`
			Extra   int             `json:"extra"`
			Sweep   *struct {
				Rec     int    `json:"rec"`
				Idx     int    `json:"idx"`
				Outcome string `json:"outcome"`
			} `json:"sweep"`
		}
		if err := json.Unmarshal(raw, &sc); err != nil {
			fmt.Fprintln(os.Stderr, "bad scenario:", err)
			os.Exit(2)
		}
		hist, err := replay.Parse(sc.Hist)
		if err != nil || len(hist) == 0 || hist[0].T != "init" {
			fmt.Fprintln(os.Stderr, "bad scenario history:", err)
			os.Exit(2)
		}
		sum.Scenarios++
		dec := map[string]simapi.Decision{"error": simapi.FailError, "conflict": simapi.FailConflict, "crashBefore": simapi.CrashBefore, "crashAfter": simapi.CrashAfter}
		if sc.Variant != "" || sc.Sweep != nil {
			// a replay file: run exactly what it says
			v := simapi.FailError
			if sc.Variant != "" {
				v = dec[sc.Variant]
			}
			var sw *sweep
			if sc.Sweep != nil {
				sw = &sweep{rec: sc.Sweep.Rec, idx: sc.Sweep.Idx, d: dec[sc.Sweep.Outcome]}
			}
			run(tw, sc.ID, hist, v, sw, sc.Extra, sum)
			continue
		}
		hasFail := false
		for _, e := range hist {
			if e.F == "fail" {
				hasFail = true
			}
		}
		vs := []simapi.Decision{fails[i%3]}
		if hasFail && *variants != "" {
			// a failure is delivered in every form: an error value, a Conflict (which code may be tempted to swallow
			// or retry) and a dead process - rotating them left (call, form) pairs to chance
			vs = fails
		}
		for _, v := range vs {
			id := sc.ID
			if hasFail {
				id += "/" + v.String()
			}
			calls := run(tw, id, hist, v, nil, 0, sum)
			if i < *sweepN && v == vs[0] {
				// every real call index of every reconcile x every outcome, followed by two fault-free reconciles
				for r, n := range calls {
					for k := 1; k <= n; k++ {
						for _, d := range []simapi.Decision{simapi.FailError, simapi.FailConflict, simapi.CrashBefore, simapi.CrashAfter} {
							run(tw, fmt.Sprintf("%s/sweep-r%d-k%d-%s", sc.ID, r+1, k, d), hist, v, &sweep{rec: r + 1, idx: k, d: d}, 2, sum)
							sum.SweepRuns++
						}
					}
				}
			}
		}
		if len(sum.Samples) < 2 {
			sum.Samples = append(sum.Samples, json.RawMessage(raw))
		}
	}
	sum.Events = tw.Lines
	sum.Counts = tw.Counts
	if err := tw.Close(); err != nil {
		fmt.Fprintln(os.Stderr, err)
		os.Exit(2)
	}
	keys := make([]string, 0, len(sum.Counts))
	for k := range sum.Counts {
		keys = append(keys, k)
	}
	sort.Strings(keys)
	if err := scen.WriteJSON(*sumPath, sum); err != nil {
		fmt.Fprintln(os.Stderr, err)
		os.Exit(2)
	}
}
