---------------------------- MODULE ClaimLifecycle ----------------------------
(***************************************************************************)
(* X06 - the life cycle of a composite resource claim: the control flow of *)
(* claim.Reconciler.Reconcile                                              *)
(* (internal/controller/apiextensions/claim/reconciler.go) that Claim.tla  *)
(* (C06: binding), FieldPartition.tla (C07), ConnSecrets.tla (C09),        *)
(* Teardown.tla (C08) and Conditions.tla (C05) leave out: the pause        *)
(* annotation, what every exit writes (Synced / Ready and their reasons,   *)
(* events, requeue decisions), the finalizer, the deletion path with       *)
(* compositeDeletePolicy Background / Foreground, the conditions mirrored  *)
(* from the XR (status.claimConditionTypes), "waiting for the XR", the     *)
(* XR-bound-to-someone-else exit, lastPublishedTime, a referenced XR that  *)
(* does not exist.  The reconciler is the one offered.Reconciler hands to  *)
(* engine.Start: rate limiter, silent requeue on conflict, and             *)
(*   feature flag EnableBetaClaimSSA off: ClientSideCompositeSyncer +      *)
(*        NopManagedFieldsUpgrader             (Syncer = "CSA")            *)
(*   on : ServerSideCompositeSyncer + PatchingManagedFieldsUpgrader        *)
(*                                             (Syncer = "SSA")            *)
(*   APIConnectionPropagator, NopConnectionUnpublisher, APIFinalizer; the  *)
(*   default compositeDeletePolicy is the XRD's defaultCompositeDelete-    *)
(*   Policy rendered into the claim CRD as a schema default (no policy =   *)
(*   Background in the reconciler).                                        *)
(*                                                                         *)
(* One action per API call in code order.  The reconciler's copy of the    *)
(* claim (rc.loc), whether that copy is outdated (rc.stale: every write of *)
(* the claim carries the resourceVersion read and is then refused), its    *)
(* copy of the XR (rc.sx) are explicit.  Every call may fail as an error   *)
(* value, a Conflict (writes), a cache miss (Gets of an object the cache   *)
(* of this process has not served yet), a dead process before / after the  *)
(* effect.  The environment acts between and in the middle of reconciles:  *)
(* the user pauses / unpauses / edits / deletes the claim; the XR          *)
(* controller makes the XR ready / unready, sets a custom condition for    *)
(* the claim, stops listing it, rotates the connection secret, finalizes a *)
(* deleted XR; a third party deletes the XR or binds it to another claim.  *)
(*                                                                         *)
(* What the code's authors evidently intend (each clause checked against   *)
(* code and comments; MonClaimLifecycle.tla judges the real code with      *)
(* these, the model is checked against them at design level):              *)
(*                                                                         *)
(*  P1 Paused ("Reconciliation (including deletion) is paused via the      *)
(*     pause annotation").  A reconcile that read a paused claim makes one *)
(*     call, the status write Synced=False/ReconcilePaused, records        *)
(*     Normal/ReconciliationPaused and is not requeued (an error is        *)
(*     returned if that write fails).  No write but a status write reaches *)
(*     a claim that is paused in the store (every claim write carries the  *)
(*     resourceVersion read).  Once the annotation is removed (or is not   *)
(*     "true") a reconcile runs to the end.  NOT promised: that a          *)
(*     reconcile which read the claim before it was paused leaves the XR   *)
(*     alone (the forced apply / Delete of the XR carry no precondition on *)
(*     the claim).                                                         *)
(*  P2 Exits.  Synced=True/ReconcileSuccess is written only by a reconcile *)
(*     whose syncer returned nil (or by the deletion path after the        *)
(*     finalizer is off).  Every other status write of a live, unpaused    *)
(*     claim says Synced=False/ReconcileError with the message of the step *)
(*     that failed (get XR, not bound, upgrade managed fields, delete XR,  *)
(*     remove / add finalizer, sync, propagate), a Warning event is        *)
(*     recorded (reason BindCompositeResource / DeleteCompositeResource /  *)
(*     PropagateConnectionSecret) and the reconcile is requeued - except   *)
(*     "not bound to this claim" (needs a human: no requeue).  A Conflict  *)
(*     from the upgrader, AddFinalizer or the syncer ends the reconcile    *)
(*     silently with Requeue.  A success is not requeued (watches).        *)
(*  P3 Finalizer.  An XR is created or bound only while the stored claim   *)
(*     carries the finalizer.  The finalizer leaves only a claim that is   *)
(*     being deleted, and only when, in this reconcile, the claim has no   *)
(*     resourceRef, or the XR was not found, or (policy not Foreground)    *)
(*     Delete(XR) was accepted or answered NotFound.  With Foreground the  *)
(*     reconcile that issues the Delete ends without a status write and    *)
(*     with Requeue; while the XR is still there it writes                 *)
(*     Ready=False/Deleting and requeues.  Stated on the store: when the   *)
(*     finalizer goes, the XR is gone, or (not Foreground) being deleted.  *)
(*     The real code breaks this when its cached Get of the XR misses      *)
(*     (finding F-b below).  Every status write that follows an error says *)
(*     so until a fault-free reconcile clears it - not so while waiting    *)
(*     for a foreground deletion (finding F-c below).                      *)
(*  P4 Deleting.  A reconcile that read a deleting claim never syncs: it   *)
(*     writes the XR only by Delete and the claim only by removing the     *)
(*     finalizer and by status writes, which say Ready=False/Deleting      *)
(*     (the branch starts with SetConditions(Deleting())).  The code lost  *)
(*     that condition in the reconcile that removes the finalizer          *)
(*     (finding F-a below, repaired).  A claim whose XR is bound to another *)
(*     is not deleted at all (the "not bound" exit comes first: "the claim *)
(*     will need human intervention").                                     *)
(*  P5 Ready.  Ready=True/Available is written only by a reconcile whose   *)
(*     syncer returned an XR with Ready=True and whose propagator did not  *)
(*     fail; with any other XR Ready state a synced claim says             *)
(*     Ready=False/Waiting, records "not yet ready" and is not requeued.   *)
(*  P6 Custom conditions.  After a successful sync every type the XR lists *)
(*     in status.claimConditionTypes is on the claim with the XR's status  *)
(*     and reason; a condition of the XR that is not listed is never       *)
(*     copied; custom types on the claim are types the XR listed at some   *)
(*     time.  NOT promised by the code (dropped, counted as observations): *)
(*     a type the XR stops listing stays on the claim with its last value  *)
(*     (O2; the XR controller itself never shortens the list); a system    *)
(*     type (Synced) listed by someone with write access to the XR's       *)
(*     status is copied over the claim's own Synced (O3; the guard is      *)
(*     SetClaimConditionTypes on the XR side).                             *)
(*  P7 Connection.  status.connectionDetails.lastPublishedTime changes     *)
(*     exactly when the propagator reports propagated = true (the claim's  *)
(*     secret was created or its data changed), together with a            *)
(*     Normal/PropagateConnectionSecret event.                             *)
(*  P8 Missing XR.  A claim whose resourceRef names an XR that does not    *)
(*     exist (yet / any more) gets that XR (re)created under the SAME      *)
(*     name; the reference is never changed once set.                      *)
(*  P9 Repair.  Whatever faults happened, a fault-free reconcile in a      *)
(*     quiet environment leaves what the environment permits: paused ->    *)
(*     ReconcilePaused; XR bound to another claim -> Synced=False, XR      *)
(*     untouched; deleting -> XR deleted and finalizer off (Foreground:    *)
(*     XR being deleted, finalizer on until it is gone); else finalizer    *)
(*     on, XR exists and is bound, spec propagated, Synced=True, Ready     *)
(*     mirrors the XR, custom conditions mirror the XR, secret propagated. *)
(*     A third fault-free reconcile changes no object (the second one of   *)
(*     the server-side syncer still drops metadata.generateName from the   *)
(*     XR it created).                                                     *)
(*                                                                         *)
(* Found on the tree as it was on 2026-10-04, all three also visible at     *)
(* design level (witness cfgs: DeletingTruth with FixDeleting = FALSE,     *)
(* NoOrphan, NoStaleError with the code as written; the `fixed` cfgs       *)
(* satisfy everything).  F-a = D25 has been REPAIRED in /repo (835e9e0:    *)
(* Deleting is set again before the last status write): the quick and      *)
(* thorough cfgs describe the repaired code (FixDeleting = TRUE) and check *)
(* DeletingTruth; witness_deleting keeps FALSE; the formula stays as a     *)
(* plain formula and the revert of 835e9e0 is a mutant of the self-test.   *)
(* F-b = D26 and F-c = D27 are open known findings.                        *)
(*  F-a (formula Deleting.Condition.AfterFinalizerRemoval): the twin of    *)
(*     D16.  RemoveFinalizer's Update decodes the API server's answer into *)
(*     the claim and drops the Deleting condition set in memory; the       *)
(*     status write that follows says Synced=True only.  A claim that      *)
(*     outlives our finalizer (another finalizer, e.g. foregroundDeletion  *)
(*     or a protection finalizer) keeps Ready=True/Available while it is   *)
(*     being deleted and its XR is already gone / going, until the next    *)
(*     reconcile.  FixDeleting = TRUE models the repair (set the condition *)
(*     again before the last status write).                                *)
(*  F-b (formulas Finalizer.XRFirst.CacheMiss, Repair.Orphan.CacheMiss):   *)
(*     the deletion branch trusts the cached Get of the XR: NotFound means *)
(*     "nothing to delete".  If the informer has not delivered the XR yet  *)
(*     (claim created, XR created by the first reconcile, claim deleted at *)
(*     once; or a restarted pod) the finalizer is removed, the claim       *)
(*     disappears and the XR - cluster scoped, no owner reference - stays  *)
(*     for ever, bound to a claim that no longer exists.  The syncers      *)
(*     guard against exactly this stale read ("just in case the XR exists, *)
(*     but we couldn't get it due to a stale cache"), the deletion branch  *)
(*     does not.  FixMiss = TRUE models a repair (Delete by name whenever  *)
(*     the claim has a resourceRef: the API server answers).               *)
(*  F-c (formula Repair.Foreground.StaleError): the exit "waiting for the  *)
(*     XR to finish deleting (foreground deletion)" writes Ready=False/    *)
(*     Deleting and leaves Synced alone.  A Synced=False/ReconcileError of *)
(*     an earlier reconcile (a failed Get or Delete of the XR that has     *)
(*     long succeeded since) stays on the claim for as long as the XR      *)
(*     takes to go away, although every reconcile since ran without error: *)
(*     P2's "a later fault-free reconcile clears it" does not hold on this *)
(*     exit.  FixStale = TRUE models the repair (replace a Synced=False by *)
(*     ReconcileSuccess there; the unedited unit tests pin that a claim    *)
(*     WITHOUT a Synced condition gets none on this exit).                 *)
(* The three candidate repairs were applied to scratch copies through a    *)
(* build overlay (checks/x06_selftest.py --fixes): every finding           *)
(* disappears, no formula fires, the claim package's unedited unit tests   *)
(* pass.                                                                   *)
(* Observations (not judged): O1 a successful Background deletion of a     *)
(* claim without other finalizers returns an error (the last status write  *)
(* is answered NotFound) and is requeued with back-off; O2, O3 above; O4 a *)
(* reconcile whose cached Get missed an XR that is bound to ANOTHER claim  *)
(* goes on to sync (C06's quantifier: XR reads are fresh); O5 while an     *)
(* error of the propagator persists, Synced flips Success -> Error in      *)
(* memory in every reconcile, so its lastTransitionTime moves (and the     *)
(* status is rewritten) whenever the clock's second has changed; O6 on an  *)
(* error exit the claim keeps the Ready condition of an earlier reconcile  *)
(* (Ready=True next to Synced=False) - asserted is only that Ready BECOMES *)
(* True with a ready XR.                                                   *)
(*                                                                         *)
(* Measured (16 cores): quick cfgs 5.8k-19.5k states each (8 cfgs, 112k    *)
(* states, 101k scenarios, ~2 s each); thorough 626k / 544k (3 reconciles, *)
(* every environment step, all faults), 81k / 108k (two faults), 162k /    *)
(* 201k (3 environment steps); drift ~30 calls in 2000 model runs (a no-op *)
(* merge patch of the client-side syncer the model does not predict).      *)
(* Model corrections made while binding (none weakened a formula): the     *)
(* client-side syncer's merge patch carries the resourceVersion of the     *)
(* reconciler's own Get, not of the applicator's; it patches whenever the  *)
(* XR has spec fields the claim lacks; the propagator writes the data it   *)
(* read, not the data at the time of the write; a write does not fill the  *)
(* informer cache; failure kinds that continue alike stay apart in the     *)
(* state (VIEW hides hist) so that each reaches the emitted scenarios.     *)
(* Monitor corrections: Ready.Truth judges Ready BECOMING True (O6); a     *)
(* cache miss answered NotFound is not a failed call; Quiescent.Claim      *)
(* speaks of live claims (a deletion takes Delete, then the Deleting       *)
(* status); Conn.Secret compares with the data read.  Environment          *)
(* corrections of the driver: an XR that is gone takes its connection      *)
(* secret with it (garbage collection); rotated secret data is base64.     *)
(***************************************************************************)
EXTENDS Integers, Sequences, FiniteSets, TLC

CONSTANTS
  Syncer,      \* "CSA" | "SSA"
  Pres,        \* initial placements: subset of {"fresh", "missing", "other", "unbound", "mine"}
  Cdps,        \* compositeDeletePolicy on the claim: subset of {"none", "Background", "Foreground"}
  Xdefs,       \* the XRD's defaultCompositeDeletePolicy: subset of {"none", "Background", "Foreground"}
  Ofins,       \* BOOLEANs: the claim carries another finalizer (it outlives the removal of ours)
  Rdys,        \* Ready state of the XR of placement "mine": subset of {"none", "F", "T"}
  Conn,        \* the claim asks for a connection secret and a ready XR publishes one
  MaxRecs, MaxFaults, MaxEnv,
  MidEnv,      \* TRUE: the environment also acts in the middle of a reconcile
  EnvKinds,    \* enabled environment steps
  FaultKinds,  \* subset of {"error", "conflict", "miss", "crashBefore", "crashAfter"}
  FinFirst,    \* TRUE = as written; FALSE = witness: AddFinalizer is skipped
  RvCheck,     \* TRUE = claim writes carry the resourceVersion read; FALSE = witness
  FixDeleting, \* TRUE = as written since 835e9e0 (Deleting is set again before the last status write); FALSE = before (F-a)
  FixMiss,     \* FALSE = as written (F-b); TRUE = the deletion branch deletes by name whenever the claim has a reference
  FixStale     \* FALSE = as written (F-c); TRUE = waiting for the foreground deletion replaces a Synced=False left behind

None == "none"
Names == {"p", "x1"}

VARIABLES
  cm,      \* the claim in the store
  xr,      \* name -> XR
  sv,      \* version of the XR's connection secret data
  csec,    \* the claim's connection secret: [ex, data]
  cdp,     \* the claim's effective delete policy (after API server defaulting)
  cache,   \* XR names the cache of the running process has served
  rc,      \* the reconcile in flight
  recs, faults, envs,
  bad,     \* ghost: names of violated step properties
  quiet,   \* ghost: neither fault nor environment step since this reconcile started
  clean,   \* ghost: the last reconcile ran to its end, fault-free, in a quiet environment
  hist

vars == <<cm, xr, sv, csec, cdp, cache, rc, recs, faults, envs, bad, quiet, clean, hist>>
view == <<cm, xr, sv, csec, cdp, cache, rc, recs, faults, envs, bad, quiet, clean>>

(* claim: sy Synced in {none, ok, paused, e:<step>}; rd Ready in {none, avail, waiting, deleting}; cc the custom     *)
(* condition as copied (none, v1, v2); pub number of publications (capped); gen version of the user's spec.          *)
GoneCm == [ex |-> FALSE, del |-> FALSE, paused |-> FALSE, fin |-> FALSE, ofin |-> FALSE, ref |-> None,
           sy |-> None, rd |-> None, cc |-> None, pub |-> 0, gen |-> 0]
(* XR: cref in {this, other, none}; fin the XR controller's finalizer; fgf foregroundDeletion; rdy in {none, F, T}; *)
(* cv custom condition value; lst it is listed for the claim; conn it has a connection secret; gen the spec copied; *)
(* mf managed fields as the upgrader sees them (legacy -> empty -> both -> ssa; "na" with the client-side syncer).  *)
NoXR == [ex |-> FALSE, del |-> FALSE, cref |-> None, fin |-> FALSE, fgf |-> FALSE, rdy |-> None, cv |-> None, lst |-> FALSE,
         conn |-> FALSE, gen |-> 0, mf |-> "na"]
NoLoc == [del |-> FALSE, paused |-> FALSE, fin |-> FALSE, ref |-> None, sy |-> None, rd |-> None, cc |-> None, pub |-> 0, gen |-> 0]
Copy(c) == [del |-> c.del, paused |-> c.paused, fin |-> c.fin, ref |-> c.ref, sy |-> c.sy, rd |-> c.rd, cc |-> c.cc, pub |-> c.pub, gen |-> c.gen]
(* rc: pc; loc the claim copy; stale; name of the XR operated on; sx the XR copy; xstale; exit the kind of exit the  *)
(* status write belongs to; synced the syncer returned nil; missed the Get of the XR was a cache miss; delok Delete  *)
(* was accepted / NotFound; xrv the XR copy of the reconciler's own Get carries a resourceVersion;               *)
(* rsv the version of the XR's secret data the propagator read                                                       *)
Idle == [pc |-> "idle", loc |-> NoLoc, stale |-> FALSE, name |-> None, sx |-> NoXR, xstale |-> FALSE, exit |-> "",
         synced |-> FALSE, missed |-> FALSE, delok |-> FALSE, xrv |-> FALSE, rsv |-> 0]

Fg == cdp = "Foreground"
H(t, k, o, f) == [t |-> t, k |-> k, o |-> o, f |-> f]
Log(e) == hist' = Append(hist, e)

InitXR(pre, r) ==
  CASE pre = "other" -> [NoXR EXCEPT !.ex = TRUE, !.cref = "other", !.mf = IF Syncer = "SSA" THEN "ssa" ELSE "na"]
    [] pre = "unbound" -> [NoXR EXCEPT !.ex = TRUE, !.mf = IF Syncer = "SSA" THEN "legacy" ELSE "na"]
    [] pre = "mine" -> [NoXR EXCEPT !.ex = TRUE, !.cref = "this", !.mf = IF Syncer = "SSA" THEN "ssa" ELSE "na",
                                    !.fin = (r # None), !.rdy = r, !.conn = (Conn /\ r = "T")]
    [] OTHER -> NoXR

Init ==
  \E pre \in Pres, p \in Cdps, d \in Xdefs, o \in Ofins, r \in Rdys :
    /\ (pre # "mine" => r = None)
    /\ cm = [GoneCm EXCEPT !.ex = TRUE, !.ofin = o, !.fin = (pre = "mine"), !.ref = IF pre = "fresh" THEN None ELSE "p"]
    /\ xr = [x \in Names |-> IF x = "p" THEN InitXR(pre, r) ELSE NoXR]
    /\ cdp = (IF p # None THEN p ELSE d)
    /\ sv = 0 /\ csec = [ex |-> FALSE, data |-> 0] /\ cache = {}
    /\ rc = Idle /\ recs = 0 /\ faults = 0 /\ envs = 0 /\ bad = {} /\ quiet = FALSE /\ clean = FALSE
    /\ hist = << [t |-> "init", syncer |-> Syncer, pre |-> pre, cdp |-> p, xdef |-> d, ofin |-> o, conn |-> Conn,
                  rdy |-> (IF r = "T" THEN "True" ELSE IF r = "F" THEN "False" ELSE "none")] >>

----------------------------------------------------------------------------
(* Environment                                                             *)
InRec == rc.pc # "idle"
EnvOK(k) == k \in EnvKinds /\ envs < MaxEnv /\ (MidEnv \/ ~InRec)
EnvDone == /\ envs' = envs + 1 /\ quiet' = FALSE /\ clean' = FALSE
           /\ UNCHANGED <<recs, faults, bad, cdp, cache>>
\* the claim's resourceVersion moved: the reconciler's copy is outdated
ClaimEnv(k, nc) == /\ EnvOK(k) /\ cm.ex /\ cm' = nc /\ Log(H("env", k, "", ""))
                   /\ rc' = (IF InRec THEN [rc EXCEPT !.stale = TRUE] ELSE rc)
                   /\ UNCHANGED <<xr, sv, csec>> /\ EnvDone
Pause == ~cm.paused /\ ClaimEnv("pause", [cm EXCEPT !.paused = TRUE])
Unpause == cm.paused /\ ClaimEnv("unpause", [cm EXCEPT !.paused = FALSE])
Edit == ~cm.del /\ cm.gen < 1 /\ ClaimEnv("edit", [cm EXCEPT !.gen = @ + 1])
DelClaim == ~cm.del /\ ClaimEnv("delclaim", IF cm.fin \/ cm.ofin THEN [cm EXCEPT !.del = TRUE] ELSE GoneCm)

\* the XR the environment plays with: the one the claim references
Focus == IF cm.ex THEN cm.ref ELSE None
XrEnv(k, x, f, nx) == /\ EnvOK(k) /\ xr[x].ex /\ nx # xr[x] /\ xr' = [xr EXCEPT ![x] = nx] /\ Log(H("env", k, x, f))
                      /\ rc' = (IF InRec /\ rc.name = x THEN [rc EXCEPT !.xstale = TRUE] ELSE rc)
                      /\ UNCHANGED <<cm, csec>> /\ EnvDone
Mine(x) == x # None /\ x = Focus /\ xr[x].ex /\ xr[x].cref = "this"
XrReady == \E x \in Names : Mine(x) /\ ~xr[x].del
              /\ XrEnv("xrready", x, "", [xr[x] EXCEPT !.fin = TRUE, !.rdy = "T", !.conn = Conn]) /\ UNCHANGED sv
XrUnready == \E x \in Names : Mine(x) /\ ~xr[x].del
              /\ XrEnv("xrunready", x, "", [xr[x] EXCEPT !.fin = TRUE, !.rdy = "F"]) /\ UNCHANGED sv
XrCond == \E x \in Names, v \in {"v1", "v2"} : Mine(x)
              /\ XrEnv("xrcond", x, v, [xr[x] EXCEPT !.cv = v, !.lst = TRUE]) /\ UNCHANGED sv
XrUnlist == \E x \in Names : Mine(x) /\ xr[x].lst
              /\ XrEnv("xrunlist", x, "", [xr[x] EXCEPT !.lst = FALSE]) /\ UNCHANGED sv
DelXR == \E x \in Names : x # None /\ x = Focus /\ xr[x].cref # "other" /\ ~xr[x].del
              /\ XrEnv("delxr", x, "", IF xr[x].fin \/ xr[x].fgf THEN [xr[x] EXCEPT !.del = TRUE] ELSE NoXR) /\ UNCHANGED sv
XrFinalize == \E x \in Names : xr[x].ex /\ xr[x].del /\ xr[x].cref # "other"
              /\ XrEnv("xrfinalize", x, "", NoXR) /\ UNCHANGED sv
\* (only between reconciles: a re-pointing between a reconcile's read of the XR and its unconditional Delete / forced
\*  apply cannot be noticed by any claim controller - C06's subject)
Rebind == \E x \in Names : ~InRec /\ Mine(x) /\ ~xr[x].del
              /\ XrEnv("rebind", x, "", [xr[x] EXCEPT !.cref = "other"]) /\ UNCHANGED sv
Rotate == /\ EnvOK("rotate") /\ Conn /\ sv < 1 /\ \E x \in Names : Mine(x) /\ xr[x].conn
          /\ sv' = sv + 1 /\ Log(H("env", "rotate", "", "")) /\ UNCHANGED <<cm, xr, csec, rc>> /\ EnvDone
Env == Pause \/ Unpause \/ Edit \/ DelClaim \/ XrReady \/ XrUnready \/ XrCond \/ XrUnlist \/ DelXR \/ XrFinalize \/ Rebind \/ Rotate

----------------------------------------------------------------------------
(* Reconcile plumbing                                                      *)
CanFault(f) == f \in FaultKinds /\ faults < MaxFaults
Ok(k, o) == Log(H("call", k, o, "ok")) /\ UNCHANGED faults
Flt(k, o, f) == CanFault(f) /\ faults' = faults + 1 /\ Log(H("call", k, o, f)) /\ quiet' = FALSE
Keep == UNCHANGED <<recs, quiet, clean>>
KeepF == UNCHANGED <<recs, clean>>
\* the reconcile ends; a dead process loses its cache
Ended(ok) == rc' = Idle /\ recs' = recs + 1 /\ clean' = (ok /\ quiet')
Died == Ended(FALSE) /\ cache' = {}
Alive == UNCHANGED cache
Others == UNCHANGED <<envs, cdp>>
\* the reconcile goes on to write Synced=False for step s (the conditions set in memory so far stay)
ToErr(s) == rc' = [rc EXCEPT !.pc = "status", !.exit = "error", !.loc.sy = "e:" \o s]
\* (where two kinds of failure continue the same way the kind stays part of the state until the reconcile ends: the
\*  view hides hist, and each kind has to reach the emitted scenarios)
ToErrK(s, f) == rc' = [rc EXCEPT !.pc = "status", !.exit = "error:" \o f, !.loc.sy = "e:" \o s]

\* a write of the claim is refused when the claim is gone (NotFound) or its resourceVersion moved (Conflict)
WOut == IF ~cm.ex THEN "notfound" ELSE IF RvCheck /\ rc.stale THEN "conflict" ELSE "ok"
\* Update of the main resource: metadata and spec are written; the reply replaces the in-memory copy, status included
MainLoc(nc) == Copy(nc)
\* Update of the status subresource: the reply replaces the in-memory copy, metadata and spec included
StatusOf(l) == [cm EXCEPT !.sy = l.sy, !.rd = l.rd, !.cc = l.cc, !.pub = l.pub]

IsErr(sy) == sy \notin {None, "ok", "paused"}
\* ---- ghosts
NoteClaimWrite(what, nc) ==
  bad' = bad \cup (IF cm.paused THEN {"PausedWrite"} ELSE {})
             \cup (IF what = "rmfin" /\ ~cm.del THEN {"FinKept"} ELSE {})
             \cup (IF what = "rmfin" /\ rc.loc.ref # None /\ xr[rc.loc.ref].ex /\ xr[rc.loc.ref].cref # "other" /\ ~(xr[rc.loc.ref].del /\ ~Fg)
                   THEN {IF rc.missed THEN "Orphan" ELSE "XRFirst"} ELSE {})
             \cup (IF nc.ex /\ cm.ref # None /\ nc.ref # cm.ref THEN {"RefChanged"} ELSE {})
             \cup (IF rc.loc.del /\ what \notin {"rmfin"} THEN {"DeletingWrite"} ELSE {})
NoteXrWrite(what, x) ==
  bad' = bad \cup (IF rc.loc.paused THEN {"PausedXR"} ELSE {})
             \cup (IF what # "delete" /\ cm.ex /\ ~cm.fin THEN {"FinBeforeXR"} ELSE {})
             \cup (IF what # "delete" /\ rc.loc.del THEN {"DeletingSync"} ELSE {})
             \cup (IF what = "delete" /\ ~rc.loc.del THEN {"LiveDelete"} ELSE {})
             \cup (IF what \in {"create", "apply"} /\ cm.ex /\ cm.ref # x THEN {"RefFirst"} ELSE {})
NoteStatus(l) ==
  bad' = bad \cup (IF l.sy = "ok" /\ ~(rc.synced \/ rc.loc.del) THEN {"SyncedLie"} ELSE {})
             \cup (IF l.rd = "avail" /\ cm.rd # "avail" /\ ~(rc.synced /\ rc.sx.rdy = "T") THEN {"ReadyLie"} ELSE {})
             \cup (IF rc.loc.paused /\ l.sy # "paused" THEN {"PausedStatus"} ELSE {})
             \cup (IF rc.exit \in {"deleted", "fgwait"} /\ l.rd # "deleting" THEN {"DeletingLie"} ELSE {})
             \cup (IF rc.synced /\ rc.exit \in {"waiting", "done"} /\ rc.sx.lst /\ l.cc # rc.sx.cv THEN {"CustomLie"} ELSE {})
             \cup (IF l.pub # cm.pub /\ rc.exit # "done" THEN {"PubLie"} ELSE {})
             \cup (IF rc.exit = "fgwait" /\ IsErr(l.sy) THEN {"StaleError"} ELSE {})

----------------------------------------------------------------------------
(* where the reconcile goes (the code between two API calls)               *)
Go(p) == [rc EXCEPT !.pc = p]
\* the deletion branch, after the XR has been dealt with: UnpublishConnection is a no-op, then RemoveFinalizer
GoRmFin(r) == IF r.loc.fin THEN [r EXCEPT !.pc = "rmfin"]
              ELSE [r EXCEPT !.pc = "status", !.exit = "deleted", !.loc.sy = "ok"]
GoDelete(r) ==
  LET d == [r EXCEPT !.loc.rd = "deleting"] IN
  IF d.sx.ex THEN (IF d.sx.del /\ Fg THEN [d EXCEPT !.pc = "status", !.exit = "fgwait", !.loc.sy = IF FixStale /\ IsErr(@) THEN "ok" ELSE @]
                   ELSE [d EXCEPT !.pc = "delxr"])
  ELSE IF FixMiss /\ d.loc.ref # None THEN [d EXCEPT !.pc = "delxr"]
  ELSE GoRmFin(d)
GoSync(r) == IF r.loc.ref = None THEN [r EXCEPT !.pc = "gen", !.name = "x1"]
             ELSE IF Syncer = "SSA" THEN [r EXCEPT !.pc = "updclaim"] ELSE [r EXCEPT !.pc = "applyget"]
GoAddFin(r) == IF ~r.loc.fin /\ FinFirst THEN [r EXCEPT !.pc = "addfin"] ELSE GoSync(r)
GoBranch(r) == IF r.loc.del THEN GoDelete(r) ELSE GoAddFin(r)
GoUpgrade(r) == IF Syncer = "SSA" /\ r.sx.ex /\ r.sx.mf \in {"legacy", "empty", "both"} THEN [r EXCEPT !.pc = "upgrade"] ELSE GoBranch(r)
GoCheck(r) == IF r.sx.ex /\ r.sx.cref = "other" THEN [r EXCEPT !.pc = "status", !.exit = "unbound", !.loc.sy = "e:unbound"]
              ELSE GoUpgrade(r)
\* after the syncer returned nil: ReconcileSuccess, copy the listed conditions, Waiting or propagate
GoAfterSync(r) ==
  LET s == [r EXCEPT !.synced = TRUE, !.loc.sy = "ok", !.loc.cc = IF r.sx.lst THEN r.sx.cv ELSE @] IN
  IF s.sx.rdy # "T" THEN [s EXCEPT !.pc = "status", !.exit = "waiting", !.loc.rd = "waiting"]
  ELSE IF Conn /\ s.sx.conn THEN [s EXCEPT !.pc = "getxsec"]
  ELSE [s EXCEPT !.pc = "status", !.exit = "done", !.loc.rd = "avail"]

\* ---- 1. Get the claim
GetClaim ==
  /\ rc.pc = "idle" /\ recs < MaxRecs
  /\ \/ /\ Ok("get", "claim") /\ quiet' = TRUE /\ UNCHANGED clean
        /\ (IF ~cm.ex THEN rc' = Idle /\ recs' = recs + 1
            ELSE LET r == [Idle EXCEPT !.loc = Copy(cm), !.name = cm.ref] IN
                 /\ UNCHANGED recs
                 /\ rc' = (IF cm.paused THEN [r EXCEPT !.pc = "status", !.exit = "paused", !.loc.sy = "paused"]
                           ELSE IF cm.ref # None THEN [r EXCEPT !.pc = "getxr"]
                           ELSE GoCheck(r)))
        /\ Alive
     \/ /\ \E f \in {"error", "miss"} : Flt("get", "claim", f)
        /\ rc' = Idle /\ recs' = recs + 1 /\ clean' = FALSE /\ Alive
     \/ /\ Flt("get", "claim", "crashBefore") /\ Died
  /\ UNCHANGED <<cm, xr, sv, csec, bad>> /\ Others

\* ---- 2. Get the XR the claim references (cached read)
GetXR ==
  /\ rc.pc = "getxr"
  /\ LET x == rc.name IN
     \/ /\ Ok("get", "xr") /\ Keep
        /\ rc' = GoCheck([rc EXCEPT !.sx = xr[x], !.xstale = FALSE, !.xrv = xr[x].ex])
        /\ cache' = (IF xr[x].ex THEN cache \cup {x} ELSE cache)
     \/ /\ xr[x].ex /\ x \notin cache /\ Flt("get", "xr", "miss") /\ KeepF
        /\ rc' = GoCheck([rc EXCEPT !.sx = NoXR, !.missed = TRUE]) /\ Alive
     \/ /\ Flt("get", "xr", "error") /\ KeepF /\ ToErr("getxr") /\ Alive
     \/ /\ Flt("get", "xr", "crashBefore") /\ Died
  /\ UNCHANGED <<cm, xr, sv, csec, bad>> /\ Others

\* ---- 3. PatchingManagedFieldsUpgrader: a JSON patch carrying the XR's resourceVersion
Upgraded(x) == [x EXCEPT !.mf = IF @ = "both" THEN "ssa" ELSE "empty"]
Upgrade ==
  /\ rc.pc = "upgrade"
  /\ LET x == rc.name
         out == IF ~xr[x].ex THEN "notfound" ELSE IF rc.xstale THEN "conflict" ELSE "ok" IN
     \/ /\ Ok("upgrade", "xr")
        /\ (CASE out = "ok" -> xr' = [xr EXCEPT ![x] = Upgraded(@)] /\ rc' = GoBranch([rc EXCEPT !.sx = Upgraded(@)]) /\ Keep
              [] out = "notfound" -> UNCHANGED xr /\ rc' = GoBranch(rc) /\ Keep
              [] out = "conflict" -> UNCHANGED xr /\ quiet' = quiet /\ Ended(FALSE))
        /\ Alive
     \/ /\ Flt("upgrade", "xr", "error") /\ KeepF /\ ToErr("upgrade") /\ UNCHANGED xr /\ Alive
     \/ /\ Flt("upgrade", "xr", "conflict") /\ Ended(FALSE) /\ UNCHANGED xr /\ Alive
     \/ /\ Flt("upgrade", "xr", "crashBefore") /\ Died /\ UNCHANGED xr
     \/ /\ Flt("upgrade", "xr", "crashAfter") /\ Died
        /\ xr' = (IF out = "ok" THEN [xr EXCEPT ![x] = Upgraded(@)] ELSE xr)
  /\ UNCHANGED <<cm, sv, csec, bad>> /\ Others

\* ---- 4. deletion: Delete(XR) without preconditions, foreground if the claim says so
Deleted(x) == IF ~x.ex THEN x ELSE IF x.fin \/ x.fgf \/ Fg THEN [x EXCEPT !.del = TRUE, !.fgf = (@ \/ Fg)] ELSE NoXR
DelXRCall ==
  /\ rc.pc = "delxr"
  /\ LET x == rc.name IN
     \/ /\ Ok("delete", "xr") /\ xr' = [xr EXCEPT ![x] = Deleted(@)]
        /\ (IF xr[x].ex THEN NoteXrWrite("delete", x) ELSE UNCHANGED bad)
        /\ (IF Fg /\ (xr[x].ex \/ ~FixMiss) THEN quiet' = quiet /\ Ended(TRUE)       \* Requeue, no status write
            ELSE rc' = GoRmFin([rc EXCEPT !.delok = TRUE]) /\ Keep)
        /\ Alive
     \/ /\ \E f \in {"error", "conflict"} : Flt("delete", "xr", f) /\ ToErrK("delxr", f)
        /\ KeepF /\ UNCHANGED <<xr, bad>> /\ Alive
     \/ /\ Flt("delete", "xr", "crashBefore") /\ Died /\ UNCHANGED <<xr, bad>>
     \/ /\ Flt("delete", "xr", "crashAfter") /\ Died /\ xr' = [xr EXCEPT ![x] = Deleted(@)]
        /\ (IF xr[x].ex THEN NoteXrWrite("delete", x) ELSE UNCHANGED bad)
  /\ UNCHANGED <<cm, sv, csec>> /\ Others

\* ---- 5. RemoveFinalizer: Update(claim); NotFound is ignored; the reply replaces the copy (the Deleting condition set
\*         in memory is lost - F-a - unless FixDeleting)
NoFin == IF cm.ofin THEN [cm EXCEPT !.fin = FALSE] ELSE GoneCm
AfterRmFin(l) == [rc EXCEPT !.pc = "status", !.exit = "deleted", !.loc = [l EXCEPT !.sy = "ok", !.rd = IF FixDeleting THEN "deleting" ELSE @]]
RmFin ==
  /\ rc.pc = "rmfin"
  /\ \/ /\ Ok("rmfin", "claim")
        /\ (CASE WOut = "ok" -> /\ cm' = NoFin /\ NoteClaimWrite("rmfin", NoFin) /\ Keep
                                /\ rc' = AfterRmFin(IF NoFin.ex THEN MainLoc(NoFin) ELSE [rc.loc EXCEPT !.fin = FALSE])
              [] WOut = "notfound" -> UNCHANGED <<cm, bad>> /\ Keep /\ rc' = AfterRmFin([rc.loc EXCEPT !.fin = FALSE])
              [] WOut = "conflict" -> UNCHANGED <<cm, bad>> /\ Keep /\ ToErr("rmfin"))
        /\ Alive
     \/ /\ \E f \in {"error", "conflict"} : Flt("rmfin", "claim", f) /\ ToErrK("rmfin", f)
        /\ KeepF /\ UNCHANGED <<cm, bad>> /\ Alive
     \/ /\ Flt("rmfin", "claim", "crashBefore") /\ Died /\ UNCHANGED <<cm, bad>>
     \/ /\ Flt("rmfin", "claim", "crashAfter") /\ Died
        /\ (IF WOut = "ok" THEN cm' = NoFin /\ NoteClaimWrite("rmfin", NoFin) ELSE UNCHANGED <<cm, bad>>)
  /\ UNCHANGED <<xr, sv, csec>> /\ Others

\* ---- 6. AddFinalizer: Update(claim), resourceVersion-checked; a Conflict ends the reconcile silently
AddFin ==
  /\ rc.pc = "addfin"
  /\ LET nc == [cm EXCEPT !.fin = TRUE] IN
     \/ /\ Ok("addfin", "claim")
        /\ (CASE WOut = "ok" -> cm' = nc /\ NoteClaimWrite("addfin", nc) /\ Keep /\ rc' = GoSync([rc EXCEPT !.loc = MainLoc(nc)])
              [] WOut = "notfound" -> UNCHANGED <<cm, bad>> /\ Keep /\ ToErr("addfin")
              [] WOut = "conflict" -> UNCHANGED <<cm, bad>> /\ quiet' = quiet /\ Ended(FALSE))
        /\ Alive
     \/ /\ Flt("addfin", "claim", "error") /\ KeepF /\ ToErr("addfin") /\ UNCHANGED <<cm, bad>> /\ Alive
     \/ /\ Flt("addfin", "claim", "conflict") /\ Ended(FALSE) /\ UNCHANGED <<cm, bad>> /\ Alive
     \/ /\ Flt("addfin", "claim", "crashBefore") /\ Died /\ UNCHANGED <<cm, bad>>
     \/ /\ Flt("addfin", "claim", "crashAfter") /\ Died
        /\ (IF WOut = "ok" THEN cm' = nc /\ NoteClaimWrite("addfin", nc) ELSE UNCHANGED <<cm, bad>>)
  /\ UNCHANGED <<xr, sv, csec>> /\ Others

\* ---- 7. the syncer.  names.GenerateName: one Get of the candidate name (collisions are C06's subject)
Gen ==
  /\ rc.pc = "gen"
  /\ \/ /\ Ok("gen", "xr") /\ Keep /\ rc' = Go("updclaim") /\ Alive
     \/ /\ Flt("gen", "xr", "error") /\ KeepF /\ ToErr("sync") /\ Alive
     \/ /\ Flt("gen", "xr", "crashBefore") /\ Died
  /\ UNCHANGED <<cm, xr, sv, csec, bad>> /\ Others

\* Update(claim) recording spec.resourceRef BEFORE the XR is written (SSA: always; CSA: only after name generation)
ClaimUpdate(p, nc, Nxt(_)) ==
  /\ rc.pc = p
  /\ \/ /\ Ok("update", "claim")
        /\ (CASE WOut = "ok" -> /\ cm' = nc /\ Keep /\ rc' = Nxt([rc EXCEPT !.loc = MainLoc(nc)])
                                /\ (IF nc # cm THEN NoteClaimWrite("update", nc) ELSE UNCHANGED bad)
              [] WOut = "notfound" -> UNCHANGED <<cm, bad>> /\ Keep /\ ToErr("sync")
              [] WOut = "conflict" -> UNCHANGED <<cm, bad>> /\ quiet' = quiet /\ Ended(FALSE))
        /\ Alive
     \/ /\ Flt("update", "claim", "error") /\ KeepF /\ ToErr("sync") /\ UNCHANGED <<cm, bad>> /\ Alive
     \/ /\ Flt("update", "claim", "conflict") /\ Ended(FALSE) /\ UNCHANGED <<cm, bad>> /\ Alive
     \/ /\ Flt("update", "claim", "crashBefore") /\ Died /\ UNCHANGED <<cm, bad>>
     \/ /\ Flt("update", "claim", "crashAfter") /\ Died
        /\ (IF WOut = "ok" THEN cm' = nc /\ (IF nc # cm THEN NoteClaimWrite("update", nc) ELSE UNCHANGED bad) ELSE UNCHANGED <<cm, bad>>)
  /\ UNCHANGED <<xr, sv, csec>> /\ Others
ToApply(r) == [r EXCEPT !.pc = IF Syncer = "SSA" THEN "applyxr" ELSE "applyget"]
UpdClaim == ClaimUpdate("updclaim", [cm EXCEPT !.ref = rc.name], ToApply)
\* the client-side syncer's last call: Update(claim) with what it merged back from the XR (nothing the model tracks)
UpdClaim2 == ClaimUpdate("updclaim2", cm, GoAfterSync)

\* SSA: Patch(XR, Apply, ForceOwnership): creates or overwrites, no precondition; the reply is the XR from here on
Applied(x) == IF x.ex THEN [x EXCEPT !.cref = "this", !.gen = rc.loc.gen,
                                      !.mf = (IF @ = "empty" THEN "both" ELSE IF @ = "legacy" THEN "ssa" ELSE @)]
              ELSE [NoXR EXCEPT !.ex = TRUE, !.cref = "this", !.gen = rc.loc.gen, !.mf = "ssa"]
HasStatus(x) == x.rdy # None \/ x.cv # None
ApplyXR ==
  /\ rc.pc = "applyxr"
  /\ LET x == rc.name
         n == Applied(xr[x]) IN
     \/ /\ Ok("apply", "xr") /\ xr' = [xr EXCEPT ![x] = n] /\ Keep
        /\ (IF n # xr[x] THEN NoteXrWrite("apply", x) ELSE UNCHANGED bad)
        /\ rc' = (IF HasStatus(n) THEN [rc EXCEPT !.pc = "syncstatus", !.sx = n, !.xstale = FALSE]
                  ELSE GoAfterSync([rc EXCEPT !.sx = n, !.xstale = FALSE]))
        /\ Alive            \* (a write does not fill the informer cache)
     \/ /\ Flt("apply", "xr", "error") /\ KeepF /\ ToErr("sync") /\ UNCHANGED <<xr, bad>> /\ Alive
     \/ /\ Flt("apply", "xr", "conflict") /\ Ended(FALSE) /\ UNCHANGED <<xr, bad>> /\ Alive
     \/ /\ Flt("apply", "xr", "crashBefore") /\ Died /\ UNCHANGED <<xr, bad>>
     \/ /\ Flt("apply", "xr", "crashAfter") /\ Died /\ xr' = [xr EXCEPT ![x] = n]
        /\ (IF n # xr[x] THEN NoteXrWrite("apply", x) ELSE UNCHANGED bad)
  /\ UNCHANGED <<cm, sv, csec>> /\ Others

\* CSA: APIPatchingApplicator.Apply = Get (into the XR copy), then Create, or (if anything differs) a merge patch made
\* from the desired object, which carries the resourceVersion of the reconciler's OWN Get of the XR (if it found one)
\* (an XR that carries spec fields the claim does not have - here the connection secret reference the XR controller set -
\*  always differs from what the syncer builds; the merge patch then changes nothing)
NeedsPatch(cur) == cur.cref # "this" \/ cur.gen # rc.loc.gen \/ cur.conn
ApplyGet ==
  /\ rc.pc = "applyget"
  /\ LET x == rc.name IN
     \/ /\ Ok("applyget", "xr") /\ Keep
        /\ rc' = (IF ~xr[x].ex THEN Go("create")
                  ELSE IF NeedsPatch(xr[x]) THEN [rc EXCEPT !.pc = "patch", !.sx = xr[x]]
                  ELSE [rc EXCEPT !.pc = "syncstatus", !.sx = xr[x]])
        /\ cache' = (IF xr[x].ex THEN cache \cup {x} ELSE cache)
     \/ /\ xr[x].ex /\ x \notin cache /\ Flt("applyget", "xr", "miss") /\ KeepF /\ rc' = Go("create") /\ Alive
     \/ /\ Flt("applyget", "xr", "error") /\ KeepF /\ ToErr("sync") /\ Alive
     \/ /\ Flt("applyget", "xr", "crashBefore") /\ Died
  /\ UNCHANGED <<cm, xr, sv, csec, bad>> /\ Others
Created == [NoXR EXCEPT !.ex = TRUE, !.cref = "this", !.gen = rc.loc.gen]
\* (AlreadyExists; a create that carries the resourceVersion of an XR read earlier is refused)
CanCreate == ~xr[rc.name].ex /\ ~rc.sx.ex
Create ==
  /\ rc.pc = "create"
  /\ LET x == rc.name IN
     \/ /\ Ok("create", "xr") /\ Keep
        /\ (IF CanCreate THEN /\ xr' = [xr EXCEPT ![x] = Created] /\ NoteXrWrite("create", x)
                              /\ rc' = [rc EXCEPT !.pc = "syncstatus", !.sx = Created, !.xstale = FALSE]
            ELSE UNCHANGED <<xr, bad>> /\ ToErr("sync"))
        /\ Alive            \* (a write does not fill the informer cache)
     \/ /\ Flt("create", "xr", "error") /\ KeepF /\ ToErr("sync") /\ UNCHANGED <<xr, bad>> /\ Alive
     \/ /\ Flt("create", "xr", "conflict") /\ Ended(FALSE) /\ UNCHANGED <<xr, bad>> /\ Alive
     \/ /\ Flt("create", "xr", "crashBefore") /\ Died /\ UNCHANGED <<xr, bad>>
     \/ /\ Flt("create", "xr", "crashAfter") /\ Died
        /\ (IF CanCreate THEN xr' = [xr EXCEPT ![x] = Created] /\ NoteXrWrite("create", x) ELSE UNCHANGED <<xr, bad>>)
  /\ UNCHANGED <<cm, sv, csec>> /\ Others
Merged(x) == [x EXCEPT !.cref = "this", !.gen = rc.loc.gen]
PatchXR ==
  /\ rc.pc = "patch"
  /\ LET x == rc.name
         out == IF ~xr[x].ex THEN "notfound" ELSE IF rc.xrv /\ rc.xstale THEN "conflict" ELSE "ok" IN
     \/ /\ Ok("patch", "xr")
        /\ (CASE out = "ok" -> /\ xr' = [xr EXCEPT ![x] = Merged(@)] /\ NoteXrWrite("patch", x) /\ Keep
                               /\ rc' = [rc EXCEPT !.pc = "syncstatus", !.sx = Merged(xr[x])]
              [] out = "notfound" -> UNCHANGED <<xr, bad>> /\ Keep /\ ToErr("sync")
              [] out = "conflict" -> UNCHANGED <<xr, bad>> /\ quiet' = quiet /\ Ended(FALSE))
        /\ Alive
     \/ /\ Flt("patch", "xr", "error") /\ KeepF /\ ToErr("sync") /\ UNCHANGED <<xr, bad>> /\ Alive
     \/ /\ Flt("patch", "xr", "conflict") /\ Ended(FALSE) /\ UNCHANGED <<xr, bad>> /\ Alive
     \/ /\ Flt("patch", "xr", "crashBefore") /\ Died /\ UNCHANGED <<xr, bad>>
     \/ /\ Flt("patch", "xr", "crashAfter") /\ Died
        /\ (IF out = "ok" THEN xr' = [xr EXCEPT ![x] = Merged(@)] /\ NoteXrWrite("patch", x) ELSE UNCHANGED <<xr, bad>>)
  /\ UNCHANGED <<cm, sv, csec>> /\ Others

\* the syncer's Status().Update(claim): the XR's own status fields (none tracked here; the machinery - conditions,
\* lastPublishedTime - is kept as stored).  SSA: only if the XR has a status; then the sync is complete.
SyncStatus ==
  /\ rc.pc = "syncstatus"
  /\ LET r == [rc EXCEPT !.loc = Copy(cm)] IN
     \/ /\ Ok("status", "claim")
        /\ (CASE WOut = "ok" -> Keep /\ rc' = (IF Syncer = "CSA" THEN [r EXCEPT !.pc = "updclaim2"] ELSE GoAfterSync(r))
              [] WOut = "notfound" -> Keep /\ ToErr("sync")
              [] WOut = "conflict" -> quiet' = quiet /\ Ended(FALSE))
        /\ Alive
     \/ /\ Flt("status", "claim", "error") /\ KeepF /\ ToErr("sync") /\ Alive
     \/ /\ Flt("status", "claim", "conflict") /\ Ended(FALSE) /\ Alive
     \/ /\ \E f \in {"crashBefore", "crashAfter"} : Flt("status", "claim", f) /\ Died
  /\ UNCHANGED <<cm, xr, sv, csec, bad>> /\ Others

\* ---- 8. APIConnectionPropagator: Get the XR's secret, Get the claim's secret, Create it / Update it if the data differ
GetXSec ==
  /\ rc.pc = "getxsec"
  /\ \/ /\ Ok("get", "xsec") /\ Keep /\ Alive       \* (an XR that is gone has taken its secret with it: NotFound)
        /\ (IF xr[rc.name].ex /\ xr[rc.name].conn THEN rc' = [rc EXCEPT !.pc = "getcsec", !.rsv = sv] ELSE ToErr("propagate"))
     \/ /\ \E f \in {"error", "miss"} : Flt("get", "xsec", f) /\ ToErrK("propagate", f)
        /\ KeepF /\ Alive
     \/ /\ Flt("get", "xsec", "crashBefore") /\ Died
  /\ UNCHANGED <<cm, xr, sv, csec, bad>> /\ Others
Propagated(r, did) == [r EXCEPT !.pc = "status", !.exit = "done", !.loc.rd = "avail", !.loc.pub = IF did /\ @ < 2 THEN @ + 1 ELSE @]
GetCSec ==
  /\ rc.pc = "getcsec"
  /\ \/ /\ Ok("get", "csec") /\ Keep /\ Alive
        /\ rc' = (IF ~csec.ex THEN Go("mkcsec") ELSE IF csec.data # rc.rsv THEN Go("updcsec") ELSE Propagated(rc, FALSE))
     \/ /\ csec.ex /\ Flt("get", "csec", "miss") /\ KeepF /\ rc' = Go("mkcsec") /\ Alive
     \/ /\ Flt("get", "csec", "error") /\ KeepF /\ ToErr("propagate") /\ Alive
     \/ /\ Flt("get", "csec", "crashBefore") /\ Died
  /\ UNCHANGED <<cm, xr, sv, csec, bad>> /\ Others
SecWrite(p, k) ==
  /\ rc.pc = p
  /\ LET ok == (k = "create") = ~csec.ex
         n == [ex |-> TRUE, data |-> rc.rsv] IN
     \/ /\ Ok(k, "csec") /\ Keep /\ Alive
        /\ (IF ok THEN csec' = n /\ rc' = Propagated(rc, TRUE) ELSE UNCHANGED csec /\ ToErr("propagate"))
     \/ /\ \E f \in {"error", "conflict"} : Flt(k, "csec", f) /\ ToErrK("propagate", f)
        /\ KeepF /\ UNCHANGED csec /\ Alive
     \/ /\ Flt(k, "csec", "crashBefore") /\ Died /\ UNCHANGED csec
     \/ /\ Flt(k, "csec", "crashAfter") /\ Died /\ csec' = (IF ok THEN n ELSE csec)
  /\ UNCHANGED <<cm, xr, sv, bad>> /\ Others
MkCSec == SecWrite("mkcsec", "create")
UpdCSec == SecWrite("updcsec", "update")

\* ---- 9. every exit but the silent ones: Status().Update(claim)
Status ==
  /\ rc.pc = "status"
  /\ LET n == StatusOf(rc.loc)
         good == rc.exit \in {"paused", "waiting", "done", "deleted", "fgwait", "unbound"} IN
     \/ /\ Ok("status", "claim") /\ quiet' = quiet /\ Alive
        /\ (IF WOut = "ok" THEN cm' = n /\ NoteStatus(rc.loc) /\ Ended(good)
            ELSE UNCHANGED <<cm, bad>> /\ Ended(FALSE))
     \/ /\ \E f \in {"error", "conflict"} : Flt("status", "claim", f)
        /\ UNCHANGED <<cm, bad>> /\ Ended(FALSE) /\ Alive
     \/ /\ Flt("status", "claim", "crashBefore") /\ UNCHANGED <<cm, bad>> /\ Died
     \/ /\ Flt("status", "claim", "crashAfter") /\ Died
        /\ (IF WOut = "ok" THEN cm' = n /\ NoteStatus(rc.loc) ELSE UNCHANGED <<cm, bad>>)
  /\ UNCHANGED <<xr, sv, csec>> /\ Others

Rec == GetClaim \/ GetXR \/ Upgrade \/ DelXRCall \/ RmFin \/ AddFin \/ Gen \/ UpdClaim \/ UpdClaim2 \/ ApplyXR \/ ApplyGet
       \/ Create \/ PatchXR \/ SyncStatus \/ GetXSec \/ GetCSec \/ MkCSec \/ UpdCSec \/ Status
Next == Env \/ Rec
Spec == Init /\ [][Next]_vars

----------------------------------------------------------------------------
(* Design-level properties                                                 *)
Findings == {"DeletingLie", "Orphan", "StaleError"}
\* P1-P8 as step properties (ghosts recorded at the step); the two findings have their own invariants
StepProps == bad \ Findings = {}
DeletingTruth == "DeletingLie" \notin bad
NoOrphan == "Orphan" \notin bad
\* F-c: the status write of "waiting for the foreground deletion of the XR" leaves no error of an earlier reconcile
NoStaleError == "StaleError" \notin bad
\* P3 as a state invariant: while the syncer may write the XR, the finalizer is in the reconciler's copy
FinBeforeSync == rc.pc \in {"gen", "updclaim", "applyxr", "applyget", "create", "patch", "syncstatus", "updclaim2"} => rc.loc.fin
\* P9: a reconcile that ran to its end fault-free in a quiet environment leaves the state the environment permits
F == xr[cm.ref]
Repaired ==
  (rc.pc = "idle" /\ clean /\ cm.ex) =>
     IF cm.paused THEN cm.sy = "paused"
     ELSE IF cm.ref # None /\ F.ex /\ F.cref = "other" THEN cm.sy = "e:unbound"
     ELSE IF cm.del THEN
        IF cm.ref # None /\ F.ex /\ Fg THEN F.del
        ELSE ~cm.fin /\ (cm.ref # None /\ F.ex => F.del) /\ cm.sy = "ok" /\ (FixDeleting => cm.rd = "deleting")
     ELSE /\ cm.fin /\ cm.ref # None /\ F.ex /\ F.cref = "this" /\ F.gen = cm.gen /\ cm.sy = "ok"
          /\ (F.rdy = "T" => cm.rd = "avail") /\ (F.rdy # "T" => cm.rd = "waiting")
          /\ (F.lst => cm.cc = F.cv)
          /\ ((Conn /\ F.rdy = "T" /\ F.conn) => (csec.ex /\ csec.data = sv))
=============================================================================
