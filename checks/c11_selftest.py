#!/usr/bin/env python3
"""Anti-vacuity self test of the C11 check (run by hand: python3 checks/c11_selftest.py).

1. sanity mutants of the real code, applied ONLY through `go build -overlay` on scratch copies
   (nothing is written to /repo): each must make MonXCRD report the expected formulas;
2. seeded corruption of one recorded field of a real trace: MonXCRD must reject that line.
Scratch: /verif/.work/C11-selftest."""
import json
import os
import subprocess
import sys

sys.path.insert(0, os.path.dirname(os.path.dirname(os.path.abspath(__file__))))
import vlib  # noqa: E402
from checks import c11  # noqa: E402

CRD = "internal/xcrd/crd.go"
SCH = "internal/xcrd/schemas.go"
VAL = "apis/apiextensions/v1/xrd_validation.go"
MUTANTS = [
    # (name, file in /repo, [(old text, new text)], formulas that must fire)
    ("xr-machinery-written-before-author-props", CRD,
     [("\t\tfor k, v := range props {\n\t\t\tcrdv.Schema.OpenAPIV3Schema.Properties[\"spec\"].Properties[k] = v\n\t\t}\n\t\tcrd.Spec.Versions[i] = *crdv\n\t}\n\n\treturn crd, nil\n}\n\n// ForCompositeResourceClaim",
       "\t\tfor k, v := range props {\n\t\t\tif _, shadowed := crdv.Schema.OpenAPIV3Schema.Properties[\"spec\"].Properties[k]; !shadowed {\n"
       "\t\t\t\tcrdv.Schema.OpenAPIV3Schema.Properties[\"spec\"].Properties[k] = v\n\t\t\t}\n\t\t}\n\t\tcrd.Spec.Versions[i] = *crdv\n\t}\n\n\treturn crd, nil\n}\n\n// ForCompositeResourceClaim")],
     ["Machinery.Standard.xr"]),
    ("status-machinery-written-before-author-props", CRD,
     [("\tfor k, v := range xStatus.Properties {\n\t\tcStatus.Properties[k] = v\n\t}\n\tfor k, v := range CompositeResourceStatusProps() {\n\t\tcStatus.Properties[k] = v\n\t}\n",
       "\tfor k, v := range CompositeResourceStatusProps() {\n\t\tcStatus.Properties[k] = v\n\t}\n\tfor k, v := range xStatus.Properties {\n\t\tcStatus.Properties[k] = v\n\t}\n")],
     ["Machinery.Standard.xr", "Machinery.Standard.claim"]),
    ("first-version-is-storage", CRD,
     [("\t\tcrdv.AdditionalPrinterColumns = append(crdv.AdditionalPrinterColumns, CompositeResourcePrinterColumns()...)\n",
       "\t\tcrdv.AdditionalPrinterColumns = append(crdv.AdditionalPrinterColumns, CompositeResourcePrinterColumns()...)\n\t\tcrdv.Storage = i == 0\n")],
     ["Versions.StorageIsReferenceable.xr"]),
    ("every-served-version-is-storage", CRD,
     [("\t\tStorage:                  vr.Referenceable,\n", "\t\tStorage:                  vr.Referenceable || vr.Served,\n")],
     ["Versions.OneStorage.xr", "Versions.OneStorage.claim", "Versions.StorageIsReferenceable.claim"]),
    ("no-claim-kind-collision-check", CRD,
     [("\tif n := d.Spec.ClaimNames.Kind; n == d.Spec.Names.Kind {", "\tif n := d.Spec.ClaimNames.Kind; false && n == d.Spec.Names.Kind {")],
     ["Collide.NoCRD", "Collide.Admission.Create", "Collide.Admission.Update"]),
    ("listkind-collision-check-dropped", CRD,
     [("\tif n := d.Spec.ClaimNames.ListKind; n != \"\" && n == d.Spec.Names.ListKind {",
       "\tif n := d.Spec.ClaimNames.ListKind; n == \"-\" && n == d.Spec.Names.ListKind {")],
     ["Collide.NoCRD"]),
    ("plural-mutable", VAL,
     [("\tif c.Spec.Names.Plural != old.Spec.Names.Plural {", "\tif false && c.Spec.Names.Plural != old.Spec.Names.Plural {")],
     ["Immutable.Plural", "Immutable.Plural.Admission"]),
    ("claim-kind-mutable", VAL,
     [("\t\tif c.Spec.ClaimNames.Kind != old.Spec.ClaimNames.Kind {", "\t\tif false && c.Spec.ClaimNames.Kind != old.Spec.ClaimNames.Kind {")],
     ["Immutable.ClaimKind", "Immutable.ClaimKind.Admission"]),
    ("claim-crd-cluster-scoped", CRD,
     [("\t\t\tScope:      extv1.NamespaceScoped,", "\t\t\tScope:      extv1.ClusterScoped,")],
     ["Scope.claim"]),
    ("claim-owner-not-controller", CRD,
     [("\tcrd.SetName(xrd.Spec.ClaimNames.Plural + \".\" + xrd.Spec.Group)\n\tsetCrdMetadata(crd, xrd)\n\tcrd.SetOwnerReferences([]metav1.OwnerReference{meta.AsController(",
       "\tcrd.SetName(xrd.Spec.ClaimNames.Plural + \".\" + xrd.Spec.Group)\n\tsetCrdMetadata(crd, xrd)\n\tcrd.SetOwnerReferences([]metav1.OwnerReference{meta.AsOwner(")],
     ["Owner.claim"]),
    ("status-required-dropped", CRD,
     [("\tcStatus.Required = xStatus.Required\n", "")],
     ["Author.Required.xr", "Author.Required.claim"]),
    ("spec-cel-rules-dropped", CRD,
     [("\tcSpec.XValidations = append(cSpec.XValidations, xSpec.XValidations...)\n", "")],
     ["Author.Rules.xr", "Author.Rules.claim"]),
    ("status-oneof-dropped", CRD,
     [("\tcStatus.OneOf = xStatus.OneOf\n", "")],
     ["Author.Rules.xr", "Author.Rules.claim"]),
    ("author-name-limit-ignored", CRD,
     [("\tif old := s.Properties[\"metadata\"].Properties[\"name\"].MaxLength; old != nil && *old < maxLength {",
       "\tif old := s.Properties[\"metadata\"].Properties[\"name\"].MaxLength; old != nil && *old < 0 {")],
     ["Author.NameLimit.xr", "Author.NameLimit.claim"]),
    ("schema-of-first-version-for-all-versions", CRD,
     [("func ForCompositeResource(xrd *v1.CompositeResourceDefinition) (*extv1.CustomResourceDefinition, error) {\n",
       "func ForCompositeResource(xrd *v1.CompositeResourceDefinition) (*extv1.CustomResourceDefinition, error) {\n"
       "\txrd = xrd.DeepCopy()\n\tfor i := range xrd.Spec.Versions {\n\t\txrd.Spec.Versions[i].Schema = xrd.Spec.Versions[0].Schema\n\t}\n")],
     ["Author.Props.xr"]),
    ("claim-versions-always-served", CRD,
     [("\t\tcrdv.AdditionalPrinterColumns = append(crdv.AdditionalPrinterColumns, CompositeResourceClaimPrinterColumns()...)\n",
       "\t\tcrdv.AdditionalPrinterColumns = append(crdv.AdditionalPrinterColumns, CompositeResourceClaimPrinterColumns()...)\n"
       "\t\tif !vr.Served {\n\t\t\tcrdv.Served = true\n\t\t}\n")],
     ["Versions.Carried.claim"]),
    ("no-status-subresource", CRD,
     [("\t\tSubresources: &extv1.CustomResourceSubresources{\n\t\t\tStatus: &extv1.CustomResourceSubresourceStatus{},\n\t\t},\n", "")],
     ["Versions.StatusSubresource.xr", "Versions.StatusSubresource.claim"]),
    ("default-update-policy-always-automatic", CRD,
     [("\t\t\tcup.Default = &extv1.JSON{Raw: []byte(fmt.Sprintf(\"\\\"%s\\\"\", *xrd.Spec.DefaultCompositionUpdatePolicy))}",
       "\t\t\tcup.Default = &extv1.JSON{Raw: []byte(fmt.Sprintf(\"\\\"%s\\\"\", \"Automatic\"))}")],
     ["Machinery.Standard.xr", "Machinery.Default.xr"]),
    ("default-delete-policy-not-injected", CRD,
     [("\t\tif xrd.Spec.DefaultCompositeDeletePolicy != nil {", "\t\tif false && xrd.Spec.DefaultCompositeDeletePolicy != nil {")],
     ["Machinery.Default.claim"]),
    ("claimref-removed-from-table", SCH,
     [("\t\t\"claimRef\": {\n\t\t\tType:     \"object\",\n\t\t\tRequired: []string{\"apiVersion\", \"kind\", \"namespace\", \"name\"},\n"
       "\t\t\tProperties: map[string]extv1.JSONSchemaProps{\n\t\t\t\t\"apiVersion\": {Type: \"string\"},\n\t\t\t\t\"kind\":       {Type: \"string\"},\n"
       "\t\t\t\t\"namespace\":  {Type: \"string\"},\n\t\t\t\t\"name\":       {Type: \"string\"},\n\t\t\t},\n\t\t},\n", "")],
     ["Machinery.Present.xr"]),
    ("claim-crd-gets-composite-names", CRD,
     [("\t\t\tNames:      *xrd.Spec.ClaimNames,", "\t\t\tNames:      xrd.Spec.Names,")],
     ["Identity.claim"]),
]


def build_mutant(ctx, name, rel, edits):
    src = open(os.path.join("/repo", rel)).read()
    for old, new in edits:
        if src.count(old) != 1:
            raise SystemExit("mutant %s: anchor text occurs %d times in %s" % (name, src.count(old), rel))
        src = src.replace(old, new)
    d = os.path.join(ctx.work, "mutants", name)
    os.makedirs(d, exist_ok=True)
    mp = os.path.join(d, os.path.basename(rel))
    with open(mp, "w") as f:
        f.write(src)
    ov = os.path.join(d, "overlay.json")
    with open(ov, "w") as f:
        json.dump({"Replace": {os.path.join("/repo", rel): mp}}, f)
    out = os.path.join(d, "xcrd")
    e = dict(os.environ)
    e.update(vlib.GOENV)
    p = subprocess.run(["go", "build", "-overlay", ov, "-o", out, "./drivers/xcrd"], cwd=vlib.HARNESS, env=e,
                       stdout=subprocess.PIPE, stderr=subprocess.STDOUT, text=True)
    if p.returncode != 0:
        raise SystemExit("mutant %s does not build:\n%s" % (name, p.stdout[-3000:]))
    return out


def judge(ctx, binp, scs, tag):
    prefix, _ = ctx.run_sharded(binp, scs, [], shards=8, name="trace_" + tag)
    viols, _ = ctx.monitor("MonXCRD", prefix, par=8, heap="3g")
    by = {}
    for f, _, _ in viols:
        by[f] = by.get(f, 0) + 1
    return by, prefix


def main():
    only = set(sys.argv[1:])
    ctx = vlib.Ctx("C11-selftest", "quick", 1)
    mc = ctx.model_check("MCXCRD", "MCXCRD_quick.cfg", workers=1, timeout=120, extra=["-seed", "1"])
    scs = c11.load_scenarios(ctx, mc["emitted_file"])
    ok = True
    base, prefix = judge(ctx, ctx.go_build("./drivers/xcrd"), scs, "base")
    print("unchanged tree:", base)
    ok &= not base
    for name, rel, edits, expect in MUTANTS:
        if only and name not in only:
            continue
        got, _ = judge(ctx, build_mutant(ctx, name, rel, edits), scs, name)
        hit = all(f in got for f in expect)
        ok &= hit
        print("mutant %-46s %s  fired: %s" % (name, "DETECTED" if hit else "MISSED (expected %s)" % expect, got), flush=True)
    # seeded corruption of recorded fields of the real trace
    trace = prefix + ".s00"
    lines = open(trace).read().splitlines()

    def drop_prop(e, kind, part, name):
        for v in e["output"][kind]["versions"]:
            v[part]["props"] = [p for p in v[part]["props"] if p["n"] != name]

    def retag(e, kind, part, name, tag):
        for v in e["output"][kind]["versions"]:
            for p in v[part]["props"]:
                if p["n"] == name:
                    p["t"] = tag

    def has_author(e, part, name):
        return any(p["n"] == name for v in e["input"]["new"]["versions"] for p in v["schema"][part]["props"])

    corruptions = [
        ("storage flag cleared", lambda e: True,
         lambda e: [v.update(storage=False) for v in e["output"]["xr"]["versions"]], "Versions.OneStorage.xr"),
        ("claim CRD cluster scoped", lambda e: not e["output"]["claim"]["err"],
         lambda e: e["output"]["claim"].update(scope="Cluster"), "Scope.claim"),
        ("claimRef carries an author tag", lambda e: True, lambda e: retag(e, "xr", "spec", "claimRef", "t1"), "Machinery.Standard.xr"),
        ("conditions dropped from claim status", lambda e: not e["output"]["claim"]["err"],
         lambda e: drop_prop(e, "claim", "status", "conditions"), "Machinery.Present.claim"),
        ("owner reference not a controller", lambda e: True, lambda e: e["output"]["xr"]["owner"].update(ctrl=False), "Owner.xr"),
        ("author property u1 dropped", lambda e: has_author(e, "spec", "u1"), lambda e: drop_prop(e, "xr", "spec", "u1"), "Author.Props.xr"),
        ("author property u1 altered", lambda e: has_author(e, "status", "u1") and not e["output"]["claim"]["err"],
         lambda e: retag(e, "claim", "status", "u1", "other"), "Author.Props.claim"),
        ("update accepted despite group change", lambda e: e["input"]["new"]["group"] != e["input"]["old"]["group"],
         lambda e: e["output"]["upd"].update(direct="accept"), "Immutable.Group"),
        ("admission allows colliding claim names", lambda e: e["output"]["claim"]["err"] and e["input"]["new"]["claim"]["present"],
         lambda e: e["output"]["adm"].update(create="allowed"), "Collide.Admission.Create"),
    ]
    for what, pick, mutate, formula in corruptions:
        idx = next(i for i, ln in enumerate(lines) if pick(json.loads(ln)))
        e = json.loads(lines[idx])
        mutate(e)
        cp = os.path.join(ctx.work, "corrupt.ndjson")
        with open(cp, "w") as f:
            f.write("\n".join(lines[:idx] + [json.dumps(e)] + lines[idx + 1:]) + "\n")
        viols, _ = ctx.monitor("MonXCRD", cp)
        hit = any(f == formula and ln == idx + 1 for f, ln, _ in viols)
        ok &= hit
        print("corruption %-42s line %d: %s" % (what, idx + 1, "REJECTED by " + formula if hit else "NOT NOTICED"), flush=True)
    print("selftest", "PASSED" if ok else "FAILED")
    return 0 if ok else 1


if __name__ == "__main__":
    sys.exit(main())
