"""Rider shared by C14, C15, C16 and C17: the package controllers as production wires them.

The drivers of those checks construct manager.NewReconciler / revision.NewReconciler / the establisher / the dependency
manager and the resolver themselves with hand-picked options, so that they can place faults precisely. That the PRODUCTION
Setup functions (three hand-written near-copies per controller in internal/controller/pkg/{manager,revision,signature,resolver}
and pkg.Setup, which starts them under feature flags) wire exactly those parts - list type, linter, parser, image backend and
revisioner with the default registry, the shared cache, the signature gate's flag, the establisher with namespace and limit,
the dependency manager's package type and DAG, the resolver's DAG per flag, the wrappers, the watches - is decided by the
module PkgWiring (check X11): it calls the real pkg.Setup on a fake manager for every option vector, observes every
controller it registers and installs a package of each type through them (formulas of spec/MonPkgWiring.tla against the
reference spec/PkgWiring.tla).  (Lesson of the seeded-change wave 6: wiring is code.)

run(ctx, pid) adds the violations of the formulas that belong to the listed property pid; scenario ids start with pid and
replay through replay(ctx, pid, path)."""
import json
import os

# formula prefixes per listed property
FORMULAS = {
    # manager wiring
    "C14": ["Setup.NoError", "Setup.Registered.", "Setup.UniqueNames", "Setup.For", "Wiring.Manager.", "Sym.Manager.",
            "Install.Healthy", "Install.Revision", "Install.Fetch."],
    # revision content pipeline: parser / linter / backend / cache / signature gate flag
    "C15": ["Setup.NoError", "Setup.Registered.",
            "Wiring.Revision.Name", "Wiring.Revision.For", "Wiring.Revision.Options", "Wiring.Revision.RateLimiter", "Wiring.Revision.SilentRequeue",
            "Wiring.Revision.Watches.", "Wiring.Revision.Enqueue.", "Wiring.Revision.ConfigStore", "Wiring.Revision.Kind", "Wiring.Revision.Parser",
            "Wiring.Revision.Linter.", "Wiring.Revision.Cache", "Wiring.Revision.Features", "Wiring.Revision.Identity", "Wiring.Revision.Api", "Wiring.Revision.Fetcher",
            "Wiring.Signature.", "Sym.Revision.", "Sym.Signature.",
            "Install.Healthy", "Install.Gate", "Install.Verified", "Install.Signature", "Install.Cache", "Install.Fetch.",
            "Install.Runtime", "Install.Image", "Install.Endpoint"],
    # establisher wiring
    "C16": ["Setup.NoError", "Wiring.Revision.Establisher", "Install.Established", "Install.WebhookNamespace"],
    # dependency manager / resolver wiring
    "C17": ["Setup.NoError", "Setup.Registered.Missing", "Wiring.Revision.DependencyManager.", "Install.Lock", "Wiring.Resolver."],
}


def wanted(pid, formula):
    """The formulas of pid, minus the module's own open findings (x11.FINDINGS: they are reported by ./check X11 and do not
    belong to what the listed property states)."""
    from checks import x11
    if formula in x11.FINDINGS:
        return False
    return any(formula == p or (p.endswith(".") and formula.startswith(p)) for p in FORMULAS[pid])


def _judge(ctx, pid, sub, scs):
    from checks import x11
    s, nlines, _ = x11.drive_and_judge(sub, scs)
    took = sorted({v["formula"] for v in sub.violations if wanted(pid, v["formula"])})
    for v in sub.violations:
        if wanted(pid, v["formula"]):
            ctx.violations.append(v)
    return s, nlines, took


def run(ctx, pid):
    """Runs the module's vectors (quick tier: the 32 flag / runtime vectors of one profile; thorough: the 64 of two) and
    adds the violations of the formulas relevant to pid to ctx.violations."""
    from checks import x11
    sub = ctx.sub("pkgwiring")
    cfg = "%s_rider.cfg" % x11.MODULE if ctx.quick else "%s_quick.cfg" % x11.MODULE
    mc, scs = x11.vectors(sub, cfg, prefix="%s-pkgwiring" % pid)
    for sc in scs:
        sc["rider"] = "pkgwiring"
    s, nlines, took = _judge(ctx, pid, sub, scs)
    return dict(states=mc["states"], transitions=mc["transitions"], vectors=s["vectors"], events=nlines,
                formulas=FORMULAS[pid], violated=took, controllers=s["controllers"])


def is_rider_scenario(path):
    try:
        with open(path) as f:
            return json.load(f).get("rider") == "pkgwiring"
    except (OSError, ValueError):
        return False


def replay(ctx, pid, path):
    """Replays exactly the vector in the file; keeps the violations of the formulas relevant to pid."""
    with open(path) as f:
        sc = json.load(f)
    sub = ctx.sub("pkgwiring")
    s, nlines, took = _judge(ctx, pid, sub, [sc])
    ctx.cov.update(dict(states=1, transitions=1, traces_validated_against_impl=s["vectors"], samples=[sc], events=nlines, rider="pkgwiring",
                        violated=took))
