-------------------------- MODULE MCRenderParity --------------------------
(***************************************************************************)
(* X04 vector model.  Enumerates the bounded input domain                  *)
(*   pipelines of 1..MaxSteps programs of the family of RenderParity.tla   *)
(*   x worlds = Extra objects in the cluster / in --extra-resources        *)
(*            x observed composed resources (--observed-resources)         *)
(*            x initial context (--context-values)  x  XR with / without a claim *)
(* and emits every input as a VEC line.  The Compute step evaluates the    *)
(* reference (the ideal recorded runs of render and of the controller) and *)
(* the invariants check, at design level, that the reference satisfies     *)
(* every formula MonRenderParity applies to the real runs, and the bounds. *)
(***************************************************************************)
EXTENDS RenderParity, Json

CONSTANTS
  Progs12,        \* programs of pipelines with 1 or 2 steps
  Progs3,         \* programs of pipelines with 3 steps
  MaxSteps,
  Worlds12,       \* worlds for pipelines with 1 or 2 steps
  Worlds3         \* worlds for pipelines with 3 steps

VARIABLES input, exp, done
vars == <<input, exp, done>>

W(ex, old, c, cl) == [extras |-> ex, existing |-> old, ctx0 |-> c, claim |-> cl]
AllWorlds == {W(ex, old, c, cl) : ex \in {<<>>, <<"e1">>, <<"e2">>, <<"e1", "e2">>}, old \in {<<>>, <<"a">>, <<"a", "z">>},
                                  c \in {"none", "k", "n"}, cl \in BOOLEAN}
QuickWorlds12 ==
  {W(ex, old, "none", TRUE) : ex \in {<<>>, <<"e1">>, <<"e1", "e2">>}, old \in {<<>>, <<"a", "z">>}} \cup
  {W(<<"e1">>, <<"a", "z">>, "k", FALSE), W(<<>>, <<>>, "n", TRUE), W(<<"e1", "e2">>, <<"a">>, "none", FALSE), W(<<"e2">>, <<"a">>, "k", FALSE)}
QuickWorlds3 ==
  {W(<<"e1">>, <<"a", "z">>, "none", TRUE), W(<<"e1", "e2">>, <<>>, "none", FALSE), W(<<>>, <<"a">>, "n", TRUE)}
QuickProgs3 == {RAddA, RAddB, RDropA, RRenAC, RMutT, RMutF, RSys, RCount2}
ThoroughWorlds3 ==
  {W(ex, old, c, TRUE) : ex \in {<<>>, <<"e1">>, <<"e1", "e2">>}, old \in {<<>>, <<"a", "z">>}, c \in {"none", "n"}} \cup
  {W(<<"e1">>, <<"a">>, "none", FALSE), W(<<"e2">>, <<"a", "z">>, "k", FALSE)}
ThoroughProgs3 == RAllProgs \ {RNever, RCount4, RPass, RClear}

IsInput(x) ==
  \E n \in 1..MaxSteps : \E ps \in [1..n -> IF n = 3 THEN Progs3 ELSE Progs12] :
  \E w \in (IF n = 3 THEN Worlds3 ELSE Worlds12) :
    x = [steps |-> ps, extras |-> w.extras, existing |-> w.existing, ctx0 |-> w.ctx0, claim |-> w.claim]

NoExp == [none |-> TRUE]
Init == IsInput(input) /\ exp = NoExp /\ done = FALSE
Compute == ~done /\ done' = TRUE /\ exp' = [r |-> IdealRender(input), c |-> IdealController(input)] /\ UNCHANGED input
Spec == Init /\ [][Compute]_vars

\* scenario emission: the input only
Emit == PrintT(<<"VEC", ToJson(input)>>)

-----------------------------------------------------------------------------
(* design-level checks of the reference *)
RefRender == done => RenderFormulas(exp.r)
RefParity == done => ParityFormulas(exp.r, exp.c)
RefBounds ==
  done =>
    LET r == exp.r
        e == RInterp(input) IN
    /\ \A i \in 1..RNSteps(r) : Cardinality(RStepCalls(r, i)) <= MaxIter + 1
    /\ (e.st = "unstable" <=> REndsUnstable(r)) /\ (e.st = "fatal" <=> REndsFatal(r)) /\ (e.st = "ok" <=> REndsOk(r))
    /\ (e.st = "unstable" => Cardinality(RStepCalls(r, RLastStep(r))) = MaxIter + 1)
\* with an empty initial context the family reduces to Pipeline's interpreter on the fields they share
RefAgreesWithPipeline ==
  (done /\ input.ctx0 = "none") =>
    LET e == RInterp(input)
        p == Interp([steps |-> input.steps, extras |-> input.extras, existing |-> input.existing, transport |-> "inproc"]) IN
    /\ Len(e.calls) = Len(p.calls)
    /\ \A j \in DOMAIN e.calls :
         /\ e.calls[j].step = p.calls[j].step /\ e.calls[j].round = p.calls[j].round /\ e.calls[j].des = p.calls[j].des
         /\ e.calls[j].dxr = p.calls[j].dxr /\ e.calls[j].ctx = p.calls[j].ctx /\ e.calls[j].extra = p.calls[j].extra
    /\ e.st = p.st
=============================================================================
