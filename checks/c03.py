"""C03 - see checks/xrcompose.py (module XRCompose)."""
from checks import xrcompose


def run(ctx):
    xrcompose.run(ctx, "C03")


def replay(ctx, path):
    xrcompose.replay(ctx, "C03", path)
