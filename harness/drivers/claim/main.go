// Driver for spec/Claim.tla: replays TLC behaviours against the real claim
// reconciler (internal/controller/apiextensions/claim) with the real
// client-side / server-side composite syncers, the real managed fields
// upgrader, the real connection propagator and the real name generator, all
// running on simapi, and records one trace event per API call with the
// projected state (the stored claim, every XR with the claim it is bound to).
//
// The scenario only steers the environment: which stored version of the claim
// the (cached) first Get returns, which call fails or crashes, what users and
// the XR controller do between calls. No property logic lives here.
package main

import (
	"context"
	"encoding/json"
	"flag"
	"fmt"
	"hash/fnv"
	"os"
	"sort"
	"strings"

	corev1 "k8s.io/api/core/v1"
	metav1 "k8s.io/apimachinery/pkg/apis/meta/v1"
	"k8s.io/apimachinery/pkg/apis/meta/v1/unstructured"
	"k8s.io/apimachinery/pkg/runtime"
	"k8s.io/apimachinery/pkg/runtime/schema"
	"k8s.io/apimachinery/pkg/types"
	utilrand "k8s.io/apimachinery/pkg/util/rand"
	"k8s.io/utils/ptr"
	"sigs.k8s.io/controller-runtime/pkg/client"
	"sigs.k8s.io/controller-runtime/pkg/reconcile"

	"github.com/crossplane/crossplane-runtime/pkg/resource"
	uclaim "github.com/crossplane/crossplane-runtime/pkg/resource/unstructured/claim"
	ucomposite "github.com/crossplane/crossplane-runtime/pkg/resource/unstructured/composite"

	"github.com/crossplane/crossplane/internal/controller/apiextensions/claim"
	"github.com/crossplane/crossplane/internal/names"
	"github.com/crossplane/crossplane/zzverif/replay"
	"github.com/crossplane/crossplane/zzverif/scen"
	"github.com/crossplane/crossplane/zzverif/simapi"
	"github.com/crossplane/crossplane/zzverif/trace"
)

const (
	ns          = "ns"
	claimName   = "claim"
	otherClaim  = "other-claim"
	claimFin    = "finalizer.apiextensions.crossplane.io"
	xrFin       = "composite.apiextensions.crossplane.io"
	xrSecretNS  = "crossplane-system"
	xrSecret    = "xr-conn"
	claimSecret = "claim-conn"
	staticP     = "static-xr"
	preID       = "p"
)

var (
	claimGVK = schema.GroupVersionKind{Group: "ex.org", Version: "v1", Kind: "Thing"}
	xrGVK    = schema.GroupVersionKind{Group: "ex.org", Version: "v1", Kind: "XThing"}
	claimKey = simapi.Key{Group: "ex.org", Kind: "Thing", Namespace: ns, Name: claimName}
)

var debug bool

func xrKey(name string) simapi.Key { return simapi.Key{Group: "ex.org", Kind: "XThing", Name: name} }

type counters struct {
	StaleServed   int `json:"stale_reads_served"`
	StaleMiss     int `json:"stale_index_missing"`
	StaleMissOff  int `json:"stale_index_missing_in_sweep_or_off_model_runs"`
	StaleGone     int `json:"stale_reads_after_claim_gone"`
	XRCreates     int `json:"xr_created_by_claim"`
	XRBinds       int `json:"xr_bound_by_claim"`
	XRWrites      int `json:"xr_writes_applied"`
	XRDeletes     int `json:"xr_deletes_applied"`
	OtherPresent  int `json:"claim_calls_while_other_bound_xr_exists"`
	OtherTargeted int `json:"claim_calls_addressing_other_bound_xr"`
	OtherWritten  int `json:"claim_writes_applied_to_other_bound_xr"`
	ClaimRefSet   int `json:"claim_updates_recording_ref"`
	Collisions    int `json:"name_generator_collisions"`
	Conflicts     int `json:"natural_conflicts"`
}

type world struct {
	s    *simapi.Server
	c    *simapi.Client
	rec  reconcile.Reconciler
	tw   *trace.Writer
	cnt  *counters
	init map[string]any

	scenID string
	syncer string
	conn   bool
	seed   int64

	ids     map[string]string // concrete XR name -> abstract id
	names   map[string]string // abstract id -> concrete XR name
	nextGen int
	pName   string

	al        *replay.Aligner
	recNo     int
	staleV    int // version index the first Get of the claim is served from in this reconcile (0: fresh)
	staleUsed int
	lastRef   string
	preRef    string // claimRef of the XR addressed by the call in flight, read just before the call
	claimUID  types.UID
	offModel  bool // a sweep / off-model fault variant: the store's history need not be the one the model predicted
}

// seedFor makes the name generator's random stream a function of the run's
// seed and the reconcile number, so that a scenario that wants the generator to
// collide with the pre-existing XR can name that XR accordingly.
func seedFor(seed int64, rec int) int64 { return seed*1000003 + int64(rec)*7919 + 17 }

// predict returns the j-th (1-based) name the real generator proposes in reconcile rec.
func predict(seed int64, rec, j int) string {
	utilrand.Seed(seedFor(seed, rec))
	n := ""
	for i := 0; i < j; i++ {
		n = utilrand.String(5)
	}
	return claimName + "-" + n
}

func (w *world) idOf(name string) string {
	if id, ok := w.ids[name]; ok {
		return id
	}
	w.nextGen++
	id := fmt.Sprintf("x%d", w.nextGen)
	w.ids[name], w.names[id] = id, name
	return id
}

func (w *world) nameOf(id string) string {
	if n, ok := w.names[id]; ok {
		return n
	}
	return "unknown-" + id
}

// crefOf classifies the claim reference of an XR: this | other | none.
func crefOf(u *unstructured.Unstructured) string {
	if u == nil {
		return "absent"
	}
	n, ok, _ := unstructured.NestedString(u.Object, "spec", "claimRef", "name")
	if !ok {
		return "none"
	}
	nsp, _, _ := unstructured.NestedString(u.Object, "spec", "claimRef", "namespace")
	k, _, _ := unstructured.NestedString(u.Object, "spec", "claimRef", "kind")
	av, _, _ := unstructured.NestedString(u.Object, "spec", "claimRef", "apiVersion")
	if n == claimName && nsp == ns && k == claimGVK.Kind && av == claimGVK.GroupVersion().String() {
		return "this"
	}
	return "other"
}

func hasStr(ss []string, s string) bool {
	for _, x := range ss {
		if x == s {
			return true
		}
	}
	return false
}

func (w *world) claimProj(u *unstructured.Unstructured) map[string]any {
	p := map[string]any{"exists": false, "ref": "none", "fin": false, "del": false, "rv": "", "lastRef": w.lastRef}
	if u == nil {
		return p
	}
	p["exists"] = true
	if n, ok, _ := unstructured.NestedString(u.Object, "spec", "resourceRef", "name"); ok && n != "" {
		p["ref"] = w.idOf(n)
	}
	p["fin"] = hasStr(u.GetFinalizers(), claimFin)
	p["del"] = u.GetDeletionTimestamp() != nil
	p["rv"] = u.GetResourceVersion()
	return p
}

// post is the projection of the store: the abstract state Claim.tla talks about.
func (w *world) post() map[string]any {
	cu := w.s.Peek(claimKey)
	cp := w.claimProj(cu)
	if cu != nil {
		w.lastRef = cp["ref"].(string)
		cp["lastRef"] = w.lastRef
	}
	xrs := []any{}
	for _, x := range w.s.All(xrGVK.GroupKind()) {
		xrs = append(xrs, map[string]any{"id": w.idOf(x.GetName()), "cref": crefOf(x), "del": x.GetDeletionTimestamp() != nil,
			"rv": x.GetResourceVersion(), "uid": string(x.GetUID())})
	}
	sort.Slice(xrs, func(i, j int) bool {
		return xrs[i].(map[string]any)["id"].(string) < xrs[j].(map[string]any)["id"].(string)
	})
	return map[string]any{"claim": cp, "xrs": xrs}
}

func (w *world) emit(ev string, m map[string]any) {
	base := map[string]any{"ev": ev, "scenario": w.scenID, "actor": "claim", "rec": w.recNo, "idx": 0,
		"verb": "", "kind": "", "abs": "", "target": "none", "preRef": "na", "outcome": "", "injected": "",
		"applied": false, "noop": false, "write": false, "stale": 0, "result": "", "faulty": false, "syncer": w.syncer, "post": w.post()}
	for k, v := range m {
		base[k] = v
	}
	w.tw.Emit(base)
}

func secretAbs(k simapi.Key) string {
	switch {
	case k.Name == xrSecret:
		return "xsec"
	case k.Name == claimSecret:
		return "csec"
	}
	return "secret-" + k.Name
}

func verbOf(verb, sub string) string {
	if sub != "" {
		return verb + "-" + sub
	}
	return verb
}

// classify maps a call to the action alphabet of Claim.tla.
func (w *world) classify(verb, sub string, k simapi.Key) string {
	switch k.Kind {
	case "Thing":
		return verbOf(verb, sub) + ":claim"
	case "XThing":
		return verbOf(verb, sub) + ":" + w.idOf(k.Name)
	case "Secret":
		return verbOf(verb, sub) + ":" + secretAbs(k)
	}
	return "other:" + k.Kind
}

func (w *world) intercept(cl *simapi.Call) simapi.Decision {
	w.preRef = "na"
	if cl.Key.Kind == "XThing" {
		w.preRef = crefOf(w.s.Peek(cl.Key))
	}
	if w.al == nil {
		return simapi.Proceed
	}
	return w.al.OnCall(w.classify(cl.Verb, cl.Sub, cl.Key), cl.Write)
}

func (w *world) onEvent(e *simapi.Event) {
	if e.Actor != "claim" {
		return
	}
	if e.Outcome == "dropped" && e.Injected == "" {
		return // the process is dead: the call never left it
	}
	k := simapi.Key{Group: e.Group, Kind: e.Kind, Namespace: e.NS, Name: e.Name}
	abs := w.classify(e.Verb, e.Sub, k)
	kind := map[string]string{"Thing": "claim", "XThing": "xr", "Secret": "secret"}[e.Kind]
	if kind == "" {
		kind = "other"
	}
	target, preRef := "none", "na"
	if e.Kind == "XThing" {
		target = w.idOf(e.Name)
		preRef = w.preRef
		if e.Outcome == "dropped" { // crash before: the interceptor saw the pre-state
			preRef = w.preRef
		}
	}
	applied := e.Applied && !e.DryRun
	if debug && e.IsWrite() && e.PreObj != nil && e.PostObj != nil {
		a, _ := json.Marshal(e.PreObj.Object)
		b, _ := json.Marshal(e.PostObj.Object)
		fmt.Fprintf(os.Stderr, "DEBUG %s rec %d idx %d %s\n  pre  %s\n  post %s\n", w.scenID, w.recNo, e.Idx, abs, a, b)
	}
	stale := 0
	if abs == "get:claim" {
		stale = w.staleUsed
	}
	// counters for the evidence (anti-vacuity): nothing here feeds the verdict
	if kind == "xr" && e.IsWrite() && applied {
		w.cnt.XRWrites++
		if e.Verb == "delete" {
			w.cnt.XRDeletes++
		}
		if preRef == "absent" {
			w.cnt.XRCreates++
		} else if preRef != "this" && crefOf(e.PostObj) == "this" {
			w.cnt.XRBinds++
		}
		if preRef == "other" {
			w.cnt.OtherWritten++
		}
	}
	if kind == "xr" && preRef == "other" {
		w.cnt.OtherTargeted++
	}
	if e.Outcome == "conflict" && e.Injected == "" {
		w.cnt.Conflicts++
	}
	if kind == "claim" && e.Verb == "update" && e.Sub == "" && applied && e.PreObj != nil && e.PostObj != nil {
		a, _, _ := unstructured.NestedString(e.PreObj.Object, "spec", "resourceRef", "name")
		b, _, _ := unstructured.NestedString(e.PostObj.Object, "spec", "resourceRef", "name")
		if a != b {
			w.cnt.ClaimRefSet++
		}
	}
	for _, x := range w.s.All(xrGVK.GroupKind()) {
		if crefOf(x) == "other" {
			w.cnt.OtherPresent++
			break
		}
	}
	w.emit("call", map[string]any{"idx": e.Idx, "verb": verbOf(e.Verb, e.Sub), "kind": kind, "abs": abs, "target": target, "preRef": preRef,
		"outcome": e.Outcome, "injected": e.Injected, "applied": applied, "noop": e.Noop, "write": e.IsWrite(), "stale": stale})
}

// ---- environment steps chosen by the model ----

func (w *world) env(e replay.Entry) {
	switch e.K {
	case "delclaim":
		w.s.MarkDeleted(claimKey)
	case "xrctl":
		// the XR controller reconciles the XR: finalizer, status, connection secret
		k := xrKey(w.nameOf(e.O))
		var uid types.UID
		w.s.Mutate(k, func(u *unstructured.Unstructured) {
			uid = u.GetUID()
			if !hasStr(u.GetFinalizers(), xrFin) {
				u.SetFinalizers(append(u.GetFinalizers(), xrFin))
			}
			_ = unstructured.SetNestedSlice(u.Object, []any{
				map[string]any{"type": "Synced", "status": "True", "reason": "ReconcileSuccess", "lastTransitionTime": "2024-01-01T00:00:00Z"},
				map[string]any{"type": "Ready", "status": "True", "reason": "Available", "lastTransitionTime": "2024-01-01T00:00:00Z"},
			}, "status", "conditions")
			if w.conn {
				_ = unstructured.SetNestedMap(u.Object, map[string]any{"name": xrSecret, "namespace": xrSecretNS}, "spec", "writeConnectionSecretToRef")
			}
		})
		if w.conn && uid != "" {
			w.s.Put(&corev1.Secret{
				TypeMeta: metav1.TypeMeta{APIVersion: "v1", Kind: "Secret"},
				ObjectMeta: metav1.ObjectMeta{Namespace: xrSecretNS, Name: xrSecret, OwnerReferences: []metav1.OwnerReference{{
					APIVersion: xrGVK.GroupVersion().String(), Kind: xrGVK.Kind, Name: k.Name, UID: uid, Controller: ptr.To(true)}}},
				Type: resource.SecretTypeConnection,
				Data: map[string][]byte{"endpoint": []byte("e")},
			})
		}
	case "xrfinalize":
		w.s.Mutate(xrKey(w.nameOf(e.O)), func(u *unstructured.Unstructured) {
			if u.GetDeletionTimestamp() != nil {
				u.SetFinalizers(nil)
			}
		})
	case "delxr":
		w.s.MarkDeleted(xrKey(w.nameOf(e.O)))
	case "rebind":
		// an administrator moves the XR to another claim
		w.s.Mutate(xrKey(w.nameOf(e.O)), func(u *unstructured.Unstructured) {
			u.SetLabels(map[string]string{"crossplane.io/claim-name": otherClaim, "crossplane.io/claim-namespace": ns})
			_ = unstructured.SetNestedMap(u.Object, claimRefOf(otherClaim), "spec", "claimRef")
		})
	default:
		panic("unknown env step " + e.K)
	}
	w.emit("env", map[string]any{"actor": "env", "verb": e.K, "target": e.O})
}

// ---- set-up ----

func claimRefOf(name string) map[string]any {
	return map[string]any{"apiVersion": claimGVK.GroupVersion().String(), "kind": claimGVK.Kind, "namespace": ns, "name": name}
}

func newXR(name, claimant string) *unstructured.Unstructured {
	u := &unstructured.Unstructured{Object: map[string]any{}}
	u.SetGroupVersionKind(xrGVK)
	u.SetName(name)
	if claimant != "" {
		u.SetLabels(map[string]string{"crossplane.io/claim-name": claimant, "crossplane.io/claim-namespace": ns})
		_ = unstructured.SetNestedMap(u.Object, claimRefOf(claimant), "spec", "claimRef")
	}
	return u
}

func must(err error) {
	if err != nil {
		panic(err)
	}
}

func newWorld(tw *trace.Writer, cnt *counters, id string, init map[string]any, seed int64, pName string) *world {
	sch := runtime.NewScheme()
	_ = corev1.AddToScheme(sch)
	s := simapi.NewServer(sch)
	s.Namespaced(claimGVK.GroupKind())
	s.KeepHistory(claimGVK.GroupKind())
	c := simapi.NewClient(s, "claim")
	envc := simapi.NewClient(s, "env")
	w := &world{s: s, c: c, tw: tw, cnt: cnt, init: init, scenID: id, seed: seed, ids: map[string]string{}, names: map[string]string{},
		lastRef: "none", pName: pName}
	w.syncer = scen.Str(init, "syncer")
	w.conn, _ = init["conn"].(bool)
	fg := init["fg"] == true || init["fg"] == "fg"
	pre, ref0 := scen.Str(init, "pre"), scen.Str(init, "ref0")
	w.ids[pName], w.names[preID] = preID, pName
	ctx := context.Background()

	// the claim, as its author created it
	cm := &unstructured.Unstructured{Object: map[string]any{"spec": map[string]any{}}}
	cm.SetGroupVersionKind(claimGVK)
	cm.SetNamespace(ns)
	cm.SetName(claimName)
	if ref0 == preID {
		// Half of the scenarios (by a hash of the scenario id): the reference was recorded while the XRD's referenceable version
		// was an older one - same group, kind and name, another apiVersion. It names the same XR (added after the seeded change
		// C06-m9 - a recorded name is only reused if the reference's full GVK is the current one - was missed).
		av := xrGVK.GroupVersion().String()
		if h := fnv.New32a(); func() bool { _, _ = h.Write([]byte(strings.SplitN(id, "/", 2)[0])); return (h.Sum32()/2)%2 == 1 }() {
			av = xrGVK.Group + "/v1alpha1"
		}
		_ = unstructured.SetNestedMap(cm.Object, map[string]any{"apiVersion": av, "kind": xrGVK.Kind, "name": pName}, "spec", "resourceRef")
	}
	if fg {
		_ = unstructured.SetNestedField(cm.Object, "Foreground", "spec", "compositeDeletePolicy")
	}
	if w.conn {
		_ = unstructured.SetNestedMap(cm.Object, map[string]any{"name": claimSecret}, "spec", "writeConnectionSecretToRef")
	}
	if pre == "mine" {
		cm.SetFinalizers([]string{claimFin})
	}
	must(envc.Create(ctx, cm, client.FieldOwner("kubectl")))
	w.claimUID = cm.GetUID()

	// the pre-existing XR p: bound to another claim, unbound, or bound to this claim by an earlier (client-side) controller version
	switch pre {
	case "other", "otherdel":
		x := newXR(pName, otherClaim)
		if pre == "otherdel" {
			x.SetFinalizers([]string{xrFin})
		}
		// Half of the scenarios (by a hash of the scenario id): the other claim has the SAME name in a DIFFERENT namespace - still a
		// different claim (added after the seeded change C06-m2, a guard that forgot the namespace, was missed).
		if h := fnv.New32a(); func() bool { _, _ = h.Write([]byte(strings.SplitN(id, "/", 2)[0])); return h.Sum32()%2 == 0 }() {
			x.SetLabels(map[string]string{"crossplane.io/claim-name": claimName, "crossplane.io/claim-namespace": "other-ns"})
			_ = unstructured.SetNestedMap(x.Object, map[string]any{"apiVersion": claimGVK.GroupVersion().String(), "kind": claimGVK.Kind, "namespace": "other-ns", "name": claimName}, "spec", "claimRef")
		}
		if w.syncer == "SSA" {
			must(envc.Patch(ctx, x, client.Apply, client.ForceOwnership, client.FieldOwner(claim.FieldOwnerXR)))
		} else {
			must(envc.Create(ctx, x))
		}
		if pre == "otherdel" {
			// the other claim was deleted: its XR has a deletionTimestamp and waits for its controller's finalizer
			must(envc.Delete(ctx, x))
		}
	case "unbound":
		// statically provisioned by a user (with something of its own, so that it has a managedFields entry like every real object)
		x := newXR(pName, "")
		x.SetAnnotations(map[string]string{"example.org/provisioned-by": "user"})
		must(envc.Create(ctx, x, client.FieldOwner("kubectl")))
	case "mine":
		must(envc.Create(ctx, newXR(pName, claimName)))
	case "absent":
	default:
		panic("unknown placement " + pre)
	}

	var opts []claim.ReconcilerOption
	switch w.syncer {
	case "SSA":
		opts = append(opts,
			claim.WithCompositeSyncer(claim.NewServerSideCompositeSyncer(c, names.NewNameGenerator(c))),
			claim.WithManagedFieldsUpgrader(claim.NewPatchingManagedFieldsUpgrader(c)))
	case "CSA":
		// the defaults: client-side syncer, no-op managed fields upgrader, API connection propagator
	default:
		panic("unknown syncer " + w.syncer)
	}
	w.rec = claim.NewReconciler(c, resource.CompositeClaimKind(claimGVK), resource.CompositeKind(xrGVK), opts...)
	c.Intercept = w.intercept
	c.StaleGet = func(k simapi.Key, versions []*unstructured.Unstructured) (*unstructured.Unstructured, bool) {
		if k != claimKey || w.staleV <= 0 {
			return nil, false
		}
		v := w.staleV
		w.staleV = 0
		if v > len(versions) || versions[v-1] == nil {
			if w.offModel {
				w.cnt.StaleMissOff++
			} else {
				w.cnt.StaleMiss++
			}
			return nil, false
		}
		w.staleUsed = v
		w.cnt.StaleServed++
		if versions[len(versions)-1] == nil { // (the server lock is held here: no Peek)
			w.cnt.StaleGone++
		}
		return versions[v-1], true
	}
	s.OnEvent = w.onEvent
	return w
}

// sweep: inject at a concrete real call index
type sweep struct {
	rec, idx int
	d        simapi.Decision
}

func (w *world) reconcile(al *replay.Aligner, sw *sweep, staleV int) (calls int) {
	w.recNo++
	w.al = al
	w.staleV, w.staleUsed = staleV, 0
	w.c.BeginReconcile()
	utilrand.Seed(seedFor(w.seed, w.recNo))
	inner := w.c.Intercept
	if sw != nil && sw.rec == w.recNo {
		w.c.Intercept = func(cl *simapi.Call) simapi.Decision {
			d := inner(cl)
			if cl.Idx == sw.idx && d == simapi.Proceed {
				al.Injected = sw.d.String()
				if sw.d == simapi.FailConflict && !cl.Write {
					return simapi.FailError
				}
				return sw.d
			}
			return d
		}
	}
	w.emit("start", nil)
	_, err := w.rec.Reconcile(context.Background(), reconcile.Request{NamespacedName: types.NamespacedName{Namespace: ns, Name: claimName}})
	w.c.Intercept = inner
	calls = w.c.Calls()
	al.Finish()
	res := "ok"
	if w.c.Dead() {
		res = "crashed"
	} else if err != nil {
		res = "error"
	}
	w.emit("end", map[string]any{"result": res, "faulty": al.Injected != ""})
	w.al = nil
	return calls
}

type summary struct {
	Scenarios     int            `json:"scenarios"`
	Runs          int            `json:"runs"`
	Reconciles    int            `json:"reconciles"`
	Events        int            `json:"events"`
	Drift         int            `json:"drift"`
	DriftRuns     int            `json:"drift_runs"`
	ModelRuns     int            `json:"model_runs"`
	OffModelRuns  int            `json:"off_model_variant_runs"`
	OffModelDrift int            `json:"off_model_variant_drift"`
	SweepRuns     int            `json:"sweep_runs"`
	BySyncer      map[string]int `json:"runs_by_syncer"`
	Counts        map[string]int `json:"counts"`
	Witness       *counters      `json:"witness"`
	Samples       []any          `json:"samples"`
	DriftByAbs    map[string]int `json:"drift_by_abs"`
	DriftExamples []string       `json:"drift_examples"`
}

func staleOf(e replay.Entry) int {
	if f, ok := e.Raw["v"].(float64); ok {
		return int(f)
	}
	return 0
}

// collisionName: if the behaviour makes the name generator propose the name of
// the pre-existing XR p, p is given exactly the name the real generator will
// propose at that point (its random stream is seeded per reconcile).
func collisionName(hist []replay.Entry, seed int64) string {
	rec := 0
	for _, e := range hist {
		if e.T != "call" {
			continue
		}
		if e.Abs() == "get:claim" {
			rec++
		}
		if g, ok := e.Raw["g"].(float64); ok && g > 0 && e.O == preID {
			return predict(seed, rec, int(g))
		}
	}
	return staticP
}

// run replays one behaviour. onModel says whether the way faults are realised is the one the model assumed.
func run(tw *trace.Writer, cnt *counters, id string, hist []replay.Entry, variant simapi.Decision, onModel bool, sw *sweep, extra int, seed int64, sum *summary) []int {
	tw.Boundary()
	pName := collisionName(hist, seed)
	if pName != staticP {
		cnt.Collisions++
	}
	// the claim's delete policy is part of its spec from the start; the model reveals it when the user deletes the claim
	init := map[string]any{}
	for k, v := range hist[0].Raw {
		init[k] = v
	}
	for _, e := range hist {
		if e.T == "env" && e.K == "delclaim" && e.O != "" {
			init["fg"] = e.O
		}
	}
	w := newWorld(tw, cnt, id, init, seed, pName)
	w.offModel = sw != nil || !onModel
	w.emit("reset", nil)
	blocks, trailing := replay.Split(hist[1:], func(e replay.Entry) bool { return e.Abs() == "get:claim" })
	var calls []int
	drift := 0
	for _, b := range blocks {
		for _, e := range b.Pre {
			w.env(e)
		}
		al := &replay.Aligner{Steps: b.Steps, Variant: variant, Env: w.env}
		calls = append(calls, w.reconcile(al, sw, staleOf(b.Steps[0])))
		if sw == nil {
			drift += al.Drift
			if onModel {
				for _, k := range al.DriftAbs {
					sum.DriftByAbs[k]++
				}
				if al.Drift > 0 && len(sum.DriftExamples) < 40 {
					sum.DriftExamples = append(sum.DriftExamples, fmt.Sprintf("%s rec %d: %s", id, w.recNo, strings.Join(al.DriftAbs, " ")))
				}
			}
		}
		sum.Reconciles++
	}
	for _, e := range trailing {
		w.env(e)
	}
	for i := 0; i < extra; i++ {
		al := &replay.Aligner{Variant: variant, Env: w.env}
		calls = append(calls, w.reconcile(al, sw, 0))
		sum.Reconciles++
	}
	sum.Runs++
	sum.BySyncer[w.syncer]++
	switch {
	case sw != nil:
	case onModel:
		sum.ModelRuns++
		sum.Drift += drift
		if drift > 0 {
			sum.DriftRuns++
		}
	default:
		sum.OffModelRuns++
		sum.OffModelDrift += drift
	}
	return calls
}

func main() {
	scenarios := flag.String("scenarios", "", "NDJSON file of TLC histories")
	tracePath := flag.String("trace", "", "output trace")
	sumPath := flag.String("summary", "", "output summary JSON")
	variants := flag.String("variants", "model", "model|all: how a model 'fail' is realised (model: as the behaviour's init entry says; all: also as conflict and as the other kind)")
	chunk := flag.Int("chunk", 0, "split the trace into files of about this many events")
	sweepN := flag.Int("sweep", 0, "number of scenarios to sweep over every real call index x outcome")
	seed := flag.Int64("seed", 1, "seed of the name generator's random stream")
	flag.BoolVar(&debug, "debug", false, "print the stored object before and after every write to stderr")
	flag.Parse()

	raws, err := scen.Load(*scenarios)
	if err != nil {
		fmt.Fprintln(os.Stderr, err)
		os.Exit(2)
	}
	tw, err := trace.New(*tracePath, *chunk)
	if err != nil {
		fmt.Fprintln(os.Stderr, err)
		os.Exit(2)
	}
	cnt := &counters{}
	sum := &summary{DriftByAbs: map[string]int{}, BySyncer: map[string]int{}, Witness: cnt, DriftExamples: []string{}, Samples: []any{}}
	dec := map[string]simapi.Decision{"error": simapi.FailError, "conflict": simapi.FailConflict, "crashBefore": simapi.CrashBefore, "crashAfter": simapi.CrashAfter}
	for i, raw := range raws {
		var sc struct {
			ID      string          `json:"id"`
			Hist    json.RawMessage `json:"hist"`
			Variant string          `json:"variant"`
			Extra   int             `json:"extra"`
			Sweep   *struct {
				Rec     int    `json:"rec"`
				Idx     int    `json:"idx"`
				Outcome string `json:"outcome"`
			} `json:"sweep"`
		}
		if err := json.Unmarshal(raw, &sc); err != nil {
			fmt.Fprintln(os.Stderr, "bad scenario:", err)
			os.Exit(2)
		}
		hist, err := replay.Parse(sc.Hist)
		if err != nil || len(hist) == 0 || hist[0].T != "init" {
			fmt.Fprintln(os.Stderr, "bad scenario history:", err)
			os.Exit(2)
		}
		sum.Scenarios++
		// how the behaviour's "fail" entries are to be realised: the model says so on the entries (or, older format, in the init entry)
		modelV, ok := dec[scen.Str(hist[0].Raw, "fk")]
		if !ok {
			modelV = simapi.FailError
		}
		for _, e := range hist {
			if d, ok := dec[scen.Str(e.Raw, "fk")]; ok && e.F == "fail" {
				modelV = d
			}
		}
		if sc.Variant != "" || sc.Sweep != nil {
			// a replay file: run exactly what it says
			v := modelV
			if sc.Variant != "" {
				v = dec[sc.Variant]
			}
			var sw *sweep
			if sc.Sweep != nil {
				sw = &sweep{rec: sc.Sweep.Rec, idx: sc.Sweep.Idx, d: dec[sc.Sweep.Outcome]}
			}
			run(tw, cnt, sc.ID, hist, v, v == modelV, sw, sc.Extra, *seed, sum)
			continue
		}
		hasFail := false
		for _, e := range hist {
			if e.F == "fail" {
				hasFail = true
			}
		}
		vs := []simapi.Decision{modelV}
		if hasFail && *variants == "all" {
			for _, d := range []simapi.Decision{simapi.FailError, simapi.FailConflict, simapi.CrashBefore} {
				if d != modelV {
					vs = append(vs, d)
				}
			}
		}
		for _, v := range vs {
			id := sc.ID
			if v != modelV {
				id += "/" + v.String()
			}
			calls := run(tw, cnt, id, hist, v, v == modelV, nil, 0, *seed, sum)
			if i < *sweepN && v == modelV {
				// every real call index of every reconcile x every outcome, followed by two fault-free reconciles with fresh reads
				for r, n := range calls {
					for k := 1; k <= n; k++ {
						for _, d := range []simapi.Decision{simapi.FailError, simapi.FailConflict, simapi.CrashBefore, simapi.CrashAfter} {
							run(tw, cnt, fmt.Sprintf("%s/sweep-r%d-k%d-%s", sc.ID, r+1, k, d), hist, v, true, &sweep{rec: r + 1, idx: k, d: d}, 2, *seed, sum)
							sum.SweepRuns++
						}
					}
				}
			}
		}
		if len(sum.Samples) < 2 && len(hist) > 6 {
			sum.Samples = append(sum.Samples, json.RawMessage(raw))
		}
	}
	sum.Events = tw.Lines
	sum.Counts = tw.Counts
	if err := tw.Close(); err != nil {
		fmt.Fprintln(os.Stderr, err)
		os.Exit(2)
	}
	if err := scen.WriteJSON(*sumPath, sum); err != nil {
		fmt.Fprintln(os.Stderr, err)
		os.Exit(2)
	}
}

var _ = ucomposite.New
var _ = uclaim.New
