---------------------------- MODULE MCRuntime ----------------------------
EXTENDS Runtime, Json
D(dn, san, ext) == [dn |-> dn, san |-> san, ext |-> ext]
DrcPlain == {D("none", "none", FALSE)}
DrcNamed == {D("none", "none", FALSE), D("dx", "none", FALSE)}
DrcAll == {D("none", "none", FALSE), D("dx", "none", FALSE), D("none", "sx", FALSE), D("none", "none", TRUE), D("dx", "sx", FALSE)}
StartsAll == {"fresh", "steady", "handover"}
StartsUp == {"steady", "handover"}
StartsFresh == {"fresh"}
BoolBoth == {TRUE, FALSE}
BoolT == {TRUE}
TmplBoth == {"plain", "rich"}
TmplPlain == {"plain"}
TmplAll == {"plain", "rich", "empty"}
TmplEdge == {"rich", "empty"}
EnvAll == {"flip", "dn", "san", "ext", "avail", "grab", "fcreate", "vanish", "nest"}
EnvSeq == {"flip", "dn", "san", "ext", "avail", "grab", "fcreate", "vanish"}
EnvCore == {"flip", "dn", "avail", "nest"}
EnvCalm == {"flip", "avail"}
EnvMid == {"flip", "dn", "avail", "grab", "vanish", "nest"}
InterfAll == {"svc", "secS", "sa-r1", "sa-r2", "sa-sx", "dep-r1", "dep-r2", "dep-dx"}
InterfDeps == {"svc", "dep-r1", "dep-r2", "dep-dx"}
InterfNone == {}
\* scenario emission: one line per transition that ends a top-level reconcile
Emit == (recs' # recs) => PrintT(<<"TRACE", ToJson(hist')>>)
=============================================================================
