SPECIFICATION Spec
CONSTANTS
  CSeq <- CSeq4
  Shape <- Shape4
  InitC = {"c1", "c2", "c3", "c4"}
  Sels = {"none", "x"}
  MaxEdits = 4
  MaxStrips = 1
  MaxFaults = 2
  MaxRecs = 5
  MidEnv = FALSE
  MidFetch = FALSE
  FixLatest <- FixLatestSel
VIEW view
ACTION_CONSTRAINT Emit
CHECK_DEADLOCK FALSE
INVARIANTS OnePerContent CreateFree CurrentHighestIfFixed
PROPERTIES Faithful MonotoneIfFixed Manual Automatic
