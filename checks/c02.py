"""C02 - Crossplane never modifies, adopts or deletes what another owner controls.
One generic rule over write logs (spec/Ownership.tla) + the ForeignUntouched* riders of the modules that place a
foreign controller reference on the objects they drive: composed resources (XRCompose, both composers), connection
secrets of XR and claim (ConnSecrets), package objects (Establisher, active and inactive revisions), the package
revision with the derived name (PkgManager)."""
import concurrent.futures
import json
import os

import vlib
from checks import c09, c14, c16, xrcompose

PID = "C02"


def own_vectors(ctx):
    sub = ctx.sub("ownership")
    mc = sub.model_check("MCOwnership", "MCOwnership.cfg", workers=1, timeout=120)
    scs = [{"id": "%s-own-%03d" % (PID, i), "hist": h} for i, h in sub.sample_lines(mc["emitted_file"], 10 ** 6, mc["emitted"])]
    binp = sub.go_build("./drivers/ownership")
    sp = sub.write_scenarios(scs)
    trace = os.path.join(sub.work, "trace.ndjson")
    sub.run([binp, "-scenarios", sp, "-trace", trace, "-summary", os.path.join(sub.work, "summary.json")])
    viols, n = sub.monitor("MonOwnership", trace)
    by_id = {s["id"]: s for s in scs}
    for formula, line, scid in viols:
        sub.violation(formula, scid, sub.replay_file(dict(by_id.get(scid, {"id": scid}), rider="ownership")), "trace line %d" % line, fingerprint=formula)
    return sub, dict(states=mc["states"], transitions=mc["transitions"], runs=len(scs), events=n, samples=scs[:2])


def rider_xrcompose(ctx):
    sub = ctx.sub("xrcompose")
    names = ["pipe_ref_quick", "pipe_name_quick", "pt_ref_quick"] if ctx.quick else ["pipe_ref_thorough", "pipe_name_thorough", "pt_ref_thorough"]
    scs, st, tr = [], 0, 0
    for nme in names:
        mc = sub.model_check("MCXRCompose", "MCXRCompose_%s.cfg" % nme, sub="mc_" + nme, workers=4, timeout=900)
        scs += [{"id": "%s-%s-%07d" % (PID, nme, i), "hist": h, "rider": "xrcompose"} for i, h in sub.sample_lines(mc["emitted_file"], 400 if ctx.quick else 4000, mc["emitted"])]
        st += mc["states"]
        tr += mc["transitions"]
    # another owner takes a composed resource over in the middle of the XR's garbage collection (environment step "grab")
    # (both composers: the P&T associator collects while it reads - added after the seeded change C02-m6 was missed)
    for nme in (["pipe_quick", "pt_quick"] if ctx.quick else ["pipe_thorough", "pt_thorough"]):
        mc = sub.model_check("MCXRCompose", "MCXRCompose_%s.cfg" % nme, sub="mc_" + nme, workers=8, timeout=1800)
        grabs = []
        with open(mc["emitted_file"]) as f:
            for i, line in enumerate(f, 1):
                if '"grab"' in line:
                    grabs.append({"id": "%s-%s-%07d" % (PID, nme, i), "hist": json.loads(line), "rider": "xrcompose"})
        scs += sub.sample(grabs, 300 if ctx.quick else 5000)
        st += mc["states"]
        tr += mc["transitions"]
    s, n = xrcompose.drive_and_judge(sub, PID, scs, sweep=1, shards=4)
    return sub, dict(states=st, transitions=tr, runs=s["runs"], events=n, samples=s["samples"][:1])


def rider_module(ctx, name, mod):
    sub = ctx.sub(name)
    sub.tier = ctx.tier
    mod.run(sub)
    keep = []
    for v in sub.violations:
        if v["formula"].startswith("Foreign"):
            keep.append(v)
    sub.violations = keep
    c = sub.cov
    return sub, dict(states=c.get("states", 0), transitions=c.get("transitions", 0), runs=c.get("traces_validated_against_impl", 0), events=c.get("events", 0),
                     samples=(c.get("samples") or [])[:1])


def rider_pkgmanager(ctx):
    sub = ctx.sub("pkgmanager")
    mc = sub.model_check("MCPkgManager", "MCPkgManager_foreign.cfg", workers=4, timeout=600)
    scs = [{"id": "%s-pkgm-%07d" % (PID, i), "hist": h} for i, h in sub.sample_lines(mc["emitted_file"], 800 if ctx.quick else 6000, mc["emitted"])]
    # four digests: the foreign revision is listed first and the package's own history exceeds the limit (history GC runs)
    mc4 = sub.model_check("MCPkgManager", "MCPkgManager_foreign4.cfg", sub="mc4", workers=4, timeout=600)
    scs += [{"id": "%s-pkgm4-%07d" % (PID, i), "hist": h}
            for i, h in sub.sample_lines_stratified(mc4["emitted_file"], 600 if ctx.quick else 10 ** 6, mc4["emitted"])]
    # ... and EVERY revision but the package's own current one is foreign: the history exceeds the limit, yet there is nothing the
    # package may delete (added after the seeded change C02-m8 - "no candidate" falls back to the first revision listed - was missed)
    mc2 = sub.model_check("MCPkgManager", "MCPkgManager_foreign2.cfg", sub="mc2", workers=4, timeout=600)
    scs += [{"id": "%s-pkgm2-%07d" % (PID, i), "hist": h}
            for i, h in sub.sample_lines_stratified(mc2["emitted_file"], 500 if ctx.quick else 10 ** 6, mc2["emitted"])]
    s, n = c14.drive_and_judge(sub, scs, sweep=2)
    sub.violations = [v for v in sub.violations if v["formula"].startswith("Foreign")]
    return sub, dict(states=mc["states"] + mc4["states"] + mc2["states"], transitions=mc["transitions"] + mc4["transitions"], runs=s["runs"], events=n,
                     samples=s["samples"][:1])


def run(ctx):
    jobs = {
        "ownership": lambda: own_vectors(ctx),
        "xrcompose": lambda: rider_xrcompose(ctx),
        "connsecrets": lambda: rider_module(ctx, "connsecrets", c09),
        "establisher": lambda: rider_module(ctx, "establisher", c16),
        "pkgmanager": lambda: rider_pkgmanager(ctx),
    }
    parts = {}
    with concurrent.futures.ThreadPoolExecutor(max_workers=3) as ex:
        futs = {k: ex.submit(f) for k, f in jobs.items()}
        for k, f in futs.items():
            sub, cov = f.result()
            parts[k] = cov
            for v in sub.violations:
                ctx.violations.append(v)
    ctx.cov.update(dict(
        states=sum(p["states"] for p in parts.values()), transitions=sum(p["transitions"] for p in parts.values()),
        traces_validated_against_impl=sum(p["runs"] for p in parts.values()), events=sum(p["events"] for p in parts.values()),
        samples=[s for p in parts.values() for s in p["samples"]][:4], riders=parts,
        monitor_formulas=["ForeignUntouched.<case>", "ForeignFrozen.<case>", "Surfaces.<case>", "Exercised.<case>", "ForeignUntouched (XRCompose)",
                          "ForeignUntouched, ForeignUntouched.UncontrolledOpaque (ConnSecrets)", "ForeignUntouched.Active/.Inactive/.Surfaces (Establisher)", "ForeignFrozen (PkgManager)"],
        checker_cmd="tlc MCOwnership -> harness/drivers/ownership -> tlc MonOwnership; riders: XRCompose / ConnSecrets / Establisher / PkgManager pipelines",
        rule="placements of a controller reference to a foreign UID: CRDs defined by an XRD (composite, claim), RBAC system role, binding and XRD roles, package revision with "
             "the derived name (apply and history GC), composed resources named in spec.resourceRefs or by a desired resource (both composers), XR and claim connection secrets, "
             "package objects (active and inactive revisions); x pre-state absent / uncontrolled / owner / foreign",
    ))
    ctx.assumptions += ["not in scope (as the property says): the Usage in-use label and the plain owner reference an inactive revision adds",
                        "verdict only from write logs of the real controllers judged by the TLA+ monitors"]


def replay(ctx, path):
    with open(path) as f:
        sc = json.load(f)
    if sc.get("rider") == "xrcompose":
        sub = ctx.sub("xrcompose")
        s, n = xrcompose.drive_and_judge(sub, PID, [sc], shards=1)
    elif "case" in (sc.get("hist") or {}) if isinstance(sc.get("hist"), dict) else False:
        sub = ctx.sub("ownership")
        binp = sub.go_build("./drivers/ownership")
        sp = sub.write_scenarios([sc])
        trace = os.path.join(sub.work, "trace.ndjson")
        sub.run([binp, "-scenarios", sp, "-trace", trace, "-summary", os.path.join(sub.work, "summary.json")])
        viols, n = sub.monitor("MonOwnership", trace)
        for formula, line, scid in viols:
            sub.violation(formula, scid, path, "trace line %d" % line, fingerprint=formula)
    else:
        raise vlib.Inconclusive("replay files of the ConnSecrets / Establisher / PkgManager riders are replayed with ./check C09|C16|C14 --replay")
    ctx.violations += sub.violations
    ctx.cov.update(dict(states=1, transitions=1, traces_validated_against_impl=1, samples=[sc], events=n))
