"""X04 (extension) - `crossplane render` shows what the controller would do (RenderParity).
Reference interpreter + formulas: spec/RenderParity.tla (extends the program family of spec/Pipeline.tla with readiness);
input enumeration: spec/MCRenderParity.tla; driver: harness/drivers/renderparity (every vector through the real
cmd/crank/render.Render - Development runtime, scripted functions behind in-process gRPC servers on unix sockets - AND
through the real composite.Reconciler + FunctionComposer on simapi; one trace record per vector with both outcomes);
monitor: spec/MonRenderParity.tla."""
import glob
import json
import os

import vlib

PID = "X04"
MODULE = "MCRenderParity"
MON_FORMULAS = ["Parity.Calls", "Parity.Observed", "Parity.Outcome", "Parity.Composed", "Parity.ComposedNames",
                "Parity.ComposedMeta", "Parity.XRStatus", "Parity.XRConditions", "Parity.XRReady", "Parity.XRReadyExplicit",
                "Parity.Results",
                "Render.Order", "Render.ThreadDesired", "Render.ThreadContext", "Render.ObservedOnce", "Render.ObservedContent",
                "Render.RoundsExtra", "Render.RoundsContext", "Render.RoundsRerun", "Render.RoundsStop", "Render.RoundsBound",
                "Render.OwnInput", "Render.OwnCreds", "Render.FatalStops", "Render.Unstable", "Render.Outcome", "Render.Final",
                "Render.Sorted", "Render.Owner", "Render.Labels", "Render.KeepsObservedName", "Render.XRIdentity",
                "Render.XRStatus", "Render.XRConditions", "Render.ReadyFromResources", "Render.Results", "Render.ContextOut",
                "Render.Deterministic", "Render.InputsUntouched", "Reference.Calls", "Reference.Outcome"]


def regression():
    out = []
    for p in sorted(glob.glob(os.path.join(vlib.VERIF, "scenarios", PID, "*.json"))):
        with open(p) as f:
            out.append(json.load(f))
    return out


def scenarios_from(emitted_file):
    scs = []
    with open(emitted_file) as f:
        for i, line in enumerate(f, 1):
            scs.append({"id": "%s-%07d" % (PID, i), "input": json.loads(line)})
    return scs


def drive(ctx, binp, scs, shards, name="trace"):
    """Runs the driver over the vectors and judges the trace. Returns (viols, merged summary, lines)."""
    prefix, s = ctx.run_sharded(binp, scs, ["-chunk", "1500"], shards=shards, name=name)
    viols, nlines = ctx.monitor("MonRenderParity", prefix, par=8)
    return viols, s, nlines


def drive_and_judge(ctx, scs, shards):
    by_id = {s["id"]: s for s in scs}
    viols, s, nlines = drive(ctx, ctx.go_build("./drivers/renderparity"), scs, shards)
    # a Harness.* formula is a self-check of the harness (Go program family = TLA+ program family on both sides, the
    # reconcile reached Compose): what was recorded for such a vector cannot be judged
    broken = sorted({scid for formula, _, scid in viols if formula.startswith("Harness.")})
    for formula, line, scid in viols:
        if scid in broken:
            continue
        ctx.violation(formula, scid, ctx.replay_file(by_id.get(scid, {"id": scid})), "trace line %d" % line, fingerprint=formula)
    if broken:
        what = sorted({f for f, _, scid in viols if scid in broken})
        raise vlib.Inconclusive("harness self-check failed for %d vectors (e.g. %s: %s); replay %s" %
                                (len(broken), broken[0], what, ctx.replay_file(by_id.get(broken[0], {"id": broken[0]}))))
    if s.get("errors"):
        raise vlib.Inconclusive("driver met unexpected errors: %s" % s["errors"][:3])
    per = {}
    for formula, _, _ in viols:
        per[formula] = per.get(formula, 0) + 1
    return s, nlines, per


def run(ctx):
    cfg = "%s_quick.cfg" % MODULE if ctx.quick else "%s_thorough.cfg" % MODULE
    mc = ctx.model_check(MODULE, cfg, workers=8 if ctx.quick else 12, timeout=300 if ctx.quick else 1800)
    scs = regression() + scenarios_from(mc["emitted_file"])
    s, nlines, per = drive_and_judge(ctx, scs, 6 if ctx.quick else 12)
    ctx.cov.update(dict(
        states=mc["states"], transitions=mc["transitions"], traces_validated_against_impl=s["vectors"],
        samples=(s.get("samples") or [])[:2], model_cfg=cfg, vectors_emitted=mc["emitted"], vectors_replayed=s["vectors"],
        antecedent_hits=s["hits"], branch_hits=s.get("branches", {}), events=nlines, drift=0,
        monitor_formulas=MON_FORMULAS, violations_per_formula=per, exhaustive=(s["vectors"] == len(scs)),
        model_invariants=["RefRender", "RefParity", "RefBounds", "RefAgreesWithPipeline"],
        checker_cmd="tlc MCRenderParity (M,G: input vectors) -> harness/drivers/renderparity on /repo (T) -> tlc MonRenderParity",
        rule="every input vector of the bounded domain (program tuple x extra resources x observed composed resources x "
             "initial context x claim) is run once through the real composite.Reconciler/FunctionComposer and twice through "
             "the real render.Render; expected call sequence / outcome and the parity relation stay in TLA+",
    ))
    ctx.assumptions += [
        "'all deterministic functions' is approximated by the 17-program family of spec/RenderParity.tla",
        "render is driven through render.Render with the Development runtime (no Docker); the file loaders of load.go and the "
        "YAML printing of cmd.go are not exercised",
        "the controller side runs its functions in process behind a protobuf marshal/unmarshal round trip; render's side over gRPC "
        "(fn2 speaks v1beta1 only)",
        "Parity.* is judged for vectors with an empty initial context (the controller cannot be given one)",
        "documented differences are left aside in TLA+: connection details in the observed state, uid of the owner reference, "
        "generated names, empty-valued claim labels, claimConditionTypes / claim events, Synced",
        "simapi models the API server rules listed in spec/KubeAPI.tla (server-side apply of composed resources and XR status)",
        "verdict only from the real request sequences / outcomes judged by MonRenderParity.tla",
    ]


def replay(ctx, path):
    with open(path) as f:
        sc = json.load(f)
    s, nlines, per = drive_and_judge(ctx, [sc], 1)
    ctx.cov.update(dict(states=1, transitions=1, traces_validated_against_impl=s["vectors"], samples=[sc], events=nlines,
                        violations_per_formula=per))
