SPECIFICATION Spec
CONSTANTS
  Fams = {"val1"}
  G1 = {"g1"}
  R1 = {"r1"}
  N1 = {"n1", "*"}
  V1 = {"get"}
  U1 = {}
  GX = {}
  RX = {}
  NX = {}
  VX = {}
  UX = {}
  G2 = {}
  R2 = {}
  N2 = {}
  V2 = {}
  U2 = {}
  MemLabels = {}
  MemSrcTags = {}
  SelfSrcTags = {}
CHECK_DEADLOCK FALSE
INVARIANTS DesignSound DesignSoundStrict
