SPECIFICATION Spec
CONSTANTS
  Fns <- FaOnly
  Callers <- C1
  MaxCalls = 2
  MaxGC = 1
  MaxEnv = 1
  MaxConn = 3
  MaxFaults = 1
  EnvOps <- EnvAll
  EnvEps <- EpsAll
  InitEps <- InitAll
  Orders <- Both
  Codes <- CodesAll
  FaultKinds <- FaultsAll
  Recheck = TRUE
  VerifyTarget = TRUE
  CloseStale = TRUE
  FixPkg = FALSE
VIEW view
ACTION_CONSTRAINT Emit
CHECK_DEADLOCK FALSE
INVARIANTS NoLeak PoolOpen OneOpen StepProps
