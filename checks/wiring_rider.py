"""Rider shared by C06, C07 and C09: the claim controller as production builds it.

The drivers of those checks construct claim.Reconciler / the syncers / the connection propagator themselves, so that they
can place faults and stale reads precisely. That the production code wires exactly those components (which syncer for
which feature flag, which managed-fields upgrader, propagator, finalizer, the silent requeue on conflict, the poll
interval, both watches, the kinds) is decided here: the module ClaimLifecycle (check X06) takes the reconciler that the
REAL offered.Reconciler hands to engine.Start and reports its make-up in every trace (formulas Wiring.* of
MonClaimLifecycle.tla); the behaviours it replays on that production stack are judged by its reference formulas
(Ref.*: the claim's reference is recorded first and never changes) as well.
(Lesson of the seeded-change wave 6: wiring is code.)"""
FORMULAS = ["Wiring.Stack", "Wiring.Syncer", "Wiring.DefaultPolicy", "Ref.Stable", "Ref.First"]


# C07 also takes what the production reconciler does when the upgrade of the XR's managed fields (client-side to server-side
# apply) fails: the reconcile stops and is retried - it does not go on to sync over half-upgraded managed fields
# (added after the seeded change C07-m9 was missed; the scenarios with a failing upgrade are in cfg quick_bind).
EXTRA = {"C07": ["Requeue.OnFailure"]}


def run(ctx, pid, extra=()):
    from checks import x06
    sub = ctx.sub("claimlifecycle")
    extra = list(extra) + EXTRA.get(pid, [])
    keep = set(FORMULAS) | set(extra)
    scs, st, tr = [], 0, 0
    plan = [("quick", 120), ("quick_ssa", 120)] if ctx.quick else [("quick", 2000), ("quick_ssa", 2000), ("thorough_f2", 1500), ("thorough_f2_csa", 1500)]
    if pid == "C07":
        plan.append(("quick_bind", 0))
    for name, n in plan:
        mc = sub.model_check(x06.MODULE, "%s_%s.cfg" % (x06.MODULE, name), sub="mc_" + name, workers=4, timeout=1500)
        if n == 0:
            # every behaviour of this cfg in which the upgrade of the XR's managed fields does not simply succeed
            import json
            with open(mc["emitted_file"]) as f:
                for i, line in enumerate(f, 1):
                    if '"k":"upgrade"' in line and '"k":"upgrade","o":"xr","f":"ok"' not in line:
                        scs.append({"id": "%s-%s-%07d" % (pid, name, i), "hist": json.loads(line), "rider": "wiring"})
        else:
            scs += [{"id": "%s-%s-%07d" % (pid, name, i), "hist": h, "rider": "wiring"} for i, h in sub.sample_lines(mc["emitted_file"], n, mc["emitted"])]
        st += mc["states"]
        tr += mc["transitions"]
    s, n, _ = x06.drive_and_judge(sub, scs, sweep=0, shards=4, counts=False)
    for v in sub.violations:
        if v["formula"] in keep:
            ctx.violations.append(v)
    return dict(states=st, transitions=tr, runs=s["runs"], events=n, formulas=sorted(keep))


def replay(ctx, path, extra=()):
    from checks import x06
    x06.replay(ctx, path)
    if not ctx.cov.get("samples"):
        import json
        with open(path) as f:
            ctx.cov["samples"] = [json.load(f)]
    keep = set(FORMULAS) | set(extra) | {f for fs in EXTRA.values() for f in fs}
    ctx.violations = [v for v in ctx.violations if v["formula"] in keep]
