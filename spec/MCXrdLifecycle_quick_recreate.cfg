SPECIFICATION Spec
CONSTANTS
  Inits <- InitsSettledBoth
  EnvKinds = {"recreate", "ver"}
  FaultKinds = {}
  MaxEnv = 2
  MaxFaults = 0
  MaxRecs = 3
  Interleave = FALSE
  MidEnv = TRUE
  WaitEstablished = TRUE
  FixTypeRef = FALSE
  FixWatches = FALSE
VIEW view
ACTION_CONSTRAINT EmitEnd
CHECK_DEADLOCK FALSE
INVARIANTS Safe
PROPERTIES ForeignFrozen XrdSpecKept
