// Driver for spec/CompValidation.tla (extension check X05): replays the input
// vectors TLC enumerates (spec/MCCompValidation.tla) against
//
//   - the REAL schema-aware Composition validator
//     pkg/validation/apiextensions/v1/composition.Validator.Validate
//     (default options = with logical validation; twice on one long-lived
//     instance that shares its CRD map with every other vector of the run,
//     once on a fresh instance with fresh CRDs, once WithoutLogicalValidation),
//   - the REAL admission webhook internal/validation/apiextensions/v1/composition
//     (set up with SetupWebhookWithManager on a fake manager, reached through
//     the http.Handler it registers; the CRDs it lists live in simapi; one
//     long-lived webhook per feature-flag value, the CRDs are edited in place
//     between vectors) in the modes strict / loose / warn / unset / bogus,
//   - the schema-less Composition.Validate(),
//   - and, for the soundness formulas, the REAL runtime
//     composite.ComposedTemplates + composite.Apply on schema-conforming sample
//     values (every sample of the declared source type is written to the
//     source path of a conforming source object; the samples and both objects
//     are checked against the CRD schemas with the API server's own
//     apiextensions-apiserver schema validator), composite.IsReady and
//     composite.ExtractConnectionDetails.
//
// One trace event per vector carries the vector and the projected outcomes
// (accepted / rejected, error kinds and field paths, admission decision and
// warning counts, per-sample runtime outcome with the error projected onto
// notfound | type | value | other and the JSON type of the value that landed
// at the destination). No property logic lives here: spec/MonCompValidation.tla
// judges.
package main

import (
	"bytes"
	"context"
	"crypto/sha256"
	"encoding/json"
	"flag"
	"fmt"
	"net/http"
	"net/http/httptest"
	"os"
	"strings"
	"time"

	"github.com/go-logr/logr"
	admissionv1 "k8s.io/api/admission/v1"
	corev1 "k8s.io/api/core/v1"
	"k8s.io/apiextensions-apiserver/pkg/apis/apiextensions"
	extv1 "k8s.io/apiextensions-apiserver/pkg/apis/apiextensions/v1"
	metav1 "k8s.io/apimachinery/pkg/apis/meta/v1"
	"k8s.io/apimachinery/pkg/runtime"
	"k8s.io/apimachinery/pkg/runtime/schema"
	"k8s.io/apimachinery/pkg/util/validation/field"
	"k8s.io/utils/ptr"
	"sigs.k8s.io/controller-runtime/pkg/healthz"
	ctrllog "sigs.k8s.io/controller-runtime/pkg/log"

	xpv1 "github.com/crossplane/crossplane-runtime/apis/common/v1"
	xpcontroller "github.com/crossplane/crossplane-runtime/pkg/controller"
	"github.com/crossplane/crossplane-runtime/pkg/feature"
	"github.com/crossplane/crossplane-runtime/pkg/fieldpath"
	"github.com/crossplane/crossplane-runtime/pkg/logging"
	"github.com/crossplane/crossplane-runtime/pkg/reconciler/managed"
	"github.com/crossplane/crossplane-runtime/pkg/resource/unstructured/composed"
	ucomposite "github.com/crossplane/crossplane-runtime/pkg/resource/unstructured/composite"

	v1 "github.com/crossplane/crossplane/apis/apiextensions/v1"
	"github.com/crossplane/crossplane/internal/controller/apiextensions/composite"
	"github.com/crossplane/crossplane/internal/features"
	comphook "github.com/crossplane/crossplane/internal/validation/apiextensions/v1/composition"
	compval "github.com/crossplane/crossplane/pkg/validation/apiextensions/v1/composition"
	"github.com/crossplane/crossplane/zzverif/fakes"
	"github.com/crossplane/crossplane/zzverif/scen"
	"github.com/crossplane/crossplane/zzverif/simapi"
	"github.com/crossplane/crossplane/zzverif/trace"
)

// ------------------------------------------------------------------ input

type input struct {
	Fam string `json:"fam"`
	// patch
	PType  string   `json:"ptype"`
	Via    string   `json:"via"`
	From   string   `json:"from"`
	To     string   `json:"to"`
	Chain  []string `json:"chain"`
	Pol    string   `json:"pol"`
	Vars   []string `json:"vars"`
	CStrat string   `json:"cstrat"`
	XRS    string   `json:"xrs"`
	CDS    string   `json:"cds"`
	Res    string   `json:"res"` // r1: the patch belongs to the first resource (kind Thing), r2: to the second (kind Other)
	// mode
	Mode string `json:"mode"`
	Feat string `json:"feat"`
	CRDs string `json:"crds"`
	Body string `json:"body"`
	// ready
	RType string `json:"rtype"`
	Path  string `json:"path"`
	MS    string `json:"ms"`
	MI    int64  `json:"mi"`
	MC    string `json:"mc"`
	// conn
	CType string `json:"ctype"`
	Name  string `json:"name"`
	// malformed
	Shape string `json:"shape"`
}

// ------------------------------------------------- the field menu (FieldMenu of CompValidation.tla)

// key -> field path. The classification of every key on every side / schema variant lives in the TLA+ module
// (TypeAt); the driver only needs the paths and, for the sample values, the JSON type a TYPED schema declares.
var paths = map[string]string{
	"str": "spec.str", "int": "spec.int", "num": "spec.num", "bool": "spec.bool", "obj": "spec.obj", "objk": "spec.obj.k",
	"arr": "spec.arr", "arr0": "spec.arr[0]", "aobjv": "spec.aobj[0].v", "wild": "spec.aobj[*].v", "amax1": "spec.amax[1]", "amax2": "spec.amax[2]",
	"map": "spec.map", "mapk": "spec.map[some.key]", "mapany": "spec.mapany", "mapanyk": "spec.mapany.k", "free": "spec.free", "freek": "spec.free.k.j",
	"ios": "spec.ios", "xonly": "spec.xonly", "conly": "spec.conly", "oonly": "spec.oonly",
	"nope": "spec.nope", "strx": "spec.str.x", "str0": "spec.str[0]", "obj0": "spec.obj[0]", "arrx": "spec.arr.x", "objnope": "spec.obj.nope",
	"mname": "metadata.name", "mlabel": "metadata.labels[app]", "mann": "metadata.annotations[a.b/c]", "mbogus": "metadata.bogus",
	"status": "status.phase", "bad": "spec[", "empty": "",
}

// declared JSON type of a key in the typed schema ("" = no sample values are generated for it)
var declared = map[string]string{
	"str": "string", "int": "integer", "num": "number", "bool": "boolean", "obj": "object", "objk": "string", "arr": "array", "arr0": "string",
	"aobjv": "string", "amax1": "integer", "map": "object", "mapk": "string", "mapany": "object", "free": "object", "ios": "ios",
	"xonly": "string", "conly": "string", "oonly": "string", "mname": "string", "mlabel": "string", "mann": "string", "status": "string",
	"mapanyk": "any", "freek": "any",
}

// sample values per declared type, the way the API machinery decodes them (int64 for integral JSON numbers)
func samples(ty string) []struct {
	id string
	v  any
} {
	type s = struct {
		id string
		v  any
	}
	switch ty {
	case "string":
		return []s{{"s.a", "a"}, {"s.1", "1"}, {"s.true", "true"}, {"s.1.5", "1.5"}, {"s.obj", `{"k":"v"}`}, {"s.arr", `["x"]`}, {"s.b64", "MQ=="}, {"s.x-y", "x-y"}}
	case "integer":
		return []s{{"i.1", int64(1)}, {"i.0", int64(0)}, {"i.7", int64(7)}}
	case "number":
		return []s{{"n.1.5", 1.5}, {"n.2", int64(2)}, {"n.0.25", 0.25}}
	case "boolean":
		return []s{{"b.t", true}, {"b.f", false}}
	case "object":
		return []s{{"o.kv", map[string]any{"k": "v"}}}
	case "array":
		return []s{{"a.xy", []any{"x", "y"}}, {"a.0", []any{}}}
	case "ios":
		return []s{{"ios.s", "80"}, {"ios.i", int64(80)}}
	case "any":
		return []s{{"any.s", "1"}, {"any.i", int64(1)}}
	}
	return nil
}

const (
	group  = "ex.org"
	xrKind = "XThing"
	cdKind = "Thing"
	otKind = "Other"
)

// ------------------------------------------------------------ CRD schemas

func str(t string) extv1.JSONSchemaProps { return extv1.JSONSchemaProps{Type: t} }

// sideField is the field only the schema of that kind declares.
func sideField(kind string) string {
	switch kind {
	case xrKind:
		return "xonly"
	case otKind:
		return "oonly"
	}
	return "conly"
}

// specProps is the field universe both kinds share; side is "xonly" or "conly".
func specProps(side string) map[string]extv1.JSONSchemaProps {
	return map[string]extv1.JSONSchemaProps{
		"str": str("string"), "int": str("integer"), "num": str("number"), "bool": str("boolean"),
		"obj":    {Type: "object", Properties: map[string]extv1.JSONSchemaProps{"k": str("string")}},
		"arr":    {Type: "array", Items: &extv1.JSONSchemaPropsOrArray{Schema: ptr.To(str("string"))}},
		"aobj":   {Type: "array", Items: &extv1.JSONSchemaPropsOrArray{Schema: &extv1.JSONSchemaProps{Type: "object", Properties: map[string]extv1.JSONSchemaProps{"v": str("string")}}}},
		"amax":   {Type: "array", MaxItems: ptr.To[int64](2), Items: &extv1.JSONSchemaPropsOrArray{Schema: ptr.To(str("integer"))}},
		"map":    {Type: "object", AdditionalProperties: &extv1.JSONSchemaPropsOrBool{Allows: true, Schema: ptr.To(str("string"))}},
		"mapany": {Type: "object", AdditionalProperties: &extv1.JSONSchemaPropsOrBool{Allows: true}},
		"free":   {Type: "object", XPreserveUnknownFields: ptr.To(true)},
		"ios":    {XIntOrString: true, AnyOf: []extv1.JSONSchemaProps{str("integer"), str("string")}},
		side:     str("string"),
	}
}

func typedSchema(side string) *extv1.JSONSchemaProps {
	return &extv1.JSONSchemaProps{Type: "object", Properties: map[string]extv1.JSONSchemaProps{
		"apiVersion": str("string"), "kind": str("string"), "metadata": str("object"),
		"spec":   {Type: "object", Properties: specProps(side)},
		"status": {Type: "object", Properties: map[string]extv1.JSONSchemaProps{"phase": str("string")}},
	}}
}

// crd builds the CRD of a kind for a schema variant:
//
//	typed         the full structural schema above under version v1
//	noschema      version v1 without a schema
//	preserve      version v1: {type: object, x-kubernetes-preserve-unknown-fields: true}
//	twoversions   v1 typed and served, v2 (storage) preserve-unknown-fields: the schema is looked up by version name
//	otherversion  the typed schema under v2 and (with one more property) under v3; the Composition refers to v1, which
//	              the CRD does not have. (With a single version, or identical schemas, the internal CRD type carries
//	              the schema at the top level and getSchemaForVersion returns it whatever the version asked for.)
func crd(kind, variant string) *extv1.CustomResourceDefinition {
	side := sideField(kind)
	plural := strings.ToLower(kind) + "s"
	c := &extv1.CustomResourceDefinition{
		TypeMeta:   metav1.TypeMeta{APIVersion: "apiextensions.k8s.io/v1", Kind: "CustomResourceDefinition"},
		ObjectMeta: metav1.ObjectMeta{Name: plural + "." + group, Labels: map[string]string{"variant": variant}},
		Spec: extv1.CustomResourceDefinitionSpec{Group: group, Scope: extv1.ClusterScoped,
			Names: extv1.CustomResourceDefinitionNames{Kind: kind, ListKind: kind + "List", Plural: plural, Singular: strings.ToLower(kind)}},
	}
	ver := func(name string, storage bool, sch *extv1.JSONSchemaProps) extv1.CustomResourceDefinitionVersion {
		v := extv1.CustomResourceDefinitionVersion{Name: name, Served: true, Storage: storage}
		if sch != nil {
			v.Schema = &extv1.CustomResourceValidation{OpenAPIV3Schema: sch}
		}
		return v
	}
	preserve := &extv1.JSONSchemaProps{Type: "object", XPreserveUnknownFields: ptr.To(true)}
	switch variant {
	case "typed":
		c.Spec.Versions = []extv1.CustomResourceDefinitionVersion{ver("v1", true, typedSchema(side))}
	case "noschema":
		c.Spec.Versions = []extv1.CustomResourceDefinitionVersion{ver("v1", true, nil)}
	case "preserve":
		c.Spec.Versions = []extv1.CustomResourceDefinitionVersion{ver("v1", true, preserve)}
	case "twoversions":
		c.Spec.Versions = []extv1.CustomResourceDefinitionVersion{ver("v2", true, preserve), ver("v1", false, typedSchema(side))}
	case "otherversion":
		more := typedSchema(side)
		more.Properties["extra"] = str("string")
		c.Spec.Versions = []extv1.CustomResourceDefinitionVersion{ver("v2", true, typedSchema(side)), ver("v3", false, more)}
	default:
		panic("unknown schema variant " + variant)
	}
	return c
}

var internalCache = map[string]*apiextensions.CustomResourceDefinition{}

// internalCRD converts a CRD the way the webhook does; every caller gets its own deep copy.
func internalCRD(c *extv1.CustomResourceDefinition) apiextensions.CustomResourceDefinition {
	k := c.Name + "/" + c.Labels["variant"]
	if cached, ok := internalCache[k]; ok {
		return *cached.DeepCopy()
	}
	out := &apiextensions.CustomResourceDefinition{}
	if err := extv1.Convert_v1_CustomResourceDefinition_To_apiextensions_CustomResourceDefinition(c.DeepCopy(), out, nil); err != nil {
		panic(err)
	}
	internalCache[k] = out
	return *out.DeepCopy()
}

// --------------------------------------------- transforms (TransformMenu)

func raw(s string) extv1.JSON { return extv1.JSON{Raw: []byte(s)} }

func mkTransform(name string) v1.Transform {
	sc := func(c v1.StringConversionType) v1.Transform {
		return v1.Transform{Type: v1.TransformTypeString, String: &v1.StringTransform{Type: v1.StringTransformTypeConvert, Convert: ptr.To(c)}}
	}
	cv := func(to v1.TransformIOType, f string) v1.Transform {
		c := &v1.ConvertTransform{ToType: to}
		if f != "" {
			c.Format = ptr.To(v1.ConvertTransformFormat(f))
		}
		return v1.Transform{Type: v1.TransformTypeConvert, Convert: c}
	}
	switch name {
	case "math.mul":
		return v1.Transform{Type: v1.TransformTypeMath, Math: &v1.MathTransform{Type: v1.MathTransformTypeMultiply, Multiply: ptr.To[int64](2)}}
	case "math.min":
		return v1.Transform{Type: v1.TransformTypeMath, Math: &v1.MathTransform{Type: v1.MathTransformTypeClampMin, ClampMin: ptr.To[int64](1)}}
	case "math.max":
		return v1.Transform{Type: v1.TransformTypeMath, Math: &v1.MathTransform{Type: v1.MathTransformTypeClampMax, ClampMax: ptr.To[int64](5)}}
	case "map":
		return v1.Transform{Type: v1.TransformTypeMap, Map: &v1.MapTransform{Pairs: map[string]extv1.JSON{"a": raw(`"A"`), "1": raw(`1`), "true": raw(`true`), "x-y": raw(`{"k":"v"}`)}}}
	case "match":
		return v1.Transform{Type: v1.TransformTypeMatch, Match: &v1.MatchTransform{FallbackValue: raw(`"F"`), FallbackTo: v1.MatchFallbackToTypeValue,
			Patterns: []v1.MatchTransformPattern{{Type: v1.MatchTransformPatternTypeLiteral, Literal: ptr.To("a"), Result: raw(`"A"`)},
				{Type: v1.MatchTransformPatternTypeRegexp, Regexp: ptr.To("^[0-9]+$"), Result: raw(`1`)}}}}
	case "match.in":
		return v1.Transform{Type: v1.TransformTypeMatch, Match: &v1.MatchTransform{FallbackTo: v1.MatchFallbackToTypeInput,
			Patterns: []v1.MatchTransformPattern{{Type: v1.MatchTransformPatternTypeLiteral, Literal: ptr.To("zzz"), Result: raw(`"Z"`)}}}}
	case "str.fmt":
		return v1.Transform{Type: v1.TransformTypeString, String: &v1.StringTransform{Type: v1.StringTransformTypeFormat, Format: ptr.To("p-%v")}}
	case "str.upper":
		return sc(v1.StringConversionTypeToUpper)
	case "str.lower":
		return sc(v1.StringConversionTypeToLower)
	case "str.tojson":
		return sc(v1.StringConversionTypeToJSON)
	case "str.b64e":
		return sc(v1.StringConversionTypeToBase64)
	case "str.b64d":
		return sc(v1.StringConversionTypeFromBase64)
	case "str.sha":
		return sc(v1.StringConversionTypeToSHA256)
	case "str.adler":
		return sc(v1.StringConversionTypeToAdler32)
	case "str.trimp":
		return v1.Transform{Type: v1.TransformTypeString, String: &v1.StringTransform{Type: v1.StringTransformTypeTrimPrefix, Trim: ptr.To("x-")}}
	case "str.trims":
		return v1.Transform{Type: v1.TransformTypeString, String: &v1.StringTransform{Type: v1.StringTransformTypeTrimSuffix, Trim: ptr.To("-y")}}
	case "str.regexp":
		return v1.Transform{Type: v1.TransformTypeString, String: &v1.StringTransform{Type: v1.StringTransformTypeRegexp, Regexp: &v1.StringTransformRegexp{Match: "[0-9a-zA-Z]+"}}}
	case "str.join":
		return v1.Transform{Type: v1.TransformTypeString, String: &v1.StringTransform{Type: v1.StringTransformTypeJoin, Join: &v1.StringTransformJoin{Separator: ","}}}
	case "cv.string":
		return cv(v1.TransformIOTypeString, "")
	case "cv.int":
		return cv(v1.TransformIOTypeInt, "")
	case "cv.int64":
		return cv(v1.TransformIOTypeInt64, "none")
	case "cv.float64":
		return cv(v1.TransformIOTypeFloat64, "")
	case "cv.bool":
		return cv(v1.TransformIOTypeBool, "")
	case "cv.float64.q":
		return cv(v1.TransformIOTypeFloat64, "quantity")
	case "cv.object.j":
		return cv(v1.TransformIOTypeObject, "json")
	case "cv.array.j":
		return cv(v1.TransformIOTypeArray, "json")
	case "cv.object":
		return cv(v1.TransformIOTypeObject, "")
	case "cv.array":
		return cv(v1.TransformIOTypeArray, "")
	case "cv.string.j":
		return cv(v1.TransformIOTypeString, "json")
	// malformed transforms (family malformed / logic errors)
	case "bad.type":
		return v1.Transform{Type: "bogus"}
	case "bad.nomath":
		return v1.Transform{Type: v1.TransformTypeMath}
	case "bad.nostring":
		return v1.Transform{Type: v1.TransformTypeString}
	case "bad.noconvert":
		return v1.Transform{Type: v1.TransformTypeConvert}
	case "bad.nomap":
		return v1.Transform{Type: v1.TransformTypeMap}
	case "bad.nomatch":
		return v1.Transform{Type: v1.TransformTypeMatch}
	case "bad.strtype":
		return v1.Transform{Type: v1.TransformTypeString, String: &v1.StringTransform{Type: "Bogus", Format: ptr.To("%s")}}
	case "bad.strdefault":
		return v1.Transform{Type: v1.TransformTypeString, String: &v1.StringTransform{Format: ptr.To("%s")}}
	case "bad.strconv":
		return v1.Transform{Type: v1.TransformTypeString, String: &v1.StringTransform{Type: v1.StringTransformTypeConvert, Convert: ptr.To(v1.StringConversionType("Bogus"))}}
	case "bad.strnoconv":
		return v1.Transform{Type: v1.TransformTypeString, String: &v1.StringTransform{Type: v1.StringTransformTypeConvert}}
	case "bad.cvtype":
		return cv("bogus", "")
	case "bad.cvformat":
		return cv(v1.TransformIOTypeString, "bogus")
	case "bad.mathtype":
		return v1.Transform{Type: v1.TransformTypeMath, Math: &v1.MathTransform{Type: "Bogus", Multiply: ptr.To[int64](2)}}
	case "bad.regexp":
		return v1.Transform{Type: v1.TransformTypeString, String: &v1.StringTransform{Type: v1.StringTransformTypeRegexp, Regexp: &v1.StringTransformRegexp{Match: "("}}}
	case "bad.nopatterns":
		return v1.Transform{Type: v1.TransformTypeMatch, Match: &v1.MatchTransform{}}
	case "bad.nopairs":
		return v1.Transform{Type: v1.TransformTypeMap, Map: &v1.MapTransform{}}
	}
	panic("unknown transform " + name)
}

func mkTransforms(names []string) []v1.Transform {
	var out []v1.Transform
	for _, n := range names {
		out = append(out, mkTransform(n))
	}
	return out
}

// ----------------------------------------------------- the Composition

func pathOf(key string) string {
	p, ok := paths[key]
	if !ok {
		panic("unknown field key " + key)
	}
	return p
}

func mkPatch(in input) v1.Patch {
	p := v1.Patch{Type: v1.PatchType(in.PType), Transforms: mkTransforms(in.Chain)}
	if in.PType == "default" {
		p.Type = ""
	}
	if in.From != "unset" {
		p.FromFieldPath = ptr.To(pathOf(in.From))
	}
	if in.To != "unset" {
		p.ToFieldPath = ptr.To(pathOf(in.To))
	}
	switch in.Pol {
	case "empty":
		p.Policy = &v1.PatchPolicy{}
	case "Optional":
		p.Policy = &v1.PatchPolicy{FromFieldPath: ptr.To(v1.FromFieldPathPolicyOptional)}
	case "Required":
		p.Policy = &v1.PatchPolicy{FromFieldPath: ptr.To(v1.FromFieldPathPolicyRequired)}
	}
	if in.CStrat != "none" && in.CStrat != "" {
		c := &v1.Combine{Strategy: v1.CombineStrategyString}
		switch in.CStrat {
		case "string":
			f := strings.TrimSuffix(strings.Repeat("%v-", len(in.Vars)), "-")
			c.String = &v1.StringCombine{Format: f}
		case "nocfg":
		case "bogus":
			c.Strategy = "bogus"
			c.String = &v1.StringCombine{Format: "%v"}
		}
		for _, k := range in.Vars {
			c.Variables = append(c.Variables, v1.CombineVariable{FromFieldPath: pathOf(k)})
		}
		p.Combine = c
	}
	return p
}

func base(kind string) runtime.RawExtension {
	return runtime.RawExtension{Raw: []byte(fmt.Sprintf(`{"apiVersion":"%s/v1","kind":"%s","spec":{"str":"b"}}`, group, kind))}
}

func newComposition(mode string) *v1.Composition {
	c := &v1.Composition{TypeMeta: metav1.TypeMeta{APIVersion: "apiextensions.crossplane.io/v1", Kind: "Composition"}, ObjectMeta: metav1.ObjectMeta{Name: "comp"}}
	c.Spec.CompositeTypeRef = v1.TypeReference{APIVersion: group + "/v1", Kind: xrKind}
	if mode != "unset" && mode != "" {
		c.Annotations = map[string]string{v1.SchemaAwareCompositionValidationModeAnnotation: mode}
	}
	return c
}

func withMode(c *v1.Composition, mode string) *v1.Composition {
	out := c.DeepCopy()
	if mode == "unset" {
		out.Annotations = nil
	} else {
		out.Annotations = map[string]string{v1.SchemaAwareCompositionValidationModeAnnotation: mode}
	}
	return out
}

func patchComposition(in input) *v1.Composition {
	c := newComposition("unset")
	p := mkPatch(in)
	r := v1.ComposedTemplate{Name: ptr.To("r1"), Base: base(cdKind)}
	if in.Via == "patchset" {
		c.Spec.PatchSets = []v1.PatchSet{{Name: "ps", Patches: []v1.Patch{p}}}
		r.Patches = []v1.Patch{{Type: v1.PatchTypePatchSet, PatchSetName: ptr.To("ps")}}
	} else {
		r.Patches = []v1.Patch{p}
	}
	c.Spec.Resources = []v1.ComposedTemplate{r}
	if in.Res == "r2" {
		// the patch belongs to the second resource, of kind Other; the first one (Thing) carries no patch
		r.Name, r.Base = ptr.To("r2"), base(otKind)
		c.Spec.Resources = []v1.ComposedTemplate{{Name: ptr.To("r1"), Base: base(cdKind)}, r}
	}
	return c
}

func readyComposition(in input) *v1.Composition {
	c := newComposition("unset")
	rc := v1.ReadinessCheck{Type: v1.ReadinessCheckType(in.RType), MatchInteger: in.MI}
	if in.Path != "empty" {
		rc.FieldPath = pathOf(in.Path)
	}
	if in.MS == "set" {
		rc.MatchString = "a"
	}
	switch in.MC {
	case "set":
		rc.MatchCondition = &v1.MatchConditionReadinessCheck{Type: xpv1.TypeReady, Status: corev1.ConditionTrue}
	case "empty":
		rc.MatchCondition = &v1.MatchConditionReadinessCheck{}
	}
	c.Spec.Resources = []v1.ComposedTemplate{{Name: ptr.To("r1"), Base: base(cdKind), ReadinessChecks: []v1.ReadinessCheck{rc}}}
	return c
}

func connComposition(in input) *v1.Composition {
	c := newComposition("unset")
	cd := v1.ConnectionDetail{}
	if in.CType != "nil" {
		cd.Type = ptr.To(v1.ConnectionDetailType(in.CType))
	}
	if in.Path != "unset" {
		cd.FromFieldPath = ptr.To(pathOf(in.Path))
	}
	if in.Name == "set" {
		cd.Name = ptr.To("key")
	}
	switch in.CType {
	case "FromConnectionSecretKey":
		cd.FromConnectionSecretKey = ptr.To("secret-key")
	case "FromValue":
		cd.Value = ptr.To("fixed")
	}
	c.Spec.Resources = []v1.ComposedTemplate{{Name: ptr.To("r1"), Base: base(cdKind), ConnectionDetails: []v1.ConnectionDetail{cd}}}
	return c
}

// the bodies of family mode: one patch on resource r1 (Thing); resource r2 (Other) carries no patch
func modeComposition(in input) *v1.Composition {
	p := input{PType: "FromCompositeFieldPath", From: "str", To: "str", Pol: "nil", CStrat: "none"}
	switch in.Body {
	case "valid":
	case "typeerr":
		p.To = "int"
	case "patherr":
		p.From = "nope"
	case "logicerr":
		p.From = "unset"
	default:
		panic("unknown body " + in.Body)
	}
	c := newComposition(in.Mode)
	c.Spec.Resources = []v1.ComposedTemplate{
		{Name: ptr.To("r1"), Base: base(cdKind), Patches: []v1.Patch{mkPatch(p)}},
		{Name: ptr.To("r2"), Base: base(otKind)},
	}
	return c
}

// malformed: Compositions the API types can express that no sensible author writes
func malformedComposition(shape string) *v1.Composition {
	c := newComposition("unset")
	one := func(p ...v1.Patch) {
		c.Spec.Resources = []v1.ComposedTemplate{{Name: ptr.To("r1"), Base: base(cdKind), Patches: p}}
	}
	ok := v1.Patch{Type: v1.PatchTypeFromCompositeFieldPath, FromFieldPath: ptr.To("spec.str"), ToFieldPath: ptr.To("spec.str")}
	switch {
	case strings.HasPrefix(shape, "tr:"):
		p := ok
		p.Transforms = mkTransforms(strings.Split(strings.TrimPrefix(shape, "tr:"), "+"))
		one(p)
		return c
	}
	switch shape {
	case "empty":
		return &v1.Composition{}
	case "noresources":
	case "pipeline-noresources":
		c.Spec.Mode = ptr.To(v1.CompositionModePipeline)
	case "pipeline-with-resources":
		c.Spec.Mode = ptr.To(v1.CompositionModePipeline)
		c.Spec.Pipeline = []v1.PipelineStep{{Step: "s", FunctionRef: v1.FunctionReference{Name: "f"}}}
		one(v1.Patch{Type: v1.PatchTypeFromCompositeFieldPath, FromFieldPath: ptr.To("spec.str"), ToFieldPath: ptr.To("spec.int")})
	case "bogus-mode":
		c.Spec.Mode = ptr.To(v1.CompositionMode("Bogus"))
		one(ok)
	case "patch-type-bogus":
		one(v1.Patch{Type: "Bogus", FromFieldPath: ptr.To("spec.str")})
	case "patch-empty":
		one(v1.Patch{})
	case "patchset-noname":
		one(v1.Patch{Type: v1.PatchTypePatchSet})
	case "patchset-undefined":
		one(v1.Patch{Type: v1.PatchTypePatchSet, PatchSetName: ptr.To("nope")})
	case "patchset-nested":
		c.Spec.PatchSets = []v1.PatchSet{{Name: "a", Patches: []v1.Patch{{Type: v1.PatchTypePatchSet, PatchSetName: ptr.To("b")}}}, {Name: "b", Patches: []v1.Patch{ok}}}
		one(v1.Patch{Type: v1.PatchTypePatchSet, PatchSetName: ptr.To("a")})
	case "patchset-bad-member":
		c.Spec.PatchSets = []v1.PatchSet{{Name: "a", Patches: []v1.Patch{{Type: v1.PatchTypeCombineFromComposite}}}}
		one(v1.Patch{Type: v1.PatchTypePatchSet, PatchSetName: ptr.To("a")})
	case "patchset-unused-bad-path":
		c.Spec.PatchSets = []v1.PatchSet{{Name: "a", Patches: []v1.Patch{{Type: v1.PatchTypeFromCompositeFieldPath, FromFieldPath: ptr.To("spec.nope")}}}}
		one(ok)
	case "patchset-duplicate-names":
		c.Spec.PatchSets = []v1.PatchSet{{Name: "a", Patches: []v1.Patch{ok}}, {Name: "a", Patches: []v1.Patch{{Type: v1.PatchTypeFromCompositeFieldPath, FromFieldPath: ptr.To("spec.nope")}}}}
		one(v1.Patch{Type: v1.PatchTypePatchSet, PatchSetName: ptr.To("a")})
	case "combine-nil":
		one(v1.Patch{Type: v1.PatchTypeCombineFromComposite, ToFieldPath: ptr.To("spec.str")})
	case "combine-noto":
		one(v1.Patch{Type: v1.PatchTypeCombineToComposite, Combine: &v1.Combine{Strategy: v1.CombineStrategyString, String: &v1.StringCombine{Format: "%s"}, Variables: []v1.CombineVariable{{FromFieldPath: "spec.str"}}}})
	case "combine-novars":
		one(v1.Patch{Type: v1.PatchTypeCombineFromComposite, ToFieldPath: ptr.To("spec.str"), Combine: &v1.Combine{Strategy: v1.CombineStrategyString, String: &v1.StringCombine{Format: "x"}}})
	case "combine-emptyvar":
		one(v1.Patch{Type: v1.PatchTypeCombineFromComposite, ToFieldPath: ptr.To("spec.str"), Combine: &v1.Combine{Strategy: v1.CombineStrategyString, String: &v1.StringCombine{Format: "%s"}, Variables: []v1.CombineVariable{{}}}})
	case "base-empty":
		c.Spec.Resources = []v1.ComposedTemplate{{Name: ptr.To("r1"), Patches: []v1.Patch{ok}}}
	case "base-notjson":
		c.Spec.Resources = []v1.ComposedTemplate{{Name: ptr.To("r1"), Base: runtime.RawExtension{Raw: []byte("{")}, Patches: []v1.Patch{ok}}}
	case "base-nokind":
		c.Spec.Resources = []v1.ComposedTemplate{{Name: ptr.To("r1"), Base: runtime.RawExtension{Raw: []byte(`{"spec":{}}`)}, Patches: []v1.Patch{ok}}}
	case "base-array":
		c.Spec.Resources = []v1.ComposedTemplate{{Name: ptr.To("r1"), Base: runtime.RawExtension{Raw: []byte(`[1]`)}, Patches: []v1.Patch{ok}}}
	case "base-nokind-ready":
		c.Spec.Resources = []v1.ComposedTemplate{{Name: ptr.To("r1"), Base: runtime.RawExtension{Raw: []byte(`{"spec":{}}`)},
			ReadinessChecks: []v1.ReadinessCheck{{Type: v1.ReadinessCheckTypeNonEmpty, FieldPath: "spec.str"}}, ConnectionDetails: []v1.ConnectionDetail{{FromFieldPath: ptr.To("spec.str")}}}}
	case "base-core-kind":
		c.Spec.Resources = []v1.ComposedTemplate{{Name: ptr.To("r1"), Base: runtime.RawExtension{Raw: []byte(`{"apiVersion":"v1","kind":"ConfigMap"}`)}, Patches: []v1.Patch{ok}}}
	case "typeref-empty":
		c.Spec.CompositeTypeRef = v1.TypeReference{}
		one(ok)
	case "typeref-malformed":
		c.Spec.CompositeTypeRef = v1.TypeReference{APIVersion: "a/b/c", Kind: xrKind}
		one(ok)
	case "names-mixed":
		c.Spec.Resources = []v1.ComposedTemplate{{Name: ptr.To("r1"), Base: base(cdKind)}, {Base: base(cdKind)}}
	case "names-duplicate":
		c.Spec.Resources = []v1.ComposedTemplate{{Name: ptr.To("r1"), Base: base(cdKind)}, {Name: ptr.To("r1"), Base: base(cdKind)}}
	case "names-anonymous":
		c.Spec.Resources = []v1.ComposedTemplate{{Base: base(cdKind), Patches: []v1.Patch{ok}}, {Base: base(cdKind)}}
	case "ready-bogus-type":
		c.Spec.Resources = []v1.ComposedTemplate{{Name: ptr.To("r1"), Base: base(cdKind), ReadinessChecks: []v1.ReadinessCheck{{Type: "Bogus", FieldPath: "spec.str"}}}}
	case "ready-nil-condition":
		c.Spec.Resources = []v1.ComposedTemplate{{Name: ptr.To("r1"), Base: base(cdKind), ReadinessChecks: []v1.ReadinessCheck{{Type: v1.ReadinessCheckTypeMatchCondition}}}}
	case "conn-empty":
		c.Spec.Resources = []v1.ComposedTemplate{{Name: ptr.To("r1"), Base: base(cdKind), ConnectionDetails: []v1.ConnectionDetail{{}}}}
	case "policy-bogus":
		p := ok
		p.Policy = &v1.PatchPolicy{FromFieldPath: ptr.To(v1.FromFieldPathPolicy("Bogus")), MergeOptions: &xpv1.MergeOptions{KeepMapValues: ptr.To(true)}}
		one(p)
	case "huge-index":
		one(v1.Patch{Type: v1.PatchTypeFromCompositeFieldPath, FromFieldPath: ptr.To("spec.arr[99999999999999999999]"), ToFieldPath: ptr.To("spec.str")})
	case "deep-path":
		one(v1.Patch{Type: v1.PatchTypeFromCompositeFieldPath, FromFieldPath: ptr.To("spec.obj.k.a.b.c[0][1].d"), ToFieldPath: ptr.To("spec[0]")})
	case "many-patches":
		var ps []v1.Patch
		for i := 0; i < 50; i++ {
			ps = append(ps, ok, v1.Patch{Type: v1.PatchTypeToCompositeFieldPath, FromFieldPath: ptr.To("spec.int"), ToFieldPath: ptr.To("spec.str")})
		}
		one(ps...)
	default:
		panic("unknown malformed shape " + shape)
	}
	return c
}

// guard runs fn and turns a panic into the outcome "panic".
func guard(fn func()) (outcome, msg string) {
	defer func() {
		if r := recover(); r != nil {
			outcome, msg = "panic", fmt.Sprint(r)
		}
	}()
	fn()
	return "ok", ""
}

// ---------------------------------------------------- the real validator

type crdMap = map[schema.GroupKind]apiextensions.CustomResourceDefinition

func gk(kind string) schema.GroupKind { return schema.GroupKind{Group: group, Kind: kind} }

// crdSet: the schema variant cds applies to the kind of the resource that carries the patch (the other composed kind is typed)
func crdSet(xrs, cds, res string) []*extv1.CustomResourceDefinition {
	if res == "r2" {
		return []*extv1.CustomResourceDefinition{crd(xrKind, xrs), crd(cdKind, "typed"), crd(otKind, cds)}
	}
	return []*extv1.CustomResourceDefinition{crd(xrKind, xrs), crd(cdKind, cds), crd(otKind, "typed")}
}

func freshCRDs(xrs, cds, res string) crdMap {
	m := crdMap{}
	for _, c := range crdSet(xrs, cds, res) {
		m[gk(c.Spec.Names.Kind)] = internalCRD(c)
	}
	return m
}

// projErrs projects a validation result onto {o, acc, n, errs, dg}
func projErrs(outcome string, errs field.ErrorList) map[string]any {
	list := []any{}
	h := sha256.New()
	for _, e := range errs {
		list = append(list, string(e.Type)+"|"+e.Field)
		fmt.Fprintf(h, "%s|%s|%s\n", e.Type, e.Field, e.Detail)
	}
	if len(list) > 6 {
		list = list[:6]
	}
	return map[string]any{"o": outcome, "acc": outcome == "ok" && len(errs) == 0, "n": len(errs), "errs": list, "dg": fmt.Sprintf("%x", h.Sum(nil)[:6])}
}

func runValidator(v *compval.Validator, comp *v1.Composition) (map[string]any, string) {
	var errs field.ErrorList
	o, msg := guard(func() { _, errs = v.Validate(context.Background(), comp.DeepCopy()) })
	if o != "ok" {
		errs = nil
	}
	return projErrs(o, errs), msg
}

func mustValidator(opts ...compval.ValidatorOption) *compval.Validator {
	v, err := compval.NewValidator(opts...)
	if err != nil {
		panic(err)
	}
	return v
}

// long-lived validators, one per pair of schema variants: their CRD map is shared by every vector of the run
var shared = map[string]*compval.Validator{}

func sharedValidator(xrs, cds, res string) *compval.Validator {
	k := xrs + "/" + cds + "/" + res
	if v, ok := shared[k]; ok {
		return v
	}
	v := mustValidator(compval.WithCRDGetterFromMap(freshCRDs(xrs, cds, res)))
	shared[k] = v
	return v
}

// ------------------------------------------------------ the real webhook

type whServer struct{ hooks map[string]http.Handler }

func (s *whServer) NeedLeaderElection() bool { return false }
func (s *whServer) Register(path string, hook http.Handler) {
	if _, dup := s.hooks[path]; dup {
		panic("webhook registered twice on " + path)
	}
	s.hooks[path] = hook
}
func (s *whServer) Start(context.Context) error     { return nil }
func (s *whServer) StartedChecker() healthz.Checker { return func(*http.Request) error { return nil } }
func (s *whServer) WebhookMux() *http.ServeMux      { return http.NewServeMux() }

type hook struct {
	s       *simapi.Server
	h       http.Handler
	listErr bool // every List of the webhook's reader fails with an internal error
	sig     string
}

var hooks = map[string]*hook{}

func getHook(feat string) *hook {
	if h, ok := hooks[feat]; ok {
		return h
	}
	sch := runtime.NewScheme()
	_ = v1.AddToScheme(sch)
	_ = extv1.AddToScheme(sch)
	s := simapi.NewServer(sch)
	whs := &whServer{hooks: map[string]http.Handler{}}
	hk := &hook{s: s}
	rd := simapi.NewClient(s, "webhook")
	rd.Intercept = func(c *simapi.Call) simapi.Decision {
		if hk.listErr && c.Verb == "list" {
			return simapi.FailError
		}
		return simapi.Proceed
	}
	mgr := &fakes.Manager{Client: rd, Sch: sch, Indexer: simapi.NewClient(s, "indexer"), Webhook: whs}
	flags := &feature.Flags{}
	if feat == "on" {
		flags.Enable(features.EnableBetaCompositionWebhookSchemaValidation)
	}
	if err := comphook.SetupWebhookWithManager(mgr, xpcontroller.Options{Logger: logging.NewNopLogger(), Features: flags}); err != nil {
		panic(err)
	}
	h := whs.hooks[v1.CompositionValidatingWebhookPath]
	if h == nil {
		panic(fmt.Sprintf("no handler registered on %s (have %d hooks)", v1.CompositionValidatingWebhookPath, len(whs.hooks)))
	}
	hk.h = h
	hooks[feat] = hk
	return hk
}

func crdKey(name string) simapi.Key {
	return simapi.Key{Group: "apiextensions.k8s.io", Kind: "CustomResourceDefinition", Name: name}
}

// setCRDs edits the CRDs the webhook's reader sees, in place.
func (h *hook) setCRDs(crds []*extv1.CustomResourceDefinition) {
	h.s.Log = nil // the call log is not used here; do not let it grow over the whole run
	sig := ""
	for _, c := range crds {
		sig += c.Name + "/" + c.Labels["variant"] + ";"
	}
	if sig == h.sig {
		return
	}
	h.sig = sig
	for _, o := range h.s.All(schema.GroupKind{Group: "apiextensions.k8s.io", Kind: "CustomResourceDefinition"}) {
		h.s.Remove(crdKey(o.GetName()))
	}
	for _, c := range crds {
		h.s.Put(c)
	}
}

// admit sends the Composition to the registered handler as a CREATE (or UPDATE) AdmissionReview.
func (h *hook) admit(comp *v1.Composition, op admissionv1.Operation) (map[string]any, string) {
	out := map[string]any{"o": "ok", "allowed": false, "code": 0, "nwarn": 0, "reason": "", "ncause": 0}
	var msg string
	o, pmsg := guard(func() {
		rawObj, err := json.Marshal(comp)
		if err != nil {
			// a Composition that cannot be serialised (a base that is not JSON) never reaches a webhook
			out["o"] = "unsendable"
			msg = err.Error()
			return
		}
		rq := &admissionv1.AdmissionRequest{
			UID:       "req",
			Kind:      metav1.GroupVersionKind{Group: v1.Group, Version: "v1", Kind: "Composition"},
			Resource:  metav1.GroupVersionResource{Group: v1.Group, Version: "v1", Resource: "compositions"},
			Name:      comp.GetName(),
			Operation: op,
			Object:    runtime.RawExtension{Raw: rawObj},
		}
		if op == admissionv1.Update {
			rq.OldObject = runtime.RawExtension{Raw: rawObj}
		}
		review := admissionv1.AdmissionReview{TypeMeta: metav1.TypeMeta{Kind: "AdmissionReview", APIVersion: "admission.k8s.io/v1"}, Request: rq}
		body, _ := json.Marshal(review)
		req := httptest.NewRequest(http.MethodPost, v1.CompositionValidatingWebhookPath, bytes.NewReader(body))
		req.Header.Set("Content-Type", "application/json")
		rr := httptest.NewRecorder()
		h.h.ServeHTTP(rr, req)
		resp := admissionv1.AdmissionReview{}
		if err := json.Unmarshal(rr.Body.Bytes(), &resp); err != nil || resp.Response == nil {
			out["o"] = "undecodable"
			msg = rr.Body.String()
			return
		}
		out["allowed"] = resp.Response.Allowed
		out["nwarn"] = len(resp.Response.Warnings)
		if r := resp.Response.Result; r != nil {
			out["code"] = int(r.Code)
			out["reason"] = string(r.Reason)
			msg = r.Message
			if r.Details != nil {
				out["ncause"] = len(r.Details.Causes)
			}
		}
	})
	if o != "ok" {
		out["o"] = o
		msg = pmsg
	}
	return out, msg
}

func init() { ctrllog.SetLogger(logr.Discard()) }

// ------------------------------------------------------ the real runtime

// conforming is an object of the kind that satisfies the typed schema and has a value at every valid key of the menu.
func conforming(kind string) map[string]any {
	side := sideField(kind)
	return map[string]any{"apiVersion": group + "/v1", "kind": kind,
		"metadata": map[string]any{"name": strings.ToLower(kind) + "1", "labels": map[string]any{"app": "a"}, "annotations": map[string]any{"a.b/c": "z"}},
		"spec": map[string]any{"str": "s", "int": int64(3), "num": 1.5, "bool": true, "obj": map[string]any{"k": "v"}, "arr": []any{"x", "y"},
			"aobj": []any{map[string]any{"v": "p"}, map[string]any{"v": "q"}}, "amax": []any{int64(1), int64(2)}, "map": map[string]any{"some.key": "v"},
			"mapany": map[string]any{"k": "v"}, "free": map[string]any{"k": map[string]any{"j": "v"}}, "ios": "80", side: "o"},
		"status": map[string]any{"phase": "Ready"}}
}

// satisfies is a small independent structural-schema check for the subset of JSONSchemaProps the typed schema uses
// (type, properties, items, additionalProperties, maxItems, int-or-string; unknown properties are allowed only where
// the schema preserves unknown fields or declares additionalProperties - the API server would prune them elsewhere).
// The API server's own validator (apiextensions-apiserver/pkg/apiserver/validation) cannot be compiled offline (cel-go).
func satisfies(sch *extv1.JSONSchemaProps, v any) bool {
	if sch == nil {
		return true
	}
	if sch.XIntOrString {
		k := jsonKind(v)
		return k == "integer" || k == "string"
	}
	k := jsonKind(v)
	switch sch.Type {
	case "":
	case "number":
		if k != "number" && k != "integer" {
			return false
		}
	default:
		if k != sch.Type {
			return false
		}
	}
	switch t := v.(type) {
	case map[string]any:
		for name, val := range t {
			p, ok := sch.Properties[name]
			switch {
			case ok:
				if !satisfies(&p, val) {
					return false
				}
			case sch.AdditionalProperties != nil && sch.AdditionalProperties.Schema != nil:
				if !satisfies(sch.AdditionalProperties.Schema, val) {
					return false
				}
			case sch.AdditionalProperties != nil && sch.AdditionalProperties.Allows:
			case ptr.Deref(sch.XPreserveUnknownFields, false):
			default:
				return false
			}
		}
	case []any:
		if sch.MaxItems != nil && int64(len(t)) > *sch.MaxItems {
			return false
		}
		for _, val := range t {
			if sch.Items != nil && !satisfies(sch.Items.Schema, val) {
				return false
			}
		}
	}
	return true
}

// conforms checks an object against the TYPED schema of its kind.
func conforms(kind string, obj map[string]any) bool {
	sch := typedSchema(sideField(kind))
	meta := extv1.JSONSchemaProps{Type: "object", XPreserveUnknownFields: ptr.To(true)}
	sch.Properties["metadata"] = meta
	return satisfies(sch, obj)
}

// errKind projects a runtime error onto notfound | type | value | other, by the error texts of composition_transforms.go.
func errKind(err error) string {
	if err == nil {
		return "none"
	}
	m := err.Error()
	for _, t := range []string{"input is required to be a number for math transformer", "is not supported for map transform", "unsupported input type",
		"cannot join non-array values", "invalid input type", "is not supported with format"} {
		if strings.Contains(m, t) {
			return "type"
		}
	}
	if fieldpath.IsNotFound(unwrap(err)) {
		return "notfound"
	}
	for _, t := range []string{"is not found in map", "cannot convert value", "had no matches", "not valid base64", "cannot parse", "is not valid JSON"} {
		if strings.Contains(m, t) {
			return "value"
		}
	}
	return "other"
}

func unwrap(err error) error {
	for {
		u, ok := err.(interface{ Unwrap() error })
		if !ok {
			c, ok := err.(interface{ Cause() error })
			if !ok {
				return err
			}
			err = c.Cause()
			continue
		}
		if u.Unwrap() == nil {
			return err
		}
		err = u.Unwrap()
	}
}

// jsonKind is the JSON type of a value as the API server will see it (after a JSON round trip: 2.0 is an integer).
func jsonKind(v any) string {
	b, err := json.Marshal(v)
	if err != nil {
		return "unmarshalable"
	}
	var x any
	d := json.NewDecoder(bytes.NewReader(b))
	d.UseNumber()
	if err := d.Decode(&x); err != nil {
		return "unmarshalable"
	}
	switch t := x.(type) {
	case nil:
		return "null"
	case bool:
		return "boolean"
	case string:
		return "string"
	case json.Number:
		if _, err := t.Int64(); err == nil {
			return "integer"
		}
		return "number"
	case map[string]any:
		return "object"
	case []any:
		return "array"
	}
	return "other"
}

func toXR(pt string) bool { return pt == "ToCompositeFieldPath" || pt == "CombineToComposite" }

// runtimeSamples applies the (dereferenced) patches of resource r1 to conforming objects, once per sample value of the
// source path (plus once with the source path absent).
func runtimeSamples(in input, comp *v1.Composition) []any {
	out := []any{}
	composedKind, tmpl := cdKind, 0
	if in.Res == "r2" {
		composedKind, tmpl = otKind, 1
	}
	srcKind, dstKind := xrKind, composedKind
	if toXR(in.PType) {
		srcKind, dstKind = composedKind, xrKind
	}
	srcKeys := []string{in.From}
	if in.CStrat != "none" {
		srcKeys = in.Vars
	}
	if len(srcKeys) == 0 {
		return out
	}
	// the sampled source is the first variable; the others keep their conforming value
	ty := declared[srcKeys[0]]
	toKey := in.To
	if toKey == "unset" {
		toKey = in.From
	}
	type smp struct {
		id string
		v  any
	}
	list := []smp{}
	for _, s := range samples(ty) {
		list = append(list, smp{s.id, s.v})
	}
	if ty != "" {
		list = append(list, smp{"absent", nil})
	}
	for _, s := range list {
		src, dst := conforming(srcKind), conforming(dstKind)
		rec := map[string]any{"id": s.id, "o": "ok", "ek": "none", "rk": "none", "sk": "none", "srcok": true, "dstok": true, "changed": false}
		psrc := fieldpath.Pave(src)
		if s.id == "absent" {
			if err := psrc.DeleteField(pathOf(srcKeys[0])); err != nil {
				continue
			}
			// deleting an array element moves the next one into its place: only a path that is really gone counts
			if _, gerr := psrc.GetValue(pathOf(srcKeys[0])); !fieldpath.IsNotFound(gerr) {
				continue
			}
		} else {
			if err := psrc.SetValue(pathOf(srcKeys[0]), s.v); err != nil {
				continue
			}
			rec["sk"] = jsonKind(s.v)
		}
		rec["srcok"] = conforms(srcKind, src)
		xr, cd := ucomposite.New(), composed.New()
		if toXR(in.PType) {
			cd.SetUnstructuredContent(src)
			xr.SetUnstructuredContent(dst)
		} else {
			xr.SetUnstructuredContent(src)
			cd.SetUnstructuredContent(dst)
		}
		before := digest(dst)
		var err error
		o, _ := guard(func() {
			var cts []v1.ComposedTemplate
			cts, err = composite.ComposedTemplates(comp.Spec.PatchSets, comp.Spec.Resources)
			if err != nil {
				return
			}
			for _, p := range cts[tmpl].Patches {
				if err = composite.Apply(p, xr, cd); err != nil {
					return
				}
			}
		})
		tgt := cd.UnstructuredContent()
		if toXR(in.PType) {
			tgt = xr.UnstructuredContent()
		}
		switch {
		case o != "ok":
			rec["o"] = o
		case err != nil:
			rec["o"], rec["ek"] = "error", errKind(err)
		default:
			rec["changed"] = digest(tgt) != before
			rec["dstok"] = conforms(dstKind, tgt)
			if tp, ok := paths[toKey]; ok && tp != "" {
				if toKey == "wild" {
					tp = "spec.aobj[1].v"
				}
				if v, gerr := fieldpath.Pave(tgt).GetValue(tp); gerr == nil {
					rec["rk"] = jsonKind(v)
				}
			}
		}
		out = append(out, rec)
	}
	return out
}

func digest(x any) string {
	b, _ := json.Marshal(x)
	h := sha256.Sum256(b)
	return fmt.Sprintf("%x", h[:6])
}

// readySamples runs the real readiness check on a conforming composed resource, once per sample value of the path.
func readySamples(in input, comp *v1.Composition) []any {
	out := []any{}
	type smp struct {
		id string
		v  any
	}
	list := []smp{}
	if in.Path == "empty" {
		list = append(list, smp{"conforming", nil}) // no field path: the conforming object as it is
	} else {
		for _, s := range samples(declared[in.Path]) {
			list = append(list, smp{s.id, s.v})
		}
	}
	for _, s := range list {
		obj := conforming(cdKind)
		if s.id != "conforming" {
			if err := fieldpath.Pave(obj).SetValue(pathOf(in.Path), s.v); err != nil {
				continue
			}
		}
		cd := composed.New()
		cd.SetUnstructuredContent(obj)
		rec := map[string]any{"id": s.id, "o": "ok", "ready": false, "sk": jsonKind(s.v), "srcok": conforms(cdKind, obj)}
		var err error
		o, _ := guard(func() {
			var r bool
			r, err = composite.IsReady(context.Background(), cd, composite.ReadinessChecksFromComposedTemplate(&comp.Spec.Resources[0])...)
			rec["ready"] = r
		})
		if o != "ok" {
			rec["o"] = o
		} else if err != nil {
			rec["o"] = "error"
		}
		out = append(out, rec)
	}
	return out
}

// connSamples extracts the connection details of a conforming composed resource.
func connSamples(in input, comp *v1.Composition) []any {
	out := []any{}
	if in.Path == "unset" {
		return out
	}
	for _, s := range samples(declared[in.Path]) {
		obj := conforming(cdKind)
		if err := fieldpath.Pave(obj).SetValue(pathOf(in.Path), s.v); err != nil {
			continue
		}
		cd := composed.New()
		cd.SetUnstructuredContent(obj)
		rec := map[string]any{"id": s.id, "o": "ok", "nkeys": 0, "sk": jsonKind(s.v), "srcok": conforms(cdKind, obj)}
		var err error
		o, _ := guard(func() {
			var m managed.ConnectionDetails
			m, err = composite.ExtractConnectionDetails(cd, managed.ConnectionDetails{"secret-key": []byte("v")}, composite.ExtractConfigsFromComposedTemplate(&comp.Spec.Resources[0])...)
			rec["nkeys"] = len(m)
		})
		if o != "ok" {
			rec["o"] = o
		} else if err != nil {
			rec["o"] = "error"
		}
		out = append(out, rec)
	}
	return out
}

// ------------------------------------------------------------------ main

var modes = []string{"strict", "loose", "warn"}

// wall time per stage, for the evidence file
var spent = map[string]time.Duration{}

func timed(stage string, fn func()) {
	t := time.Now()
	fn()
	spent[stage] += time.Since(t)
}

// validate runs a Composition through every entry point with all CRDs present.
func validateAll(comp *v1.Composition, xrs, cds, res string, allModes bool) (map[string]any, string) {
	val := map[string]any{}
	msgs := []string{}
	note := func(m string) {
		if m != "" && len(msgs) < 2 {
			msgs = append(msgs, m)
		}
	}
	var m string
	timed("validator", func() {
		sv := sharedValidator(xrs, cds, res)
		val["direct"], m = runValidator(sv, comp)
		note(m)
		val["again"], m = runValidator(sv, comp)
		note(m)
		val["fresh"], m = runValidator(mustValidator(compval.WithCRDGetterFromMap(freshCRDs(xrs, cds, res))), comp)
		note(m)
		val["nolog"], m = runValidator(mustValidator(compval.WithCRDGetterFromMap(freshCRDs(xrs, cds, res)), compval.WithoutLogicalValidation()), comp)
		note(m)
		var lerrs field.ErrorList
		lo, lm := guard(func() { _, lerrs = comp.DeepCopy().Validate() })
		note(lm)
		val["logical"] = projErrs(lo, lerrs)
	})
	timed("webhook", func() {
		h := getHook("on")
		h.setCRDs(crdSet(xrs, cds, res))
		for _, md := range modes {
			if md != "strict" && !allModes {
				val[md] = map[string]any{"o": "skipped", "allowed": false, "code": 0, "nwarn": 0, "reason": "", "ncause": 0}
				continue
			}
			val[md], m = h.admit(withMode(comp, md), admissionv1.Create)
			if md == "strict" {
				note(m)
			}
		}
	})
	return val, strings.Join(msgs, " || ")
}

func runVector(in input) (map[string]any, string) {
	out := map[string]any{}
	var comp *v1.Composition
	xrs, cds := "typed", "typed"
	switch in.Fam {
	case "patch":
		comp = patchComposition(in)
		xrs, cds = in.XRS, in.CDS
		timed("runtime", func() { out["rt"] = runtimeSamples(in, comp) })
	case "ready":
		comp = readyComposition(in)
		cds = in.CDS
		out["rt"] = readySamples(in, comp)
	case "conn":
		comp = connComposition(in)
		cds = in.CDS
		out["rt"] = connSamples(in, comp)
	case "malformed":
		o, m := guard(func() { comp = malformedComposition(in.Shape) })
		if o != "ok" {
			panic("cannot build malformed shape " + in.Shape + ": " + m)
		}
		out["rt"] = []any{}
	case "mode":
		comp = modeComposition(in)
		out["rt"] = []any{}
	default:
		panic("unknown family " + in.Fam)
	}
	// the bulk of the type matrix (chains of two transforms) is sent to the webhook in strict mode only
	val, msg := validateAll(comp, xrs, cds, in.Res, !(in.Fam == "patch" && len(in.Chain) >= 2))
	out["val"] = val
	out["hook"] = map[string]any{"o": "none", "allowed": false, "code": 0, "nwarn": 0, "reason": "", "ncause": 0}
	out["hookup"] = out["hook"]
	if in.Fam == "mode" {
		h := getHook(in.Feat)
		var crds []*extv1.CustomResourceDefinition
		add := func(kinds ...string) {
			for _, k := range kinds {
				crds = append(crds, crd(k, "typed"))
			}
		}
		switch in.CRDs {
		case "all":
			add(xrKind, cdKind, otKind)
		case "noxr":
			add(cdKind, otKind)
		case "nothing":
			add(xrKind, otKind)
		case "noother":
			add(xrKind, cdKind)
		case "none":
		case "listerr":
			add(xrKind, cdKind, otKind)
			h.listErr = true
		case "dupxr":
			add(xrKind, cdKind, otKind)
			d := crd(xrKind, "typed")
			d.Name = "xthings2." + group
			d.Spec.Names.Plural = "xthings2"
			crds = append(crds, d)
		default:
			panic("unknown crds " + in.CRDs)
		}
		h.setCRDs(crds)
		var m string
		out["hook"], m = h.admit(comp, admissionv1.Create)
		out["hookup"], _ = h.admit(comp, admissionv1.Update)
		h.listErr = false
		msg = m
	}
	return out, msg
}

type summary struct {
	Scenarios int            `json:"scenarios"`
	Runs      int            `json:"runs"`
	Events    int            `json:"events"`
	Counts    map[string]int `json:"counts"`
	Outcomes  map[string]int `json:"outcomes"`
	Panics    []any          `json:"panics"`
	Samples   []any          `json:"samples"`
	StageMs   map[string]int `json:"stage_ms"`
}

func main() {
	scenarios := flag.String("scenarios", "", "NDJSON file of {id, input} vectors")
	tracePath := flag.String("trace", "", "output trace")
	sumPath := flag.String("summary", "", "output summary JSON")
	chunk := flag.Int("chunk", 0, "split the trace into files of about this many events")
	_ = flag.Int("seed", 1, "unused: the driver makes no random choice")
	flag.Parse()

	raws, err := scen.Load(*scenarios)
	if err != nil {
		fmt.Fprintln(os.Stderr, err)
		os.Exit(2)
	}
	tw, err := trace.New(*tracePath, *chunk)
	if err != nil {
		fmt.Fprintln(os.Stderr, err)
		os.Exit(2)
	}
	sum := &summary{Counts: map[string]int{}, Outcomes: map[string]int{}}
	seenSample := map[string]bool{}
	for _, rawSc := range raws {
		var sc struct {
			ID    string          `json:"id"`
			Input json.RawMessage `json:"input"`
		}
		if err := json.Unmarshal(rawSc, &sc); err != nil || len(sc.Input) == 0 {
			fmt.Fprintln(os.Stderr, "bad scenario:", err, string(rawSc))
			os.Exit(2)
		}
		var in input
		if err := json.Unmarshal(sc.Input, &in); err != nil {
			fmt.Fprintln(os.Stderr, "bad vector:", err, string(sc.Input))
			os.Exit(2)
		}
		tw.Boundary()
		out, msg := runVector(in)
		ev := map[string]any{"ev": "vec", "scenario": sc.ID, "fam": in.Fam, "input": sc.Input, "out": out, "msg": msg}
		tw.Emit(ev)
		sum.Scenarios++
		val := out["val"].(map[string]any)
		sum.Runs += 4 + len(modes) + len(out["rt"].([]any))
		sum.Counts[in.Fam]++
		d := val["direct"].(map[string]any)
		oc := "rejected"
		if d["o"] != "ok" {
			oc = d["o"].(string)
		} else if d["acc"].(bool) {
			oc = "accepted"
		}
		sum.Outcomes[in.Fam+":"+oc]++
		for _, k := range []string{"direct", "again", "fresh", "strict", "loose", "warn"} {
			if val[k].(map[string]any)["o"] == "panic" && len(sum.Panics) < 20 {
				sum.Panics = append(sum.Panics, map[string]any{"id": sc.ID, "where": k, "msg": msg})
			}
		}
		if !seenSample[in.Fam+oc] && len(sum.Samples) < 12 {
			seenSample[in.Fam+oc] = true
			sum.Samples = append(sum.Samples, ev)
		}
	}
	sum.Events = tw.Lines
	sum.StageMs = map[string]int{}
	for k, d := range spent {
		sum.StageMs[k] = int(d.Milliseconds())
	}
	if err := tw.Close(); err != nil {
		fmt.Fprintln(os.Stderr, err)
		os.Exit(2)
	}
	if err := scen.WriteJSON(*sumPath, sum); err != nil {
		fmt.Fprintln(os.Stderr, err)
		os.Exit(2)
	}
}
