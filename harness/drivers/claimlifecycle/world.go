package main

import (
	"context"
	"encoding/base64"
	"fmt"
	"hash/fnv"
	"strings"

	corev1 "k8s.io/api/core/v1"
	extv1 "k8s.io/apiextensions-apiserver/pkg/apis/apiextensions/v1"
	metav1 "k8s.io/apimachinery/pkg/apis/meta/v1"
	"k8s.io/apimachinery/pkg/apis/meta/v1/unstructured"
	"k8s.io/apimachinery/pkg/runtime"
	"k8s.io/apimachinery/pkg/types"
	"k8s.io/utils/ptr"
	"sigs.k8s.io/controller-runtime/pkg/client"

	xpv1 "github.com/crossplane/crossplane-runtime/apis/common/v1"
	"github.com/crossplane/crossplane-runtime/pkg/meta"
	"github.com/crossplane/crossplane-runtime/pkg/resource"

	v1 "github.com/crossplane/crossplane/apis/apiextensions/v1"
	"github.com/crossplane/crossplane/internal/controller/apiextensions/claim"
	"github.com/crossplane/crossplane/zzverif/replay"
	"github.com/crossplane/crossplane/zzverif/simapi"
)

func must(err error) {
	if err != nil {
		panic(err)
	}
}

func str(m map[string]any, k string) string { s, _ := m[k].(string); return s }
func boo(m map[string]any, k string) bool   { b, _ := m[k].(bool); return b }

const condTime = "2024-01-01T00:00:00Z"

// setCond sets one condition of an unstructured object's status.conditions (environment side).
func setCond(u *unstructured.Unstructured, typ, status, reason string) {
	cs, _, _ := unstructured.NestedSlice(u.Object, "status", "conditions")
	n := map[string]any{"type": typ, "status": status, "reason": reason, "lastTransitionTime": condTime}
	for i, c := range cs {
		if cm, _ := c.(map[string]any); cm["type"] == typ {
			cs[i] = n
			_ = unstructured.SetNestedSlice(u.Object, cs, "status", "conditions")
			return
		}
	}
	_ = unstructured.SetNestedSlice(u.Object, append(cs, n), "status", "conditions")
}

func claimRefOf(name, namespace string) map[string]any {
	return map[string]any{"apiVersion": claimGVK.GroupVersion().String(), "kind": claimGVK.Kind, "namespace": namespace, "name": name}
}

func newXR(name, claimant, namespace string) *unstructured.Unstructured {
	u := &unstructured.Unstructured{Object: map[string]any{}}
	u.SetGroupVersionKind(xrGVK)
	u.SetName(name)
	if claimant != "" {
		u.SetLabels(map[string]string{"crossplane.io/claim-name": claimant, "crossplane.io/claim-namespace": namespace})
		_ = unstructured.SetNestedMap(u.Object, claimRefOf(claimant, namespace), "spec", "claimRef")
	}
	return u
}

// xrController is what the XR controller does to an XR it reconciles: finalizer, Synced, Ready, connection secret.
func (w *world) xrController(id string, ready bool) {
	k := xrKey(w.nameOf(id))
	var uid types.UID
	w.s.Mutate(k, func(u *unstructured.Unstructured) {
		if u.GetDeletionTimestamp() != nil {
			return
		}
		uid = u.GetUID()
		if !hasStr(u.GetFinalizers(), xrFin) {
			u.SetFinalizers(append(u.GetFinalizers(), xrFin))
		}
		setCond(u, "Synced", "True", "ReconcileSuccess")
		if ready {
			setCond(u, "Ready", "True", "Available")
		} else {
			setCond(u, "Ready", "False", "Creating")
		}
		if w.conn && ready {
			_ = unstructured.SetNestedMap(u.Object, map[string]any{"name": xrSecret, "namespace": xrSecretNS}, "spec", "writeConnectionSecretToRef")
		}
	})
	if cur := w.s.Peek(xsecKey); w.conn && ready && uid != "" && (cur == nil || ctrlOf(cur) != string(uid)) {
		w.putXRSecret(k.Name, uid)
	}
}

func (w *world) putXRSecret(name string, uid types.UID) {
	w.s.Put(&corev1.Secret{
		TypeMeta: metav1.TypeMeta{APIVersion: "v1", Kind: "Secret"},
		ObjectMeta: metav1.ObjectMeta{Namespace: xrSecretNS, Name: xrSecret, OwnerReferences: []metav1.OwnerReference{{
			APIVersion: xrGVK.GroupVersion().String(), Kind: xrGVK.Kind, Name: name, UID: uid, Controller: ptr.To(true)}}},
		Type: resource.SecretTypeConnection,
		Data: map[string][]byte{"endpoint": []byte(fmt.Sprintf("e%d", w.rotated))},
	})
}

func (w *world) env(e replay.Entry) {
	w.prevOK = false
	switch e.K {
	case "pause":
		w.s.Mutate(claimKey, func(u *unstructured.Unstructured) { meta.AddAnnotations(u, map[string]string{pausedAnn: "true"}) })
	case "unpause":
		// half of the time the annotation is removed, half of the time set to the look-alike value "false"
		w.edits++
		w.s.Mutate(claimKey, func(u *unstructured.Unstructured) {
			if w.edits%2 == 0 {
				meta.AddAnnotations(u, map[string]string{pausedAnn: "false"})
			} else {
				meta.RemoveAnnotations(u, pausedAnn)
			}
		})
	case "edit":
		w.edits++
		w.s.Mutate(claimKey, func(u *unstructured.Unstructured) {
			_ = unstructured.SetNestedField(u.Object, fmt.Sprintf("size-%d", w.edits), "spec", "size")
		})
	case "delclaim":
		w.s.MarkDeleted(claimKey)
	case "xrready":
		w.xrController(e.O, true)
	case "xrunready":
		w.xrController(e.O, false)
	case "xrcond":
		// a function set a custom condition for the claim (the XR controller records the type in status.claimConditionTypes)
		w.s.Mutate(xrKey(w.nameOf(e.O)), func(u *unstructured.Unstructured) {
			if e.F == "v2" {
				setCond(u, customType, "True", "Available")
			} else {
				setCond(u, customType, "False", "Creating")
			}
			cct, _, _ := unstructured.NestedStringSlice(u.Object, "status", "claimConditionTypes")
			if !hasStr(cct, customType) {
				_ = unstructured.SetNestedStringSlice(u.Object, append(cct, customType), "status", "claimConditionTypes")
			}
		})
	case "xrunlist":
		// the type is no longer listed for the claim (the condition itself stays on the XR)
		w.s.Mutate(xrKey(w.nameOf(e.O)), func(u *unstructured.Unstructured) {
			unstructured.RemoveNestedField(u.Object, "status", "claimConditionTypes")
		})
	case "xrlistsys":
		// someone with write access to the XR's status lists a system condition type for the claim
		w.s.Mutate(xrKey(w.nameOf(e.O)), func(u *unstructured.Unstructured) {
			cct, _, _ := unstructured.NestedStringSlice(u.Object, "status", "claimConditionTypes")
			if !hasStr(cct, "Synced") {
				_ = unstructured.SetNestedStringSlice(u.Object, append(cct, "Synced"), "status", "claimConditionTypes")
			}
			setCond(u, "Synced", "False", "ReconcileError")
		})
	case "delxr":
		w.s.MarkDeleted(xrKey(w.nameOf(e.O)))
		w.s.GCStep() // (an XR that is gone takes the connection secret it controls with it)
	case "xrfinalize":
		w.s.Mutate(xrKey(w.nameOf(e.O)), func(u *unstructured.Unstructured) {
			if u.GetDeletionTimestamp() != nil {
				u.SetFinalizers(nil)
			}
		})
		w.s.GCStep()
	case "rebind":
		w.s.Mutate(xrKey(w.nameOf(e.O)), func(u *unstructured.Unstructured) {
			u.SetLabels(map[string]string{"crossplane.io/claim-name": otherClaim, "crossplane.io/claim-namespace": ns})
			_ = unstructured.SetNestedMap(u.Object, claimRefOf(otherClaim, ns), "spec", "claimRef")
		})
	case "rotate":
		// the XR controller publishes new connection details
		w.rotated++
		if cur := w.s.Peek(xsecKey); cur != nil {
			w.s.Mutate(xsecKey, func(u *unstructured.Unstructured) {
				_ = unstructured.SetNestedField(u.Object, base64.StdEncoding.EncodeToString([]byte(fmt.Sprintf("e%d", w.rotated))), "data", "endpoint")
			})
		}
	default:
		panic("unknown env step " + e.K)
	}
	w.emit("env", map[string]any{"verb": e.K, "abs": "env:" + e.K, "target": orNone(e.O), "outcome": orNone(e.F)})
}

func newWorld(id string, init map[string]any) *world {
	sch := runtime.NewScheme()
	_ = v1.AddToScheme(sch)
	_ = corev1.AddToScheme(sch)
	_ = extv1.AddToScheme(sch)
	s := simapi.NewServer(sch)
	s.Namespaced(claimGVK.GroupKind())
	w := &world{s: s, init: init, scenID: id, ids: map[string]string{}, names: map[string]string{}, lastRef: "none", listed: map[string]bool{}, phase: "main", cacheSeen: map[simapi.Key]bool{}}
	w.c = simapi.NewClient(s, "claim")
	w.oc = simapi.NewClient(s, "offered")
	envc := simapi.NewClient(s, "env")
	w.syncer = str(init, "syncer")
	w.conn = boo(init, "conn")
	w.ids[staticP], w.names[preID] = preID, staticP
	ctx := context.Background()

	d := &v1.CompositeResourceDefinition{ObjectMeta: metav1.ObjectMeta{Name: xrdName}}
	d.Spec.Group = "ex.org"
	d.Spec.Names = extv1.CustomResourceDefinitionNames{Kind: "XThing", Plural: "xthings"}
	d.Spec.ClaimNames = &extv1.CustomResourceDefinitionNames{Kind: "Thing", Plural: "things"}
	d.Spec.Versions = []v1.CompositeResourceDefinitionVersion{{Name: "v1", Served: true, Referenceable: true,
		Schema: &v1.CompositeResourceValidation{OpenAPIV3Schema: runtime.RawExtension{Raw: []byte(`{"type":"object","properties":{"spec":{"type":"object","properties":{"size":{"type":"string"}}}}}`)}}}}
	if p := str(init, "xdef"); p != "" && p != "none" {
		d.Spec.DefaultCompositeDeletePolicy = ptr.To(xpv1.CompositeDeletePolicy(p))
	}
	s.Put(d)
	w.build()

	// what the API server defaults at admission: the default the real offered reconciler rendered into the claim CRD
	w.defCDP = "none"
	if crd := s.Peek(crdKey); crd != nil {
		vs, _, _ := unstructured.NestedSlice(crd.Object, "spec", "versions")
		for _, v := range vs {
			vm, _ := v.(map[string]any)
			if dv, ok, _ := unstructured.NestedString(vm, "schema", "openAPIV3Schema", "properties", "spec", "properties", "compositeDeletePolicy", "default"); ok {
				w.defCDP = dv
			}
		}
	}

	pre := str(init, "pre")
	cm := &unstructured.Unstructured{Object: map[string]any{"spec": map[string]any{"size": "small"}}}
	cm.SetGroupVersionKind(claimGVK)
	cm.SetNamespace(ns)
	cm.SetName(claimName)
	if pre != "fresh" {
		_ = unstructured.SetNestedMap(cm.Object, map[string]any{"apiVersion": xrGVK.GroupVersion().String(), "kind": xrGVK.Kind, "name": staticP}, "spec", "resourceRef")
	}
	switch p := str(init, "cdp"); {
	case p != "" && p != "none":
		_ = unstructured.SetNestedField(cm.Object, p, "spec", "compositeDeletePolicy")
	case w.defCDP != "none":
		_ = unstructured.SetNestedField(cm.Object, w.defCDP, "spec", "compositeDeletePolicy")
	}
	if w.conn {
		_ = unstructured.SetNestedMap(cm.Object, map[string]any{"name": claimSecret}, "spec", "writeConnectionSecretToRef")
	}
	var fins []string
	if pre == "mine" {
		fins = append(fins, claimFin)
	}
	if boo(init, "ofin") {
		fins = append(fins, otherFin)
	}
	cm.SetFinalizers(fins)
	must(envc.Create(ctx, cm, client.FieldOwner("kubectl")))

	switch pre {
	case "other":
		x := newXR(staticP, otherClaim, ns)
		// half of the scenarios (by a hash of the id): the other claim has the SAME name in ANOTHER namespace
		if h := fnv.New32a(); func() bool { _, _ = h.Write([]byte(strings.SplitN(id, "/", 2)[0])); return h.Sum32()%2 == 0 }() {
			x = newXR(staticP, claimName, "other-ns")
		}
		if w.syncer == "SSA" {
			must(envc.Patch(ctx, x, client.Apply, client.ForceOwnership, client.FieldOwner(claim.FieldOwnerXR)))
		} else {
			must(envc.Create(ctx, x))
		}
	case "unbound":
		x := newXR(staticP, "", "")
		x.SetAnnotations(map[string]string{"example.org/provisioned-by": "user"})
		must(envc.Create(ctx, x, client.FieldOwner("kubectl")))
	case "mine":
		x := newXR(staticP, claimName, ns)
		_ = unstructured.SetNestedField(x.Object, "small", "spec", "size")
		_ = unstructured.SetNestedMap(x.Object, map[string]any{"apiVersion": xrGVK.GroupVersion().String(), "kind": xrGVK.Kind, "name": staticP}, "spec", "resourceRef")
		unstructured.RemoveNestedField(x.Object, "spec", "resourceRef")
		if w.syncer == "SSA" {
			must(envc.Patch(ctx, x, client.Apply, client.ForceOwnership, client.FieldOwner(claim.FieldOwnerXR)))
		} else {
			must(envc.Create(ctx, x))
		}
		switch str(init, "rdy") {
		case "True":
			w.xrController(preID, true)
		case "False":
			w.xrController(preID, false)
		}
	case "fresh", "missing":
	default:
		panic("unknown placement " + pre)
	}
	w.c.Intercept = w.intercept
	s.OnEvent = w.onEvent
	return w
}
