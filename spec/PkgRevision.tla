---------------------------- MODULE PkgRevision ----------------------------
(***************************************************************************)
(* The package revision reconciler's content pipeline                      *)
(* (internal/controller/pkg/revision/reconciler.go Reconcile, imageback.go *)
(* ImageBackend.Init, internal/xpkg/cache.go FsPackageCache, reader.go     *)
(* TeeReadCloser, lint.go) and the signature controller's effect on the    *)
(* Verified condition (internal/controller/pkg/signature/reconciler.go),   *)
(* as implemented at the pinned commit.  One action per pipeline stage in  *)
(* code order:                                                             *)
(*   VerifyGate, CacheHas, CacheGet, BackendInit (Fetch), Read (the        *)
(*   read / tee / parse loop), Store (the cache writer goroutine),         *)
(*   Delete (delete-on-failure), Parsed, Lint, Update, Version, Establish. *)
(*                                                                         *)
(* A package stream is a sequence of document tokens: "mP" "mC" "mF" are   *)
(* meta documents (Provider / Configuration / Function), "CRD" "XRD" "CMP" *)
(* "MWC" "VWC" are objects, "ALIEN" is a document of a kind neither parser *)
(* scheme knows (the parser stops with an error there).  An object is      *)
(* identified by its position in the stream; a document that was cut in    *)
(* the middle and still decodes is the mutilated object -i.                *)
(*                                                                         *)
(* The cache entry of the revision is absent, "good" (a well-formed gzip   *)
(* holding the first n documents, plus a partial one if half), "badhdr"    *)
(* (Get fails) or "badbody" (gunzip fails after n documents).              *)
(*                                                                         *)
(* Interpretation of C15 (written down as HOWTO asks):                     *)
(*  - "the objects in the package stream of the image its source resolves  *)
(*    to" = the object documents of the image the registry serves for the  *)
(*    revision's source.  A revision's image never changes (the revision   *)
(*    name is derived from the digest), so the reference set is fixed.     *)
(*  - "establishes" = the objects handed to Establisher.Establish; a       *)
(*    reconcile that does not reach Establish establishes nothing.         *)
(*  - a cache entry is complete if it holds every document of the stream.  *)
(*  - C15 is read as a safety property: whenever a reconcile establishes,  *)
(*    it establishes exactly the declared objects.  That a revision whose  *)
(*    cache entry is corrupt (process died while writing it; Remove failed)*)
(*    never installs at all - nothing removes an entry whose gzip header   *)
(*    is intact - is recorded by the check as an observation, not as a     *)
(*    violation.                                                           *)
(*  - "after a failed cache write": the monitor additionally requires the  *)
(*    code's own delete-on-failure (CacheSound.FailedStoreCleanup): a      *)
(*    Store that returned an error leaves no entry, unless the environment *)
(*    made the Remove fail or killed the process.                          *)
(*                                                                         *)
(* Known finding D4 (DESIGN section 4): with FixTee = FALSE (the code as   *)
(* written) Exact, CacheSound, Gate and NoWellFormedPrefix are violated:   *)
(* an image stream that fails mid-way makes the parser close the tee, the  *)
(* cache writer sees a normal EOF and stores a well-formed prefix under    *)
(* the revision's name.  FixTee = TRUE is the repaired semantics of        *)
(* DESIGN Appendix B (internal/xpkg/reader.go).                            *)
(***************************************************************************)
EXTENDS Integers, Sequences, FiniteSets, TLC

CONSTANTS
  RTypes,       \* revision types explored: subset of {"Provider","Configuration","Function"}
  Streams,      \* package streams explored
  ConsIgn,      \* <<constraints, ignore>>: constraints in {"none","met","unmet","bad"}
  Verifs,       \* <<feature on, a verification ImageConfig matches, initial Verified status>>
  Cache0,       \* initial cache entries: subset of {"absent","complete","badhdr","badbody"}
  MaxRecs, MaxFaults, MaxSig, MaxEnv,
  SrcFaults,    \* TRUE: the image stream may fail (at Fetch, at a document boundary, in the middle of a document)
  StoreFaults,  \* kinds of cache write faults: subset of {"create","write","crash"}
  DelFaults,    \* TRUE: the delete-on-failure may fail
  ApiCrash,     \* TRUE: the process may die at the Update call between caching and establishing
  FixTee        \* FALSE = the code as written; TRUE = candidate repair (a tee closed before EOF fails the cache writer)

Metas == {"mP", "mC", "mF"}
ObjKinds == {"CRD", "XRD", "CMP", "MWC", "VWC"}
MetaFor(T) == CASE T = "Provider" -> "mP" [] T = "Configuration" -> "mC" [] OTHER -> "mF"
\* lint.go: NewProviderLinter / NewConfigurationLinter / NewFunctionLinter (no per-object linter for functions)
Allowed(T) == CASE T = "Provider" -> {"CRD", "MWC", "VWC"} [] T = "Configuration" -> {"XRD", "CMP"} [] OTHER -> ObjKinds

VARIABLES
  cfg,       \* [rtype, stream, cons, verif, vcfg]: fixed per behaviour
  ignore,    \* spec.ignoreCrossplaneConstraints
  cache,     \* the revision's cache entry
  verified,  \* status of the Verified condition: "unset" | "True" | "False" | "Unknown"
  pc,        \* stage of the reconcile in flight
  src,       \* where this reconcile reads from: "none" | "registry" | "cache"
  pre,       \* the cache entry this reconcile opened (when src = "cache")
  ver,       \* the Verified status this reconcile saw
  tee,       \* what went through the tee into the cache writer: [n, half, early]
  perr,      \* the parser returned an error
  pkg,       \* the parsed package: [metas, objs] (sets of stream positions; -i = mutilated object i)
  sfail,     \* the cache writer failed
  estLog,    \* ghost: every Establish: [rec, src, objs, pre, ign, ver]
  flt,       \* ghost: the faults injected into the reconcile in flight (part of the VIEW, so that every
             \*        fault plan reaches the end of its reconcile as a state of its own and is emitted)
  recs, faults, sigs, envs,
  hist       \* ghost: the environment's choices so far (hidden by VIEW)

vars == <<cfg, ignore, cache, verified, pc, src, pre, ver, tee, perr, pkg, sfail, estLog, flt, recs, faults, sigs, envs, hist>>
view == <<cfg, ignore, cache, verified, pc, src, pre, ver, tee, perr, pkg, sfail, estLog, flt, recs, faults, sigs, envs>>

L == Len(cfg.stream)
Abs(i) == IF i < 0 THEN -i ELSE i
MetaIdx(n) == {i \in 1..n : cfg.stream[i] \in Metas}
ObjsOf(n) == {i \in 1..n : cfg.stream[i] \notin Metas}
AllObjs == ObjsOf(L)

Absent == [st |-> "absent", n |-> 0, half |-> FALSE]
Good(n, h) == [st |-> "good", n |-> n, half |-> h]
BadHdr == [st |-> "badhdr", n |-> 0, half |-> FALSE]
BadBody(n) == [st |-> "badbody", n |-> n, half |-> FALSE]
Complete(c) == c.st = "good" /\ c.n = L /\ ~c.half
NoTee == [n |-> 0, half |-> FALSE, early |-> FALSE]
NoPkg == [metas |-> {}, objs |-> {}]
NoFlt == [src |-> "none", sk |-> 0, st |-> "none", ph |-> 0, del |-> FALSE, api |-> FALSE]

H(t, a, k) == [t |-> t, a |-> a, k |-> k, h |-> FALSE]
Log(e) == hist' = Append(hist, e)

Init ==
  /\ \E T \in RTypes, s \in Streams, ci \in ConsIgn, v \in Verifs, c0 \in Cache0 :
       /\ cfg = [rtype |-> T, stream |-> s, cons |-> ci[1], verif |-> v[1], vcfg |-> v[2]]
       /\ ignore = ci[2]
       /\ verified = v[3]
       /\ cache = CASE c0 = "absent" -> Absent
                    [] c0 = "complete" -> Good(Len(s), FALSE)
                    [] c0 = "badhdr" -> BadHdr
                    [] OTHER -> BadBody(0)
       /\ hist = << [t |-> "init", rtype |-> T, stream |-> s, cons |-> ci[1], ignore |-> ci[2],
                     verif |-> v[1], vcfg |-> v[2], v0 |-> v[3], cache0 |-> c0] >>
  /\ pc = "idle" /\ src = "none" /\ pre = Absent /\ ver = "unset" /\ tee = NoTee /\ perr = FALSE /\ pkg = NoPkg /\ sfail = FALSE
  /\ estLog = {} /\ flt = NoFlt /\ recs = 0 /\ faults = 0 /\ sigs = 0 /\ envs = 0

----------------------------------------------------------------------------
(* Environment between reconciles.                                          *)

RecUnch == UNCHANGED <<pc, src, pre, ver, tee, perr, pkg, sfail, estLog, flt, recs, faults>>

\* the signature controller (only runs when the feature is on): no matching verification config => skipped => True
Sig(o) == /\ pc = "idle" /\ cfg.verif /\ sigs < MaxSig
          /\ verified' = (IF verified = "True" THEN "True"
                          ELSE IF ~cfg.vcfg THEN "True"
                          ELSE IF o = "ok" THEN "True" ELSE "False")
          /\ sigs' = sigs + 1 /\ Log(H("sig", o, 0))
          /\ UNCHANGED <<cfg, ignore, cache, envs>> /\ RecUnch

SetIgnore == /\ pc = "idle" /\ ~ignore /\ envs < MaxEnv
             /\ ignore' = TRUE /\ envs' = envs + 1 /\ Log(H("env", "ignore", 0))
             /\ UNCHANGED <<cfg, cache, verified, sigs>> /\ RecUnch

\* the pod restarts with an emptyDir cache
Wipe == /\ pc = "idle" /\ cache.st # "absent" /\ envs < MaxEnv
        /\ cache' = Absent /\ envs' = envs + 1 /\ Log(H("env", "wipe", 0))
        /\ UNCHANGED <<cfg, ignore, verified, sigs>> /\ RecUnch

Env == (\E o \in {"ok", "fail"} : Sig(o)) \/ SetIgnore \/ Wipe

----------------------------------------------------------------------------
(* The reconcile.                                                           *)

CanFault == faults < MaxFaults
Fixed == UNCHANGED <<cfg, ignore, verified, sigs, envs>>
End == pc' = "idle" /\ recs' = recs + 1

Start == /\ pc = "idle" /\ recs < MaxRecs
         /\ pc' = "verify" /\ src' = "none" /\ pre' = Absent /\ ver' = verified /\ tee' = NoTee /\ perr' = FALSE
         /\ pkg' = NoPkg /\ sfail' = FALSE /\ flt' = NoFlt
         /\ Log(H("rec", "", 0))
         /\ UNCHANGED <<cache, estLog, recs, faults>> /\ Fixed

\* reconciler.go: EnableAlphaSignatureVerification => wait until Verified is True
VerifyGate == /\ pc = "verify"
              /\ (IF cfg.verif /\ ver # "True" THEN End ELSE pc' = "has" /\ UNCHANGED recs)
              /\ UNCHANGED <<cache, src, pre, ver, tee, perr, pkg, sfail, estLog, flt, faults, hist>> /\ Fixed

CacheHas == /\ pc = "has"
            /\ pc' = (IF cache.st = "absent" THEN "init" ELSE "get")
            /\ UNCHANGED <<cache, src, pre, ver, tee, perr, pkg, sfail, estLog, flt, recs, faults, hist>> /\ Fixed

\* cache.Get fails on a broken gzip header: the entry is deleted and the reconcile returns an error
CacheGet == /\ pc = "get"
            /\ (IF cache.st = "badhdr"
                THEN cache' = Absent /\ End /\ UNCHANGED <<src, pre>>
                ELSE src' = "cache" /\ pre' = cache /\ pc' = "read" /\ UNCHANGED <<cache, recs>>)
            /\ UNCHANGED <<ver, tee, perr, pkg, sfail, estLog, flt, faults, hist>> /\ Fixed

BackendInit == /\ pc = "init"
               /\ \/ /\ src' = "registry" /\ pc' = "read" /\ UNCHANGED <<recs, faults, hist, flt>>
                  \/ /\ SrcFaults /\ CanFault /\ faults' = faults + 1 /\ Log(H("srcfault", "init", 0)) /\ End /\ UNCHANGED src
                     /\ flt' = [flt EXCEPT !.src = "init"]
               /\ UNCHANGED <<cache, pre, ver, tee, perr, pkg, sfail, estLog>> /\ Fixed

\* The parser reads documents from avail = [n, half, err]: n whole documents, then a partial one (half), then
\* EOF or a read error (err).  It stops at the first ALIEN document.  Everything it read went through the tee.
Aliens(n) == {i \in 1..n : cfg.stream[i] = "ALIEN"}
Min(S) == CHOOSE m \in S : \A x \in S : m <= x
Consume(a) ==
  IF Aliens(a.n) # {}
  THEN \E p \in Min(Aliens(a.n))..a.n :          \* read-ahead: the tee saw at least the alien document
         /\ perr' = TRUE /\ pkg' = NoPkg
         /\ tee' = [n |-> p, half |-> (p = a.n /\ a.half), early |-> TRUE]
  ELSE IF a.err
  THEN perr' = TRUE /\ pkg' = NoPkg /\ tee' = [n |-> a.n, half |-> a.half, early |-> TRUE]
  ELSE IF a.half
  THEN /\ tee' = [n |-> a.n, half |-> TRUE, early |-> FALSE]
       /\ \/ perr' = TRUE /\ pkg' = NoPkg          \* the partial document does not decode
          \/ /\ perr' = FALSE                      \* ... or it decodes into a mutilated document
             /\ pkg' = (IF cfg.stream[a.n + 1] \in Metas
                        THEN [metas |-> MetaIdx(a.n) \cup {a.n + 1}, objs |-> ObjsOf(a.n)]
                        ELSE [metas |-> MetaIdx(a.n), objs |-> ObjsOf(a.n) \cup {-(a.n + 1)}])
  ELSE /\ perr' = FALSE /\ pkg' = [metas |-> MetaIdx(a.n), objs |-> ObjsOf(a.n)]
       /\ tee' = [n |-> a.n, half |-> FALSE, early |-> FALSE]

Read == /\ pc = "read"
        /\ \/ /\ src = "cache"
              /\ Consume([n |-> pre.n, half |-> pre.half, err |-> (pre.st = "badbody")])
              /\ pc' = "parsed" /\ UNCHANGED <<faults, hist, flt>>
           \/ /\ src = "registry"
              /\ Consume([n |-> L, half |-> FALSE, err |-> FALSE])
              /\ pc' = "store" /\ UNCHANGED <<faults, hist, flt>>
           \/ /\ src = "registry" /\ SrcFaults /\ CanFault /\ faults' = faults + 1
              /\ \E k \in 0..L, h \in BOOLEAN :
                   /\ (h => k < L)
                   /\ Consume([n |-> k, half |-> h, err |-> TRUE])
                   /\ Log(H("srcfault", IF h THEN "mid" ELSE "bound", k))
                   /\ flt' = [flt EXCEPT !.src = (IF h THEN "mid" ELSE "bound"), !.sk = k]
              /\ pc' = "store"
        /\ UNCHANGED <<cache, src, pre, ver, sfail, estLog, recs>> /\ Fixed

\* The cache writer goroutine: gzip of whatever came through the pipe.  As written, the tee closes the pipe
\* normally whenever the parser closes it, so the writer cannot tell a prefix from the whole stream.
\* A failing writer closes the pipe with an error: the parser may or may not still be reading.
Broken(ph) == IF ph = 0 THEN BadHdr ELSE BadBody(0)
Store == /\ pc = "store"
         /\ \/ /\ (IF FixTee /\ tee.early
                   THEN sfail' = TRUE /\ cache' = BadBody(0)
                   ELSE sfail' = FALSE /\ cache' = Good(tee.n, tee.half))
               /\ pc' = (IF sfail' THEN "delete" ELSE "parsed")
               /\ UNCHANGED <<perr, pkg, recs, faults, hist, flt>>
            \/ /\ "create" \in StoreFaults /\ CanFault /\ faults' = faults + 1
               /\ sfail' = TRUE /\ UNCHANGED cache /\ pc' = "delete"
               /\ (\/ UNCHANGED <<perr, pkg>> \/ (perr' = TRUE /\ pkg' = NoPkg))
               /\ Log(H("storefault", "create", 0)) /\ UNCHANGED recs /\ flt' = [flt EXCEPT !.st = "create"]
            \/ /\ "write" \in StoreFaults /\ CanFault /\ faults' = faults + 1
               /\ \E ph \in 0..3 : cache' = Broken(ph) /\ Log(H("storefault", "write", ph)) /\ flt' = [flt EXCEPT !.st = "write", !.ph = ph]
               /\ sfail' = TRUE /\ pc' = "delete"
               /\ (\/ UNCHANGED <<perr, pkg>> \/ (perr' = TRUE /\ pkg' = NoPkg))
               /\ UNCHANGED recs
            \/ /\ "crash" \in StoreFaults /\ CanFault /\ faults' = faults + 1
               /\ \E ph \in 0..3 : cache' = Broken(ph) /\ Log(H("storefault", "crash", ph)) /\ flt' = [flt EXCEPT !.st = "crash", !.ph = ph]
               /\ End /\ UNCHANGED <<sfail, perr, pkg>>
         /\ UNCHANGED <<src, pre, ver, tee, estLog>> /\ Fixed

\* reconciler.go: "if we failed to cache we want to cleanup" - a failing Delete is only logged
Delete == /\ pc = "delete"
          /\ \/ cache' = Absent /\ UNCHANGED <<faults, hist, flt>>
             \/ DelFaults /\ CanFault /\ faults' = faults + 1 /\ Log(H("delfault", "", 0)) /\ UNCHANGED cache /\ flt' = [flt EXCEPT !.del = TRUE]
          /\ pc' = "parsed"
          /\ UNCHANGED <<src, pre, ver, tee, perr, pkg, sfail, estLog, recs>> /\ Fixed

Parsed == /\ pc = "parsed"
          /\ (IF perr THEN End ELSE pc' = "lint" /\ UNCHANGED recs)
          /\ UNCHANGED <<cache, src, pre, ver, tee, perr, pkg, sfail, estLog, flt, faults, hist>> /\ Fixed

LintOK == /\ Cardinality(pkg.metas) = 1
          /\ \A m \in pkg.metas : cfg.stream[m] = MetaFor(cfg.rtype)
          /\ cfg.cons # "bad"
          /\ \A o \in pkg.objs : cfg.stream[Abs(o)] \in Allowed(cfg.rtype)
Lint == /\ pc = "lint"
        /\ (IF LintOK THEN pc' = "update" /\ UNCHANGED recs ELSE End)
        /\ UNCHANGED <<cache, src, pre, ver, tee, perr, pkg, sfail, estLog, flt, faults, hist>> /\ Fixed

\* the Update that copies the meta's labels onto the revision: the one API write between caching and establishing
Update == /\ pc = "update"
          /\ \/ pc' = "version" /\ UNCHANGED <<recs, faults, hist, flt>>
             \/ ApiCrash /\ CanFault /\ faults' = faults + 1 /\ Log(H("crash", "update", 0)) /\ End /\ flt' = [flt EXCEPT !.api = TRUE]
          /\ UNCHANGED <<cache, src, pre, ver, tee, perr, pkg, sfail, estLog>> /\ Fixed

Version == /\ pc = "version"
           /\ (IF ~ignore /\ cfg.cons = "unmet" THEN End ELSE pc' = "establish" /\ UNCHANGED recs)
           /\ UNCHANGED <<cache, src, pre, ver, tee, perr, pkg, sfail, estLog, flt, faults, hist>> /\ Fixed

Establish == /\ pc = "establish"
             /\ estLog' = estLog \cup {[rec |-> recs, src |-> src, objs |-> pkg.objs, pre |-> pre, ign |-> ignore, ver |-> ver]}
             /\ End
             /\ UNCHANGED <<cache, src, pre, ver, tee, perr, pkg, sfail, flt, faults, hist>> /\ Fixed

Rec == Start \/ VerifyGate \/ CacheHas \/ CacheGet \/ BackendInit \/ Read \/ Store \/ Delete \/ Parsed \/ Lint \/ Update \/ Version \/ Establish

Next == Env \/ Rec
Spec == Init /\ [][Next]_vars

----------------------------------------------------------------------------
(* C15 *)
\* what is established is exactly what the image declares: cold, warm, after any failure
Exact == \A e \in estLog : e.objs = AllObjs
\* a cache entry a reconcile installs from is complete
CacheSound == \A e \in estLog : e.src = "cache" => Complete(e.pre)
\* a package that must not be installed is never installed
BadPackage == \/ Cardinality(MetaIdx(L)) # 1
              \/ \E m \in MetaIdx(L) : cfg.stream[m] # MetaFor(cfg.rtype)
              \/ \E o \in AllObjs : cfg.stream[o] \notin Allowed(cfg.rtype)
              \/ cfg.cons = "bad"
Gate == \A e \in estLog : /\ ~BadPackage
                          /\ (cfg.cons = "unmet" => e.ign)
                          /\ (cfg.verif => e.ver = "True")
\* the cache never holds a well-formed but incomplete entry (the root of D4; implies CacheSound and, with it, Exact)
NoWellFormedPrefix == cache.st = "good" => Complete(cache)
=============================================================================
