SPECIFICATION Spec
CONSTANTS
  InitPkgs <- PkgManual
  InitRevs <- RevsNone
  InitICs <- IcNone
  InitLock <- OnlyFalse
  ICs <- NoICs
  Img <- ImgBothOk
  MaxMgr = 1
  MaxRev = 0
  MaxFaults = 0
  MaxEnv = 0
  MidEnv = FALSE
  EnvKinds <- NoEnv
  Edits <- NoEdits
  FaultKinds <- NoFaults
  SeamOuts <- NoSeams
  FinFirst = TRUE
  FixRemoval = TRUE
  ManualInactive = FALSE
VIEW view
ACTION_CONSTRAINT Emit
CHECK_DEADLOCK FALSE
INVARIANTS DesiredStateDefined
