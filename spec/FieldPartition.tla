--------------------------- MODULE FieldPartition ---------------------------
(***************************************************************************)
(* C07 - claim and XR exchange exactly the fields each side owns.          *)
(*                                                                         *)
(* Objects (the claim, the composite resource "XR") are abstracted to sets *)
(* of entries [p |-> path, v |-> atom]: one entry per *leaf* of the JSON   *)
(* object; a path is the tuple of keys leading to the leaf (list indices   *)
(* as "0","1",..), e.g. <<"spec","compositionRef","name">>,                *)
(* <<"metadata","labels","example.org/team">>,                             *)
(* <<"status","conditions","0","reason">>.  Only metadata.labels,          *)
(* metadata.annotations, spec and status are projected.                    *)
(*                                                                         *)
(* This module states the PARTITION of the field space - who owns which    *)
(* top-level field - independently of the tables in internal/xcrd, and the *)
(* property formulas over (C0, X0) = claim / XR in the store before Sync   *)
(* and (C1, X1) = claim / XR in the store after Sync.  MonFieldPartition   *)
(* evaluates them on what the REAL syncers did; MCFieldPartition evaluates *)
(* them on an abstract model of the two syncers (SyncSSA / SyncCSA below)  *)
(* so that the oracle itself is model checked (not over-strict for the     *)
(* documented design, every clause reachable).                             *)
(*                                                                         *)
(* Interpretation notes (binding for the verdict; see also DESIGN C07):    *)
(*  I1 "claim-only machinery" = spec.resourceRef, spec.compositeDeletePolicy*)
(*     and the claim's connection secret settings                          *)
(*     (spec.writeConnectionSecretToRef, spec.publishConnectionDetailsTo). *)
(*     The two secret settings exist on both kinds with the same name; each*)
(*     side owns its own value: "never copied" + "XR's own is preserved"   *)
(*     together mean the XR's entries under these keys are unchanged.      *)
(*  I2 compositionRevisionRef is conditional in both directions; only the  *)
(*     DIRECTION is judged: a value that newly appears on one side must be *)
(*     the other side's value and the update policy (of either object: the *)
(*     property does not say whose) must allow it.  Neither its propagation*)
(*     on the first sync nor its removal is asserted.                      *)
(*  I3 Removal of an XR field that the user removed from the claim is not  *)
(*     asserted (the client-side syncer cannot remove fields).             *)
(*  I4 "only ... reach the claim": for the server-side syncer every claim  *)
(*     spec entry after Sync must be explained (NoLeakToClaim.SpecSSA).    *)
(*     The client-side syncer deliberately late-initialises claim spec     *)
(*     fields that the claim lacks from the XR ("Propagate the XR's spec   *)
(*     (minus well known fields) to the claim's spec"): selection fields   *)
(*     and, as a side effect, user spec fields.  That is documented        *)
(*     upstream behaviour of the legacy syncer; for it only XR-owned       *)
(*     machinery is forbidden in the claim spec (NoLeakToClaim.Spec).      *)
(*  I5 UserStatusToClaim is judged for the client-side syncer only if the  *)
(*     claim already has a status (it merges into an existing status       *)
(*     object; the claim reconciler creates one on every reconcile).       *)
(*  I6 Loss of the claim's own conditions is not a C07 matter; only that   *)
(*     nothing of the XR's bookkeeping arrives (NoLeakToClaim.Status).     *)
(*  I7 "Kubernetes-reserved" label/annotation keys: keys whose prefix (the *)
(*     part before "/") is kubernetes.io, k8s.io or a subdomain of them.   *)
(***************************************************************************)
EXTENDS Integers, Sequences, FiniteSets

-----------------------------------------------------------------------------
(* entries and objects *)
E(p, v)      == [p |-> p, v |-> v]
Has(O, p)    == \E e \in O : e.p = p
Get(O, p)    == IF Has(O, p) THEN (CHOOSE e \in O : e.p = p).v ELSE "none"
Override(O, N) == {e \in O : ~Has(N, e.p)} \cup N          \* N wins leaf by leaf
FillIn(O, N)   == O \cup {e \in N : ~Has(O, e.p)}          \* O wins leaf by leaf

IsSpec(p)   == Len(p) >= 2 /\ p[1] = "spec"
IsStatus(p) == Len(p) >= 2 /\ p[1] = "status"
Top(p)      == p[2]                                         \* top-level key below spec / status
IsLabel(p)  == Len(p) = 3 /\ p[1] = "metadata" /\ p[2] = "labels"
IsAnn(p)    == Len(p) = 3 /\ p[1] = "metadata" /\ p[2] = "annotations"
IsMeta(p)   == IsLabel(p) \/ IsAnn(p)
Key(p)      == p[3]

SpecOf(O)   == {e \in O : IsSpec(e.p)}
StatusOf(O) == {e \in O : IsStatus(e.p)}
MetaOf(O)   == {e \in O : IsMeta(e.p)}
Under(O, tops) == {e \in O : IsSpec(e.p) /\ Top(e.p) \in tops}

-----------------------------------------------------------------------------
(* THE PARTITION (stated from the API documentation of claims and XRs, not *)
(* from the code's filter tables)                                          *)

\* every well-known ("machinery") top-level spec field of a claim / of an XR
ClaimMachinery == {"compositionRef", "compositionSelector", "compositionRevisionRef",
                   "compositionRevisionSelector", "compositionUpdatePolicy", "compositeDeletePolicy",
                   "resourceRef", "publishConnectionDetailsTo", "writeConnectionSecretToRef"}
XRMachinery    == {"compositionRef", "compositionSelector", "compositionRevisionRef",
                   "compositionRevisionSelector", "compositionUpdatePolicy", "claimRef",
                   "resourceRefs", "publishConnectionDetailsTo", "writeConnectionSecretToRef"}
StatusMachinery == {"conditions", "connectionDetails", "claimConditionTypes"}

\* ownership classes of the top-level spec fields
Selection    == {"compositionRef", "compositionSelector", "compositionRevisionSelector",
                 "compositionUpdatePolicy"}                 \* claim -> XR ("composition selection fields")
RevRef       == "compositionRevisionRef"                    \* conditional, both directions (I2)
ClaimOnly    == {"resourceRef", "compositeDeletePolicy"}    \* never on the XR
ConnSettings == {"writeConnectionSecretToRef", "publishConnectionDetailsTo"}   \* each side its own (I1)
XROnly       == {"claimRef", "resourceRefs"}                \* never on the claim
UserSpecTop(k)   == k \notin (ClaimMachinery \cup XRMachinery)
UserStatusTop(k) == k \notin StatusMachinery

ExtNameKey   == "crossplane.io/external-name"
ClaimNameKey == "crossplane.io/claim-name"
ClaimNsKey   == "crossplane.io/claim-namespace"
ExtNamePath  == <<"metadata", "annotations", ExtNameKey>>
PolicyPath   == <<"spec", "compositionUpdatePolicy">>
Pol(O)       == Get(O, PolicyPath)                          \* "Automatic" | "Manual" | "none"
Ext(O)       == Get(O, ExtNamePath)

\* I7: the reserved keys of the key universe used by MCFieldPartition (a key that is not listed is not reserved)
ReservedKeys == {"kubernetes.io/arch", "app.kubernetes.io/name", "topology.kubernetes.io/zone",
                 "k8s.io/x", "sigs.k8s.io/y", "internal.k8s.io/z",
                 "kubectl.kubernetes.io/last-applied-configuration",
                 \* subdomains of more than one level (added after the seeded change C07-m5 - a filter that strips one
                 \* subdomain level only - was missed)
                 "node.alpha.kubernetes.io/ttl", "service.beta.kubernetes.io/lb", "internal.config.k8s.io/w"}
Reserved(k)  == k \in ReservedKeys
\* keys that are NOT reserved by I7 but end in a reserved domain name textually: "notkubernetes.io" is not a
\* subdomain of kubernetes.io, and a key without "/" has no prefix at all. Judged by a formula of their own
\* (LabelsAnnotations.Propagated.Lookalike) and enumerated only by MCFieldPartition_lookalike.cfg.
LookalikeKeys == {"notkubernetes.io/x", "k8s.io"}

\* the identity of a claim as the XR must record it
ClaimRefOf(id) == {E(<<"spec", "claimRef", "apiVersion">>, id.apiVersion), E(<<"spec", "claimRef", "kind">>, id.kind),
                   E(<<"spec", "claimRef", "namespace">>, id.namespace), E(<<"spec", "claimRef", "name">>, id.name)}
ClaimLabelsOf(id) == {E(<<"metadata", "labels", ClaimNameKey>>, id.name),
                      E(<<"metadata", "labels", ClaimNsKey>>, id.namespace)}

-----------------------------------------------------------------------------
(* PROPERTY FORMULAS.  C0,X0: before Sync; C1,X1: after; ok: Sync returned *)
(* no error (the "propagates" clauses need a completed Sync; the "never"   *)
(* and "preserves" clauses are judged on whatever state Sync left behind). *)

\* --- claim -> XR
\* "never copies claim-only machinery (resource reference, ... delete policy) into the XR"
NoLeakToXR_ClaimOnly(X1) == Under(X1, ClaimOnly) = {}
\* "... connection secret settings ..." (I1): whatever the XR has under these keys it had before
NoLeakToXR_ConnSecret(X0, X1) == Under(X1, ConnSettings) \subseteq X0
\* exactness: every XR spec entry is explained (it was there, it is the claim reference, or it is a
\* claim entry of a class that flows to the XR); nothing else of the claim (unknown fields...) arrives
NoLeakToXR_Other(C0, X0, X1) ==
  \A x \in SpecOf(X1) :
    \/ x \in X0
    \/ Top(x.p) = "claimRef"
    \/ x \in C0 /\ (UserSpecTop(Top(x.p)) \/ Top(x.p) \in Selection \/ Top(x.p) = RevRef)
\* "propagates the claim's user-defined spec fields" (nested ones included, whatever their names)
UserSpecPropagated(C0, X1, ok) == ok => {c \in SpecOf(C0) : UserSpecTop(Top(c.p))} \subseteq X1
\* "composition selection fields"
SelectionPropagated(C0, X1, ok) == ok => Under(C0, Selection) \subseteq X1
\* I2: a revision reference that is new on the XR is the claim's, under the Manual policy
RevisionToXR_OnlyIfManual(C0, X0, X1) ==
  \A x \in Under(X1, {RevRef}) : x \in X0 \/ (x \in C0 /\ "Manual" \in {Pol(X0), Pol(C0)})
\* "non-Kubernetes-reserved labels and annotations"; the external name is judged separately
MetaPropagated(C0, X1, ok) ==
  ok => {c \in MetaOf(C0) : ~Reserved(Key(c.p)) /\ Key(c.p) \notin LookalikeKeys /\ c.p # ExtNamePath} \subseteq X1
MetaPropagated_Lookalike(C0, X1, ok) ==
  ok => {c \in MetaOf(C0) : Key(c.p) \in LookalikeKeys} \subseteq X1
\* reserved ones are not: a reserved entry on the XR is the XR's own
ReservedNotPropagated(X0, X1) == {x \in MetaOf(X1) : Reserved(Key(x.p))} \subseteq X0
\* "preserves what the XR side owns (composed resource references, the XR's own connection secret
\*  reference, an existing external name)"
XRSide_ResourceRefs(X0, X1) == Under(X0, {"resourceRefs"}) \subseteq X1
XRSide_ConnSecret(X0, X1)   == Under(X0, ConnSettings) \subseteq X1
XRSide_ExternalName(X0, X1) == Ext(X0) # "none" => Ext(X1) = Ext(X0)
\* server-side apply: the claim controller's field manager must not become an owner of what the XR side
\* owns (it would revert the XR controller's later writes); Own1 = paths that manager owns after Sync
XRSide_Ownership(Own1) == \A o \in Own1 : IsSpec(o.p) => Top(o.p) \notin ({"resourceRefs"} \cup ConnSettings)
\* an XR without an external name takes the claim's (it is a non-reserved annotation)
ExternalNameToXR(C0, X0, X1, ok) == (ok /\ Ext(X0) = "none" /\ Ext(C0) # "none") => Ext(X1) = Ext(C0)
\* the XR records the claim
ClaimRefSet(X1, id, ok) == ok => (ClaimRefOf(id) \cup ClaimLabelsOf(id)) \subseteq X1

\* --- XR -> claim
\* "only the XR's user-defined status fields ... reach the claim" (I5)
UserStatusToClaim(C0, X1, C1, syncer, ok) ==
  (ok /\ (syncer = "ssa" \/ StatusOf(C0) # {})) => {x \in StatusOf(X1) : UserStatusTop(Top(x.p))} \subseteq C1
\* "XR conditions and connection-detail bookkeeping are never copied into claim status" (I6)
NoLeakToClaim_Status(C0, C1) == {c \in StatusOf(C1) : ~UserStatusTop(Top(c.p))} \subseteq C0
\* every other claim status entry is explained
NoLeakToClaim_OtherStatus(C0, X1, C1) ==
  \A c \in StatusOf(C1) : c \in C0 \/ (c \in X1 /\ UserStatusTop(Top(c.p)))
\* XR-owned machinery never arrives in the claim spec
NoLeakToClaim_Spec(C0, C1) == Under(C1, XROnly \cup ConnSettings) \subseteq C0
\* I4: exactness for the server-side syncer
NoLeakToClaim_SpecSSA(C0, C1, syncer) ==
  syncer = "ssa" => \A c \in SpecOf(C1) : c \in C0 \/ Top(c.p) \in {"resourceRef", "compositionRef", RevRef}
\* labels / annotations: only the external name
NoLeakToClaim_Meta(C0, X0, X1, C1) ==
  \A c \in MetaOf(C1) : c \in C0 \/ (c.p = ExtNamePath /\ c.v \in {Ext(X0), Ext(X1)})
\* "its selected composition reference when the claim has none" (direction)
CompositionRefToClaim_OnlyIfNone(C0, X0, X1, C1) ==
  \A c \in Under(C1, {"compositionRef"}) :
    c \in C0 \/ (Under(C0, {"compositionRef"}) = {} /\ c \in (X0 \cup X1))
\* "its composition revision under the Automatic update policy" (direction, I2)
RevisionToClaim_OnlyIfAutomatic(C0, X0, X1, C1) ==
  \A c \in Under(C1, {RevRef}) :
    c \in C0 \/ (c \in (X0 \cup X1) /\ "Automatic" \in {Pol(X0), Pol(X1), Pol(C0)})
\* "and its external name"
ExternalNameToClaim(X1, C1, ok) == (ok /\ Ext(X1) # "none") => Ext(C1) = Ext(X1)

-----------------------------------------------------------------------------
(* ABSTRACT MODEL OF THE TWO SYNCERS (design level; used only by           *)
(* MCFieldPartition to check the formulas above against the documented     *)
(* design, never to judge the real code).                                  *)
(*   xr entries carry m: "claim" = last applied by the claim controller's  *)
(*   field manager, "xr" = written by the XR controller.                   *)

\* what the claim controller asserts on the XR
XRIntent(C0, X0, id) ==
  LET drop == (ClaimMachinery \ Selection) \ (IF Pol(X0) = "Manual" THEN {RevRef} ELSE {})
      spec == {c \in SpecOf(C0) : Top(c.p) \notin drop}
      meta == {c \in MetaOf(C0) : ~Reserved(Key(c.p))}
      ext  == IF Ext(X0) # "none" THEN {E(ExtNamePath, Ext(X0))} ELSE {}
  IN Override(Override(spec \cup meta, ext), ClaimRefOf(id) \cup ClaimLabelsOf(id))

Strip(XM) == {E(x.p, x.v) : x \in XM}

\* server-side apply: intent wins; what the claim manager owned and no longer asserts goes away
\* (ownedByClaim = FALSE: upgrade path, managed fields were cleared, nothing is removed)
SyncSSA(C0, XM, id, ownedByClaim) ==
  LET X0   == Strip(XM)
      I    == XRIntent(C0, X0, id)
      kept == {E(x.p, x.v) : x \in {y \in XM : ~(ownedByClaim /\ y.m = "claim" /\ ~Has(I, y.p))}}
      X1   == Override(kept, I)
      c1   == Override(C0, {E(<<"spec", "resourceRef", "apiVersion">>, id.xrApiVersion),
                            E(<<"spec", "resourceRef", "kind">>, id.xrKind),
                            E(<<"spec", "resourceRef", "name">>, id.xrName)})
      c2   == IF Ext(X0) # "none" THEN Override(c1, {E(ExtNamePath, Ext(X0))}) ELSE c1
      c3   == IF Under(C0, {"compositionRef"}) = {} THEN c2 \cup Under(X0, {"compositionRef"}) ELSE c2
      c4   == IF Pol(X0) = "Automatic" /\ Under(X0, {RevRef}) # {} THEN Override(c3, Under(X0, {RevRef})) ELSE c3
      st   == IF StatusOf(X1) = {} THEN StatusOf(c4)
              ELSE {x \in StatusOf(X1) : UserStatusTop(Top(x.p))}
                   \cup {c \in StatusOf(C0) : Top(c.p) = "conditions"}
                   \cup {c \in StatusOf(C0) : c.p = <<"status", "connectionDetails", "lastPublishedTime">>}
  IN [c1 |-> (c4 \ StatusOf(c4)) \cup st, x1 |-> X1, own |-> {E(i.p, "owned") : i \in I}]

\* client-side: JSON merge patch of the XR with (XR as read + claim-derived spec), then the
\* XR's status and spec are merged back into the claim
SyncCSA(C0, XM, id) ==
  LET X0   == Strip(XM)
      I    == XRIntent(C0, X0, id)
      X1   == Override(X0, I)
      c1   == Override(C0, {E(<<"spec", "resourceRef", "apiVersion">>, id.xrApiVersion),
                            E(<<"spec", "resourceRef", "kind">>, id.xrKind),
                            E(<<"spec", "resourceRef", "name">>, id.xrName)})
      st   == IF StatusOf(C0) = {} \/ StatusOf(X1) = {} THEN StatusOf(C0)
              ELSE Override(StatusOf(C0), {x \in StatusOf(X1) : UserStatusTop(Top(x.p))})
      c2   == IF Ext(X1) # "none" THEN Override(c1, {E(ExtNamePath, Ext(X1))}) ELSE c1
      c3   == IF Pol(X1) = "Automatic" THEN {c \in c2 : ~(IsSpec(c.p) /\ Top(c.p) = RevRef)} \cup Under(X1, {RevRef}) ELSE c2
      back == {x \in SpecOf(X1) : Top(x.p) \notin (XRMachinery \ Selection)}
      c4   == FillIn(c3, back)
  IN [c1 |-> (c4 \ StatusOf(c4)) \cup st, x1 |-> X1, own |-> {}]

=============================================================================
