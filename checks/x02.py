"""X02 - the establishing / update path of the XRD reconcilers (an extension beyond the 20 listed properties).
Model: spec/XrdLifecycle.tla (definition.Reconciler + offered.Reconciler on one XRD, one action per API / engine call,
interleaved, environment between and in the middle of reconciles, faults and process crashes at every call);
driver: harness/drivers/xrdlifecycle (the real reconcilers, one gated goroutine each, simapi + a recording engine);
monitor: spec/MonXrdLifecycle.tla."""
import glob
import json
import os

import vlib

PID = "X02"
FORMULAS = ["StartOnlyEstablished", "CondTruth.Running", "CondTruth.Watches(.RunningBranch)", "CondTruth.Version(.StaleRecord)",
            "CondTruth.TypeRef(.StaleRecord)", "Restart.StopFirst", "Restart.NoNeedlessStop", "Faithful.Write", "Faithful.OwnCrd",
            "Faithful.XrdSpecKept", "Foreign.Untouched", "Foreign.Stops", "Foreign.Surfaces", "FinalizerFirst", "NotOffered",
            "DeleteOnlyOnXrdDeletion", "AfterReconcile.Crd", "AfterReconcile.Running", "AfterReconcile.Watches(.RunningBranch)",
            "AfterReconcile.Version(.StaleRecord)", "AfterReconcile.TypeRef(.StaleRecord)", "AfterReconcile.Cond",
            "AfterReconcile.Finalizer", "Quiescent", "NoDeadlock"]
# (cfg suffix, scenarios replayed)
QUICK = [("quick_ver", 600), ("quick_faults", 700), ("quick_third", 400), ("quick_claim", 500), ("quick_recreate", 500)]
THOROUGH = [("quick_ver", 10 ** 7), ("quick_faults", 10 ** 7), ("quick_third", 10 ** 7), ("quick_claim", 10 ** 7), ("quick_recreate", 6000),
            ("thorough_ver", 10000), ("thorough_faults", 12000), ("thorough_third", 8000), ("thorough_mixed", 8000), ("thorough_recreate", 8000)]
# design-level witnesses: (cfg suffix, invariants that MUST be violated)
WITNESS = [("witness_guard", ["Safe"]),       # the "wait until Established" guard switched off -> StartOnlyEstablished
           ("witness_asis", ["Converges"])]   # the code as written does not converge after a failed status update / StartWatches (D17, D18)
FIXED_QUICK, FIXED = "fixed_quick", "fixed"      # the candidate repairs make every rule hold


def feats(h):
    """features of a schedule for the covering sample: faults with their call, environment steps with the calls around
    them, adjacent calls of different actors, how a reconcile ended up (which calls it made)"""
    if isinstance(h, dict):
        h = h.get("hist", [])
    sig = set()
    sig.add("init:%s:%s:%s" % (h[0].get("k"), h[0].get("f"), h[0].get("a")))
    prev = None
    for i, e in enumerate(h[1:], 1):
        tok = "%s.%s" % (e.get("a"), e.get("k"))
        if e.get("t") == "env":
            nxt = h[i + 1] if i + 1 < len(h) else {}
            sig.add("env:%s" % e.get("k"))
            sig.add("env:%s<%s.%s>%s.%s" % (e.get("k"), (prev or {}).get("a"), (prev or {}).get("k"), nxt.get("a"), nxt.get("k")))
        else:
            if e.get("f") not in ("ok", ""):
                sig.add("%s:%s" % (tok, e.get("f")))
            else:
                sig.add(tok)
            if prev is not None and prev.get("t") == "call" and prev.get("a") != e.get("a"):
                sig.add("%s.%s>%s" % (prev.get("a"), prev.get("k"), tok))
        prev = e
    return sig


def regression():
    out = []
    for p in sorted(glob.glob(os.path.join(vlib.VERIF, "scenarios", PID, "*.json"))):
        with open(p) as f:
            out.append(json.load(f))
    return out


def build(ctx):
    """the driver, built against /repo's working tree (VERIF_X02_OVERLAY = go build -overlay file, used by the self-test only)"""
    ov = os.environ.get("VERIF_X02_OVERLAY")
    if not ov:
        return ctx.go_build("./drivers/xrdlifecycle")
    import shutil
    import subprocess
    bindir = os.path.join(ctx.work, "bin")
    os.makedirs(bindir, exist_ok=True)
    out = os.path.join(bindir, "xrdlifecycle")
    e = dict(os.environ)
    e.update(vlib.GOENV)
    shutil.copy("/repo/go.sum", os.path.join(vlib.HARNESS, "go.sum"))
    p = subprocess.run(["go", "build", "-overlay", ov, "-o", out, "./drivers/xrdlifecycle"], cwd=vlib.HARNESS, env=e,
                       stdout=subprocess.PIPE, stderr=subprocess.STDOUT, text=True)
    if p.returncode != 0:
        raise vlib.Inconclusive("harness does not build with overlay %s:\n%s" % (ov, p.stdout[-3000:]))
    return out


def drive_and_judge(ctx, scs, shards, binp=None):
    by_id = {s["id"]: s for s in scs}
    binp = binp or build(ctx)
    prefix, s = ctx.run_sharded(binp, scs, ["-chunk", "120000"], shards=shards)
    if s.get("hung"):
        raise vlib.Inconclusive("%d schedules hung in the xrdlifecycle driver" % s["hung"])
    viols, nlines = ctx.monitor("MonXrdLifecycle", prefix, par=8, heap="4g")
    for formula, line, scid in viols:
        parts = scid.split("/")
        base = dict(by_id.get(scid) or by_id.get(parts[0], {"id": parts[0]}))
        base["id"] = scid
        if len(parts) > 1:
            base["variant"] = parts[1]       # how the model's "fail" was realised: error | conflict
        elif "variant" not in base:
            base["variant"] = "error"
        ctx.violation(formula, scid, ctx.replay_file(base), "trace line %d" % line, fingerprint=formula)
    return s, nlines


def hits(prefix, limit=250000):
    """anti-vacuity evidence (not a verdict): how often the antecedent of each group of formulas was true in the trace"""
    d = os.path.dirname(prefix)
    files = sorted(os.path.join(d, f) for f in os.listdir(d) if f.startswith(os.path.basename(prefix)))
    h, n = {}, 0

    def inc(k):
        h[k] = h.get(k, 0) + 1
    for fp in files:
        with open(fp) as f:
            for line in f:
                n += 1
                if n > limit:
                    return h
                e = json.loads(line)
                if e["ev"] == "end" and not e["post"]["xrd"]["claim"] and e["post"]["xrd"]["ex"] and e["post"]["runc"] and e["post"]["crdc"]["st"] == "live":
                    # not judged (P7): nothing stops the claim controller / removes the claim CRD when claimNames are removed
                    inc("observation:claimNames-removed-controller-and-crd-stay")
                if e["ev"] == "call" and e["actor"] in ("def", "off"):
                    own = {"def": "x", "off": "c"}[e["actor"]]
                    if e["abs"] == "start" and e["outcome"] == "ok":
                        inc("StartOnlyEstablished")
                    if e["abs"] == "start":
                        inc("Restart.StopFirst")
                    if e["abs"] == "stop" and e["applied"] and not e["seen"]["del"]:
                        inc("Restart.NoNeedlessStop")
                    if e["abs"] == "status:xrd" and e["outcome"] == "ok" and e["post"]["xrd"]["cond" + own] == "True":
                        inc("CondTruth")
                    if e["kind"] == "crd" and e["applied"]:
                        inc("Faithful.Write/FinalizerFirst/Foreign.Untouched")
                    if e["kind"] == "xrd" and e["applied"]:
                        inc("Faithful.XrdSpecKept")
                    if e["seen"]["crd"] == "foreign":
                        inc("Foreign.Stops")
                    if e["actor"] == "off" and e["seen"]["got"] and not e["seen"]["claim"]:
                        inc("NotOffered")
                    if e["sb"] and e["quiet"]:
                        inc("Quiescent")
                    if e["injected"]:
                        inc("injected:" + e["injected"])
                elif e["ev"] == "end":
                    inc("end:" + e["result"])
                    if e["seen"]["crd"] == "foreign":
                        inc("Foreign.Surfaces")
                    if e["result"] == "done" and e["quiet"] and not e["faulty"] and e["seen"]["got"] and e["post"]["xrd"]["ex"] and not e["post"]["xrd"]["del"]:
                        inc("AfterReconcile")
    return h


def run(ctx):
    import concurrent.futures
    plan = QUICK if ctx.quick else THOROUGH
    fixed = FIXED_QUICK if ctx.quick else FIXED
    wk = 4 if ctx.quick else 8
    jobs = [(name, dict(workers=wk, timeout=300 if ctx.quick else 3000, heap="6g" if ctx.quick else "10g")) for name, _ in plan]
    jobs += [(name, dict(workers=2, timeout=300, expect_violations=must)) for name, must in WITNESS]
    jobs += [(fixed, dict(workers=wk, timeout=1200))]

    def mc_one(job):
        name, kw = job
        return name, ctx.model_check("MCXrdLifecycle", "MCXrdLifecycle_%s.cfg" % name, sub="mc_" + name, **kw)
    with concurrent.futures.ThreadPoolExecutor(max_workers=4 if ctx.quick else 3) as ex:
        fb = ex.submit(build, ctx)
        res = dict(ex.map(mc_one, jobs))
        binp = fb.result()
    scs, states, trans, emitted, consts = [], 0, 0, 0, {}
    for name, n in plan:
        mc = res[name]
        picked = ctx.sample_lines_stratified(mc["emitted_file"], n, mc["emitted"], key=feats)
        scs += [{"id": "%s-%s-%07d" % (PID, name, i), "hist": h} for i, h in picked]
        states += mc["states"]
        trans += mc["transitions"]
        emitted += mc["emitted"]
        consts["MCXrdLifecycle_%s.cfg" % name] = dict(states=mc["states"], transitions=mc["transitions"], depth=mc["depth"], schedules=mc["emitted"], replayed=len(picked))
    for name, must in WITNESS:
        consts["MCXrdLifecycle_%s.cfg" % name] = dict(violates=must, states_to_violation=res[name]["states"])
    consts["MCXrdLifecycle_%s.cfg" % fixed] = dict(holds=["AllGood"], states=res[fixed]["states"])
    chosen = regression() + scs
    s, nlines = drive_and_judge(ctx, chosen, shards=8 if ctx.quick else 14, binp=binp)
    ctx.cov.update(dict(
        states=states, transitions=trans, traces_validated_against_impl=s["runs"], samples=s["samples"][:2], model_runs=consts,
        schedules_emitted=emitted, schedules_replayed=s["scenarios"], steps=s["steps"], events=nlines, per_action_counts=s["counts"],
        drift=dict(steps_out_of_sync=s["drift"], runs_with_drift=s["drift_runs"], by_call=s.get("drift_by", {})),
        monitor_formulas=FORMULAS, antecedent_hits=hits(os.path.join(ctx.work, "trace.ndjson")), exhaustive=(emitted == len(scs)),
        checker_cmd="tlc MCXrdLifecycle (M,G) -> harness/drivers/xrdlifecycle on /repo (T) -> tlc MonXrdLifecycle",
        rule="one schedule per model transition that ends a reconcile (or kills the process): interleavings of the real definition and offered "
             "reconcilers at call granularity with XRD edits, CRD establishment, third-party CRD edits / take-overs / deletions, the deletion "
             "request, API faults (error AND conflict realisation of every failing write, crash before / after, cache miss) and engine errors",
    ))
    ctx.assumptions += [
        "engine contract (checked on the real engine by C13): Start of a running name / Stop of a stopped name are no-ops, a failed "
        "Start / Stop / StartWatches has no effect, StartWatches is idempotent, the engine dies with the process",
        "the version a controller watches is read from the engine.Watch values the real reconciler passes to StartWatches",
        "an Update with the rendered CRD on a CRD that is being deleted wipes the clean-up finalizer (API server rule for finalizers on PUT)",
        "verdict only from traces of the real reconcilers judged by MonXrdLifecycle.tla",
    ]


def replay(ctx, path):
    with open(path) as f:
        sc = json.load(f)
    sc.setdefault("variant", "error")
    s, nlines = drive_and_judge(ctx, [sc], shards=1)
    ctx.cov.update(dict(states=1, transitions=1, traces_validated_against_impl=s["runs"], samples=[sc], events=nlines))
