SPECIFICATION Spec
CONSTANTS
  Comps <- Comps3
  Attr <- AttrAll
  InitComps <- InitAll
  InitRefs <- RefsNoneC1
  InitSels <- SelsBoth
  InitDefs <- DefsQ
  InitEnfs <- EnfsQ
  InitUser <- Bools
  InitOFin <- Bools
  MaxRecs = 3
  MaxFaults = 1
  MaxEnv = 2
  MidEnv = TRUE
  EnvKinds <- EnvAll
  FaultKinds <- FaultsAll
  ComposeOuts <- OutsAll
  FinFirst = TRUE
  RvCheck = TRUE
VIEW view
ACTION_CONSTRAINT Emit
CHECK_DEADLOCK FALSE
INVARIANTS StepProps Repaired FinBeforeCompose
