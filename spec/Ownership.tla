----------------------------- MODULE Ownership -----------------------------
(***************************************************************************)
(* C02 - Crossplane never modifies, adopts or deletes what another owner   *)
(* controls.  A generic rule over write logs: every module's driver logs,  *)
(* for each mutating call, who controlled the target before the call.      *)
(* This module enumerates the placements that no other module drives (the  *)
(* CRDs an XRD defines, the roles and binding the RBAC manager writes, the *)
(* package revision with the derived name, the XR's and the claim's        *)
(* connection secret are covered here or by riders) x the pre-state of the *)
(* object; the real reconciler runs; MonOwnership judges the write log.    *)
(* The placements on composed resources (both composers), on connection    *)
(* secrets and on package objects are judged by the riders                 *)
(* ForeignUntouched* of MonXRCompose, MonConnSecrets and MonEstablisher,   *)
(* which checks/c02.py runs as well.                                       *)
(***************************************************************************)
EXTENDS Integers, Sequences, FiniteSets, TLC

Cases == {"xrd-composite-crd", "xrd-claim-crd", "rbac-system-role", "rbac-binding", "rbac-xrd-roles", "pkg-revision", "pkg-revision-gc"}
Pre == {"absent", "uncontrolled", "owner", "foreign"}

\* ---- formulas over one recorded run r:
\*   r.pre        the pre-state of the placed object
\*   r.writes     sequence of [target, preCtrl ("none" | "owner" | "foreign"), applied, verb]  - every mutating call of the run
\*   r.frozen     the foreign object is byte-identical (uid, resourceVersion, content digest) after the run
\*   r.surfaced   the conflict surfaced: the reconcile returned an error, recorded a warning event or wrote an unsynced condition
Range(s) == {s[i] : i \in DOMAIN s}
ForeignUntouched(r) == \A w \in Range(r.writes) : w.preCtrl = "foreign" => ~w.applied
ForeignFrozen(r) == r.pre = "foreign" => r.frozen
Surfaces(r) == r.pre = "foreign" => r.surfaced
\* sanity of the run itself: with no foreign owner in the way the reconciler does write the object (the case is not vacuous)
Exercised(r) == r.pre \in {"absent", "uncontrolled", "owner"} => r.placedWritten
=============================================================================
