SPECIFICATION Spec
CONSTANTS
  InitRevs <- RevVerdicts
  InitICs <- IcMix
  InitVst <- VstDefault
  InitOk <- OkBoth
  Feats <- OnlyTrue
  Orders <- Fwd
  ICs <- IcsQ
  Imgs <- ImgsQ
  MaxSig = 2
  MaxRev = 0
  MaxFaults = 0
  MaxEnv = 2
  MidEnv = TRUE
  EnvKinds <- EnvWorld
  FaultKinds <- NoFaults
  GateOn = TRUE
  GateSkipsInactive = TRUE
  Sticky = TRUE
  VecICs <- NoICs
  VecEvICs <- NoICs
  VecImgs <- NoICs
VIEW view
ACTION_CONSTRAINT Emit
CHECK_DEADLOCK FALSE
INVARIANTS GateSafe RepairedSig VerdictShape RepairedRev InactiveDeactivates
