SPECIFICATION Spec
CONSTANTS
  Progs12 <- AllProgs
  Progs3 <- Progs3All
  MaxSteps = 3
  ExtraSets <- Ex4
  ExistingSets <- Old3
  GrpcExtras <- Ex2
  GrpcMaxSteps = 3
  Grpc3Progs <- AllProgs
  Ops <- RouteOps
  MaxOps = 6
ACTION_CONSTRAINT Emit
CHECK_DEADLOCK FALSE
INVARIANTS RefPipeline RefSelf RefBounds RefRouting
