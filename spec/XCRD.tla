-------------------------------- MODULE XCRD --------------------------------
(***************************************************************************)
(* C11 - "CRDs derived from an XRD are the XRD's schema plus intact        *)
(* Crossplane machinery": abstract domain, design model and reference      *)
(* formulas.                                                               *)
(*                                                                         *)
(* Code anchors: internal/xcrd/crd.go (ForCompositeResource,               *)
(* ForCompositeResourceClaim, genCrdVersion, validateClaimNames),          *)
(* internal/xcrd/schemas.go (the machinery tables),                        *)
(* apis/apiextensions/v1/xrd_validation.go (ValidateUpdate),               *)
(* internal/validation/apiextensions/v1/xrd/handler.go (admission).        *)
(*                                                                         *)
(* ABSTRACT XRD (input; harness/drivers/xcrd materialises it as a real     *)
(* v1.CompositeResourceDefinition named <plural>.<group>, uid "uid-<name>")*)
(*   [group, names : [kind, plural, singular, listKind]   ("" = not set)   *)
(*    claim : [present, kind, plural, singular, listKind]                  *)
(*    cup   : "unset" | "Automatic" | "Manual"      defaultCompositionUpdatePolicy *)
(*    cdp   : "unset" | "Background" | "Foreground" defaultCompositeDeletePolicy   *)
(*    conv  : "unset" | "None" | "Webhook" | "WebhookNoConfig"             *)
(*    versions : Seq([name, served, ref, schema])]                         *)
(*   schema = [spec : Part, status : Part, nameMax : -1 (not set) | n]     *)
(*   Part   = [props : set of [n |-> property name, t |-> tag],            *)
(*             req : set of names      ("required")                        *)
(*             xval : set of rule tags ("x-kubernetes-validations")        *)
(*             oneOf : set of alternative tags                             *)
(*             puf : BOOLEAN           ("x-kubernetes-preserve-unknown-fields")] *)
(* A tag stands for a whole, distinguishable OpenAPI schema (the driver    *)
(* has one per (version, part, property, tag); tags carry nested oneOf,    *)
(* CEL rules, preserve-unknown-fields, defaults ... as opaque payload).    *)
(*                                                                         *)
(* ABSTRACT CRD (output; projected by the driver from the object the real  *)
(* code returned)                                                          *)
(*   [err (no CRD was returned), scope, group, names, name (metadata.name),*)
(*    owner : [count, ctrls, ctrl, kind, api, name, uid]  (first reference)*)
(*    versions : Seq([name, served, storage, statusSub, nameMax, nameType, *)
(*                    spec : Part, status : Part])]                        *)
(*   the tag of a property in an output Part is                            *)
(*     an author tag      the property's schema is exactly the schema the  *)
(*                        author wrote for that version/part/name/tag      *)
(*     "std"              exactly the standard machinery schema            *)
(*     "std+default=X"    the standard schema plus `default: "X"`          *)
(*     "other"            anything else                                    *)
(*   ORACLE CHOICE for "standard": the schema the code itself emits for a  *)
(*   reference XRD whose author schema is empty and that declares no       *)
(*   default policies, i.e. the tables of schemas.go when the author does  *)
(*   not interfere.  The formulas then say that no author input can change *)
(*   that.  (A change of the tables themselves is therefore not flagged,   *)
(*   the removal of a machinery field is: Machinery.Present uses the name  *)
(*   lists below.)                                                         *)
(*                                                                         *)
(* INTERPRETATIONS (the reading the authors evidently intend)              *)
(*  I1 "spec and status properties, required lists and validation rules":  *)
(*     the properties / required / x-kubernetes-validations / oneOf of the *)
(*     author's `spec` and `status` schemas.  Root-level rules and         *)
(*     metadata properties other than name are not part of the statement.  *)
(*  I2 required / rules are carried as supersets (machinery may add).      *)
(*     A machinery name in the author's `required` list is carried like    *)
(*     any other (the statement says required lists are carried).          *)
(*  I3 x-kubernetes-preserve-unknown-fields at the spec/status level is an *)
(*     input dimension only (the statement does not say it is carried; the *)
(*     code keeps it for spec and drops it for status - observed, not      *)
(*     judged).  Inside an author property it is part of the tag.          *)
(*  I4 the author's metadata.name maxLength is part of "the XRD's schema": *)
(*     carried, capped at the 63 characters Crossplane needs (label value).*)
(*  I5 "modulo the documented defaults": compositionUpdatePolicy of the    *)
(*     composite CRD gets `default: <defaultCompositionUpdatePolicy>`,     *)
(*     compositeDeletePolicy of the claim CRD gets                         *)
(*     `default: <defaultCompositeDeletePolicy>` (xrd_types.go docs).      *)
(*  I6 "claim names that collide": the same-field comparison the code      *)
(*     documents (kind, plural, and singular / listKind when set).         *)
(*  I7 "cannot change once set": an update that changes group, names.kind, *)
(*     names.plural, or - when old and new both offer a claim -            *)
(*     claimNames.kind / claimNames.plural is rejected.  Only this         *)
(*     direction is stated, so only this direction is asserted; starting   *)
(*     or ceasing to offer a claim is not a change of a name.              *)
(*  I8 every version has a schema (an XRD version without any schema is    *)
(*     rejected by the code; "any OpenAPI schema" presupposes one).        *)
(***************************************************************************)
EXTENDS Integers, Sequences, FiniteSets

Range(s) == {s[i] : i \in DOMAIN s}

-----------------------------------------------------------------------------
(* The machinery name tables of internal/xcrd/schemas.go at the pinned commit
   (the property's "composition selection, references, connection secret
   settings, conditions").  The driver records the keys of the real tables in
   every trace line (output.mach); the monitor uses the union, so that a field
   ADDED to the real tables is treated as machinery while a field REMOVED
   from them is reported. *)
SelectionMach == {"compositionRef", "compositionSelector", "compositionRevisionRef",
                  "compositionRevisionSelector", "compositionUpdatePolicy"}
ConnMach      == {"publishConnectionDetailsTo", "writeConnectionSecretToRef"}
XrSpecMach    == SelectionMach \cup ConnMach \cup {"claimRef", "resourceRefs"}
ClaimSpecMach == SelectionMach \cup ConnMach \cup {"compositeDeletePolicy", "resourceRef"}
StatusMach    == {"conditions", "connectionDetails", "claimConditionTypes"}
SpecMach(k)   == IF k = "xr" THEN XrSpecMach ELSE ClaimSpecMach
CoreMach(k)   == [spec |-> SpecMach(k), status |-> StatusMach]

MaxNameLength == 63
XRDKind == "CompositeResourceDefinition"
XRDApi  == "apiextensions.crossplane.io/v1"
XrdName(x) == x.names.plural \o "." \o x.group
XrdUID(x)  == "uid-" \o XrdName(x)

-----------------------------------------------------------------------------
(* Input predicates *)
Collides(x) ==
  /\ x.claim.present
  /\ \/ x.claim.kind = x.names.kind
     \/ x.claim.plural = x.names.plural
     \/ (x.claim.singular # "" /\ x.claim.singular = x.names.singular)
     \/ (x.claim.listKind # "" /\ x.claim.listKind = x.names.listKind)

GroupChanged(o, n)      == n.group # o.group
KindChanged(o, n)       == n.names.kind # o.names.kind
PluralChanged(o, n)     == n.names.plural # o.names.plural
BothClaim(o, n)         == o.claim.present /\ n.claim.present
ClaimKindChanged(o, n)  == BothClaim(o, n) /\ n.claim.kind # o.claim.kind
ClaimPluralChanged(o, n) == BothClaim(o, n) /\ n.claim.plural # o.claim.plural
ImmutableChanged(o, n) == \/ GroupChanged(o, n) \/ KindChanged(o, n) \/ PluralChanged(o, n)
                          \/ ClaimKindChanged(o, n) \/ ClaimPluralChanged(o, n)
BadConversion(x) == x.conv = "WebhookNoConfig"

\* the tag a machinery field must carry (I5)
DefaultTag(p) == "std+default=" \o p
StdTag(m, x, k) ==
  IF m = "compositionUpdatePolicy" /\ k = "xr" /\ x.cup # "unset" THEN DefaultTag(x.cup)
  ELSE IF m = "compositeDeletePolicy" /\ k = "claim" /\ x.cdp # "unset" THEN DefaultTag(x.cdp)
  ELSE "std"
\* ... and the tags it may carry: never an author tag, never "other"; a default only if it is the declared one
AllowedStd(m, x) ==
  {"std"} \cup (IF m = "compositionUpdatePolicy" /\ x.cup # "unset" THEN {DefaultTag(x.cup)} ELSE {})
          \cup (IF m = "compositeDeletePolicy" /\ x.cdp # "unset" THEN {DefaultTag(x.cdp)} ELSE {})

-----------------------------------------------------------------------------
(* DESIGN MODEL: crd.go as coded (author properties merged first, machinery
   properties written last; Storage = Referenceable; status subresource always
   on).  Used by MCXCRD to check that the design satisfies the formulas below
   on the whole enumerated domain, never by the monitor. *)
Overlay(author, M, TagOf(_)) ==
  {p \in author : p.n \notin M} \cup {[n |-> m, t |-> TagOf(m)] : m \in M}

ModelVersion(x, v, k) ==
  [name |-> v.name, served |-> v.served, storage |-> v.ref, statusSub |-> TRUE,
   nameMax |-> (IF v.schema.nameMax >= 0 /\ v.schema.nameMax < MaxNameLength THEN v.schema.nameMax ELSE MaxNameLength),
   nameType |-> "string",
   spec |-> [props |-> Overlay(v.schema.spec.props, SpecMach(k), LAMBDA m : StdTag(m, x, k)),
             req |-> v.schema.spec.req, xval |-> v.schema.spec.xval, oneOf |-> v.schema.spec.oneOf,
             puf |-> v.schema.spec.puf],
   status |-> [props |-> Overlay(v.schema.status.props, StatusMach, LAMBDA m : "std"),
               req |-> v.schema.status.req, xval |-> v.schema.status.xval, oneOf |-> v.schema.status.oneOf,
               puf |-> FALSE]]

NoNames == [kind |-> "", plural |-> "", singular |-> "", listKind |-> ""]
NoOwner == [count |-> 0, ctrls |-> 0, ctrl |-> FALSE, kind |-> "", api |-> "", name |-> "", uid |-> ""]
ErrCRD  == [err |-> TRUE, scope |-> "none", group |-> "", names |-> NoNames, name |-> "", owner |-> NoOwner,
            versions |-> <<>>]
ClaimNamesOf(x) == [kind |-> x.claim.kind, plural |-> x.claim.plural, singular |-> x.claim.singular,
                    listKind |-> x.claim.listKind]

ModelCRD(x, k) ==
  IF k = "claim" /\ (~x.claim.present \/ Collides(x)) THEN ErrCRD
  ELSE [err |-> FALSE,
        scope |-> (IF k = "xr" THEN "Cluster" ELSE "Namespaced"),
        group |-> x.group,
        names |-> (IF k = "xr" THEN x.names ELSE ClaimNamesOf(x)),
        name |-> (IF k = "xr" THEN XrdName(x) ELSE x.claim.plural \o "." \o x.group),
        owner |-> [count |-> 1, ctrls |-> 1, ctrl |-> TRUE, kind |-> XRDKind, api |-> XRDApi,
                   name |-> XrdName(x), uid |-> XrdUID(x)],
        versions |-> [i \in DOMAIN x.versions |-> ModelVersion(x, x.versions[i], k)]]

ModelUpdateRejects(o, n) == ImmutableChanged(o, n) \/ BadConversion(n)
ModelCreateDenied(n) == BadConversion(n) \/ Collides(n)

-----------------------------------------------------------------------------
(* REFERENCE FORMULAS.  x: abstract XRD, c: abstract CRD of kind k ("xr" or
   "claim"), M = [spec |-> ..., status |-> ...]: the machinery names of k.
   All of them are conditional on a CRD having been returned; that one must be
   returned is Rendered. *)
CV(c, name) == {v \in Range(c.versions) : v.name = name}
\* version w of the XRD and a CRD version of the same name satisfy P
ForEachVersion(x, c, P(_, _)) ==
  \A w \in Range(x.versions) : \E v \in CV(c, w.name) : P(w, v)

\* "For every XRD, the composite and claim CRDs ..." exist
Rendered(x, c, k) ==
  IF k = "xr" THEN ~c.err ELSE ((x.claim.present /\ ~Collides(x)) => ~c.err)

\* "... carry every version ..."
VersionsCarried(x, c) ==
  ~c.err => /\ Len(c.versions) = Len(x.versions)
            /\ {<<v.name, v.served>> : v \in Range(c.versions)} = {<<w.name, w.served>> : w \in Range(x.versions)}
\* "... exactly one storage version (the referenceable one) ..."
OneStorage(c) == ~c.err => Cardinality({i \in DOMAIN c.versions : c.versions[i].storage}) = 1
StorageIsReferenceable(x, c) ==
  ~c.err => \A v \in Range(c.versions) : v.storage <=> (\E w \in Range(x.versions) : w.name = v.name /\ w.ref)
\* mechanism "status subresource always on"
StatusSubresource(c) == ~c.err => \A v \in Range(c.versions) : v.statusSub

\* "... cluster scope for composites and namespace scope for claims ..."
Scope(c, k) == ~c.err => c.scope = (IF k = "xr" THEN "Cluster" ELSE "Namespaced")
\* "... and a controller reference to the XRD"
Owner(x, c) ==
  ~c.err => /\ c.owner.count = 1 /\ c.owner.ctrls = 1 /\ c.owner.ctrl
            /\ c.owner.kind = XRDKind /\ c.owner.api = XRDApi
            /\ c.owner.name = XrdName(x) /\ c.owner.uid = XrdUID(x)
\* the CRDs are "the composite and claim CRDs" of this XRD
Identity(x, c, k) ==
  ~c.err => /\ c.group = x.group
            /\ c.names = (IF k = "xr" THEN x.names ELSE ClaimNamesOf(x))
            /\ c.name = c.names.plural \o "." \o c.group

\* "... with the author's spec and status properties ..." (those not named like machinery of this CRD)
AuthorPropsV(w, v, M) ==
  /\ \A p \in w.schema.spec.props : p.n \notin M.spec => p \in v.spec.props
  /\ \A p \in w.schema.status.props : p.n \notin M.status => p \in v.status.props
AuthorProps(x, c, M) == ~c.err => ForEachVersion(x, c, LAMBDA w, v : AuthorPropsV(w, v, M))
\* "... required lists ..."
AuthorRequiredV(w, v) == w.schema.spec.req \subseteq v.spec.req /\ w.schema.status.req \subseteq v.status.req
AuthorRequired(x, c) == ~c.err => ForEachVersion(x, c, AuthorRequiredV)
\* "... and validation rules" (CEL rules and oneOf, I1/I2)
AuthorRulesV(w, v) ==
  /\ w.schema.spec.xval \subseteq v.spec.xval /\ w.schema.status.xval \subseteq v.status.xval
  /\ w.schema.spec.oneOf \subseteq v.spec.oneOf /\ w.schema.status.oneOf \subseteq v.status.oneOf
AuthorRules(x, c) == ~c.err => ForEachVersion(x, c, AuthorRulesV)
\* name length limit (I4)
NameLimitV(w, v) ==
  /\ v.nameType = "string"
  /\ v.nameMax = (IF w.schema.nameMax >= 0 /\ w.schema.nameMax < MaxNameLength THEN w.schema.nameMax ELSE MaxNameLength)
NameLimit(x, c) == ~c.err => ForEachVersion(x, c, NameLimitV)

\* "The Crossplane machinery fields ... are always present ..."  (Core: the name lists above)
TagsOf(part, m) == {p.t : p \in {q \in part.props : q.n = m}}
MachineryPresent(c, Core) ==
  ~c.err => \A v \in Range(c.versions) :
              /\ \A m \in Core.spec : TagsOf(v.spec, m) # {}
              /\ \A m \in Core.status : TagsOf(v.status, m) # {}
\* "... with their standard schema and cannot be shadowed or altered by the XRD's own schema"
MachineryStandard(x, c, M) ==
  ~c.err => \A v \in Range(c.versions) :
              /\ \A m \in M.spec : TagsOf(v.spec, m) \subseteq AllowedStd(m, x)
              /\ \A m \in M.status : TagsOf(v.status, m) \subseteq {"std"}
\* the documented defaults (I5) are injected where documented
MachineryDefault(x, c, k) ==
  ~c.err => \A v \in Range(c.versions) :
              /\ (k = "xr" /\ x.cup # "unset") => TagsOf(v.spec, "compositionUpdatePolicy") = {DefaultTag(x.cup)}
              /\ (k = "claim" /\ x.cdp # "unset") => TagsOf(v.spec, "compositeDeletePolicy") = {DefaultTag(x.cdp)}

\* "Claim names that collide with the composite's names are rejected" (no claim CRD; admission denies)
CollideNoCRD(x, claimCrd) == Collides(x) => claimCrd.err

\* "group and kind/plural names cannot change once set" (I7); rejected: the verdict of ValidateUpdate / admission
Immutable(o, n, Changed(_, _), rejected) == Changed(o, n) => rejected

=============================================================================
