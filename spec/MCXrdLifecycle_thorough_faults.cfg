SPECIFICATION Spec
CONSTANTS
  Inits <- InitsMixed
  EnvKinds = {"ver"}
  FaultKinds = {"fail", "crashBefore", "crashAfter", "miss", "efail"}
  MaxEnv = 1
  MaxFaults = 2
  MaxRecs = 3
  Interleave = TRUE
  MidEnv = TRUE
  WaitEstablished = TRUE
  FixTypeRef = FALSE
  FixWatches = FALSE
VIEW view
ACTION_CONSTRAINT EmitEnd
CHECK_DEADLOCK FALSE
INVARIANTS Safe
PROPERTIES ForeignFrozen XrdSpecKept
