SPECIFICATION Spec
CONSTANTS
  Fns <- FaOnly
  Callers <- C2
  MaxCalls = 2
  MaxGC = 1
  MaxEnv = 2
  MaxConn = 4
  MaxFaults = 1
  EnvOps <- EnvMove
  EnvEps <- Eps12
  InitEps <- InitE1
  Orders <- Asc
  Codes <- OkOnly
  FaultKinds <- FaultErr
  Recheck = TRUE
  VerifyTarget = TRUE
  CloseStale = TRUE
  FixPkg = TRUE
VIEW view

CHECK_DEADLOCK FALSE
INVARIANTS NoLeak PoolOpen OneOpen StepProps PkgFresh
