package main

// Family "rbac": the real rbac.Setup on the fake manager and the three controllers it registers.

import (
	appsv1 "k8s.io/api/apps/v1"
	rbacv1 "k8s.io/api/rbac/v1"
	metav1 "k8s.io/apimachinery/pkg/apis/meta/v1"
	"k8s.io/apimachinery/pkg/apis/meta/v1/unstructured"

	xpv1 "github.com/crossplane/crossplane-runtime/apis/common/v1"

	pkgv1 "github.com/crossplane/crossplane/apis/pkg/v1"
	"github.com/crossplane/crossplane/internal/controller/rbac"
	"github.com/crossplane/crossplane/zzverif/simapi"
)

var rbacUniverse = []string{kXRD, kCR, kCRB, "Deployment", kPR}

func thingKey(name string) simapi.Key { return simapi.Key{Group: "ex.org", Kind: "Thing", Name: name} }

type prSpec struct {
	name, fam, pkg, crd, req string // req: none | allowed | denied
}

func (w *world) prSpecs() []prSpec {
	return []prSpec{
		{"p1", "f", "acme/provider-a:v1.0.0", "as.a.ex.org", "allowed"},
		{"p2", "f", w.in.Reg + "/acme/provider-b:v1.0.0", "bs.b.ex.org", "none"},
		{"p3", "g", w.in.Reg + "/acme/provider-g:v1.0.0", "gs.g.ex.org", "denied"},
		{"p4", "none", w.in.Reg + "/acme/provider-d:v1.0.0", "ds.d.ex.org", "none"},
		{"p5", "none", w.in.Reg + "/acme/provider-e:v1.0.0", "es.e.ex.org", "allowed"},
		// the same family label, another registry: not a member of p1's family
		{"p6", "f", "evil.example.com/acme/provider-c:v1.0.0", "cs.c.ex.org", "none"},
	}
}

func (w *world) seedRbac() {
	for _, p := range w.prSpecs() {
		pr := &pkgv1.ProviderRevision{ObjectMeta: metav1.ObjectMeta{Name: p.name}}
		if p.fam != "none" {
			pr.Labels = map[string]string{pkgv1.LabelProviderFamily: p.fam}
		}
		pr.Spec.Package = p.pkg
		pr.Spec.DesiredState = pkgv1.PackageRevisionActive
		pr.Status.ObjectRefs = []xpv1.TypedReference{{APIVersion: "apiextensions.k8s.io/v1", Kind: kCRD, Name: p.crd}}
		switch p.req {
		case "allowed":
			pr.Status.PermissionRequests = []rbacv1.PolicyRule{{APIGroups: []string{""}, Resources: []string{"configmaps"}, Verbs: []string{"get"}}}
		case "denied":
			pr.Status.PermissionRequests = []rbacv1.PolicyRule{{APIGroups: []string{""}, Resources: []string{"secrets"}, Verbs: []string{"get"}}}
		}
		w.s.Put(pr)
	}
	w.s.Put(&rbacv1.ClusterRole{ObjectMeta: metav1.ObjectMeta{Name: "allow-role"},
		Rules: []rbacv1.PolicyRule{{APIGroups: []string{""}, Resources: []string{"configmaps"}, Verbs: []string{"get", "list"}}}})
	w.s.Put(newXRD(xrdName, "ex.org", "XThing", "xthings"))
	p1 := w.s.Peek(simapi.Key{Group: "pkg.crossplane.io", Kind: kPR, Name: "p1"})
	d := &appsv1.Deployment{ObjectMeta: metav1.ObjectMeta{Name: "p1-deploy", Namespace: "crossplane-system",
		OwnerReferences: []metav1.OwnerReference{{APIVersion: "pkg.crossplane.io/v1", Kind: kPR, Name: "p1", UID: p1.GetUID()}}}}
	d.Spec.Template.Spec.ServiceAccountName = "p1-sa"
	w.s.Put(d)
}

func (w *world) roleOf(name string) *unstructured.Unstructured {
	return w.s.Peek(simapi.Key{Group: "rbac.authorization.k8s.io", Kind: kCR, Name: name})
}

func grantsGroup(role *unstructured.Unstructured, group string) bool {
	if role == nil {
		return false
	}
	rules, _, _ := unstructured.NestedSlice(role.Object, "rules")
	for _, r := range rules {
		m, _ := r.(map[string]any)
		gs, _ := m["apiGroups"].([]any)
		for _, g := range gs {
			if g == group {
				return true
			}
		}
	}
	return false
}

func (w *world) rbacHappy(c *ctl) (map[string]any, map[string]any) {
	extra := map[string]any{}
	switch c.id {
	case "rbacdef":
		r := c.reconcile(w, "happy:rbacdef", "", xrdName)
		n := 0
		for _, u := range w.s.All(simapi.Key{Group: "rbac.authorization.k8s.io", Kind: kCR}.GK()) {
			for _, or := range u.GetOwnerReferences() {
				if or.Kind == kXRD && or.Name == xrdName {
					n++
				}
			}
		}
		extra["roles"] = n
		return r.record(), extra
	case "binding":
		r := c.reconcile(w, "happy:binding", "", "p1")
		subj := []any{}
		if b := w.s.Peek(simapi.Key{Group: "rbac.authorization.k8s.io", Kind: kCRB, Name: "crossplane:provider:p1:system"}); b != nil {
			ss, _, _ := unstructured.NestedSlice(b.Object, "subjects")
			for _, s := range ss {
				m, _ := s.(map[string]any)
				subj = append(subj, m["namespace"].(string)+"/"+m["name"].(string))
			}
		}
		extra["subjects"] = subj
		return r.record(), extra
	case "roles":
		var first recResult
		grants := []any{}
		for i, p := range w.prSpecs() {
			r := c.reconcile(w, "happy:roles:"+p.name, "", p.name)
			if i == 0 {
				first = r
			}
			sys := w.roleOf("crossplane:provider:" + p.name + ":system")
			grants = append(grants, map[string]any{"pr": p.name, "req": p.req, "fam": p.fam, "res": r.record()["res"], "applied": sys != nil,
				"own": grantsGroup(sys, groupOfCRD(p.crd)), "famB": grantsGroup(sys, "b.ex.org"), "famC": grantsGroup(sys, "c.ex.org"), "famA": grantsGroup(sys, "a.ex.org")})
		}
		extra["grants"] = grants
		return first.record(), extra
	}
	return map[string]any{"res": "skipped", "requeue": false, "after": 0, "msg": ""}, extra
}

func groupOfCRD(name string) string {
	for i := 0; i < len(name); i++ {
		if name[i] == '.' {
			return name[i+1:]
		}
	}
	return name
}

func runRbac(in vec) []map[string]any {
	w := newWorld(in)
	setCurrent(w)
	w.cap = newCapEngine(w, w.eng)
	w.seedRbac()
	w.at("setup")
	errS := ""
	if msg := guard(func() {
		if err := rbac.Setup(w.mgr, w.rbacOptions()); err != nil {
			errS = "error: " + err.Error()
		}
	}); msg != "" {
		errS = "panic: " + msg
	}
	w.at("env")
	names, ids := []any{}, []any{}
	byID := map[string]*ctl{}
	for _, r := range w.mgr.runnables() {
		c := w.capture(r)
		w.ctls = append(w.ctls, c)
		names, ids = append(names, c.name), append(ids, c.id)
		if _, dup := byID[c.id]; !dup {
			byID[c.id] = c
		}
	}
	recs := []map[string]any{{"t": "setup", "ctl": "none", "o": map[string]any{"err": errS, "names": names, "ids": ids, "indexes": strs(w.indexesNow())}}}
	rows := []any{}
	for _, id := range []string{"rbacdef", "binding", "roles"} {
		c, ok := byID[id]
		if !ok {
			continue
		}
		o := map[string]any{"opts": map[string]any{"has": false, "poll": -1, "conc": -1, "limiter": false, "features": false, "engine": "absent", "fnrunner": false, "ess": false}}
		// the watch probes first: the happy reconciles change the world the handlers list
		obs := w.observe(c, rbacUniverse, "")
		happy, extra := w.rbacHappy(c)
		o["happy"] = happy
		for k, v := range obs {
			o[k] = v
		}
		pre := []string{"happy:" + c.id, "conflict:" + c.id, "plain:" + c.id, "limit:" + c.id}
		o["logctl"] = w.seenLogs(pre...)
		o["evsrc"], o["evann"] = w.seenEvents(pre...)
		o["clients"] = w.clientsOf(pre...)
		o["extra"] = extra
		o["held"] = []any{}
		if c.core.IsValid() {
			o["held"], _ = w.held(c.core.Addr())
		}
		o["pollField"] = c.durationField("pollInterval")
		recs = append(recs, map[string]any{"t": "ctl", "ctl": id, "o": o})
		rows = append(rows, uniformRow(id, o))
	}
	for _, c := range w.ctls {
		if c.id == "unknown" || byID[c.id] != c {
			recs = append(recs, map[string]any{"t": "stray", "ctl": c.id, "o": map[string]any{"name": c.name, "chain": strs(c.chain)}})
		}
	}
	recs = append(recs, map[string]any{"t": "uniform", "ctl": "none", "o": map[string]any{"rows": rows}})
	return recs
}
