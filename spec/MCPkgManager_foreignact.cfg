SPECIFICATION Spec
CONSTANTS
  DSeq <- DSeq3
  Tags = {"t1", "t2"}
  Limits = {1}
  MaxEdits = 2
  MaxFaults = 1
  MaxRecs = 4
  WithFin = FALSE
  ForeignAct = TRUE
  Foreign = {"d1"}
  FixGC = TRUE
  MidEnv = FALSE
  Legacy = FALSE
  InitReg <- Reg2
VIEW view
ACTION_CONSTRAINT Emit
CHECK_DEADLOCK FALSE
INVARIANTS OneActive
PROPERTIES ActivateLast ForeignFrozen
