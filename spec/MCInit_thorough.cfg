SPECIFICATION Spec
CONSTANTS
  Cfgs <- MCCfgs
  FaultAt <- MCFaultAt
  FixD7 = TRUE
  MaxRuns = 3
  MaxFaults = 1
  Fams = {"tls", "pkg", "def"}
  BaseNames = {"fresh", "helm", "full"}
  CAs = {"absent", "empty", "complete", "nokey", "nocert"}
  Srvs = {"absent", "empty", "crt", "key", "cacrt", "complete", "foreign"}
  Clis = {"absent", "empty", "partial", "complete"}
  Esss = {"absent", "complete"}
  Crds = {"absent", "stale", "current"}
  Whcs = {"absent", "stale", "current"}
  Kinds = {"prov", "conf", "func"}
  Hosts = {"", "h", "hp", "hd"}
  ReqVers = {"t1", "t2", "d1"}
  InstNames = {"def", "custom"}
  InstVers = {"t1", "d2"}
  Req2s = {FALSE, TRUE}
  Defs = {"absent", "edited"}
  Storeds = {"cur", "old"}
VIEW view
ACTION_CONSTRAINT Emit
CHECK_DEADLOCK FALSE
INVARIANTS Idempotent AbortRerun NoDupPkg Bundle
PROPERTIES KeepCA KeepCerts Chain Untouched
