---------------------------- MODULE MCPkgRevision ----------------------------
EXTENDS PkgRevision, Json

\* ---- streams
GoodP3 == <<"mP", "CRD", "CRD">>
GoodP4 == <<"mP", "CRD", "MWC", "VWC">>
GoodC3 == <<"mC", "XRD", "CMP">>
GoodF2 == <<"mF", "CRD">>
GoodF1 == <<"mF">>
StreamsFault == {GoodP3}
StreamsFaultT == {GoodP3, GoodP4, GoodC3, GoodF2}
\* good and bad packages for the gate: meta first (what xpkg build emits) and raw orders
StreamsGate == {GoodP3, GoodC3, GoodF2, GoodF1,
                <<"CRD">>,                       \* no meta
                <<"mP", "mP", "CRD">>,           \* two metas
                <<"mP", "CRD", "mC">>,           \* two metas of different kinds, one at the end
                <<"mP", "CRD", "XRD">>,          \* a kind no provider may carry; a configuration neither (CRD)
                <<"mC", "XRD", "MWC">>,          \* a kind no configuration may carry
                <<"mF", "XRD", "CMP", "VWC">>,   \* functions may carry any known kind
                <<"mP", "CRD", "ALIEN">>,        \* unknown kind: the parser fails
                <<"CRD", "mP", "CRD">>}          \* meta in the middle
\* bad documents late in the stream, for the combination with stream faults
StreamsLate == {<<"mP", "CRD", "XRD">>, <<"mP", "CRD", "mC">>, <<"mP", "CRD", "ALIEN">>, <<"mC", "XRD", "CMP", "MWC">>}

StreamsFixed == {GoodP3, GoodC3} \cup StreamsLate
AllTypes == {"Provider", "Configuration", "Function"}
ConsAll == {<<"none", FALSE>>, <<"met", FALSE>>, <<"unmet", FALSE>>, <<"unmet", TRUE>>, <<"bad", FALSE>>, <<"bad", TRUE>>}
ConsPlain == {<<"none", FALSE>>}
ConsFew == {<<"none", FALSE>>, <<"unmet", FALSE>>}
VerifOff == {<<FALSE, FALSE, "unset">>}
VerifAll == {<<FALSE, FALSE, "unset">>, <<FALSE, TRUE, "unset">>, <<TRUE, FALSE, "unset">>, <<TRUE, TRUE, "unset">>,
             <<TRUE, TRUE, "Unknown">>, <<TRUE, TRUE, "False">>, <<TRUE, FALSE, "Unknown">>}
VerifFew == {<<FALSE, FALSE, "unset">>, <<TRUE, TRUE, "unset">>}
CacheAll == {"absent", "complete", "badhdr", "badbody"}
CacheCold == {"absent"}
CacheTwo == {"absent", "complete"}
AllStoreFaults == {"create", "write", "crash"}
NoStoreFaults == {}

\* scenario emission: one line per transition that ends a reconcile
Emit == (pc # "idle" /\ pc' = "idle") => PrintT(<<"TRACE", ToJson(hist')>>)
=============================================================================
