"""C10 - P&T rendering is total, deterministic, agrees with its documented meaning and never applies a half-rendered resource.
Reference semantics: spec/Patches.tla (value lattice, transform / patch / render domains, documented meaning);
vectors: spec/MCPatches.tla (families transform, patch, render); driver: harness/drivers/patches (real composite.Resolve,
ResolveTransforms, Apply, RenderFrom/ToCompositePatches, RenderComposedResourceMetadata, ComposedTemplates and
PTComposer.Compose on simapi, every vector run twice); judge: spec/MonPatches.tla."""
import glob
import json
import os
import re

import vlib

PID = "C10"
MON_FORMULAS = ["Total.Transform", "Total.Patch", "Total.Render", "Total.RegexpNegativeGroup", "Determinism", "SourcePure",
                "OptionalNoop", "RequiredErr", "ConvertLaw.<From><To>", "ConvertLaw.RoundTrip", "Meaning.Math", "Meaning.Map",
                "Meaning.Match", "Meaning.String", "Meaning.Chain", "Meaning.Type", "MathLaw.ClampFractional",
                "Patch.Copies", "Patch.Transforms", "Patch.Invalid", "Combine.Format", "MergeLaw.Replace", "MergeLaw.Override",
                "MergeLaw.KeepMapValues", "MergeLaw.AppendSlice", "Render.Filter", "Render.LastWins", "Metadata.MissingLabel",
                "Metadata.Rendered", "Metadata.ForeignController", "PatchSet.Inline", "PatchSet.Invalid",
                "HalfRendered.NoWrite", "HalfRendered.Untouched", "HalfRendered.OthersApplied", "HalfRendered.RefKept"]
MAX_REPLAY_FILES_PER_FORMULA = 5


def regression():
    out = []
    for p in sorted(glob.glob(os.path.join(vlib.VERIF, "scenarios", PID, "*.json"))):
        with open(p) as f:
            out.append(json.load(f))
    return out


def random_vectors(ctx, emitted, n):
    """Seeded random vectors beyond the enumerated product: transform chains of length 3 (and 2) over ALL transforms
    and values of the model's domain, and FieldPath patches carrying such chains. The atoms are taken from the
    vectors TLC emitted, so the domain stays the one of Patches.tla; the reference semantics are compositional
    (ChainExpect), so MonPatches judges them like any other vector."""
    vals, trs, seen = [], [], set()
    for _, v in emitted:
        if v.get("fam") != "transform":
            continue
        for x, bucket in [(v["val"], vals)] + [(t, trs) for t in v["chain"]]:
            k = json.dumps(x, sort_keys=True)
            if k not in seen:
                seen.add(k)
                bucket.append(x)
    vals.sort(key=lambda x: json.dumps(x, sort_keys=True))
    trs.sort(key=lambda x: json.dumps(x, sort_keys=True))
    if not vals or not trs:
        return []
    rng = ctx.rng
    # transforms that usually succeed, so that later stages of a chain are reached
    live = [t for t in trs if t["cfg"] and t["ty"] in ("convert", "math", "string") and t["op"] not in ("Bogus", "bogus")] or trs
    out = []
    for i in range(n):
        k = 3 if rng.random() < 0.7 else 2
        chain = [rng.choice(live if rng.random() < 0.8 else trs) for _ in range(k)]
        val = rng.choice(vals)
        if i % 4 == 3:
            p = dict(ptype=rng.choice(["FromCompositeFieldPath", "ToCompositeFieldPath"]), to=dict(k="plain", p="spec.out", set=True),
                     pol=rng.choice(["nil", "Optional", "Required"]), mo="nil", chain=chain, vars=[], cfmt=[], cstrat="nocombine")
            p["from"] = dict(k="plain", p="spec.val", set=True)
            inp = dict(fam="patch", val=val, p=p)
        else:
            inp = dict(fam="transform", val=val, chain=chain)
        out.append({"id": "%s-rnd%d-%06d" % (PID, ctx.seed, i), "input": inp})
    return out


def monitor_counts(ctx):
    """COUNT|<formula>|<n> lines of the monitor runs: how often each formula's antecedent was true."""
    counts = {}
    for out in glob.glob(os.path.join(ctx.work, "mon*", "tlc_MonPatches.out")):
        with open(out) as f:
            for m in re.finditer(r'^"COUNT\|([^|"]+)\|(\d+)"$', f.read(), re.M):
                counts[m.group(1)] = counts.get(m.group(1), 0) + int(m.group(2))
    return counts


def drive_and_judge(ctx, scs):
    by_id = {s["id"]: s for s in scs}
    sp = ctx.write_scenarios(scs)
    binp = ctx.go_build("./drivers/patches")
    trace = os.path.join(ctx.work, "trace.ndjson")
    summ = os.path.join(ctx.work, "summary.json")
    chunk = max(500, len(scs) // 6 + 1)
    ctx.run([binp, "-scenarios", sp, "-trace", trace, "-summary", summ, "-chunk", str(chunk), "-seed", str(ctx.seed)])
    with open(summ) as f:
        s = json.load(f)
    viols, nlines = ctx.monitor("MonPatches", trace)
    files, per_formula = {}, {}
    for formula, line, scid in sorted(viols, key=lambda v: (v[0], not v[2].startswith(PID + "-reg"), v[2])):
        per_formula[formula] = per_formula.get(formula, 0) + 1
        if per_formula[formula] <= MAX_REPLAY_FILES_PER_FORMULA:
            files[(formula, per_formula[formula])] = ctx.replay_file(by_id.get(scid, {"id": scid}))
            rp = files[(formula, per_formula[formula])]
        else:
            rp = files[(formula, 1)]  # more of the same formula: point at the first scenario
        ctx.violation(formula, scid, rp, "trace line %d" % line, fingerprint=formula)
    return s, nlines, per_formula, monitor_counts(ctx)


def run(ctx):
    quick = ctx.quick
    cfg = "MCPatches_quick.cfg" if quick else "MCPatches_thorough.cfg"
    mc = ctx.model_check("MCPatches", cfg, workers=8 if quick else 16, timeout=120 if quick else 1500)
    emitted = ctx.sample_lines(mc["emitted_file"], mc["emitted"], mc["emitted"])   # every vector: the replay is exhaustive
    # TLC's workers emit in a varying order: number the vectors in a canonical order so that ids are stable across runs
    emitted = list(enumerate(sorted((v for _, v in emitted), key=lambda v: json.dumps(v, sort_keys=True)), 1))
    scs = [{"id": "%s-%07d" % (PID, i), "input": v} for i, v in emitted]
    rnd = random_vectors(ctx, emitted, 2000 if quick else 40000)
    reg = regression()
    s, nlines, per_formula, counts = drive_and_judge(ctx, reg + scs + rnd)
    ctx.cov.update(dict(
        states=mc["states"], transitions=mc["transitions"], traces_validated_against_impl=s["runs"],
        samples=s["samples"][:3], constants=dict(cfg=cfg, vectors=mc["emitted"]),
        scenarios_emitted=mc["emitted"], scenarios_replayed=s["scenarios"], random_vectors=len(rnd), regression_scenarios=len(reg),
        events=nlines, per_family_counts=s["counts"], real_outcomes=s["outcomes"], panics=(s.get("panics") or [])[:5],
        formula_antecedent_hits=counts, violations_per_formula=per_formula, drift=dict(unmatched_calls=0),
        monitor_formulas=MON_FORMULAS, exhaustive=True,
        checker_cmd="tlc MCPatches (M,G) -> harness/drivers/patches on /repo (T) -> tlc MonPatches",
        rule="one real double run per enumerated vector (value lattice x transforms / chains, patch types x paths x policies x merge "
             "options, render lists, metadata, PatchSets, PTComposer scenarios) + seeded random 3-chains; verdict by the documented-"
             "meaning operators of spec/Patches.tla",
    ))
    ctx.assumptions += ["simapi models the API server rules listed in spec/KubeAPI.tla (HalfRendered scenarios only)",
                        "the value lattice is bounded: arbitrary strings, formats, unicode and very large numbers are outside it",
                        "where the API documentation is silent (type mismatches, Go-specific renderings, hashes) only totality, "
                        "purity and determinism are asserted",
                        "verdict only from runs of the real composite package judged by MonPatches.tla"]


def replay(ctx, path):
    with open(path) as f:
        sc = json.load(f)
    s, nlines, per_formula, counts = drive_and_judge(ctx, [sc])
    ctx.cov.update(dict(states=1, transitions=1, traces_validated_against_impl=s["runs"], samples=s["samples"][:1], events=nlines,
                        violations_per_formula=per_formula))
