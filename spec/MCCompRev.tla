----------------------------- MODULE MCCompRev -----------------------------
EXTENDS CompRev, Json, IOUtils
\* c1 = spec s1; c2 = the same spec with the selector label (a label-only edit of c1); c3 = another spec;
\* c4 = spec s1 with an annotation (an annotation-only edit of c1)
CSeq2 == <<"c1", "c2">>
CSeq3 == <<"c1", "c2", "c3">>
CSeq4 == <<"c1", "c2", "c3", "c4">>
ShapeAll == [c \in {"c1", "c2", "c3", "c4"} |->
               CASE c = "c1" -> [spec |-> "s1", lab |-> "none", ann |-> "none"]
                 [] c = "c2" -> [spec |-> "s1", lab |-> "x", ann |-> "none"]
                 [] c = "c3" -> [spec |-> "s2", lab |-> "none", ann |-> "none"]
                 [] c = "c4" -> [spec |-> "s1", lab |-> "none", ann |-> "a"]]
Shape2 == [c \in {"c1", "c2"} |-> ShapeAll[c]]
Shape3 == [c \in {"c1", "c2", "c3"} |-> ShapeAll[c]]
Shape4 == ShapeAll
\* FALSE = /repo as written at the pinned commit, TRUE = /repo with latestRev computed over all listed
\* revisions.  Selected by checks/c12.py (one constant there) through the environment.
FixLatestSel == IF "VERIF_C12_FIXLATEST" \in DOMAIN IOEnv THEN IOEnv.VERIF_C12_FIXLATEST = "TRUE" ELSE FALSE
\* scenario emission: one line per transition that ends a reconcile or is an XR reconcile between two
\* reconciles of the revision controller (an XR reconcile in the middle of one is part of the history of
\* the transition that ends that reconcile)
Emit == ((pc # "idle" /\ pc' = "idle") \/ (pc = "idle" /\ hist' # hist /\ hist'[Len(hist')].k = "fetch"))
          => PrintT(<<"TRACE", ToJson(hist')>>)
=============================================================================
