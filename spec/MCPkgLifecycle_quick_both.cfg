SPECIFICATION Spec
CONSTANTS
  InitPkgs <- PkgBoth
  InitRevs <- RevsNone
  InitICs <- IcNone
  InitLock <- OnlyFalse
  ICs <- NoICs
  Img <- ImgR2Bad
  MaxMgr = 3
  MaxRev = 3
  MaxFaults = 0
  MaxEnv = 1
  MidEnv = FALSE
  EnvKinds <- EnvBoth
  Edits <- EditsAll
  FaultKinds <- NoFaults
  SeamOuts <- NoSeams
  FinFirst = TRUE
  FixRemoval = TRUE
  ManualInactive = TRUE
VIEW view
ACTION_CONSTRAINT Emit
CHECK_DEADLOCK FALSE
INVARIANTS DesiredStateDefined StepProps LockBeforeFin RepairedRev RepairedMgr HealthyTruth
