-------------------------- MODULE MonCompValidation --------------------------
(***************************************************************************)
(* Trace monitor for X05.  Every trace line is one input vector of         *)
(* MCCompValidation together with what the real code did with it           *)
(* (harness/drivers/compvalidation):                                       *)
(*   e.input           the vector                                          *)
(*   e.out.val.direct  library validator (logical validation on), on a     *)
(*                     long-lived instance;  .again the same instance      *)
(*                     again;  .fresh a fresh instance with fresh CRDs;    *)
(*                     .nolog WithoutLogicalValidation;  .logical the      *)
(*                     schema-less Composition.Validate() alone            *)
(*                     each {o: ok|panic, acc, n, errs, dg}                *)
(*   e.out.val.strict / .loose / .warn   the real webhook with every CRD   *)
(*                     present and that mode annotation                    *)
(*                     {o, allowed, code, nwarn, ...}                      *)
(*   e.out.hook / .hookup  (family mode) the webhook, CREATE / UPDATE,     *)
(*                     with the vector's annotation, feature flag and CRDs *)
(*   e.out.rt          per sample value of the source type: the real       *)
(*                     runtime's outcome {id, o: ok|error|panic,           *)
(*                     ek: none|notfound|type|value|other, sk / rk: JSON   *)
(*                     kind of the sample / of what landed at the          *)
(*                     destination, srcok: the sampled source conforms to  *)
(*                     its schema}                                         *)
(* A false formula prints VIOL|<name>|<line>|<scenario>; formulas whose     *)
(* subject the documentation is silent about print INFO|... instead and    *)
(* never fail the check; disagreements between the recorded real behaviour *)
(* and the REFERENCE transcriptions of CompValidation.tla print DRIFT|...  *)
(* (the model no longer describes the code: not an alarm).                 *)
(*                                                                         *)
(* Formulas (verdict)                                                      *)
(*  Total.Validator / Total.Webhook / Total.Logical / Total.Runtime        *)
(*      no panic, every request answered                                   *)
(*  Deterministic.Repeat / .Instance   same verdict, same errors on the    *)
(*      same long-lived instance and on a fresh one                        *)
(*  Sound.Applies   accepted (library or strict webhook) => no sample      *)
(*      value of the declared source type makes the real runtime fail with *)
(*      a type error.  The same formula in two cells has its own name:     *)
(*      Sound.ConvertFormatOnInteger (open finding D23) and                *)
(*      Sound.ConvertObjectInput (repaired in /repo, 67466d9: silent now,  *)
(*      fires again if the guard is lost) so that each can be a known      *)
(*      finding without hiding any other.                                  *)
(*  Sound.OptionalAbsent   accepted, policy Optional / unset, the source   *)
(*      path absent => the real Apply is a no-op without error             *)
(*  Path.FromInvalid / Path.ToInvalid / Path.Plain                          *)
(*      an invalid or unparsable source (destination) path is rejected -   *)
(*      on the schema of the right side; two plain valid paths of equal    *)
(*      (or unknown) type without transforms are accepted                  *)
(*  Mode.Agree.Strict / .Loose / .Warn  with every CRD present: strict and *)
(*      loose allow exactly what the library accepts, warn allows whatever *)
(*      is logically valid and warns exactly when the library rejects      *)
(*  Mode.Logical, Mode.BadAnnotation, Mode.LookupError, Mode.FeatureOff,   *)
(*  Mode.Strict.MissingCRD, Mode.Loose.MissingCRD, Mode.Warn.MissingCRD,   *)
(*  Mode.Strict.SchemaError, Mode.Loose.SchemaError, Mode.Warn.SchemaError,*)
(*  Mode.Valid, Mode.UpdateSameAsCreate     the mode table (family mode)   *)
(*  Readiness.PathInvalid / .TypeMismatch / .Accepts / .Sound              *)
(*      (.Sound: an accepted readiness check runs on a conforming composed *)
(*      resource without an error; .Sound.NoMatchCondition is the same     *)
(*      formula on the cell "type MatchCondition without matchCondition":  *)
(*      repaired in /repo, aae2ee2 - the schema-less Validate() rejects it *)
(*      now, so the cell is silent unless that check is lost)              *)
(*  ConnDetails.PathInvalid / .Accepts / .Sound                            *)
(* Formulas (information)                                                  *)
(*  Complete.ResultType[.ToDefaulted]  accepted although what the runtime  *)
(*      writes never has the destination's declared type                   *)
(*  Precise.<cell>  rejected although every sample applies and fits:       *)
(*      Wildcard, IntOrString, MathOnInteger, ArraySource, StringifiedInput *)
(*      Other                                                              *)
(*  Total.WithoutLogicalValidation  panic of the library when the caller   *)
(*      switched the logical validation off                                *)
(* Drift                                                                   *)
(*  Ref.Validator  real verdict = ValAccepts;  Ref.Flow  real runtime =    *)
(*  Run / TypeErr;  Ref.Conforms  the samples conform to the schema        *)
(***************************************************************************)
EXTENDS CompValidation, Json, IOUtils

Trace == ndJsonDeserialize(IOEnv.VERIF_TRACE)
VARIABLE l

Counters == <<"Total", "Deterministic", "Sound.accepted", "Sound.samples", "Sound.OptionalAbsent", "Path.FromInvalid", "Path.ToInvalid", "Path.Plain",
              "Mode.Agree", "Mode.Logical", "Mode.BadAnnotation", "Mode.LookupError", "Mode.FeatureOff", "Mode.Strict.MissingCRD", "Mode.Loose.MissingCRD",
              "Mode.Warn.MissingCRD", "Mode.Strict.SchemaError", "Mode.Loose.SchemaError", "Mode.Warn.SchemaError", "Mode.Valid",
              "Readiness.PathInvalid", "Readiness.TypeMismatch", "Readiness.Accepts", "Readiness.Sound", "ConnDetails.PathInvalid", "ConnDetails.Accepts",
              "ConnDetails.Sound", "Complete.ResultType", "Precise", "Ref.Validator", "Ref.Flow">>
Reg(name) == CHOOSE k \in DOMAIN Counters : Counters[k] = name
Hit(name) == TLCSet(Reg(name), TLCGet(Reg(name)) + 1)
Viol(name, i) == PrintT("VIOL|" \o name \o "|" \o ToString(i) \o "|" \o Trace[i].scenario)
Info(name, i) == PrintT("INFO|" \o name \o "|" \o ToString(i) \o "|" \o Trace[i].scenario)
Drift(name, i) == PrintT("DRIFT|" \o name \o "|" \o ToString(i) \o "|" \o Trace[i].scenario)

\* ---------------------------------------------------------------- common
Hooks(v) == {v.strict, v.loose, v.warn}
Answered(h) == h.o \in {"ok", "unsendable", "skipped"}
Same(a, b) == a.o = b.o /\ a.acc = b.acc /\ a.n = b.n /\ a.errs = b.errs /\ a.dg = b.dg
CheckCommon(e, i) ==
  LET v == e.out.val IN
  /\ Hit("Total")
  /\ ((v.direct.o = "ok" /\ v.again.o = "ok" /\ v.fresh.o = "ok") \/ Viol("Total.Validator", i))
  /\ (v.logical.o = "ok" \/ Viol("Total.Logical", i))
  /\ ((\A h \in Hooks(v) : Answered(h)) \/ Viol("Total.Webhook", i))
  /\ ((\A k \in DOMAIN e.out.rt : e.out.rt[k].o # "panic") \/ Viol("Total.Runtime", i))
  /\ (v.nolog.o = "ok" \/ Info("Total.WithoutLogicalValidation", i))
  /\ Hit("Deterministic")
  /\ (Same(v.direct, v.again) \/ Viol("Deterministic.Repeat", i))
  /\ (Same(v.direct, v.fresh) \/ Viol("Deterministic.Instance", i))
  \* the schema-less validation always runs, first: what it rejects, the library and the webhook reject in every mode
  /\ (v.logical.n > 0 => (Hit("Mode.Logical") /\ ((~v.direct.acc /\ \A h \in Hooks(v) : h.o = "ok" => ~h.allowed) \/ Viol("Mode.Logical", i))))

\* with every CRD present (families patch, ready, conn)
CheckAgree(e, i) ==
  LET v == e.out.val IN
  /\ Hit("Mode.Agree")
  /\ (v.strict.o = "ok" => ((v.strict.allowed = v.direct.acc /\ (v.direct.acc => v.strict.nwarn = 0)) \/ Viol("Mode.Agree.Strict", i)))
  /\ (v.loose.o = "ok" => ((v.loose.allowed = v.direct.acc /\ (v.direct.acc => v.loose.nwarn = 0)) \/ Viol("Mode.Agree.Loose", i)))
  /\ (v.warn.o = "ok" => ((v.warn.allowed = (v.logical.n = 0) /\ (v.logical.n = 0 => ((v.warn.nwarn > 0) = ~v.direct.acc))) \/ Viol("Mode.Agree.Warn", i)))

\* ----------------------------------------------------------------- patch
Samples(e) == {e.out.rt[k] : k \in DOMAIN e.out.rt}
Present(e) == {s \in Samples(e) : s.id # "absent"}
OptionalPol(in) == in.pol \in {"nil", "empty", "Optional"}
PreciseCell(in) ==
  IF DstClass(in) = "wild" THEN "Precise.Wildcard"
  ELSE IF DstClass(in) = "ios" \/ \E k \in SrcKeys(in) : SrcClass(in, k) = "ios" THEN "Precise.IntOrString"
  ELSE IF \E k \in DOMAIN in.chain : in.chain[k] \in MathT THEN "Precise.MathOnInteger"
  ELSE IF ~IsCombine(in) /\ SrcClass(in, in.from) = "array" THEN "Precise.ArraySource"
  ELSE IF \E k \in DOMAIN in.chain : in.chain[k] \in StrStrT THEN "Precise.StringifiedInput"
  ELSE "Precise.Other"
CheckPatch(e, i) ==
  LET in == e.input
      v == e.out.val
      lv == LogicallyValid(in)
      accepted == v.direct.acc \/ (v.strict.o = "ok" /\ v.strict.allowed)
      start == StartSet(in)
      dst == DstClass(in)
      \* the Go type a sample enters the chain with
      go(s) == IF IsCombine(in) THEN "string" ELSE GoOfKind(s.sk)
      typed == "any" \notin start
      okS == {s \in Present(e) : s.o = "ok"}
      srcsPlain == \A k \in SrcKeys(in) : PlainOrUnknown(SrcClass(in, k)) IN
  /\ CheckAgree(e, i)
  \* ---- drift: the transcriptions against the real code
  /\ (lv => (Hit("Ref.Validator") /\ (v.direct.acc = ValAccepts(in) \/ Drift("Ref.Validator", i))))
  /\ (lv = (v.logical.n = 0) \/ Drift("Ref.Logical", i))
  /\ ((srcsPlain /\ SrcVariant(in) \in {"typed", "twoversions"}) => ((\A s \in Samples(e) : s.srcok) \/ Drift("Ref.Conforms", i)))
  /\ ((typed /\ srcsPlain) =>
        (Hit("Ref.Flow") /\
         ((\A s \in Present(e) :
             LET te == TypeErr(in.chain, go(s)) IN
             /\ (te = "always" => s.o # "ok")
             /\ (te = "never" => s.ek # "type")
             /\ ((s.o = "ok" /\ s.rk # "none" /\ "any" \notin Run(in.chain, {go(s)}).outs) => s.rk \in UNION {KindsOfGo(g) : g \in Run(in.chain, {go(s)}).outs}))
          \/ Drift("Ref.Flow", i))))
  \* ---- soundness, on the real runtime
  /\ ((lv /\ accepted /\ typed /\ srcsPlain /\ ~Blind(in.chain)) =>
        (Hit("Sound.accepted") /\
         \* nothing is promised once a type is not known statically (after map / match: "we don't have a way to know the output type")
         \A s \in Present(e) : ~Run(in.chain, {go(s)}).unsure => (Hit("Sound.samples") /\ (s.ek # "type" \/ Viol("Sound." \o Cell(in.chain, go(s)), i)))))
  /\ ((lv /\ accepted /\ OptionalPol(in) /\ \E s \in Samples(e) : s.id = "absent") =>
        (Hit("Sound.OptionalAbsent") /\ ((\A s \in Samples(e) : s.id = "absent" => (s.o = "ok" /\ ~s.changed)) \/ Viol("Sound.OptionalAbsent", i))))
  \* ---- paths
  /\ ((lv /\ \E k \in SrcKeys(in) : SrcClass(in, k) \in {"invalid", "parse"}) => (Hit("Path.FromInvalid") /\ (~accepted \/ Viol("Path.FromInvalid", i))))
  /\ ((lv /\ in.to # "unset" /\ dst \in {"invalid", "parse"}) => (Hit("Path.ToInvalid") /\ (~accepted \/ Viol("Path.ToInvalid", i))))
  /\ ((lv /\ ~IsCombine(in) /\ in.chain = <<>> /\ PlainOrUnknown(SrcClass(in, in.from)) /\ (in.to = "unset" \/ PlainOrUnknown(dst))
          /\ (in.to = "unset" \/ "unknown" \in {SrcClass(in, in.from), dst} \/ SrcClass(in, in.from) = dst \/ (SrcClass(in, in.from) = "integer" /\ dst = "number")))
        => (Hit("Path.Plain") /\ (v.direct.acc \/ Viol("Path.Plain", i))))
  \* ---- information
  /\ ((lv /\ accepted /\ okS # {} /\ \A s \in okS : s.rk # "none" /\ ~KindFits(s.rk, dst)) =>
        (Hit("Complete.ResultType") /\ Info(IF in.to = "unset" THEN "Complete.ResultType.ToDefaulted" ELSE "Complete.ResultType", i)))
  /\ ((/\ lv /\ ~accepted /\ Present(e) # {}
       /\ dst \notin {"invalid", "parse", "empty", "nokey"}
       /\ \A k \in SrcKeys(in) : SrcClass(in, k) \notin {"invalid", "parse", "empty", "nokey"}
       /\ (IsCombine(in) => in.cstrat = "string")
       /\ ~(DstType(dst) = "integer" /\ "float64" \in Run(in.chain, start).outs)      \* a float64 fits an integer only when it is whole
       /\ \A s \in Present(e) : s.o = "ok" /\ s.rk # "none" /\ KindFits(s.rk, dst))
        => (Hit("Precise") /\ Info(PreciseCell(in), i)))

\* ------------------------------------------------------------------ mode
Missing(c) == c \in {"noxr", "nothing", "noother", "none"}
LookupFails(c) == c \in {"dupxr", "listerr"}
CheckMode(e, i) ==
  LET in == e.input
      h == e.out.hook
      L == in.body = "logicerr"
      S == in.body \in {"typeerr", "patherr"}
      known == in.mode \in {"unset", "strict", "loose", "warn"}
      lenient == in.mode \in {"unset", "loose", "warn"}
      F(name, cond, want) == cond => (Hit(name) /\ (want \/ Viol(name, i))) IN
  /\ ((h.o = "ok" /\ e.out.hookup.o = "ok") \/ Viol("Total.Webhook", i))
  /\ (e.out.hookup.allowed = h.allowed \/ Viol("Mode.UpdateSameAsCreate", i))
  /\ ((L = (e.out.val.logical.n > 0)) \/ Drift("Ref.Logical", i))
  /\ F("Mode.Logical", L, ~h.allowed)
  /\ F("Mode.FeatureOff", in.feat = "off" /\ ~L, h.allowed)
  /\ (in.feat = "on" /\ ~L =>
        /\ F("Mode.BadAnnotation", ~known, ~h.allowed)
        /\ F("Mode.LookupError", known /\ LookupFails(in.crds), ~h.allowed)
        /\ F("Mode.Strict.MissingCRD", in.mode = "strict" /\ Missing(in.crds), ~h.allowed)
        /\ F("Mode.Loose.MissingCRD", in.mode = "loose" /\ Missing(in.crds), h.allowed /\ h.nwarn > 0)
        /\ F("Mode.Warn.MissingCRD", in.mode \in {"warn", "unset"} /\ Missing(in.crds), h.allowed /\ h.nwarn > 0)
        /\ F("Mode.Strict.SchemaError", in.mode = "strict" /\ in.crds = "all" /\ S, ~h.allowed)
        /\ F("Mode.Loose.SchemaError", in.mode = "loose" /\ in.crds = "all" /\ S, ~h.allowed)
        /\ F("Mode.Warn.SchemaError", in.mode \in {"warn", "unset"} /\ in.crds = "all" /\ S, h.allowed /\ h.nwarn > 0)
        /\ F("Mode.Valid", known /\ in.crds = "all" /\ ~S, h.allowed /\ h.nwarn = 0))

\* ------------------------------------------------------------- readiness
\* validateReadinessChecks / validateConnectionDetail: "if schema == nil return nil" - without any schema for the version
\* nothing is looked at, not even metadata or whether the path parses
CdClass(variant, key) == IF variant \in {"noschema", "otherversion"} THEN "unknown" ELSE ClassAt("cd", variant, key)
CheckReady(e, i) ==
  LET in == e.input
      v == e.out.val
      lv == v.logical.n = 0
      set == in.path # "empty"
      class == CdClass(in.cds, in.path)
      want == ReadyWants(in.rtype) IN
  /\ CheckAgree(e, i)
  /\ (TypedClass("cd", in.path) \in PlainTypes => ((\A s \in Samples(e) : s.srcok) \/ Drift("Ref.Conforms", i)))
  /\ ((lv /\ set /\ class \in {"invalid", "parse"} /\ in.rtype \in ReadyTypes \ {"None", "MatchCondition"}) => (Hit("Readiness.PathInvalid") /\ (~v.direct.acc \/ Viol("Readiness.PathInvalid", i))))
  /\ ((lv /\ set /\ class \in PlainTypes /\ want # "" /\ want # class) => (Hit("Readiness.TypeMismatch") /\ (~v.direct.acc \/ Viol("Readiness.TypeMismatch", i))))
  /\ ((lv /\ (~set \/ (PlainOrUnknown(class) /\ (want = "" \/ class = "unknown" \/ want = class)))) => (Hit("Readiness.Accepts") /\ (v.direct.acc \/ Viol("Readiness.Accepts", i))))
  /\ ((lv /\ v.direct.acc /\ (~set \/ class \in PlainTypes)) => (Hit("Readiness.Sound") /\ ((\A s \in Samples(e) : s.o = "ok") \/
           \* the cell "type MatchCondition without a matchCondition" has its own name: before aae2ee2 the schema-less Validate()
           \* let it pass (MatchConditionReadinessCheck.Validate: nil is valid) while the runtime's ReadinessCheck.Validate() rejects
           \* it on every reconcile; since the repair lv is false on this cell and the formula is silent
           Viol(IF in.rtype = "MatchCondition" /\ in.mc = "nil" THEN "Readiness.Sound.NoMatchCondition" ELSE "Readiness.Sound", i))))
  /\ ((lv /\ ~v.direct.acc /\ set /\ class \in {"ios", "wild"} /\ Samples(e) # {} /\ \A s \in Samples(e) : s.o = "ok") => (Hit("Precise") /\ Info("Precise.IntOrString", i)))

\* ----------------------------------------------------- connection details
CheckConn(e, i) ==
  LET in == e.input
      v == e.out.val
      lv == v.logical.n = 0
      set == in.path # "unset"
      class == CdClass(in.cds, in.path) IN
  /\ CheckAgree(e, i)
  /\ (TypedClass("cd", in.path) \in PlainTypes => ((\A s \in Samples(e) : s.srcok) \/ Drift("Ref.Conforms", i)))
  /\ ((lv /\ set /\ class \in {"invalid", "parse"}) => (Hit("ConnDetails.PathInvalid") /\ (~v.direct.acc \/ Viol("ConnDetails.PathInvalid", i))))
  /\ ((lv /\ (~set \/ PlainOrUnknown(class) \/ class = "empty")) => (Hit("ConnDetails.Accepts") /\ (v.direct.acc \/ Viol("ConnDetails.Accepts", i))))
  /\ ((lv /\ v.direct.acc /\ set /\ class \in PlainTypes /\ in.ctype \in {"nil", "FromFieldPath"} /\ in.name = "set") =>
        (Hit("ConnDetails.Sound") /\ ((\A s \in Samples(e) : s.o = "ok" /\ s.nkeys = 1) \/ Viol("ConnDetails.Sound", i))))
  /\ ((lv /\ ~v.direct.acc /\ set /\ class \in {"ios", "wild"}) => (Hit("Precise") /\ Info("Precise.IntOrString", i)))

\* ------------------------------------------------------------------ all
Check(i) ==
  LET e == Trace[i] IN
  /\ CheckCommon(e, i)
  /\ (CASE e.fam = "patch" -> CheckPatch(e, i)
        [] e.fam = "mode" -> CheckMode(e, i)
        [] e.fam = "ready" -> CheckReady(e, i)
        [] e.fam = "conn" -> CheckConn(e, i)
        [] e.fam = "malformed" -> TRUE
        [] OTHER -> Viol("Harness.UnknownFamily", i))

PrintCounts == \A k \in DOMAIN Counters : PrintT("COUNT|" \o Counters[k] \o "|" \o ToString(TLCGet(k)))
Init == l = 0 /\ \A k \in DOMAIN Counters : TLCSet(k, 0)
Next == /\ l < Len(Trace) /\ l' = l + 1 /\ Check(l')
        /\ (l' < Len(Trace) \/ (PrintCounts /\ PrintT("DONE|" \o ToString(l'))))
Spec == Init /\ [][Next]_l
=============================================================================
