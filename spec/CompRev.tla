------------------------------ MODULE CompRev ------------------------------
(***************************************************************************)
(* The composition revision controller                                     *)
(* (internal/controller/apiextensions/composition/reconciler.go Reconcile, *)
(* revision.go NewCompositionRevision, apis/apiextensions/v1               *)
(* LatestRevision / Composition.Hash) and the XR side selection of a       *)
(* revision (internal/controller/apiextensions/composite/api.go            *)
(* APIRevisionFetcher.Fetch) as implemented at the pinned commit: one      *)
(* action per API call, the reconciler's local copies (the Composition it  *)
(* read, the revision list it read, latestRev computed WHERE THE CODE      *)
(* COMPUTES IT, existingRev) are explicit variables, and the environment   *)
(* (edits of the Composition incl. reverts and label/annotation-only       *)
(* edits, a backup/restore that strips the owner references of all         *)
(* revisions, XR reconciles under each update policy, faults and crashes   *)
(* at every call) is unconstrained.                                        *)
(*                                                                         *)
(* Interpretation of the property text (C12).  A "content" of a            *)
(* Composition is what Composition.Hash() covers: the triple (labels,      *)
(* annotations, spec) - see the comment of v1.LatestRevision ("We use a    *)
(* hash of the labels, the annotations, and the spec to decide to create a *)
(* new revision").  A label-only or annotation-only edit therefore moves   *)
(* the Composition to another content that shares its spec with the        *)
(* previous one.  The revision of a content is named                       *)
(* <composition>-<hash[:7]>, so a revision is identified here by the       *)
(* content it captures.  A revision carries the Composition's labels of    *)
(* that content (NewCompositionRevision copies them), which is what an     *)
(* XR's compositionRevisionSelector matches.                               *)
(***************************************************************************)
EXTENDS Integers, Sequences, FiniteSets, TLC

CONSTANTS
  CSeq,       \* content ids in the order in which a List returns their revisions (names sort by hash)
  Shape,      \* content id -> [spec, lab, ann]: the concrete shape of the content; lab is the value of
              \*   the selector label the Composition carries in that content ("none" = not labelled)
  InitC,      \* contents the Composition may have initially
  Sels,       \* revision selectors an XR may use ("none" = no selector)
  MaxEdits,   \* bound on edits of the Composition
  MaxStrips,  \* bound on backup/restore events
  MaxFaults,  \* bound on injected faults
  MaxRecs,    \* bound on reconciles of the revision controller
  MidEnv,     \* TRUE: edits / strips may also happen in the middle of a reconcile
  MidFetch,   \* TRUE: an XR may be reconciled in the middle of a reconcile of the revision controller
  FixLatest   \* FALSE = the code as written at the pinned commit (latestRev over the revisions the
              \*   Composition controls at List time); TRUE = candidate repair (over all listed revisions)

C == {CSeq[i] : i \in 1..Len(CSeq)}
None == "none"
Pols == {"Manual", "Automatic"}

VARIABLES
  comp,      \* content of the Composition object in the store
  revs,      \* content -> its CompositionRevision [ex, num, owned, dg, lab]
  xref,      \* spec.compositionRevisionRef of the XR (a content id, or None)
  pc,        \* program counter of the one reconcile in flight
  ccur,      \* content of the reconciler's copy of the Composition (read by GetComp): currentHash
  snap,      \* the reconciler's copies of the listed revisions (updated by its own Updates)
  latest,    \* latestRev
  existing,  \* existingRev
  todo,      \* remaining listed revisions of the loop
  stale,     \* revisions changed by the environment since List (the listed resourceVersion is outdated)
  edits, strips, faults, recs,
  quiet,     \* ghost: the environment did not touch the Composition or its revisions since the reconcile in flight (or last finished) started
  done,      \* ghost: the last reconcile completed without fault in a quiet environment
  fres,      \* ghost: what the last XR Fetch was asked and what it returned (hidden by VIEW)
  hist       \* ghost: the behaviour so far, as scenario steps (hidden by VIEW)

vars == <<comp, revs, xref, pc, ccur, snap, latest, existing, todo, stale, edits, strips, faults, recs, quiet, done, fres, hist>>
view == <<comp, revs, xref, pc, ccur, snap, latest, existing, todo, stale, edits, strips, faults, recs, quiet, done>>

NoRev == [ex |-> FALSE, num |-> 0, owned |-> FALSE, dg |-> None, lab |-> None]
ExSet(r) == {c \in C : r[c].ex}
Max(S) == IF S = {} THEN 0 ELSE CHOOSE m \in S : \A x \in S : x <= m
Idx(c) == CHOOSE i \in 1..Len(CSeq) : CSeq[i] = c
\* the revisions a List returns, in list order
Listed(r) == SelectSeq(CSeq, LAMBDA c : r[c].ex)
\* first element of S in list order
First(S) == CSeq[CHOOSE i \in 1..Len(CSeq) : CSeq[i] \in S /\ \A j \in 1..(i - 1) : CSeq[j] \notin S]

H(t, k, o, f) == [t |-> t, k |-> k, o |-> o, f |-> f]
Log(e) == hist' = Append(hist, e)
NoFetch == [pol |-> None, sel |-> None, pinned |-> None, got |-> None]

Init ==
  /\ comp \in InitC
  /\ revs = [c \in C |-> NoRev]
  /\ xref = None
  /\ pc = "idle" /\ ccur = comp /\ snap = revs /\ latest = 0 /\ existing = 0 /\ todo = <<>> /\ stale = {}
  /\ edits = 0 /\ strips = 0 /\ faults = 0 /\ recs = 0 /\ quiet = FALSE /\ done = FALSE
  /\ fres = NoFetch
  /\ hist = << [t |-> "init", comp |-> comp, cseq |-> CSeq, shape |-> Shape] >>

----------------------------------------------------------------------------
(* Environment.                                                            *)

RecUnch == UNCHANGED <<pc, ccur, snap, latest, existing, todo, faults, recs>>

\* a user edits the Composition: any other content, including an earlier one (A -> B -> A) and
\* contents that differ from the current one only in labels / annotations
Edit == /\ edits < MaxEdits
        /\ \E c \in C : c # comp /\ comp' = c /\ Log(H("env", "edit", c, ""))
        /\ edits' = edits + 1 /\ quiet' = FALSE /\ done' = FALSE
        /\ UNCHANGED <<revs, xref, stale, strips, fres>> /\ RecUnch

\* backup/restore: the owner references of all revisions are gone
Strip == /\ strips < MaxStrips
         /\ \E c \in C : revs[c].ex /\ revs[c].owned
         /\ revs' = [c \in C |-> [revs[c] EXCEPT !.owned = FALSE]]
         /\ stale' = (IF pc = "idle" THEN stale ELSE stale \cup {c \in C : revs[c].ex /\ revs[c].owned})
         /\ Log(H("env", "strip", "", ""))
         /\ strips' = strips + 1 /\ quiet' = FALSE /\ done' = FALSE
         /\ UNCHANGED <<comp, xref, edits, fres>> /\ RecUnch

\* APIRevisionFetcher.Fetch for an XR with update policy pol and revision selector sel that currently
\* references xref.  Manual with a reference: Get that revision.  Otherwise: Get the Composition, List the
\* revisions labelled for it (Automatic: restricted by the selector), take v1.LatestRevision (the first
\* one in list order among the highest-numbered revisions *controlled by the Composition*), and record it
\* in the XR.  The selection is made on one List, hence one atomic step.
Matches(r, pol, sel) == (pol = "Automatic" /\ sel # None) => r.lab = sel
Cand(pol, sel) == {c \in C : revs[c].ex /\ revs[c].owned /\ Matches(revs[c], pol, sel)}
Pick(S) == First({c \in S : revs[c].num = Max({revs[x].num : x \in S})})
Fetch == /\ (MidFetch \/ pc = "idle")
         /\ \E pol \in Pols, sel \in Sels :
              /\ Log(H("env", "fetch", pol, sel))
              /\ IF pol = "Manual" /\ xref # None
                 THEN /\ fres' = [pol |-> pol, sel |-> sel, pinned |-> xref, got |-> IF revs[xref].ex THEN xref ELSE "error"]
                      /\ UNCHANGED xref
                 ELSE IF Cand(pol, sel) = {}
                      THEN fres' = [pol |-> pol, sel |-> sel, pinned |-> xref, got |-> "error"] /\ UNCHANGED xref
                      ELSE /\ fres' = [pol |-> pol, sel |-> sel, pinned |-> xref, got |-> Pick(Cand(pol, sel))]
                           /\ xref' = Pick(Cand(pol, sel))
         /\ UNCHANGED <<comp, revs, stale, edits, strips, quiet, done>> /\ RecUnch

Env == ((MidEnv \/ pc = "idle") /\ (Edit \/ Strip)) \/ Fetch

----------------------------------------------------------------------------
(* The reconcile.  f = "ok" | "fail" (error / conflict / crash before: no  *)
(* effect, the reconcile ends) | "crashAfter" (effect, the reconcile ends) *)

CanFault == faults < MaxFaults
End == /\ pc' = "idle" /\ todo' = <<>> /\ recs' = recs + 1
Fail(k, o) == /\ CanFault /\ faults' = faults + 1 /\ Log(H("call", k, o, "fail")) /\ End
Ok(k, o) == Log(H("call", k, o, "ok")) /\ UNCHANGED faults
Crash(k, o) == /\ CanFault /\ faults' = faults + 1 /\ Log(H("call", k, o, "crashAfter")) /\ End

\* r.client.Get(comp); currentHash := comp.Hash()
GetComp == /\ pc = "idle" /\ recs < MaxRecs
           /\ \/ /\ Ok("get", "comp") /\ pc' = "list" /\ ccur' = comp /\ done' = FALSE /\ quiet' = TRUE
                 /\ UNCHANGED <<todo, recs>>
              \/ /\ Fail("get", "comp") /\ UNCHANGED <<ccur, done, quiet>>
           /\ UNCHANGED <<comp, revs, xref, snap, latest, existing, stale, edits, strips, fres>>

\* r.client.List(revisions labelled with the Composition's name); latestRev is computed HERE, from the
\* list as read, before any revision is re-adopted.
LatestOf(r) == IF FixLatest THEN Max({r[c].num : c \in ExSet(r)})
               ELSE Max({r[c].num : c \in {x \in ExSet(r) : r[x].owned}})
List == /\ pc = "list"
        /\ \/ /\ Ok("list", "rev") /\ snap' = revs /\ latest' = LatestOf(revs) /\ existing' = 0
              /\ todo' = Listed(revs) /\ stale' = {} /\ pc' = "loop" /\ UNCHANGED recs
           \/ /\ Fail("list", "rev") /\ UNCHANGED <<snap, latest, existing, stale>>
        /\ UNCHANGED <<comp, revs, xref, ccur, edits, strips, quiet, done, fres>>

\* the loop over the listed revisions: for the revision at the head of todo
NeedAdopt(c) == ~snap[c].owned
IsCur(c) == c = ccur                      \* its hash label equals currentHash
NeedRenum(c) == IsCur(c) /\ snap[c].num # latest

\* r.client.Update(rev) after meta.AddControllerReference: carries the listed resourceVersion.  A revision
\* that needs adoption was listed without a controller; only Strip changes revisions behind the
\* reconciler's back and it does not change uncontrolled ones, so this Update never meets a conflict.
Adopted(c) == [revs EXCEPT ![c] = [@ EXCEPT !.owned = TRUE]]
Adopt == /\ pc = "loop" /\ todo # <<>> /\ NeedAdopt(Head(todo))
         /\ LET c == Head(todo) IN
            \/ /\ Ok("adopt", c)
               /\ revs' = Adopted(c) /\ snap' = [snap EXCEPT ![c] = [@ EXCEPT !.owned = TRUE]]
               /\ UNCHANGED <<pc, todo, recs>>
            \/ /\ Fail("adopt", c) /\ UNCHANGED <<revs, snap>>
            \/ /\ Crash("adopt", c) /\ revs' = Adopted(c) /\ UNCHANGED snap
         /\ UNCHANGED <<comp, xref, ccur, latest, existing, stale, edits, strips, quiet, done, fres>>

\* rev.Spec.Revision = latestRev + 1; r.client.Update(rev)
Renumbered(c) == [revs EXCEPT ![c] = [@ EXCEPT !.num = latest + 1, !.owned = snap[c].owned]]
Renumber == /\ pc = "loop" /\ todo # <<>> /\ ~NeedAdopt(Head(todo)) /\ NeedRenum(Head(todo))
            /\ LET c == Head(todo) IN
               \/ /\ Ok("renumber", c)
                  /\ (IF c \in stale
                      THEN UNCHANGED <<revs, snap, existing>> /\ End       \* 409: Requeue
                      ELSE /\ revs' = Renumbered(c) /\ existing' = snap[c].num
                           /\ snap' = [snap EXCEPT ![c] = [@ EXCEPT !.num = latest + 1]]
                           /\ todo' = Tail(todo) /\ UNCHANGED <<pc, recs>>)
               \/ /\ Fail("renumber", c) /\ UNCHANGED <<revs, snap, existing>>
               \/ /\ Crash("renumber", c) /\ revs' = (IF c \in stale THEN revs ELSE Renumbered(c)) /\ UNCHANGED <<snap, existing>>
            /\ UNCHANGED <<comp, xref, ccur, latest, stale, edits, strips, quiet, done, fres>>

\* no call for this revision (not the current content, or current and already numbered latestRev)
Skip == /\ pc = "loop" /\ todo # <<>> /\ ~NeedAdopt(Head(todo)) /\ ~NeedRenum(Head(todo))
        /\ existing' = (IF IsCur(Head(todo)) THEN snap[Head(todo)].num ELSE existing)
        /\ todo' = Tail(todo)
        /\ UNCHANGED <<comp, revs, xref, pc, ccur, snap, latest, stale, edits, strips, faults, recs, quiet, done, fres, hist>>

\* existingRev > 0: "No new revision needed."
NoCreate == /\ pc = "loop" /\ todo = <<>> /\ existing > 0
            /\ End /\ done' = quiet
            /\ UNCHANGED <<comp, revs, xref, ccur, snap, latest, existing, stale, edits, strips, faults, quiet, fres, hist>>

\* r.client.Create(NewCompositionRevision(comp, latestRev+1)).  existingRev = 0 means no listed revision
\* carried currentHash; nothing else creates revisions, so the name is free (no AlreadyExists).
Created == [revs EXCEPT ![ccur] = [ex |-> TRUE, num |-> latest + 1, owned |-> TRUE, dg |-> ccur, lab |-> Shape[ccur].lab]]
Create == /\ pc = "loop" /\ todo = <<>> /\ existing = 0 /\ ~revs[ccur].ex
          /\ \/ /\ Ok("create", ccur) /\ revs' = Created /\ done' = quiet /\ End
             \/ /\ Fail("create", ccur) /\ UNCHANGED <<revs, done>>
             \/ /\ Crash("create", ccur) /\ revs' = Created /\ UNCHANGED done
          /\ UNCHANGED <<comp, xref, ccur, snap, latest, existing, stale, edits, strips, quiet, fres>>

Rec == GetComp \/ List \/ Adopt \/ Renumber \/ Skip \/ NoCreate \/ Create

Next == Env \/ Rec
Spec == Init /\ [][Next]_vars

----------------------------------------------------------------------------
(* C12 *)
\* exactly one revision per content: by construction of the name (a function of the content), so here:
\* the revision stored under a content's name captures that content
OnePerContent == \A c \in C : revs[c].ex => revs[c].dg = c
\* (the assumption behind Create having no AlreadyExists branch)
CreateFree == (pc = "loop" /\ todo = <<>> /\ existing = 0) => ~revs[ccur].ex
\* a revision's spec (digest) and labels never change after creation; only the number may
Faithful == [][\A c \in C : revs[c].ex => (revs'[c].ex /\ revs'[c].dg = revs[c].dg /\ revs'[c].lab = revs[c].lab)]_vars
\* revision numbers only grow
Monotone == [][\A c \in C : (revs[c].ex /\ revs'[c].ex) => revs'[c].num >= revs[c].num]_vars
\* after a reconcile (fault-free, quiet environment) the revision of the current content exists and has
\* strictly the highest number
CurrentHighest == (done /\ pc = "idle") =>
                    /\ revs[comp].ex
                    /\ \A c \in C \ {comp} : revs[c].ex => revs[c].num < revs[comp].num
\* the same two, asserted only of the repaired design (so that flipping FixLatest is the only change needed)
MonotoneIfFixed == [][FixLatest => \A c \in C : (revs[c].ex /\ revs'[c].ex) => revs'[c].num >= revs[c].num]_vars
CurrentHighestIfFixed == FixLatest => CurrentHighest
\* Manual: the pinned revision is returned (and stays pinned)
IsFetch == fres' # fres \/ (hist' # hist /\ hist'[Len(hist')].k = "fetch")
Manual == [][(IsFetch /\ fres'.pol = "Manual" /\ fres'.pinned # None) =>
               (fres'.got = fres'.pinned /\ xref' = xref)]_vars
\* Automatic: the highest-numbered revision controlled by the Composition that matches the selector
Automatic == [][(IsFetch /\ fres'.pol = "Automatic") =>
                  LET S == {c \in C : revs[c].ex /\ revs[c].owned /\ (fres'.sel # None => revs[c].lab = fres'.sel)} IN
                  IF S = {} THEN fres'.got = "error" /\ xref' = xref
                  ELSE /\ fres'.got \in S /\ \A c \in S : revs[c].num <= revs[fres'.got].num
                       /\ xref' = fres'.got]_vars
=============================================================================
