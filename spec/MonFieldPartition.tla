-------------------------- MODULE MonFieldPartition --------------------------
(***************************************************************************)
(* Trace monitor for C07.  Every trace line is one Sync of a REAL syncer   *)
(* (harness/drivers/fieldpartition): the claim and the XR as stored in the *)
(* simulated API server before (cm0, xr0) and after (cm1, xr1), as lists   *)
(* of leaf entries [p |-> <<keys...>>, v |-> value].  The formulas of      *)
(* FieldPartition.tla are evaluated on them.  A false formula prints a     *)
(* VIOL line; the monitor never stops early.  hits counts, per formula,    *)
(* the lines on which its antecedent was true (anti-vacuity evidence,      *)
(* printed as HITS|<formula>|<n> at the end).                              *)
(*                                                                         *)
(* Property text -> formulas                                               *)
(*  "propagates the claim's user-defined spec fields"  UserSpecPropagated  *)
(*  "composition selection fields"       SelectionPropagated,              *)
(*        RevisionToXR.OnlyIfManual (conditional field: direction only)    *)
(*  "non-Kubernetes-reserved labels and annotations to the XR"             *)
(*        LabelsAnnotations.Propagated, LabelsAnnotations.ReservedNotPropagated, *)
(*        ExternalNameToXR; LabelsAnnotations.Propagated.Lookalike for the *)
(*        unreserved keys that merely end in a reserved domain name (only  *)
(*        enumerated by MCFieldPartition_lookalike.cfg)                    *)
(*  "never copies claim-only machinery (resource reference, connection     *)
(*   secret settings, delete policy) into the XR"                          *)
(*        NoLeakToXR.ClaimOnly, NoLeakToXR.ConnSecret, NoLeakToXR.Other    *)
(*  "preserves what the XR side owns (composed resource references, the    *)
(*   XR's own connection secret reference, an existing external name)"     *)
(*        XRSidePreserved.ResourceRefs / .ConnSecret / .ExternalName, and  *)
(*        XRSidePreserved.Ownership (anchor "server-side apply with a      *)
(*        dedicated field owner only asserts claim-derived fields")        *)
(*  (binding: the XR records the claim)   ClaimRefSet                      *)
(*  "only the XR's user-defined status fields"  UserStatusToClaim,         *)
(*        NoLeakToClaim.OtherStatus, NoLeakToClaim.Spec,                   *)
(*        NoLeakToClaim.SpecSSA, NoLeakToClaim.Meta                        *)
(*  "its selected composition reference when the claim has none"           *)
(*        CompositionRefToClaim.OnlyIfNone                                 *)
(*  "its composition revision under the Automatic update policy"           *)
(*        RevisionToClaim.OnlyIfAutomatic                                  *)
(*  "and its external name reach the claim"     ExternalNameToClaim        *)
(*  "XR conditions and connection-detail bookkeeping are never copied into *)
(*   claim status"                              NoLeakToClaim.Status       *)
(***************************************************************************)
EXTENDS FieldPartition, TLC, Json, IOUtils

Trace == ndJsonDeserialize(IOEnv.VERIF_TRACE)
VARIABLES l, hits

Range(s) == {s[i] : i \in DOMAIN s}

Formulas == {"SyncSucceeds", "NoLeakToXR.ClaimOnly", "NoLeakToXR.ConnSecret", "NoLeakToXR.Other", "UserSpecPropagated",
             "SelectionPropagated", "RevisionToXR.OnlyIfManual", "LabelsAnnotations.Propagated",
             "LabelsAnnotations.ReservedNotPropagated", "ExternalNameToXR", "XRSidePreserved.ResourceRefs",
             "XRSidePreserved.ConnSecret", "XRSidePreserved.ExternalName", "XRSidePreserved.Ownership", "ClaimRefSet", "UserStatusToClaim",
             "NoLeakToClaim.Status", "NoLeakToClaim.OtherStatus", "NoLeakToClaim.Spec", "NoLeakToClaim.SpecSSA",
             "NoLeakToClaim.Meta", "CompositionRefToClaim.OnlyIfNone", "RevisionToClaim.OnlyIfAutomatic",
             "ExternalNameToClaim"}

Viol(name, i) == PrintT("VIOL|" \o name \o "|" \o ToString(i) \o "|" \o Trace[i].scenario)

Check(i) ==
  LET e  == Trace[i]
      C0 == Range(e.cm0)
      X0 == Range(e.xr0)
      C1 == Range(e.cm1)
      X1 == Range(e.xr1)
      ok == e.err = "none"
      sy == e.syncer
      id == e.id
  IN
  \* no fault is injected in these vectors: a sync that fails (e.g. on an apply conflict with another field manager that it
  \* does not force) fails again on every retry, and nothing the claim says reaches the XR any more
  \* (added after the seeded change C07-m10 - the claim's apply of the XR without ForceOwnership - was missed: the propagation
  \* formulas below speak about syncs that succeeded)
  /\ (ok \/ Viol("SyncSucceeds", i))
  /\ (NoLeakToXR_ClaimOnly(X1) \/ Viol("NoLeakToXR.ClaimOnly", i))
  /\ (NoLeakToXR_ConnSecret(X0, X1) \/ Viol("NoLeakToXR.ConnSecret", i))
  /\ (NoLeakToXR_Other(C0, X0, X1) \/ Viol("NoLeakToXR.Other", i))
  /\ (UserSpecPropagated(C0, X1, ok) \/ Viol("UserSpecPropagated", i))
  /\ (SelectionPropagated(C0, X1, ok) \/ Viol("SelectionPropagated", i))
  /\ (RevisionToXR_OnlyIfManual(C0, X0, X1) \/ Viol("RevisionToXR.OnlyIfManual", i))
  /\ (MetaPropagated(C0, X1, ok) \/ Viol("LabelsAnnotations.Propagated", i))
  /\ (MetaPropagated_Lookalike(C0, X1, ok) \/ Viol("LabelsAnnotations.Propagated.Lookalike", i))
  /\ (ReservedNotPropagated(X0, X1) \/ Viol("LabelsAnnotations.ReservedNotPropagated", i))
  /\ (ExternalNameToXR(C0, X0, X1, ok) \/ Viol("ExternalNameToXR", i))
  /\ (XRSide_ResourceRefs(X0, X1) \/ Viol("XRSidePreserved.ResourceRefs", i))
  /\ (XRSide_ConnSecret(X0, X1) \/ Viol("XRSidePreserved.ConnSecret", i))
  /\ (XRSide_ExternalName(X0, X1) \/ Viol("XRSidePreserved.ExternalName", i))
  /\ (XRSide_Ownership(Range(e.own1)) \/ Viol("XRSidePreserved.Ownership", i))
  /\ (ClaimRefSet(X1, id, ok) \/ Viol("ClaimRefSet", i))
  /\ (UserStatusToClaim(C0, X1, C1, sy, ok) \/ Viol("UserStatusToClaim", i))
  /\ (NoLeakToClaim_Status(C0, C1) \/ Viol("NoLeakToClaim.Status", i))
  /\ (NoLeakToClaim_OtherStatus(C0, X1, C1) \/ Viol("NoLeakToClaim.OtherStatus", i))
  /\ (NoLeakToClaim_Spec(C0, C1) \/ Viol("NoLeakToClaim.Spec", i))
  /\ (NoLeakToClaim_SpecSSA(C0, C1, sy) \/ Viol("NoLeakToClaim.SpecSSA", i))
  /\ (NoLeakToClaim_Meta(C0, X0, X1, C1) \/ Viol("NoLeakToClaim.Meta", i))
  /\ (CompositionRefToClaim_OnlyIfNone(C0, X0, X1, C1) \/ Viol("CompositionRefToClaim.OnlyIfNone", i))
  /\ (RevisionToClaim_OnlyIfAutomatic(C0, X0, X1, C1) \/ Viol("RevisionToClaim.OnlyIfAutomatic", i))
  /\ (ExternalNameToClaim(X1, C1, ok) \/ Viol("ExternalNameToClaim", i))

\* is the formula's antecedent true on line i, i.e. does the line exercise it (not vacuous)?
Hit(f, i) ==
  LET e  == Trace[i]
      C0 == Range(e.cm0)
      X0 == Range(e.xr0)
      C1 == Range(e.cm1)
      X1 == Range(e.xr1)
      ok == e.err = "none"
  IN
  CASE f = "SyncSucceeds"              -> TRUE
    [] f = "NoLeakToXR.ClaimOnly"      -> Under(C0, ClaimOnly) # {}
    [] f = "NoLeakToXR.ConnSecret"     -> Under(C0, ConnSettings) # {}
    [] f = "NoLeakToXR.Other"          -> SpecOf(X1) # {}
    [] f = "UserSpecPropagated"        -> ok /\ \E c \in SpecOf(C0) : UserSpecTop(Top(c.p)) /\ c \notin X0
    [] f = "SelectionPropagated"       -> ok /\ \E c \in Under(C0, Selection) : c \notin X0
    [] f = "RevisionToXR.OnlyIfManual" -> \E x \in Under(X1, {RevRef}) : x \notin X0
    [] f = "LabelsAnnotations.Propagated" -> ok /\ \E c \in MetaOf(C0) : ~Reserved(Key(c.p)) /\ c.p # ExtNamePath /\ c \notin X0
    [] f = "LabelsAnnotations.ReservedNotPropagated" -> \E c \in MetaOf(C0) : Reserved(Key(c.p))
    [] f = "ExternalNameToXR"          -> ok /\ Ext(X0) = "none" /\ Ext(C0) # "none"
    [] f = "XRSidePreserved.ResourceRefs" -> Under(X0, {"resourceRefs"}) # {}
    [] f = "XRSidePreserved.ConnSecret"   -> Under(X0, ConnSettings) # {} /\ Under(C0, ConnSettings) # {}
    [] f = "XRSidePreserved.ExternalName" -> Ext(X0) # "none" /\ Ext(C0) # "none" /\ Ext(C0) # Ext(X0)
    [] f = "XRSidePreserved.Ownership" -> e.own1 # <<>> /\ Under(X0, {"resourceRefs"} \cup ConnSettings) # {}
    [] f = "ClaimRefSet"               -> ok /\ Under(X0, {"claimRef"}) = {}
    [] f = "UserStatusToClaim"         -> ok /\ \E x \in StatusOf(X1) : UserStatusTop(Top(x.p)) /\ x \notin C0
                                             /\ (e.syncer = "ssa" \/ StatusOf(C0) # {})
    [] f = "NoLeakToClaim.Status"      -> \E x \in StatusOf(X1) : ~UserStatusTop(Top(x.p))
    [] f = "NoLeakToClaim.OtherStatus" -> StatusOf(C1) # {}
    [] f = "NoLeakToClaim.Spec"        -> Under(X1, XROnly \cup ConnSettings) # {}
    [] f = "NoLeakToClaim.SpecSSA"     -> e.syncer = "ssa" /\ \E x \in SpecOf(X1) : x \notin C0
    [] f = "NoLeakToClaim.Meta"        -> \E x \in MetaOf(X1) : x \notin C0
    [] f = "CompositionRefToClaim.OnlyIfNone" -> \E c \in Under(C1, {"compositionRef"}) : c \notin C0
    [] f = "RevisionToClaim.OnlyIfAutomatic"  -> \E c \in Under(C1, {RevRef}) : c \notin C0
    [] f = "ExternalNameToClaim"       -> ok /\ Ext(X1) # "none" /\ Ext(C0) # Ext(X1)

PrintHits(h) == \A f \in Formulas : PrintT("HITS|" \o f \o "|" \o ToString(h[f]))

Init == l = 0 /\ hits = [f \in Formulas |-> 0]
\* (both primed variables are assigned before Check is evaluated: TLC then evaluates the
\*  disjunctions of Check as a predicate, left to right, instead of enumerating their branches)
Next == /\ l < Len(Trace) /\ l' = l + 1
        /\ hits' = [f \in Formulas |-> hits[f] + (IF Hit(f, l + 1) THEN 1 ELSE 0)]
        /\ Check(l')
        /\ (l' < Len(Trace) \/ (PrintT("DONE|" \o ToString(l')) /\ PrintHits(hits')))
Spec == Init /\ [][Next]_<<l, hits>>
=============================================================================
