#!/usr/bin/env python3
"""Anti-vacuity self test of the C07 check (run by hand: python3 checks/c07_selftest.py).

1. sanity mutants of the real syncers, applied ONLY through `go build -overlay` on scratch copies
   (nothing is written to /repo): each must make MonFieldPartition report the expected formulas,
   and the unchanged tree must report none;
2. seeded corruption of one recorded field of a real trace: MonFieldPartition must reject that line.
Scratch: /verif/.work/C07/selftest."""
import concurrent.futures
import json
import os
import subprocess
import sys

sys.path.insert(0, os.path.dirname(os.path.dirname(os.path.abspath(__file__))))
import vlib  # noqa: E402
from checks import c07  # noqa: E402

CLAIM = "internal/controller/apiextensions/claim/"
PROPAGATE_LOOP = "\tfor _, field := range xcrd.PropagateSpecProps {\n\t\tdelete(wellKnownClaimFields, field)\n\t}\n"
MUTANTS = [
    # (name, file in /repo, old text, new text, formulas that must fire)
    ("ssa-claim-secret-ref-not-filtered", CLAIM + "syncer_ssa.go", PROPAGATE_LOOP,
     PROPAGATE_LOOP + "\tdelete(wellKnownClaimFields, \"writeConnectionSecretToRef\")\n",
     ["NoLeakToXR.ConnSecret", "NoLeakToXR.Other", "XRSidePreserved.ConnSecret"]),
    ("csa-resource-ref-not-filtered", CLAIM + "syncer_csa.go", PROPAGATE_LOOP,
     PROPAGATE_LOOP + "\tdelete(wellKnownClaimFields, \"resourceRef\")\n",
     ["NoLeakToXR.ClaimOnly", "NoLeakToXR.Other"]),
    ("csa-delete-policy-not-filtered", CLAIM + "syncer_csa.go", PROPAGATE_LOOP,
     PROPAGATE_LOOP + "\tdelete(wellKnownClaimFields, \"compositeDeletePolicy\")\n",
     ["NoLeakToXR.ClaimOnly"]),
    ("ssa-xr-status-machinery-copied", CLAIM + "syncer_ssa.go",
     "\tcm.Object[\"status\"] = withoutKeys(xrStatus, xcrd.GetPropFields(xcrd.CompositeResourceStatusProps())...)",
     "\tcm.Object[\"status\"] = withoutKeys(xrStatus)",
     ["NoLeakToClaim.Status", "NoLeakToClaim.OtherStatus"]),
    ("csa-xr-conditions-copied", CLAIM + "syncer_csa.go",
     "\t\twithSrcFilter(xcrd.GetPropFields(xcrd.CompositeResourceStatusProps())...)); err != nil {",
     "\t\twithSrcFilter(\"connectionDetails\", \"claimConditionTypes\")); err != nil {",
     ["NoLeakToClaim.Status"]),
    ("reserved-labels-propagated", CLAIM + "object.go",
     "\t\tif strings.HasSuffix(s[0], \"kubernetes.io\") || strings.HasSuffix(s[0], \"k8s.io\") {",
     "\t\tif strings.HasSuffix(s[0], \"k8s.io\") {",
     ["LabelsAnnotations.ReservedNotPropagated"]),
    ("ssa-revision-to-claim-under-any-policy", CLAIM + "syncer_ssa.go",
     "\tif p := xr.GetCompositionUpdatePolicy(); p != nil && *p == xpv1.UpdateAutomatic && xr.GetCompositionRevisionReference() != nil {",
     "\tif xr.GetCompositionRevisionReference() != nil {",
     ["RevisionToClaim.OnlyIfAutomatic"]),
    ("csa-revision-to-xr-under-any-policy", CLAIM + "syncer_csa.go",
     "\tif xr.GetCompositionUpdatePolicy() != nil && *xr.GetCompositionUpdatePolicy() == xpv1.UpdateManual {\n\t\tdelete(wellKnownClaimFields, xcrd.CompositionRevisionRef)\n\t}",
     "\tdelete(wellKnownClaimFields, xcrd.CompositionRevisionRef)",
     ["RevisionToXR.OnlyIfManual"]),
    ("ssa-external-name-not-restored", CLAIM + "syncer_ssa.go",
     "\tif en != \"\" {\n\t\tmeta.SetExternalName(xrPatch, en)\n\t}",
     "\t_ = en",
     ["XRSidePreserved.ExternalName"]),
    ("ssa-composition-ref-overwrites-claim", CLAIM + "syncer_ssa.go",
     "\tif ref := xr.GetCompositionReference(); ref != nil && cm.GetCompositionReference() == nil {",
     "\tif ref := xr.GetCompositionReference(); ref != nil {",
     ["CompositionRefToClaim.OnlyIfNone"]),
    ("csa-xr-machinery-merged-into-claim-spec", CLAIM + "syncer_csa.go",
     "\t\twithSrcFilter(xcrd.GetPropFields(wellKnownXRFields)...)); err != nil {",
     "\t\twithSrcFilter(\"claimRef\")); err != nil {",
     ["NoLeakToClaim.Spec"]),
    ("ssa-reasserts-composed-resource-refs", CLAIM + "syncer_ssa.go",
     "\txrPatch.SetClaimReference(cm.GetReference())\n",
     "\txrPatch.SetClaimReference(cm.GetReference())\n\tif rr := xr.GetResourceReferences(); len(rr) > 0 {\n\t\txrPatch.SetResourceReferences(rr)\n\t}\n",
     ["XRSidePreserved.Ownership"]),
    ("ssa-user-fields-dropped", CLAIM + "syncer_ssa.go",
     "\txrPatch.Object[\"spec\"] = withoutKeys(cmSpec, xcrd.GetPropFields(wellKnownClaimFields)...)",
     "\txrPatch.Object[\"spec\"] = withoutKeys(cmSpec, append(xcrd.GetPropFields(wellKnownClaimFields), \"u1\")...)",
     ["UserSpecPropagated"]),
    ("csa-selector-not-propagated", CLAIM + "syncer_csa.go",
     "\txr.Object[\"spec\"] = withoutKeys(cmSpec, xcrd.GetPropFields(wellKnownClaimFields)...)",
     "\txr.Object[\"spec\"] = withoutKeys(cmSpec, append(xcrd.GetPropFields(wellKnownClaimFields), \"compositionSelector\")...)",
     ["SelectionPropagated"]),
]


def build_mutant(ctx, name, rel, old, new):
    src = open(os.path.join("/repo", rel)).read()
    if src.count(old) != 1:
        raise SystemExit("mutant %s: anchor text occurs %d times in %s" % (name, src.count(old), rel))
    d = os.path.join(ctx.work, "mutants", name)
    os.makedirs(d, exist_ok=True)
    mp = os.path.join(d, os.path.basename(rel))
    with open(mp, "w") as f:
        f.write(src.replace(old, new))
    ov = os.path.join(d, "overlay.json")
    with open(ov, "w") as f:
        json.dump({"Replace": {os.path.join("/repo", rel): mp}}, f)
    out = os.path.join(d, "fieldpartition")
    e = dict(os.environ)
    e.update(vlib.GOENV)
    p = subprocess.run(["go", "build", "-overlay", ov, "-o", out, "./drivers/fieldpartition"], cwd=vlib.HARNESS, env=e,
                       stdout=subprocess.PIPE, stderr=subprocess.STDOUT, text=True)
    if p.returncode != 0:
        raise SystemExit("mutant %s does not build:\n%s" % (name, p.stdout[-3000:]))
    return out


def judge(ctx, binp, paths, tag):
    prefix = os.path.join(ctx.work, "trace_%s.ndjson" % tag)

    def one(i):
        ctx.run([binp, "-scenarios", paths[i], "-trace", "%s.s%02d" % (prefix, i),
                 "-summary", os.path.join(ctx.work, "sum_%s_%02d.json" % (tag, i))])

    with concurrent.futures.ThreadPoolExecutor(max_workers=len(paths)) as ex:
        list(ex.map(one, range(len(paths))))
    viols, _ = ctx.monitor("MonFieldPartition", prefix, heap="4g", par=6)
    by = {}
    for f, _, _ in viols:
        by[f] = by.get(f, 0) + 1
    return by, prefix


def main():
    only = set(sys.argv[1:])
    ctx = vlib.Ctx("C07/selftest", "quick", 1)
    mc = ctx.model_check("MCFieldPartition", "MCFieldPartition_quick.cfg", workers=8, timeout=300, env={"VERIF_SEED": "1"})
    paths, n = c07.write_shards(ctx, mc["emitted_file"], 6)
    ok = True
    base, prefix = judge(ctx, ctx.go_build("./drivers/fieldpartition"), paths, "base")
    print("unchanged tree (%d vectors): %s" % (n, base))
    ok &= not base
    for name, rel, old, new, expect in MUTANTS:
        if only and name not in only:
            continue
        got, _ = judge(ctx, build_mutant(ctx, name, rel, old, new), paths, name)
        hit = all(got.get(f, 0) > base.get(f, 0) for f in expect)
        ok &= hit
        print("mutant %-42s %s  fired: %s" % (name, "DETECTED" if hit else "MISSED (expected %s)" % expect, got), flush=True)
    # seeded corruption of recorded fields of a real trace
    lines = open(prefix + ".s00").read().splitlines()
    has = lambda es, p: any(x["p"][:len(p)] == p for x in es)  # noqa: E731
    corruptions = [
        ("composed resource reference dropped from the XR after Sync",
         lambda e: has(e["xr0"], ["spec", "resourceRefs"]),
         lambda e: e.update(xr1=[x for x in e["xr1"] if x["p"] != ["spec", "resourceRefs", "1", "name"]]),
         "XRSidePreserved.ResourceRefs"),
        ("claim resourceRef appears in the XR spec",
         lambda e: True,
         lambda e: e["xr1"].append({"p": ["spec", "resourceRef", "name"], "v": "cm-xr"}),
         "NoLeakToXR.ClaimOnly"),
        ("XR condition reason appears in the claim status",
         lambda e: has(e["xr1"], ["status", "conditions"]),
         lambda e: e["cm1"].append({"p": ["status", "conditions", "1", "reason"], "v": "x-custom"}),
         "NoLeakToClaim.Status"),
        ("reserved claim label appears on the XR",
         lambda e: has(e["cm0"], ["metadata", "labels", "k8s.io/x"]),
         lambda e: e["xr1"].append({"p": ["metadata", "labels", "k8s.io/x"], "v": "c-k8s"}),
         "LabelsAnnotations.ReservedNotPropagated"),
        ("user spec field value changed on the way to the XR",
         lambda e: has(e["cm0"], ["spec", "u1", "claimRef"]) and e["err"] == "none",
         lambda e: [x.update(v="other") for x in e["xr1"] if x["p"] == ["spec", "u1", "claimRef"]],
         "UserSpecPropagated"),
    ]
    for what, pick, mutate, formula in corruptions:
        idx = next(i for i, ln in enumerate(lines) if pick(json.loads(ln)))
        e = json.loads(lines[idx])
        mutate(e)
        cp = os.path.join(ctx.work, "corrupt.ndjson")
        with open(cp, "w") as f:
            f.write("\n".join(lines[:idx] + [json.dumps(e)] + lines[idx + 1:]) + "\n")
        viols, _ = ctx.monitor("MonFieldPartition", cp, heap="4g")
        hit = any(f == formula and ln == idx + 1 for f, ln, _ in viols)
        ok &= hit
        print("corruption %-62s line %d: %s" % (what, idx + 1, "REJECTED by " + formula if hit else "NOT NOTICED"))
    print("selftest", "PASSED" if ok else "FAILED")
    return 0 if ok else 1


if __name__ == "__main__":
    sys.exit(main())
