SPECIFICATION Spec
CONSTANTS
  Tier = "quick"
  Fams = {"transform", "patch", "render"}
ACTION_CONSTRAINT Emit
CHECK_DEADLOCK FALSE
INVARIANTS RefTotal OptionalXorRequired
