-------------------------- MODULE MonUsageLifecycle --------------------------
(***************************************************************************)
(* Trace monitor for UsageLifecycle (X10): evaluates the properties P1..P9 *)
(* of UsageLifecycle.tla on every recorded state / step of executions of   *)
(* the real Usage reconciler (reconciler.go + selector.go, wrapped in      *)
(* WithSilentRequeueOnConflict) and the real DELETE webhook (handler.go    *)
(* behind the rules / objectSelector / sideEffects of usage.yaml).         *)
(* Fully logged trace, linear search.  Record fields:                      *)
(*   ev       reset | probe | call | end | env | delreq |                  *)
(*            replaywait | replay                                          *)
(*   actor/rec the Usage being reconciled and the number of the reconcile  *)
(*            (for replaywait / replay: the reconcile that started the     *)
(*            deferred Delete; src = "none" when none could be found)      *)
(*   abs/kind/verb/outcome/injected/applied/noop : the call                *)
(*   seen     the Usage as this reconcile's first Get returned it          *)
(*   listedOf/listedBy  the objects of the kind that existed when this     *)
(*            reconcile listed them: name, match (carries the selector's   *)
(*            labels), ctl (uid of its controller)                         *)
(*   ugot/bgot the used / using resource as this reconcile's Get found it  *)
(*   nlisted  how many Usages the deletion branch's List returned          *)
(*   fails    the calls of this reconcile that did not answer ok           *)
(*   okcalls  the calls of this reconcile that did                         *)
(*   evs      the events recorded in this reconcile ("Type:Reason")        *)
(*   req      a DELETE as asked (kind, u, pol, dry, wf = webhook client    *)
(*            fault) and as answered (o, via, code, cls, the in-use        *)
(*            message taken apart: n, who, how, hkind, hname, hreason;     *)
(*            ann = the attempt annotation afterwards)                     *)
(*   rw       replaywait: did a deferred Delete reach the gate, with which *)
(*            policy; replay: the Delete as issued                         *)
(*   post     projection of the store after the step                       *)
(* A false formula prints VIOL|name|line|scenario; the monitor goes on.    *)
(***************************************************************************)
EXTENDS Integers, Sequences, FiniteSets, TLC, Json, IOUtils

Trace == ndJsonDeserialize(IOEnv.VERIF_TRACE)
VARIABLE l
Range(s) == {s[i] : i \in DOMAIN s}
PollMs == 60000
WaitMs == 30000

Us(e) == Range(e.post.us)
Used(e) == Range(e.post.used)
Ids(e) == {x.id : x \in Us(e)}
UsageOf(e, id) == CHOOSE x \in Us(e) : x.id = id
UsedOf(e, id) == CHOOSE y \in Used(e) : y.id = id
UsedIds(e) == {y.id : y \in Used(e)}
IsCall(e) == e.ev = "call"
Wrote(e) == IsCall(e) /\ e.applied /\ ~e.noop
\* a step of the controller's reconcile (not of the environment, not a DELETE being served)
ByCtl(e) == e.ev \in {"call", "end", "replaywait"}
SawLive(e) == e.seen.got /\ e.seen.ex
SawDel(e) == SawLive(e) /\ e.seen.del
Ok(e, a) == a \in Range(e.okcalls)
HasEv(e, x) == x \in Range(e.evs)
Want(p) == IF p = "none" THEN "Background" ELSE p
Same(x, y) == x.id = y.id /\ x.ex /\ y.ex /\ x.uid = y.uid      \* the same object before and after

\* ------------------------------------------------------------------ P1 selectors
\* the controller never changes a name once set, nor anything else that belongs to the user
Sticky(p, e) == ByCtl(e) => \A x \in Us(p), y \in Us(e) : Same(x, y) =>
                  /\ (x.of # "none" => y.of = x.of)
                  /\ (x.by # "none" => y.by = x.by)
UserFieldsKept(p, e) == ByCtl(e) => \A x \in Us(p), y \in Us(e) : Same(x, y) => (y.rest = x.rest /\ y.del = x.del)
\* a reconcile writes no Usage but its own, creates none, and removes its own only by releasing the finalizer
OnlyOwn(p, e) == ByCtl(e) => \A x \in Us(p), y \in Us(e) : (x.id = y.id /\ x # y) => (x.id = e.actor /\ x.ex)
Cand(k, mode, ctl) == k.match /\ (mode = "selctl" => (k.ctl # "none" /\ k.ctl = ctl))
Resolved(p, e, f) == {y \in Us(e) : \E x \in Us(p) : Same(x, y) /\ x[f] = "none" /\ y[f] # "none"}
MatchesOf(p, e) == ByCtl(e) => \A y \in Resolved(p, e, "of") :
                     \E k \in Range(e.listedOf) : k.name = y.of /\ Cand(k, e.seen.ofsel, e.seen.ctl)
MatchesBy(p, e) == ByCtl(e) => \A y \in Resolved(p, e, "by") :
                     \E k \in Range(e.listedBy) : k.name = y.by /\ Cand(k, e.seen.bysel, e.seen.ctl)
FirstIn(seq, name, mode, ctl) == \E i \in DOMAIN seq : seq[i].name = name /\ \A j \in 1..(i - 1) : ~Cand(seq[j], mode, ctl)
FirstOf(p, e) == ByCtl(e) => \A y \in Resolved(p, e, "of") : FirstIn(e.listedOf, y.of, e.seen.ofsel, e.seen.ctl)
FirstBy(p, e) == ByCtl(e) => \A y \in Resolved(p, e, "by") : FirstIn(e.listedBy, y.by, e.seen.bysel, e.seen.ctl)
\* a selector is resolved only while the name is empty
SelectOnce(e) == /\ ((IsCall(e) /\ e.abs = "list:used") => (SawLive(e) /\ e.seen.of = "none"))
                 /\ ((IsCall(e) /\ e.abs = "list:using") => (SawLive(e) /\ e.seen.byset /\ e.seen.by = "none"))
OnlyReads(e) == \A c \in Range(e.okcalls) : c \in {"get:usage", "list:used", "list:using", "get:used", "get:using", "list:usages"}
NoCandOf(e) == Ok(e, "list:used") /\ ~\E k \in Range(e.listedOf) : Cand(k, e.seen.ofsel, e.seen.ctl)
NoCandBy(e) == Ok(e, "list:using") /\ ~\E k \in Range(e.listedBy) : Cand(k, e.seen.bysel, e.seen.ctl)
NoCandidate(e) == (e.ev = "end" /\ e.result # "crashed" /\ (NoCandOf(e) \/ (NoCandBy(e) /\ ~Ok(e, "list:used")))) =>
                    (e.result = "error" /\ HasEv(e, "Warning:ResolveSelectors") /\ OnlyReads(e))

\* ------------------------------------------------------------------ P2 owner reference
Owners(x) == Range(x.owners)
OwnerAdded(p, e) == ByCtl(e) => \A x \in Us(p), y \in Us(e) : Same(x, y) =>
                      \A o \in Owners(y) \ Owners(x) :
                        /\ y.byset /\ y.by # "none" /\ e.bgot.got /\ e.bgot.ex
                        /\ o.uid = e.bgot.uid /\ o.name = y.by /\ o.kind = y.bykind /\ o.api = y.byapi /\ ~o.ctl
OwnerKept(p, e) == ByCtl(e) => \A x \in Us(p), y \in Us(e) : Same(x, y) => Owners(x) \subseteq Owners(y)
BecameReady(p, e) == {y \in Us(e) : y.ex /\ y.ready = "True:Available" /\ ~\E x \in Us(p) : Same(x, y) /\ x.ready = "True:Available"}
ReadyOwned(p, e) == ByCtl(e) => \A y \in BecameReady(p, e) : y.byset =>
                      (e.bgot.got /\ e.bgot.ex /\ \E o \in Owners(y) : o.uid = e.bgot.uid)

\* ------------------------------------------------------------------ P3 the used resource
\* the reconciler writes nothing to a used resource but the in-use label, deletes none (the deferred Delete is its own event)
UsedOnlyLabel(p, e) == ByCtl(e) => \A x \in Used(p), y \in Used(e) : x.id = y.id =>
                         /\ (x.ex = y.ex) /\ x.uid = y.uid /\ x.rest = y.rest /\ x.ann = y.ann /\ x.sel = y.sel /\ x.ctl = y.ctl /\ x.del = y.del
                         /\ (y.rawlab \in {"none", "true"} \/ y.rawlab = x.rawlab)
LabelChanged(p, e) == {y.id : y \in {z \in Used(e) : \E x \in Used(p) : x.id = z.id /\ x.rawlab # z.rawlab}}
NamedOf(p, e) == {x.of : x \in {z \in Us(p) \cup Us(e) : z.id = e.actor /\ z.ex}}
UsedOnlyNamed(p, e) == ByCtl(e) => LabelChanged(p, e) \subseteq NamedOf(p, e)
Labelled(p, e) == {y.id : y \in {z \in Used(e) : z.ex /\ z.lab /\ \E x \in Used(p) : x.id = z.id /\ x.ex /\ ~x.lab}}
FinalizerBeforeLabel(p, e) == (ByCtl(e) /\ Labelled(p, e) # {}) => \E x \in Us(p) : x.id = e.actor /\ x.ex /\ x.fin
\* our finalizer only ever leaves a Usage that is being deleted
FinalizerKept(p, e) == ByCtl(e) => \A x \in Us(p) : (x.ex /\ x.fin /\ ~x.del) => \E y \in Us(e) : Same(x, y) /\ y.fin

\* ------------------------------------------------------------------ P4 replay
Waiting(e) == HasEv(e, "Normal:WaitingUsingDeleted")
\* the reconcile got as far as the point where the deferred Delete is started
SpawnReached(e) == /\ e.src = "rec" /\ SawDel(e) /\ e.ugot.got /\ e.ugot.ex /\ ~Waiting(e)
                   /\ \A f \in Range(e.fails) : f.abs = "update:rmfin"
                   /\ Ok(e, "list:usages") /\ (e.nlisted < 2 => Ok(e, "update:unlabel"))
Arrived(e) == e.ev \in {"replaywait", "replay"} /\ e.rw.arrived
ReplayHappens(e) == (e.ev = "replaywait" /\ SpawnReached(e) /\ e.seen.replay /\ e.ugot.ann # "none") => e.rw.arrived
ReplayOnlyIfAsked(e) == Arrived(e) => (e.src = "rec" /\ SawLive(e) /\ e.seen.replay)
ReplayOnlyIfAttempted(e) == Arrived(e) => (e.ugot.got /\ e.ugot.ex /\ e.ugot.ann # "none")
ReplayPolicy(e) == (Arrived(e) /\ e.ugot.got /\ e.ugot.ann # "none") => e.rw.pol = e.ugot.ann
ReplayAfterUnlabel(e) == Arrived(e) => SpawnReached(e)
ReplayTarget(e) == (e.ev = "replay" /\ e.src = "rec") => e.name = e.ugot.name
ReplayOnce(e) == e.replays <= 1
NamedBy(p, id) == {x \in Us(p) : x.ex /\ x.of = id}
\* nothing names the resource any more: the replayed Delete goes through and the resource goes
ReplayAdmitted(p, e) == (e.ev = "replay" /\ e.name \in UsedIds(p) /\ UsedOf(p, e.name).ex /\ NamedBy(p, e.name) = {}) =>
                          (e.req.o = "allow" /\ ~UsedOf(e, e.name).ex)

\* ------------------------------------------------------------------ P5 deletion
MustWait(e) == SawDel(e) /\ e.seen.comp /\ e.seen.by # "none" /\ e.bgot.got /\ e.bgot.ex
WaitNoCall(e) == (IsCall(e) /\ MustWait(e)) => e.abs \in {"get:usage", "get:using"}
WaitExit(e) == (e.ev = "end" /\ e.result # "crashed" /\ MustWait(e)) =>
                 (e.result = "ok" /\ ~e.requeue /\ e.after = WaitMs /\ Waiting(e))
DeleteCalls(e) == (IsCall(e) /\ SawDel(e) /\ e.seen.of # "none" /\ (e.seen.byset => e.seen.by # "none")) =>
                    e.abs \in {"get:usage", "get:using", "get:used", "list:usages", "update:unlabel", "update:rmfin"}
DeletePlain(e) == (IsCall(e) /\ SawDel(e) /\ e.abs = "get:using") => (e.seen.comp /\ e.seen.by # "none")
LostFinalizer(p, e) == {x \in Us(p) : x.ex /\ x.fin /\ ~\E y \in Us(e) : Same(x, y) /\ y.fin}
DeleteOrder(p, e) == (ByCtl(e) /\ LostFinalizer(p, e) # {}) =>
                       /\ SawDel(e) /\ e.ugot.got
                       /\ (e.ugot.ex => (Ok(e, "list:usages") /\ (e.nlisted < 2 => Ok(e, "update:unlabel"))))
                       /\ ((e.seen.comp /\ e.seen.by # "none") => (e.bgot.got /\ ~e.bgot.ex))

\* ------------------------------------------------------------------ P6 exits
\* failures the code is entitled to ignore
Ignorable(e, f) == \/ f.abs = "get:usage" /\ f.outcome = "notfound"
                   \/ SawDel(e) /\ f.outcome = "notfound" /\ f.abs \in {"get:using", "get:used", "update:rmfin"}
RealFails(e) == SelectSeq(e.fails, LAMBDA f : ~Ignorable(e, f))
LastFail(e) == RealFails(e)[Len(RealFails(e))]
Ended(e) == e.ev = "end" /\ e.result # "crashed"
NoStatusAfterFailure(e) == (IsCall(e) /\ e.abs = "status:usage") => \A f \in Range(e.fails) : f.abs = "status:usage"
ReadyOnlyAvailable(e) == \A x \in Us(e) : x.ex => (x.ready \in {"none", "True:Available"} /\ x.conds <= 1)
ReadyNeeds(p, e) == ByCtl(e) => \A y \in BecameReady(p, e) :
                      /\ e.abs = "status:usage" /\ y.id = e.actor /\ Ok(e, "get:used") /\ Ok(e, "update:label") /\ e.ugot.ex
                      /\ (y.byset => Ok(e, "get:using"))
ReadyEvent(e) == (IsCall(e) /\ e.abs = "status:usage") => HasEv(e, "Normal:UsageConfigured")
ExitError(e) == (Ended(e) /\ RealFails(e) # <<>> /\ LastFail(e).outcome # "conflict") => e.result = "error"
ExitConflict(e) == (Ended(e) /\ RealFails(e) # <<>> /\ LastFail(e).outcome = "conflict") => (e.result = "ok" /\ e.requeue /\ e.after = 0)
EventOf(a) ==
  CASE a \in {"list:used", "list:using", "update:resolve-of", "update:resolve-by"} -> "Warning:ResolveSelectors"
    [] a = "get:used" -> "Warning:GetUsedResource"
    [] a = "get:using" -> "Warning:GetUsingResource"
    [] a = "list:usages" -> "Warning:ListUsages"
    [] a = "update:addfin" -> "Warning:AddFinalizer"
    [] a = "update:details" -> "Warning:AddDetailsToUsage"
    [] a = "update:label" -> "Warning:AddInUseLabel"
    [] a = "update:unlabel" -> "Warning:RemoveInUseLabel"
    [] a = "update:own" -> "Warning:AddOwnerRefToUsage"
    [] a = "update:rmfin" -> "Warning:RemoveFinalizer"
    [] OTHER -> "?"
ExitEvent(e) == (Ended(e) /\ RealFails(e) # <<>> /\ LastFail(e).outcome # "conflict" /\ LastFail(e).abs \notin {"get:usage", "status:usage"}) =>
                  HasEv(e, EventOf(LastFail(e).abs))
RequeueGone(e) == (Ended(e) /\ e.seen.got /\ ~e.seen.ex) => (e.result = "ok" /\ ~e.requeue /\ e.after = 0)
RequeuePoll(e) == (Ended(e) /\ e.result = "ok" /\ SawLive(e) /\ ~e.seen.del /\ e.fails = <<>>) => (~e.requeue /\ e.after = PollMs)
RequeueDeleted(e) == (Ended(e) /\ e.result = "ok" /\ SawDel(e) /\ RealFails(e) = <<>> /\ ~Waiting(e)) => (~e.requeue /\ e.after = 0)
\* a reconcile that returned without error and made no progress to its end ran into a Conflict (or waits)
ExitSilent(e) == (Ended(e) /\ e.result = "ok" /\ e.requeue) => (RealFails(e) # <<>> /\ LastFail(e).outcome = "conflict")

\* ------------------------------------------------------------------ P7 fixed point
Quiescent(e) == (e.ev = "end" /\ e.clean /\ e.prevClean /\ e.startDigest = e.prevDigest) => e.post.digest = e.startDigest

\* ------------------------------------------------------------------ P8 repair
Details(x) == IF x.reason # "none" THEN x.reason
              ELSE IF x.byset THEN x.bykind \o "/" \o x.by \o " uses " \o x.ofkind \o "/" \o x.of
              ELSE "undefined"
DetChanged(p, e) == {y \in Us(e) : y.ex /\ \E x \in Us(p) : Same(x, y) /\ x.det # y.det}
DetailsValue(p, e) == ByCtl(e) => \A y \in DetChanged(p, e) : y.det = Details(y)
Clean(e) == e.ev = "end" /\ e.clean /\ e.result # "crashed" /\ e.actor \in Ids(e)
Me(e) == UsageOf(e, e.actor)
\* after a clean deletion reconcile the Usage is gone - or legitimately waiting for its using resource
SettledDeleted(e) == (Clean(e) /\ SawDel(e) /\ Me(e).ex /\ Me(e).uid = e.seen.uid) =>
                       (Me(e).comp /\ Me(e).by # "none" /\ e.post.b.ex /\ e.after = WaitMs)
SettledUnlabelled(e) == (Clean(e) /\ SawDel(e) /\ ~Me(e).ex /\ e.seen.of \in UsedIds(e)) =>
                          (NamedBy(e, e.seen.of) = {} => ~(UsedOf(e, e.seen.of).ex /\ UsedOf(e, e.seen.of).lab))
SettledReady(e) ==
  (Clean(e) /\ SawLive(e) /\ ~e.seen.del /\ e.result = "ok" /\ ~e.requeue) =>
     LET x == Me(e) IN
     /\ x.ex /\ x.fin /\ x.of \in UsedIds(e) /\ x.det = Details(x) /\ x.ready = "True:Available"
     /\ UsedOf(e, x.of).ex /\ UsedOf(e, x.of).lab
     /\ (x.byset => (x.by # "none" /\ e.post.b.ex /\ \E o \in Owners(x) : o.uid = e.post.b.uid /\ ~o.ctl))
     /\ (~x.byset => Owners(x) = {o \in Owners(x) : o.ctl})
CandNow(e, x, f) == IF f = "of" THEN \E y \in Used(e) : y.ex /\ y.sel /\ (x.ofsel = "selctl" => (y.ctl # "none" /\ y.ctl = x.ctl))
                    ELSE e.post.b.ex /\ e.post.b.sel /\ (x.bysel = "selctl" => (e.post.b.ctl # "none" /\ e.post.b.ctl = x.ctl))
SettledReason(e) ==
  (Clean(e) /\ SawLive(e) /\ ~e.seen.del /\ e.result = "error" /\ Me(e).ex) =>
     LET x == Me(e) IN
     \/ x.of = "none" /\ ~CandNow(e, x, "of")
     \/ x.of \in UsedIds(e) /\ ~UsedOf(e, x.of).ex
     \/ x.byset /\ x.by = "none" /\ ~CandNow(e, x, "by")
     \/ x.by # "none" /\ ~e.post.b.ex

\* ------------------------------------------------------------------ P9 webhook
IsReq(e) == e.ev \in {"delreq", "replay"}
Target(p, e) == UsedOf(p, e.req.u)
Consulted(p, e) == IsReq(e) /\ e.req.u \in UsedIds(p) /\ Target(p, e).ex /\ Target(p, e).lab
InUse(p, e) == Consulted(p, e) /\ NamedBy(p, e.req.u) # {}
\* the objectSelector keeps the webhook away from everything that does not carry the label
Scope(p, e) == (e.ev \in {"env", "delreq", "replay"} /\ e.req.via = "webhook") => Consulted(p, e)
Reached(p, e) == Consulted(p, e) => e.req.via = "webhook"
Deny(p, e) == InUse(p, e) => (e.req.o = "deny" /\ UsedOf(e, e.req.u).ex)
FailClosed(p, e) == (Consulted(p, e) /\ e.req.wf = "list") => (e.req.o = "deny" /\ e.post.digest = p.post.digest)
Cited(p, e) == {x \in NamedBy(p, e.req.u) : x.id = e.req.who}
Message(p, e) == (InUse(p, e) /\ e.req.wf = "none") =>
                   /\ e.req.cls = "inuse" /\ e.req.code = 409 /\ e.req.n = Cardinality(NamedBy(p, e.req.u))
                   /\ \E x \in Cited(p, e) :      \* the using resource if the Usage names one, else its reason, else neither
                        \/ e.req.how = "by" /\ x.by # "none" /\ e.req.hkind = x.bykind /\ e.req.hname = x.by
                        \/ e.req.how = "reason" /\ x.by = "none" /\ x.reason # "none" /\ e.req.hreason = x.reason
                        \/ e.req.how = "plain" /\ x.by = "none" /\ x.reason = "none"
Recorded(p, e) == (InUse(p, e) /\ e.req.wf = "none" /\ ~e.req.dry) => e.req.ann = Want(e.req.pol)
Allow(p, e) == (IsReq(e) /\ e.req.u \in UsedIds(p) /\ Target(p, e).ex /\
                (~Target(p, e).lab \/ (NamedBy(p, e.req.u) = {} /\ e.req.wf # "list"))) =>
                 (e.req.o = "allow" /\ (UsedOf(e, e.req.u).ex = e.req.dry))
\* the webhook (and the API server on its behalf) changes nothing but the attempt annotation of the object asked about
OnlyAnnotation(p, e) == IsReq(e) =>
                          /\ e.post.us = p.post.us /\ e.post.b = p.post.b
                          /\ \A x \in Used(p), y \in Used(e) : x.id = y.id =>
                               IF x.id = e.req.u
                               THEN (y.ex => (x.rest = y.rest /\ x.rawlab = y.rawlab /\ x.uid = y.uid /\ x.sel = y.sel /\ x.ctl = y.ctl))
                               ELSE x = y
\* usage.yaml: sideEffects None - a dry-run request changes nothing (D36, fixed by 1dd9b46)
DryRunNoEffect(p, e) == (IsReq(e) /\ e.req.dry) => e.post.digest = p.post.digest
NonDelete(e) == e.ev = "probe" => (e.req.o = "deny" /\ e.req.code = 400)

Viol(name, i) == PrintT("VIOL|" \o name \o "|" \o ToString(i) \o "|" \o Trace[i].scenario)
Check(i) ==
  LET e == Trace[i] IN
  /\ (SelectOnce(e) \/ Viol("Select.Once", i))
  /\ (NoCandidate(e) \/ Viol("Select.NoCandidate", i))
  /\ (ReplayHappens(e) \/ Viol("Replay.Happens", i))
  /\ (ReplayOnlyIfAsked(e) \/ Viol("Replay.OnlyIfAsked", i))
  /\ (ReplayOnlyIfAttempted(e) \/ Viol("Replay.OnlyIfAttempted", i))
  /\ (ReplayPolicy(e) \/ Viol("Replay.Policy", i))
  /\ (ReplayAfterUnlabel(e) \/ Viol("Replay.AfterUnlabel", i))
  /\ (ReplayTarget(e) \/ Viol("Replay.Target", i))
  /\ (ReplayOnce(e) \/ Viol("Replay.Once", i))
  /\ (WaitNoCall(e) \/ Viol("Wait.NoCall", i))
  /\ (WaitExit(e) \/ Viol("Wait.Exit", i))
  /\ (DeleteCalls(e) \/ Viol("Delete.Calls", i))
  /\ (DeletePlain(e) \/ Viol("Delete.Plain", i))
  /\ (NoStatusAfterFailure(e) \/ Viol("Exit.NoStatusAfterFailure", i))
  /\ (ReadyOnlyAvailable(e) \/ Viol("Ready.OnlyAvailable", i))
  /\ (ReadyEvent(e) \/ Viol("Ready.Event", i))
  /\ (ExitError(e) \/ Viol("Exit.Error", i))
  /\ (ExitConflict(e) \/ Viol("Exit.Conflict", i))
  /\ (ExitEvent(e) \/ Viol("Exit.Event", i))
  /\ (ExitSilent(e) \/ Viol("Exit.Silent", i))
  /\ (RequeueGone(e) \/ Viol("Requeue.Gone", i))
  /\ (RequeuePoll(e) \/ Viol("Requeue.Poll", i))
  /\ (RequeueDeleted(e) \/ Viol("Requeue.Deleted", i))
  /\ (Quiescent(e) \/ Viol("Quiescent", i))
  /\ (SettledDeleted(e) \/ Viol("Settled.Deleted", i))
  /\ (SettledUnlabelled(e) \/ Viol("Settled.Unlabelled", i))
  /\ (SettledReady(e) \/ Viol("Settled.Ready", i))
  /\ (SettledReason(e) \/ Viol("Settled.Reason", i))
  /\ (NonDelete(e) \/ Viol("Webhook.NonDelete", i))
  /\ (e.ev = "reset" \/ i = 1 \/
        LET p == Trace[i - 1] IN
        /\ (Sticky(p, e) \/ Viol("Select.Sticky", i))
        /\ (UserFieldsKept(p, e) \/ Viol("Spec.UserFieldsKept", i))
        /\ (OnlyOwn(p, e) \/ Viol("Spec.OnlyOwn", i))
        /\ (MatchesOf(p, e) \/ Viol("Select.Matches.Of", i))
        /\ (MatchesBy(p, e) \/ Viol("Select.Matches.By", i))
        /\ (FirstOf(p, e) \/ Viol("Select.First.Of", i))
        /\ (FirstBy(p, e) \/ Viol("Select.First.By", i))
        /\ (OwnerAdded(p, e) \/ Viol("Owner.Added", i))
        /\ (OwnerKept(p, e) \/ Viol("Owner.Kept", i))
        /\ (ReadyOwned(p, e) \/ Viol("Ready.Owned", i))
        /\ (ReadyNeeds(p, e) \/ Viol("Ready.Needs", i))
        /\ (UsedOnlyLabel(p, e) \/ Viol("Used.OnlyLabel", i))
        /\ (UsedOnlyNamed(p, e) \/ Viol("Used.OnlyNamed", i))
        /\ (FinalizerBeforeLabel(p, e) \/ Viol("Finalizer.BeforeLabel", i))
        /\ (FinalizerKept(p, e) \/ Viol("Finalizer.Kept", i))
        /\ (DeleteOrder(p, e) \/ Viol("Delete.Order", i))
        /\ (DetailsValue(p, e) \/ Viol("Details.Value", i))
        /\ (ReplayAdmitted(p, e) \/ Viol("Replay.Admitted", i))
        /\ (Scope(p, e) \/ Viol("Webhook.Scope", i))
        /\ (Reached(p, e) \/ Viol("Webhook.Reached", i))
        /\ (Deny(p, e) \/ Viol("Webhook.Deny", i))
        /\ (FailClosed(p, e) \/ Viol("Webhook.FailClosed", i))
        /\ (Message(p, e) \/ IF e.req.cls = "panic" THEN Viol("Webhook.Deny.Panic", i) ELSE Viol("Webhook.Message", i))
        /\ (Recorded(p, e) \/ IF e.req.cls = "panic" THEN Viol("Webhook.Recorded.Panic", i) ELSE Viol("Webhook.Recorded", i))
        /\ (Allow(p, e) \/ Viol("Webhook.Allow", i))
        /\ (OnlyAnnotation(p, e) \/ Viol("Webhook.OnlyAnnotation", i))
        /\ (DryRunNoEffect(p, e) \/ Viol("DryRun.NoEffect", i)))

Init == l = 0
Next == /\ l < Len(Trace) /\ l' = l + 1 /\ Check(l')
        /\ (l' < Len(Trace) \/ PrintT("DONE|" \o ToString(l')))
Spec == Init /\ [][Next]_l
=============================================================================
