SPECIFICATION Spec
CONSTANTS
  Kind = "provider"
  Starts <- StartsAll
  Certs <- BoolBoth
  Tmpls <- TmplAll
  Drc0 <- DrcAll
  EnvKinds <- EnvSeq
  Interf <- InterfAll
  MaxEdits = 2
  MaxFaults = 1
  MaxRecs = 3
  MaxNest = 0
  MidEnv = FALSE
  GuardInactive = TRUE
  GuardHealth = TRUE
  OwnDelete = FALSE
  CacheMiss = TRUE
VIEW view
ACTION_CONSTRAINT Emit
CHECK_DEADLOCK FALSE
PROPERTIES InactiveNeverCreates Owned Order HealthTruth
