SPECIFICATION Spec
CONSTANTS
  DSeq <- DSeq3
  Tags = {"t1", "t2"}
  Limits <- LimitsNil1
  MaxEdits = 3
  MaxFaults = 1
  MaxRecs = 3
  WithFin = TRUE
  ForeignAct = FALSE
  Foreign = {}
  FixGC = TRUE
  MidEnv = TRUE
  Legacy = FALSE
  InitReg <- Reg2
VIEW view
ACTION_CONSTRAINT Emit
CHECK_DEADLOCK FALSE
INVARIANTS OneActive GcSafe
PROPERTIES ActivateLast
