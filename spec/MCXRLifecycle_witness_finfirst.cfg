SPECIFICATION Spec
CONSTANTS
  Comps <- Comps2
  Attr <- AttrAll
  InitComps <- InitAll
  InitRefs <- NoneOnly
  InitSels <- SelsBoth
  InitDefs <- NoneOnly
  InitEnfs <- NoneOnly
  InitUser <- OnlyFalse
  InitOFin <- OnlyFalse
  MaxRecs = 1
  MaxFaults = 1
  MaxEnv = 0
  MidEnv = TRUE
  EnvKinds <- NoEnv
  FaultKinds <- NoFaults
  ComposeOuts <- OutsOk
  FinFirst = FALSE
  RvCheck = TRUE
VIEW view
ACTION_CONSTRAINT Emit
CHECK_DEADLOCK FALSE
INVARIANTS FinBeforeCompose
