SPECIFICATION Spec
CONSTANTS
  MaxRecs = 3
  MaxFaults = 2
  LockStates <- AllLocks
VIEW view
ACTION_CONSTRAINT Emit
CHECK_DEADLOCK FALSE
PROPERTIES LockBeforeFin
