------------------------------ MODULE MonInit ------------------------------
(***************************************************************************)
(* Trace monitor for Init (C20).  Every line of the trace is the projected *)
(* abstract state of a real execution of the Crossplane initializer after  *)
(* a store change ("write"), at the end of a run ("end") or initially      *)
(* ("reset"); P is the projection, D the digest of the whole store         *)
(* content, d the digest of one object's content (everything but the       *)
(* fields the API server maintains), chain/dns/cab are facts computed with *)
(* crypto/x509 by the driver.  The formulas below are the C20 clauses:     *)
(*                                                                         *)
(*  Idempotent.Rerun       a run without injected fault that follows a run *)
(*                         without injected fault leaves the store content *)
(*                         byte-identical (run n = run 1 for n = 2, 3; also*)
(*                         for the fixpoint after "aborted run + rerun").  *)
(*                         Dx = digest of all objects but the packages, Dp *)
(*                         = digest of the package objects                 *)
(*  Idempotent.AbortRerun  aborted run(s) followed by a completed run end  *)
(*                         in the abstract state in which one undisturbed  *)
(*                         run from the same contents ends (ref, observed  *)
(*                         on the real code as well)                       *)
(*  KeepCA                 a complete CA is never changed                  *)
(*  KeepCerts              a TLS secret that has any material is never     *)
(*                         changed                                         *)
(*  Chain.*                a TLS secret that changes becomes complete, its *)
(*                         certificate verifies against the CA certificate *)
(*                         in the store, covers the configured DNS names,  *)
(*                         and its ca.crt is that CA certificate           *)
(*  NoDupPkg.*             see below                                       *)
(*  Untouched              a default object that exists is never changed   *)
(*  Bundle.*               after a completed run the CRD with webhook      *)
(*                         conversion and both webhook configurations      *)
(*                         exist and carry tls.crt of the TLS server secret*)
(*  Conf.Final (drift, not a violation): the first undisturbed run ends in *)
(*                         the state Init.tla predicts                     *)
(***************************************************************************)
EXTENDS Integers, Sequences, FiniteSets, TLC, Json, IOUtils

Trace == ndJsonDeserialize(IOEnv.VERIF_TRACE)
VARIABLE l
NoFaults(c) == {}
M == INSTANCE Init WITH Cfgs <- {}, FixD7 <- FALSE, MaxRuns <- 3, MaxFaults <- 0, FaultAt <- NoFaults,
       cfg <- l, st <- l, loc <- l, pc <- l, run <- l, res <- l, nf <- l, inj <- l, everInj <- l, prev <- l, hist <- l
Range(s) == {s[i] : i \in DOMAIN s}

Leaves == {"srv", "cli", "ess"}
Defaults == {"lock", "sc", "drc"}
IsEnd(e) == e.ev = "end"
Done(e) == e.ev = "end" /\ e.result = "ok"

\* ---- step formulas: p = previous recorded state of the same scenario, e = this one
KeepCA(p, e) == p.P.ca.s = "complete" => e.P.ca = p.P.ca
KeepCerts(p, e) == \A x \in Leaves : p.P[x].s \notin {"absent", "empty"} => (e.P[x].d = p.P[x].d /\ e.P[x].s = p.P[x].s)
Changed(p, e, x) == e.P[x].d # p.P[x].d
ChainComplete(p, e) == \A x \in Leaves : Changed(p, e, x) => e.P[x].s = "complete"
ChainVerifies(p, e) == \A x \in Leaves : Changed(p, e, x) => e.P[x].chain
ChainNames(p, e)    == \A x \in Leaves : Changed(p, e, x) => e.P[x].dns
ChainCaCrt(p, e)    == \A x \in Leaves : Changed(p, e, x) => e.P[x].cab
Untouched(p, e) == \A x \in Defaults : p.P[x].p => (e.P[x].p /\ e.P[x].d = p.P[x].d)

\* ---- state formulas
BundleCRD(e) == Done(e) => (e.P.crdA.p /\ e.P.crdA.cur)
BundleWebhook(e) == Done(e) => (e.P.val.p /\ e.P.val.cur /\ e.P.mut.p /\ e.P.mut.cur)
\* NoDupPkg.  "Image repository" = registry host + repository as written in the
\* reference.  The scenario's input (e.in) says what was installed before (inst:
\* under the default name the initializer itself would choose, or under a custom
\* name) and what is requested (req: repository r1 with/without host, tag or
\* digest; optionally also r2).
\*   SameRepoTwice    no two package objects of one kind share a repository
\*   Installed        after a completed run every requested package is there
\*                    with the requested version
\*   LandsOnExisting  a requested package whose repository is already
\*                    installed ends on that object (same name) with the
\*                    requested version, and on no other object
\*   HostCustomName.* everything about the package objects in the situation of
\*                    DESIGN.md section 4, D7 (HostCustom below): the reference
\*                    has a registry host and its repository path is installed
\*                    under a custom object name, for the same host or without
\*                    host.  buildPack looks the reference up without its host
\*                    in a map keyed with the host: with the same host the
\*                    lookup misses (.Lands, .Dup: second installation); without
\*                    host it hits the host-less package, rewrites it to the
\*                    reference, and from the next run on misses it (.Rerun: run
\*                    2 installs a second time, .Dup, .AbortRerun).  In these
\*                    scenarios the package part of Idempotent.* and of
\*                    SameRepoTwice (for the requested repository only) is
\*                    reported under this name and not a second time; everything
\*                    else is judged as in every other scenario.
ObjName(n) == CASE n = "def" -> "acme-provider-one" [] n = "custom" -> "my-package" [] n = "def2" -> "acme-provider-two" [] OTHER -> n
AbsName(n) == CASE n = "acme-provider-one" -> "def" [] n = "my-package" -> "custom" [] n = "acme-provider-two" -> "def2" [] OTHER -> n
Pk(e) == Range(e.P.pkgs)
SameKey(in) == in.inst.n # "none" /\ in.inst.h = in.req.h
HostCustom(in) == in.req.h # "" /\ in.inst.n = "custom" /\ in.inst.h \in {in.req.h, ""}
ReqKey(e, o) == o.k = e.in.kind /\ o.h = e.in.req.h /\ o.r = "r1"
Lands(e) ==
  /\ \E o \in Pk(e) : ReqKey(e, o) /\ o.n = ObjName(e.in.inst.n) /\ o.v = e.in.req.v
  /\ \A o \in Pk(e) : ReqKey(e, o) => o.n = ObjName(e.in.inst.n)
LandsOnExisting(e) == (Done(e) /\ SameKey(e.in) /\ ~HostCustom(e.in)) => Lands(e)
SameRepoTwice(e) ==
  IsEnd(e) => \A i, j \in DOMAIN e.P.pkgs :
    LET a == e.P.pkgs[i] b == e.P.pkgs[j] IN
    (i < j /\ a.k = b.k /\ a.h = b.h /\ a.r = b.r) => (HostCustom(e.in) /\ ReqKey(e, a))
Installed(e) == Done(e) => \A i \in DOMAIN M!Reqs(e.in) :
                  LET q == M!Reqs(e.in)[i] IN \E o \in Pk(e) : o.k = q.k /\ o.h = q.h /\ o.r = q.r /\ o.v = q.v

CleanRerun(e) == IsEnd(e) /\ e.inj = "none" /\ e.prevClean
Rerun(e) == CleanRerun(e) => (e.P.Dx = e.prevDx /\ (HostCustom(e.in) \/ e.P.Dp = e.prevDp))

AbsLeaf(x) == [s |-> x.s, crt |-> x.crt, chain |-> x.chain, dns |-> x.dns, cab |-> x.cab]
AbsPkgs(P) == {[k |-> o.k, n |-> o.n, h |-> o.h, r |-> o.r, v |-> o.v] : o \in Range(P.pkgs)}
AbsP(P) == [ca |-> P.ca.s, srv |-> AbsLeaf(P.srv), cli |-> AbsLeaf(P.cli), ess |-> AbsLeaf(P.ess),
            crdA |-> [p |-> P.crdA.p, cur |-> P.crdA.cur], crdB |-> [p |-> P.crdB.p, st |-> P.crdB.st],
            val |-> [p |-> P.val.p, cur |-> P.val.cur], mut |-> [p |-> P.mut.p, cur |-> P.mut.cur],
            lock |-> P.lock, sc |-> P.sc, drc |-> P.drc]
AfterAbort(e) == Done(e) /\ e.inj = "none" /\ e.aborted
AbortRerun(e) == AfterAbort(e) => (AbsP(e.P) = AbsP(e.ref) /\ (HostCustom(e.in) \/ AbsPkgs(e.P) = AbsPkgs(e.ref)))

HCLands(e) == (Done(e) /\ HostCustom(e.in) /\ SameKey(e.in)) => Lands(e)
HCDup(e)   == (IsEnd(e) /\ HostCustom(e.in)) => \A i, j \in DOMAIN e.P.pkgs :
                 (i < j /\ ReqKey(e, e.P.pkgs[i])) => ~ReqKey(e, e.P.pkgs[j])
HCRerun(e) == (CleanRerun(e) /\ HostCustom(e.in)) => e.P.Dp = e.prevDp
HCAbortRerun(e) == (AfterAbort(e) /\ HostCustom(e.in)) => AbsPkgs(e.P) = AbsPkgs(e.ref)

\* ---- conformance with the model (drift only)
ModelAbs(s) == LET a == M!AbsStore(s) IN
  [ca |-> a.ca, srv |-> a.srv, cli |-> a.cli, ess |-> a.ess, crdA |-> a.crdA, crdB |-> a.crdB, val |-> a.val, mut |-> a.mut,
   lock |-> a.lock # "absent", sc |-> a.sc # "absent", drc |-> a.drc # "absent", pkgs |-> a.pkgs]
TraceLeaf(x) == [s |-> x.s, chain |-> x.chain, cab |-> x.cab]
TraceAbs(P) ==
  [ca |-> P.ca.s, srv |-> TraceLeaf(P.srv), cli |-> TraceLeaf(P.cli), ess |-> TraceLeaf(P.ess),
   crdA |-> [p |-> P.crdA.p, cur |-> P.crdA.cur], crdB |-> [p |-> P.crdB.p, st |-> P.crdB.st],
   val |-> [p |-> P.val.p, cur |-> P.val.cur], mut |-> [p |-> P.mut.p, cur |-> P.mut.cur],
   lock |-> P.lock.p, sc |-> P.sc.p, drc |-> P.drc.p,
   pkgs |-> {[k |-> o.k, n |-> AbsName(o.n), h |-> o.h, r |-> o.r, v |-> o.v] : o \in Range(P.pkgs)}]
Predicted(fix, e) == LET r == M!RunOnce(fix, e.in, M!InitStore(e.in)) IN
                     (r.ok <=> e.result = "ok") /\ ModelAbs(r.s) = TraceAbs(e.P)
ConfFinal(e) == (IsEnd(e) /\ e.run = 1 /\ e.inj = "none") => (Predicted(FALSE, e) \/ Predicted(TRUE, e))
ConfInit(e) == e.ev = "reset" => ModelAbs(M!InitStore(e.in)) = TraceAbs(e.P)

Viol(name, i) == PrintT("VIOL|" \o name \o "|" \o ToString(i) \o "|" \o Trace[i].scenario)
Check(i) ==
  LET e == Trace[i] IN
  /\ (BundleCRD(e) \/ Viol("Bundle.CRD", i))
  /\ (BundleWebhook(e) \/ Viol("Bundle.Webhook", i))
  /\ (Rerun(e) \/ Viol("Idempotent.Rerun", i))
  /\ (AbortRerun(e) \/ Viol("Idempotent.AbortRerun", i))
  /\ (HCLands(e) \/ Viol("NoDupPkg.HostCustomName.Lands", i))
  /\ (HCDup(e) \/ Viol("NoDupPkg.HostCustomName.Dup", i))
  /\ (HCRerun(e) \/ Viol("NoDupPkg.HostCustomName.Rerun", i))
  /\ (HCAbortRerun(e) \/ Viol("NoDupPkg.HostCustomName.AbortRerun", i))
  /\ (LandsOnExisting(e) \/ Viol("NoDupPkg.LandsOnExisting", i))
  /\ (SameRepoTwice(e) \/ Viol("NoDupPkg.SameRepoTwice", i))
  /\ (Installed(e) \/ Viol("NoDupPkg.Installed", i))
  /\ (ConfFinal(e) \/ Viol("Conf.Final", i))
  /\ (ConfInit(e) \/ Viol("Conf.Init", i))
  /\ (e.ev = "reset" \/ i = 1 \/
        LET p == Trace[i - 1] IN
        /\ (KeepCA(p, e) \/ Viol("KeepCA", i))
        /\ (KeepCerts(p, e) \/ Viol("KeepCerts", i))
        /\ (ChainComplete(p, e) \/ Viol("Chain.Complete", i))
        /\ (ChainVerifies(p, e) \/ Viol("Chain.Verifies", i))
        /\ (ChainNames(p, e) \/ Viol("Chain.DNSNames", i))
        /\ (ChainCaCrt(p, e) \/ Viol("Chain.CaCrt", i))
        /\ (Untouched(p, e) \/ Viol("Untouched", i)))

Init == l = 0
Next == /\ l < Len(Trace) /\ l' = l + 1 /\ Check(l')
        /\ (l' < Len(Trace) \/ PrintT("DONE|" \o ToString(l')))
Spec == Init /\ [][Next]_l
=============================================================================
