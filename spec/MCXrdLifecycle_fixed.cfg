SPECIFICATION Spec
CONSTANTS
  Inits <- InitsMixed
  EnvKinds = {"ver"}
  FaultKinds = {"fail", "crashAfter", "efail"}
  MaxEnv = 2
  MaxFaults = 1
  MaxRecs = 3
  Interleave = TRUE
  MidEnv = TRUE
  WaitEstablished = TRUE
  FixTypeRef = TRUE
  FixWatches = TRUE
VIEW view

CHECK_DEADLOCK FALSE
INVARIANTS AllGood
PROPERTIES ForeignFrozen XrdSpecKept
