SPECIFICATION Spec
CONSTANTS
  Tier = "deep"
  Fams = {"patch"}
  KnownCells = {"ConvertFormatOnInteger"}
CHECK_DEADLOCK FALSE
INVARIANTS DesignSound
