---------------------------- MODULE MCOwnership ----------------------------
EXTENDS Ownership, Json
VARIABLES v, out
Init == v \in [case : Cases, pre : Pre] /\ out = "-"
Next == out = "-" /\ out' = "x" /\ UNCHANGED v
Spec == Init /\ [][Next]_<<v, out>>
Emit == PrintT(<<"VEC", ToJson(v)>>)
=============================================================================
