---------------------------- MODULE MonRuntime ----------------------------
(***************************************************************************)
(* Trace monitor for Runtime (check X01): evaluates the intended           *)
(* properties I1..I8 listed in the header of Runtime.tla on every recorded *)
(* state / step of executions of the REAL package revision reconciler with *)
(* the real runtime hooks (harness/drivers/runtime).  Every event carries  *)
(* the projected store (post), what the reconcile in flight has observed   *)
(* so far (seen: desired state and runtime config as read, what Apply      *)
(* returned), and - for a write - the full projection of the object as it  *)
(* was stored (wrote).  A false formula prints a VIOL line; the monitor    *)
(* never stops early.                                                      *)
(*                                                                         *)
(* Events: reset | start | call (writes, and reads with an injected fault) *)
(* | end | env | settled (after the scenario, fault-free reconciles woken  *)
(* up as the controller's watches would, until nothing is pending).        *)
(***************************************************************************)
EXTENDS Integers, Sequences, FiniteSets, TLC, Json, IOUtils

Trace == ndJsonDeserialize(IOEnv.VERIF_TRACE)
VARIABLE l
Range(s) == {s[i] : i \in DOMAIN s}

Revs == {"r1", "r2"}
OtherR(r) == IF r = "r1" THEN "r2" ELSE "r1"
Objs(e) == Range(e.post.objs)
RevRec(e, r) == CHOOSE x \in Range(e.post.revs) : x.r = r
Des(e, r) == RevRec(e, r).des
Provider(e) == e.kind = "provider"
NameOfRev(r) == "pkg-" \o r
DepAlias(r, dn) == IF dn = "none" THEN "dep-" \o r ELSE "dep-" \o dn
SaAlias(r, san) == IF san = "none" THEN "sa-" \o r ELSE "sa-" \o san
Runtime == {"dep", "svc", "sa", "sec"}
ByRev(e) == e.ev = "call" /\ e.actor \in Revs
Applies(e) == ByRev(e) /\ e.verb \in {"create", "patch"} /\ e.tk \in Runtime
Wrote(e) == Applies(e) /\ e.outcome = "ok" /\ e.wrote.a # "none"
Done(e) == Range(e.seen.done)

\* ---- I1: a reconcile that read Inactive never creates / patches / updates a runtime object
InactiveNeverCreates(e) ==
  (ByRev(e) /\ e.seen.des = "Inactive" /\ e.tk \in Runtime) => e.verb = "delete"

\* ---- I2: after a reconcile that read Inactive and completed, the revision controls no Deployment under the name its builder computes
DeactivateRemoves(e) ==
  (e.ev = "end" /\ e.result = "ok" /\ e.seen.des = "Inactive" /\ e.seen.drcRead) =>
     ~\E o \in Objs(e) : o.a = DepAlias(e.actor, e.seen.dn) /\ o.ctrl = e.actor

\* ---- I3: an inactive revision's reconcile does not take down the Deployment the ACTIVE revision of the package controls
KillsActive(e) ==
  /\ ByRev(e) /\ e.verb = "delete" /\ e.tk = "dep" /\ e.applied
  /\ e.pre.ctrl = OtherR(e.actor) /\ Des(e, OtherR(e.actor)) = "Active"
HandOver(e) == ~KillsActive(e)

\* ---- I4: what the hooks create or patch is controlled by the revision afterwards, and lives in the Crossplane namespace;
\*          the certificate generator's write names the owner it was given (provider: the package; function: the revision)
Owned(e) == Wrote(e) => e.wrote.ctrl = e.actor
OwnedNs(e) == Wrote(e) => e.wrote.ns = "crossplane-system"
OwnedGen(e) ==
  (ByRev(e) /\ e.verb \in {"gupdate", "gcreate"} /\ e.outcome = "ok" /\ e.wrote.a # "none") =>
     e.wrote.ctrl = (IF Provider(e) THEN "pkg" ELSE e.actor)

\* ---- I5: when the Deployment is written, this reconcile has applied the Service, the TLS Secrets and (unless the user
\*          manages it) the ServiceAccount; the Secrets it left behind hold certificates
DepWrite(e) == Applies(e) /\ e.tk = "dep" /\ e.seen.des = "Active"
OrderPrereqs(e) ==
  DepWrite(e) =>
    /\ {"svc", "secS"} \subseteq Done(e)
    /\ (Provider(e) => "secC" \in Done(e))
    /\ (~e.seen.ext => SaAlias(e.actor, e.seen.san) \in Done(e))
OrderCerts(e) ==
  DepWrite(e) => \A o \in Objs(e) : (o.a \in {"secS", "secC"} /\ o.ctrl \in {e.actor, "pkg"}) => o.data

\* ---- I6: an Active revision is written Healthy only if the Deployment it applied in this reconcile reported Available=True;
\*          a reconcile that returns without error has reported Healthy
HealthTruth(e) ==
  (ByRev(e) /\ e.verb = "update-status" /\ e.outcome = "ok" /\ e.seen.des = "Active" /\ RevRec(e, e.actor).healthy = "true")
     => e.seen.depAvail = "true"
ReportedAfterOk(e) ==
  (e.ev = "end" /\ e.result = "ok" /\ e.seen.des \in {"Active", "Inactive"}) => RevRec(e, e.actor).healthy = "true"
\* a function revision's recorded endpoint is the Service this reconcile applied
Endpoint(e) ==
  (e.ev = "end" /\ e.result = "ok" /\ e.kind = "function" /\ e.seen.des = "Active") =>
     RevRec(e, e.actor).endpoint = "dns:///" \o e.seen.svcName \o ".crossplane-system:9443"

\* ---- I7: mandatory parts, defaults and what the runtime config says, on the Deployment / Service / ServiceAccount as stored
Rich(e) == e.seen.tmpl = "rich"
ExpSel(e) == {"pkg.crossplane.io/revision=" \o NameOfRev(e.actor),
              IF Provider(e) THEN "pkg.crossplane.io/provider=meta-pkg" ELSE "pkg.crossplane.io/function=pkg"}
WD(e) == Wrote(e) /\ e.tk = "dep"
W(e) == e.wrote
MSelector(e) == WD(e) => Range(W(e).sel) = ExpSel(e)
MPodLabels(e) == WD(e) => ExpSel(e) \subseteq Range(W(e).tl)
MRuntimeFirst(e) == WD(e) => W(e).c0 = "package-runtime"
MImage(e) == WD(e) => W(e).img = (IF Rich(e) THEN "registry.example.org/custom/runtime:v9" ELSE "xpkg.example.org/org/pkg-runtime:" \o e.actor)
MPorts(e) == WD(e) => /\ (IF Rich(e) THEN "metrics:9090" ELSE "metrics:8080") \in Range(W(e).ports)
                      /\ (IF Provider(e) THEN "webhook:9443" ELSE "grpc:9443") \in Range(W(e).ports)
MEnv(e) == WD(e) => (IF Provider(e)
                     THEN {"POD_NAMESPACE", "TLS_SERVER_CERTS_DIR", "TLS_CLIENT_CERTS_DIR", "ESS_TLS_CERTS_DIR", "WEBHOOK_TLS_CERT_DIR"}
                     ELSE {"TLS_SERVER_CERTS_DIR"}) \subseteq Range(W(e).env)
MVolumes(e) == WD(e) => /\ "tls-server-certs:pkg-tls-server" \in Range(W(e).vols) /\ "tls-server-certs" \in Range(W(e).mounts)
                        /\ (Provider(e) => "tls-client-certs:pkg-tls-client" \in Range(W(e).vols) /\ "tls-client-certs" \in Range(W(e).mounts))
MName(e) == WD(e) => W(e).n = (IF e.seen.dn = "none" THEN NameOfRev(e.actor) ELSE e.seen.dn)
DReplicas(e) == WD(e) => W(e).rep = (IF Rich(e) THEN 2 ELSE 1)
DServiceAccount(e) == WD(e) => W(e).sacc = (IF e.seen.ext THEN "user-sa" ELSE IF e.seen.san = "none" THEN NameOfRev(e.actor) ELSE e.seen.san)
DPullPolicy(e) == WD(e) => W(e).pp = "IfNotPresent"
DSecurity(e) == WD(e) => W(e).psc /\ W(e).csc
DScrape(e) == (WD(e) /\ Provider(e)) => (IF Rich(e) THEN "prometheus.io/scrape=false" ELSE "prometheus.io/scrape=true") \in Range(W(e).tann)
UserKept(e) == (WD(e) /\ Rich(e)) => /\ "sidecar" \in Range(W(e).cs) /\ "USER_ENV" \in Range(W(e).env)
                                     /\ "tier=t" \in Range(W(e).tl) /\ "team=a" \in Range(W(e).lab)
\* the Service selects the pods of the Deployment the same revision writes
ServiceMatches(e) == WD(e) => \A o \in Objs(e) : (o.a = "svc" /\ o.ctrl = e.actor) => Range(o.sel) = Range(W(e).sel)
WS(e) == Wrote(e) /\ e.tk = "svc"
SvcSelector(e) == WS(e) => Range(W(e).sel) = ExpSel(e)
SvcPorts(e) == WS(e) => /\ (IF Provider(e) THEN "webhook:9443>webhook" ELSE "grpc:9443>grpc") \in Range(W(e).ports)
                        /\ (~Provider(e) => W(e).cip = "None")
SvcName(e) == WS(e) => W(e).n = "pkg"
SaPullSecrets(e) == (Wrote(e) /\ e.tk = "sa") => "xp-pull" \in Range(W(e).ips)
\* "applySA ... includes any image pull secrets that have been added by external controllers": when its read of the
\* existing ServiceAccount succeeded, a patch keeps every pull secret that was there.  (When that read fails the code
\* carries on without them: counted by the driver as an observation, not judged.)
SaKeepsPullSecrets(e) ==
  (Wrote(e) /\ e.tk = "sa" /\ e.verb = "patch" /\ e.seen.saFirst = "ok") => Range(e.pre.ips) \subseteq Range(W(e).ips)
\* a provider revision's status carries the permission requests of its package metadata once Pre ran
PermissionRequests(e) ==
  (e.ev = "end" /\ e.result = "ok" /\ Provider(e) /\ e.seen.des = "Active") => RevRec(e, e.actor).perms = 1

\* ---- I8: what fault-free reconciles settle into
Target(e, r) == DepAlias(r, e.post.drc.dn)
CtrlDeps(e, r) == {o \in Objs(e) : o.k = "dep" /\ o.ctrl = r}
Runs(e, r) == \E o \in CtrlDeps(e, r) : o.a = Target(e, r)
Settled(e) == e.ev = "settled"
SConverges(e) == Settled(e) => e.fix
SAtMostOne(e) == Settled(e) => Cardinality({r \in Revs : Runs(e, r)}) <= 1
\* Deployments a revision still controls although it is Inactive, or under another name than the one it now computes
Leftover(e, r) == {o \in CtrlDeps(e, r) : Des(e, r) = "Inactive" \/ o.a # Target(e, r)}
Renamed(e, r) == \A o \in Leftover(e, r) : o.a # Target(e, r)
SNoLeftover(e) == Settled(e) => \A r \in Revs : Leftover(e, r) = {} \/ Renamed(e, r)
SNoLeftoverRenamed(e) == Settled(e) => \A r \in Revs : Leftover(e, r) = {} \/ ~Renamed(e, r)
\* the Active revision runs: its Deployment exists under the computed name unless a stranger's Deployment (selector!) sits there
Blocked(e, r) == \E o \in Objs(e) : o.a = Target(e, r) /\ o.selrev # r
SActiveRuns(e) == Settled(e) => \A r \in Revs : (Des(e, r) = "Active" /\ ~Blocked(e, r)) => Runs(e, r)
SHealth(e) == Settled(e) => \A r \in Revs : (Des(e, r) = "Active" /\ RevRec(e, r).healthy = "true") =>
                 \E o \in CtrlDeps(e, r) : o.a = Target(e, r) /\ o.avail = "true"
SPrereqs(e) == Settled(e) => \A r \in Revs : (Des(e, r) = "Active" /\ Runs(e, r)) =>
                 /\ \E o \in Objs(e) : o.a = "svc" /\ o.ctrl = r /\ o.selrev = r
                 /\ \E o \in Objs(e) : o.a = "secS" /\ o.data
                 /\ (Provider(e) => \E o \in Objs(e) : o.a = "secC" /\ o.data)
                 /\ (~e.post.drc.ext => \E o \in Objs(e) : o.a = SaAlias(r, e.post.drc.san) /\ o.ctrl = r)

Viol(name, i) == PrintT("VIOL|" \o name \o "|" \o ToString(i) \o "|" \o Trace[i].scenario)
Check(i) ==
  LET e == Trace[i] IN
  /\ (InactiveNeverCreates(e) \/ Viol("InactiveNeverCreates", i))
  /\ (DeactivateRemoves(e) \/ Viol("Deactivate.Removes", i))
  /\ (HandOver(e) \/ Viol("HandOver.KillsActive", i))
  /\ (Owned(e) \/ Viol("Owned.Controller", i))
  /\ (OwnedNs(e) \/ Viol("Owned.Namespace", i))
  /\ (OwnedGen(e) \/ Viol("Owned.Generator", i))
  /\ (OrderPrereqs(e) \/ Viol("Order.Prereqs", i))
  /\ (OrderCerts(e) \/ Viol("Order.Certs", i))
  /\ (HealthTruth(e) \/ Viol("HealthTruth", i))
  /\ (ReportedAfterOk(e) \/ Viol("HealthTruth.ReportedAfterOk", i))
  /\ (Endpoint(e) \/ Viol("Endpoint", i))
  /\ (MSelector(e) \/ Viol("Mandatory.Selector", i))
  /\ (MPodLabels(e) \/ Viol("Mandatory.PodLabels", i))
  /\ (MRuntimeFirst(e) \/ Viol("Mandatory.RuntimeFirst", i))
  /\ (MImage(e) \/ Viol("Mandatory.Image", i))
  /\ (MPorts(e) \/ Viol("Mandatory.Ports", i))
  /\ (MEnv(e) \/ Viol("Mandatory.Env", i))
  /\ (MVolumes(e) \/ Viol("Mandatory.Volumes", i))
  /\ (MName(e) \/ Viol("Mandatory.Name", i))
  /\ (DReplicas(e) \/ Viol("Defaults.Replicas", i))
  /\ (DServiceAccount(e) \/ Viol("Defaults.ServiceAccount", i))
  /\ (DPullPolicy(e) \/ Viol("Defaults.PullPolicy", i))
  /\ (DSecurity(e) \/ Viol("Defaults.Security", i))
  /\ (DScrape(e) \/ Viol("Defaults.Scrape", i))
  /\ (UserKept(e) \/ Viol("UserKept", i))
  /\ (ServiceMatches(e) \/ Viol("ServiceMatches", i))
  /\ (SvcSelector(e) \/ Viol("Service.Selector", i))
  /\ (SvcPorts(e) \/ Viol("Service.Ports", i))
  /\ (SvcName(e) \/ Viol("Service.Name", i))
  /\ (SaPullSecrets(e) \/ Viol("ServiceAccount.PullSecrets", i))
  /\ (SaKeepsPullSecrets(e) \/ Viol("ServiceAccount.KeepsPullSecrets", i))
  /\ (PermissionRequests(e) \/ Viol("PermissionRequests", i))
  /\ (SConverges(e) \/ Viol("Settled.Converges", i))
  /\ (SAtMostOne(e) \/ Viol("Settled.AtMostOne", i))
  /\ (SNoLeftover(e) \/ Viol("Settled.Leftover", i))
  /\ (SNoLeftoverRenamed(e) \/ Viol("Settled.Leftover.Renamed", i))
  /\ (SActiveRuns(e) \/ Viol("Settled.ActiveRuns", i))
  /\ (SHealth(e) \/ Viol("Settled.Health", i))
  /\ (SPrereqs(e) \/ Viol("Settled.Prereqs", i))

Init == l = 0
Next == /\ l < Len(Trace) /\ l' = l + 1 /\ Check(l')
        /\ (l' < Len(Trace) \/ PrintT("DONE|" \o ToString(l')))
Spec == Init /\ [][Next]_l
=============================================================================
