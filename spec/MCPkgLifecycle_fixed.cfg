SPECIFICATION Spec
CONSTANTS
  InitPkgs <- PkgInstalledRich
  InitRevs <- RevsSettledRich
  InitICs <- IcNone
  InitLock <- OnlyFalse
  ICs <- NoICs
  Img <- ImgBothOk
  MaxMgr = 2
  MaxRev = 0
  MaxFaults = 1
  MaxEnv = 2
  MidEnv = TRUE
  EnvKinds <- EnvEdit
  Edits <- EditsOpt
  FaultKinds <- FaultsAll
  SeamOuts <- NoSeams
  FinFirst = TRUE
  FixRemoval = TRUE
  ManualInactive = TRUE
VIEW view
ACTION_CONSTRAINT Emit
CHECK_DEADLOCK FALSE
INVARIANTS DesiredStateDefined RepairedMgr RemovalHandedDown
