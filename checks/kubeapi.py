"""KUBEAPI - not a property of crossplane: binds the trusted environment double harness/simapi to its TLA+ contract
spec/KubeAPI.tla.  (M)+(G) spec/MCKubeAPI.tla is the contract as an executable state machine (TLC checks that it is a
model of the step relation and emits one request sequence per reachable (state, request) pair); the sequences - and
seeded random ones over two objects - are run against the real simapi and every recorded step is judged by
MonKubeAPI.tla.  ./check KUBEAPI ; a failure means the API model every other check relies on no longer satisfies its
contract."""
import os

import vlib

PID = "KUBEAPI"


def run(ctx):
    binp = ctx.go_build("./drivers/kubeapi")
    mc = ctx.model_check("MCKubeAPI", "MCKubeAPI_quick.cfg" if ctx.quick else "MCKubeAPI_thorough.cfg", workers=8, timeout=900)
    scs = [{"id": "%s-%07d" % (PID, i), "hist": h} for i, h in ctx.sample_lines(mc["emitted_file"], 9000 if ctx.quick else 120000, mc["emitted"])]
    strace = os.path.join(ctx.work, "strace.ndjson")
    ctx.run([binp, "-scenarios", ctx.write_scenarios(scs), "-trace", strace, "-summary", os.path.join(ctx.work, "ssummary.json")])
    viols, n1 = ctx.monitor("MonKubeAPI", strace, heap="8g")
    by_id = {s["id"]: s for s in scs}
    for formula, line, scid in viols:
        ctx.violation(formula, scid, ctx.replay_file(by_id.get(scid, {"id": scid})), "trace line %d" % line, fingerprint=formula)
    trace = os.path.join(ctx.work, "trace.ndjson")
    summ = os.path.join(ctx.work, "summary.json")
    ctx.run([binp, "-trace", trace, "-summary", summ, "-seed", str(ctx.seed), "-runs", "300" if ctx.quick else "6000"])
    viols, n2 = ctx.monitor("MonKubeAPI", trace, heap="8g")
    for formula, line, scid in viols:
        ctx.violation(formula, scid, trace, "trace line %d" % line, fingerprint=formula)
    ctx.level = "other"
    ctx.cov.update(dict(explanation="simapi conformance to spec/KubeAPI.tla: %d model-generated request sequences (%d calls) + %d random calls, "
                                    "every step satisfies the step relation" % (len(scs), n1, n2),
                        states=mc["states"], transitions=mc["transitions"], traces_validated_against_impl=len(scs),
                        evaluations=n1 + n2, distinct_nontrivial=n1 + n2, samples=scs[:1], events=n1 + n2))


def replay(ctx, path):
    import json
    binp = ctx.go_build("./drivers/kubeapi")
    with open(path) as f:
        sc = json.load(f)
    strace = os.path.join(ctx.work, "strace.ndjson")
    ctx.run([binp, "-scenarios", ctx.write_scenarios([sc]), "-trace", strace, "-summary", os.path.join(ctx.work, "ssummary.json")])
    viols, n = ctx.monitor("MonKubeAPI", strace, heap="4g")
    for formula, line, scid in viols:
        ctx.violation(formula, scid, path, "trace line %d" % line, fingerprint=formula)
    ctx.level = "other"
    ctx.cov.update(dict(explanation="replay", evaluations=n, distinct_nontrivial=n, samples=[sc], events=n))
