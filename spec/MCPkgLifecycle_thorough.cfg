SPECIFICATION Spec
CONSTANTS
  InitPkgs <- PkgThorough
  InitRevs <- RevsThoroughMgr
  InitICs <- IcSome
  InitLock <- OnlyFalse
  ICs <- IcsQ
  Img <- ImgBothOk
  MaxMgr = 3
  MaxRev = 0
  MaxFaults = 1
  MaxEnv = 2
  MidEnv = TRUE
  EnvKinds <- EnvMgr
  Edits <- EditsAll
  FaultKinds <- FaultsAll
  SeamOuts <- SeamsAll
  FinFirst = TRUE
  FixRemoval = TRUE
  ManualInactive = TRUE
VIEW view
ACTION_CONSTRAINT Emit
CHECK_DEADLOCK FALSE
INVARIANTS DesiredStateDefined StepProps LockBeforeFin RepairedRev RepairedMgr HealthyTruth
