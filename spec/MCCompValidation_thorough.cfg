SPECIFICATION Spec
CONSTANTS
  Tier = "thorough"
  Fams = {"patch", "mode", "ready", "conn", "malformed"}
  KnownCells = {"ConvertFormatOnInteger"}
ACTION_CONSTRAINT Emit
CHECK_DEADLOCK FALSE
INVARIANTS DesignSound RefTotal
