SPECIFICATION Spec
CONSTANTS
  Mode = "Pipeline"
  Names = {"a", "b"}
  MaxObjs = 5
  MaxRecs = 3
  MaxFaults = 2
  MaxEnv = 2
  ForeignAt = "ref"
  RenderFails = FALSE
  CacheMisses = TRUE
  VerBumps = FALSE
  Forges = FALSE
  Legacies = FALSE
  FailKinds = {"fnerror2", "fatal1"}
VIEW view
ACTION_CONSTRAINT Emit
CHECK_DEADLOCK FALSE
INVARIANTS NoLeak AtMostOne StepProps GcExact
PROPERTIES NameStable
