// Driver for spec/RenderParity.tla (X04): every input vector TLC enumerates is run
//
//   - through the REAL controller path: composite.Reconciler + FunctionComposer +
//     FetchingFunctionRunner + ExistingExtraResourcesFetcher on simapi (the wiring of
//     harness/drivers/pipeline, copied), scripted functions in process behind a protobuf
//     wire round trip, and
//   - through the REAL cmd/crank/render.Render (twice), with the same XR manifest, a
//     Composition with the same pipeline, the observed composed resources and extra
//     resources as they are in the cluster, the credential secrets, the initial context,
//     and Functions that use render's "Development" runtime: the same scripted functions
//     served by in-process gRPC servers on unix sockets (fn2 speaks v1beta1 only).
//
// The scripted functions execute the program family of RenderParity.tla (a function finds
// its program in its own step input, so it is a pure function of its request) and log a
// summary of every RunFunctionRequest they receive. The driver only observes and records:
// one "out" record per vector carrying both outcomes; every judgement is made by
// spec/MonRenderParity.tla.
package main

import (
	"bytes"
	"context"
	"crypto/sha256"
	"encoding/json"
	"flag"
	"fmt"
	"net"
	"os"
	"path/filepath"
	"regexp"
	"sort"
	"strconv"
	"strings"
	"sync"
	"time"

	"google.golang.org/grpc"
	"google.golang.org/protobuf/proto"
	"google.golang.org/protobuf/types/known/structpb"
	corev1 "k8s.io/api/core/v1"
	metav1 "k8s.io/apimachinery/pkg/apis/meta/v1"
	"k8s.io/apimachinery/pkg/apis/meta/v1/unstructured"
	"k8s.io/apimachinery/pkg/runtime"
	"k8s.io/apimachinery/pkg/runtime/schema"
	"k8s.io/apimachinery/pkg/types"
	"k8s.io/utils/ptr"
	"sigs.k8s.io/controller-runtime/pkg/reconcile"

	xpv1 "github.com/crossplane/crossplane-runtime/apis/common/v1"
	"github.com/crossplane/crossplane-runtime/pkg/event"
	"github.com/crossplane/crossplane-runtime/pkg/logging"
	"github.com/crossplane/crossplane-runtime/pkg/resource"
	"github.com/crossplane/crossplane-runtime/pkg/resource/unstructured/composed"
	ucomposite "github.com/crossplane/crossplane-runtime/pkg/resource/unstructured/composite"

	fnv1 "github.com/crossplane/crossplane/apis/apiextensions/fn/proto/v1"
	fnv1beta1 "github.com/crossplane/crossplane/apis/apiextensions/fn/proto/v1beta1"
	v1 "github.com/crossplane/crossplane/apis/apiextensions/v1"
	pkgv1 "github.com/crossplane/crossplane/apis/pkg/v1"
	"github.com/crossplane/crossplane/cmd/crank/render"
	"github.com/crossplane/crossplane/internal/controller/apiextensions/composite"
	"github.com/crossplane/crossplane/zzverif/scen"
	"github.com/crossplane/crossplane/zzverif/simapi"
	"github.com/crossplane/crossplane/zzverif/trace"
)

// ---------------------------------------------------------------- scenario input

type prog struct {
	Name  string `json:"name"`
	Des   string `json:"des"`
	Dn    string `json:"dn"`
	Ctx   string `json:"ctx"`
	Req   string `json:"req"`
	N     int    `json:"n"`
	Res   string `json:"res"`
	Rt    string `json:"rt"`
	Cond  string `json:"cond"`
	Cs    string `json:"cs"`
	Ct    string `json:"ct"`
	Creds bool   `json:"creds"`
	Rdy   bool   `json:"rdy"`
	Xrdy  string `json:"xrdy"`
}

type input struct {
	Steps    []prog   `json:"steps"`
	Extras   []string `json:"extras"`
	Existing []string `json:"existing"`
	Ctx0     string   `json:"ctx0"`
	Claim    bool     `json:"claim"`
}

const (
	xrName   = "xr1"
	revName  = "rev1"
	compName = "comp1"
	ns       = "ns"
	annName  = "crossplane.io/composition-resource-name"
)

var (
	xrGVK    = schema.GroupVersionKind{Group: "ex.org", Version: "v1", Kind: "XThing"}
	cdGVK    = schema.GroupVersionKind{Group: "ex.org", Version: "v1", Kind: "Thing"}
	claimGVK = schema.GroupVersionKind{Group: "ex.org", Version: "v1", Kind: "ThingClaim"}
	xrKey    = simapi.Key{Group: "ex.org", Kind: "XThing", Name: xrName}
	tokRE    = regexp.MustCompile(`fnres:[A-Za-z0-9]+:[a-z]+`)
	stepRE   = regexp.MustCompile(`(?i)pipeline step "([^"]*)"`)
)

// ---------------------------------------------------------------- summaries (projections only)

func kv(k, v string) map[string]any { return map[string]any{"k": k, "v": v} }

func sortBy(l []any, key string) []any {
	sort.SliceStable(l, func(i, j int) bool {
		return l[i].(map[string]any)[key].(string) < l[j].(map[string]any)[key].(string)
	})
	if l == nil {
		return []any{}
	}
	return l
}

func strList(ss []string) []any {
	ss = append([]string(nil), ss...)
	sort.Strings(ss)
	out := make([]any, len(ss))
	for i, s := range ss {
		out[i] = s
	}
	return out
}

func resVal(r *fnv1.Resource) string {
	sp := r.GetResource().GetFields()["spec"].GetStructValue()
	if v, ok := sp.GetFields()["val"]; ok {
		if s, ok := v.GetKind().(*structpb.Value_StringValue); ok {
			return s.StringValue
		}
	}
	return "?"
}

var readyName = map[fnv1.Ready]string{fnv1.Ready_READY_TRUE: "true", fnv1.Ready_READY_FALSE: "false", fnv1.Ready_READY_UNSPECIFIED: "none"}

// desSummary projects a desired state: resources (name, value), the names marked READY_TRUE, the marker in the
// desired composite's status and the composite's explicit readiness.
func desSummary(st *fnv1.State) (des []any, rdy []any, dxr, xrdy string) {
	var l []any
	var ready []string
	for n, r := range st.GetResources() {
		l = append(l, map[string]any{"n": n, "v": resVal(r)})
		if r.GetReady() == fnv1.Ready_READY_TRUE {
			ready = append(ready, n)
		}
	}
	dxr, xrdy = "none", "none"
	if c := st.GetComposite(); c != nil {
		dxr = "?"
		if v, ok := c.GetResource().GetFields()["status"].GetStructValue().GetFields()["marker"]; ok {
			dxr = v.GetStringValue()
		}
		xrdy = readyName[c.GetReady()]
	}
	return sortBy(l, "n"), strList(ready), dxr, xrdy
}

func ctxSummary(c *structpb.Struct) []any {
	var l []any
	for k, v := range c.GetFields() {
		s, ok := v.GetKind().(*structpb.Value_StringValue)
		if !ok {
			l = append(l, kv(k, "?"))
			continue
		}
		l = append(l, kv(k, s.StringValue))
	}
	return sortBy(l, "k")
}

func connSummary(m map[string][]byte) []any {
	var l []any
	for k, v := range m {
		l = append(l, kv(k, string(v)))
	}
	return sortBy(l, "k")
}

func objName(s *structpb.Struct) string {
	name := s.GetFields()["metadata"].GetStructValue().GetFields()["name"].GetStringValue()
	if k := s.GetFields()["kind"].GetStringValue(); k != "Extra" {
		return k + "/" + name
	}
	return name
}

func extraSummary(m map[string]*fnv1.Resources) []any {
	var l []any
	for k, rs := range m {
		var names []string
		for _, it := range rs.GetItems() {
			names = append(names, objName(it.GetResource()))
		}
		l = append(l, map[string]any{"k": k, "names": strList(names)})
	}
	return sortBy(l, "k")
}

func credSummary(m map[string]*fnv1.Credentials) []any {
	var l []any
	for n, c := range m {
		for k, v := range c.GetCredentialData().GetData() {
			l = append(l, map[string]any{"n": n, "k": k, "v": string(v)})
		}
	}
	sort.SliceStable(l, func(i, j int) bool {
		a, b := l[i].(map[string]any), l[j].(map[string]any)
		return a["n"].(string)+"/"+a["k"].(string) < b["n"].(string)+"/"+b["k"].(string)
	})
	if l == nil {
		return []any{}
	}
	return l
}

// obsSummary: the observed XR and composed resources (composition resource name -> object name) with their
// connection details (which the monitor leaves aside: render documents that it cannot be given any).
func obsSummary(st *fnv1.State) map[string]any {
	var res []any
	for n, r := range st.GetResources() {
		name := r.GetResource().GetFields()["metadata"].GetStructValue().GetFields()["name"].GetStringValue()
		res = append(res, map[string]any{"n": n, "name": name, "conn": connSummary(r.GetConnectionDetails())})
	}
	name := st.GetComposite().GetResource().GetFields()["metadata"].GetStructValue().GetFields()["name"].GetStringValue()
	if name == "" {
		name = "none"
	}
	return map[string]any{"xr": name, "xrconn": connSummary(st.GetComposite().GetConnectionDetails()), "res": sortBy(res, "n")}
}

func digest(m proto.Message) string {
	b, err := proto.MarshalOptions{Deterministic: true}.Marshal(m)
	if err != nil {
		return "marshal-error"
	}
	h := sha256.Sum256(b)
	return fmt.Sprintf("%x", h[:8])
}

func reqsSummary(r *fnv1.Requirements) []any {
	var l []any
	for k, s := range r.GetExtraResources() {
		switch m := s.GetMatch().(type) {
		case *fnv1.ResourceSelector_MatchName:
			l = append(l, map[string]any{"k": k, "t": "name", "v": m.MatchName})
		case *fnv1.ResourceSelector_MatchLabels:
			l = append(l, map[string]any{"k": k, "t": "labels", "v": m.MatchLabels.GetLabels()["grp"]})
		}
	}
	return sortBy(l, "k")
}

var sevName = map[fnv1.Severity]string{fnv1.Severity_SEVERITY_FATAL: "fatal", fnv1.Severity_SEVERITY_WARNING: "warning",
	fnv1.Severity_SEVERITY_NORMAL: "normal", fnv1.Severity_SEVERITY_UNSPECIFIED: "unspec"}
var statusName = map[fnv1.Status]string{fnv1.Status_STATUS_CONDITION_TRUE: "True", fnv1.Status_STATUS_CONDITION_FALSE: "False", fnv1.Status_STATUS_CONDITION_UNKNOWN: "Unknown"}

func tgt(t fnv1.Target) string {
	if t == fnv1.Target_TARGET_COMPOSITE_AND_CLAIM {
		return "claim"
	}
	return "xr"
}

func rspSummary(rsp *fnv1.RunFunctionResponse) map[string]any {
	des, rdy, dxr, xrdy := desSummary(rsp.GetDesired())
	results := []any{}
	for _, r := range rsp.GetResults() {
		results = append(results, map[string]any{"sev": sevName[r.GetSeverity()], "tok": r.GetMessage(), "target": tgt(r.GetTarget())})
	}
	conds := []any{}
	for _, c := range rsp.GetConditions() {
		conds = append(conds, map[string]any{"type": c.GetType(), "status": statusName[c.GetStatus()], "reason": c.GetReason(), "target": tgt(c.GetTarget())})
	}
	return map[string]any{"des": des, "rdy": rdy, "dxr": dxr, "xrdy": xrdy, "ctx": ctxSummary(rsp.GetContext()),
		"reqs": reqsSummary(rsp.GetRequirements()), "results": results, "conds": conds}
}

// callSummary is what is recorded for every request a scripted function receives.
func callSummary(step, round int, req *fnv1.RunFunctionRequest, api string, rsp *fnv1.RunFunctionResponse) map[string]any {
	p, m := progOf(req)
	des, rdy, dxr, xrdy := desSummary(req.GetDesired())
	return map[string]any{
		"step": step, "round": round, "prog": p.Name, "input": m,
		"des": des, "rdy": rdy, "dxr": dxr, "xrdy": xrdy, "ctx": ctxSummary(req.GetContext()), "extra": extraSummary(req.GetExtraResources()),
		"creds": credSummary(req.GetCredentials()), "obs": obsSummary(req.GetObserved()), "digest": digest(req.GetObserved()),
		"api": api, "rsp": rspSummary(rsp),
	}
}

// ---------------------------------------------------------------- the scripted function: the program family of RenderParity.tla

func readyOf(b bool, unreadyFalse bool) fnv1.Ready {
	switch {
	case b:
		return fnv1.Ready_READY_TRUE
	case unreadyFalse:
		return fnv1.Ready_READY_FALSE
	}
	return fnv1.Ready_READY_UNSPECIFIED
}

func thingStruct(val string) *structpb.Struct {
	s, _ := structpb.NewStruct(map[string]any{"apiVersion": "ex.org/v1", "kind": "Thing", "spec": map[string]any{"val": val}})
	return s
}

func namesGiven(req *fnv1.RunFunctionRequest, key string) []string {
	var out []string
	for _, it := range req.GetExtraResources()[key].GetItems() {
		out = append(out, objName(it.GetResource()))
	}
	sort.Strings(out)
	return out
}

func has(ss []string, s string) bool {
	for _, x := range ss {
		if x == s {
			return true
		}
	}
	return false
}

func byName(n string) *fnv1.ResourceSelector {
	return &fnv1.ResourceSelector{ApiVersion: "ex.org/v1", Kind: "Extra", Match: &fnv1.ResourceSelector_MatchName{MatchName: n}}
}

func byLabel(v string) *fnv1.ResourceSelector {
	return &fnv1.ResourceSelector{ApiVersion: "ex.org/v1", Kind: "Extra",
		Match: &fnv1.ResourceSelector_MatchLabels{MatchLabels: &fnv1.MatchLabels{Labels: map[string]string{"grp": v}}}}
}

// progOf reads the program and the marker a function finds in its input.
func progOf(req *fnv1.RunFunctionRequest) (prog, string) {
	in := req.GetInput()
	if in == nil {
		return prog{Name: "none", Des: "keep", Ctx: "keep", Req: "none", Res: "none", Cond: "none", Xrdy: "none"}, "none"
	}
	var p prog
	b, _ := json.Marshal(in.GetFields()["prog"].GetStructValue().AsMap())
	_ = json.Unmarshal(b, &p)
	return p, in.GetFields()["marker"].GetStringValue()
}

// runProgram is a deterministic function of its request.
func runProgram(req *fnv1.RunFunctionRequest) *fnv1.RunFunctionResponse {
	p, m := progOf(req)
	rsp := &fnv1.RunFunctionResponse{Meta: &fnv1.ResponseMeta{Tag: req.GetMeta().GetTag()}}

	// desired
	d := &fnv1.State{}
	if req.GetDesired() != nil {
		d = proto.Clone(req.GetDesired()).(*fnv1.State)
	}
	if d.Resources == nil {
		d.Resources = map[string]*fnv1.Resource{}
	}
	switch p.Des {
	case "add":
		d.Resources[p.Dn] = &fnv1.Resource{Resource: thingStruct(m), Ready: readyOf(p.Rdy, p.Dn != "a")}
	case "drop":
		delete(d.Resources, p.Dn)
	case "dropall":
		d = &fnv1.State{}
	case "rename":
		if r, ok := d.Resources[p.Dn]; ok {
			delete(d.Resources, p.Dn)
			d.Resources["c"] = r
		}
	case "reorder":
		names := make([]string, 0, len(d.Resources))
		for n := range d.Resources {
			names = append(names, n)
		}
		sort.Sort(sort.Reverse(sort.StringSlice(names)))
		nm := map[string]*fnv1.Resource{}
		for _, n := range names {
			nm[n] = proto.Clone(d.Resources[n]).(*fnv1.Resource)
		}
		d.Resources = nm
	case "mutate":
		for n := range d.Resources {
			d.Resources[n] = &fnv1.Resource{Resource: thingStruct(m), Ready: readyOf(p.Rdy, n != "a")}
		}
		xs, _ := structpb.NewStruct(map[string]any{"apiVersion": "ex.org/v1", "kind": "XThing", "status": map[string]any{"marker": m}})
		d.Composite = &fnv1.Resource{Resource: xs}
		switch p.Xrdy {
		case "true":
			d.Composite.Ready = fnv1.Ready_READY_TRUE
		case "false":
			d.Composite.Ready = fnv1.Ready_READY_FALSE
		}
	}
	rsp.Desired = d

	// context
	var c *structpb.Struct
	if req.GetContext() != nil {
		c = proto.Clone(req.GetContext()).(*structpb.Struct)
	}
	set := func(k, v string) {
		if c == nil {
			c = &structpb.Struct{}
		}
		if c.Fields == nil {
			c.Fields = map[string]*structpb.Value{}
		}
		c.Fields[k] = structpb.NewStringValue(v)
	}
	count := 0
	if v, ok := req.GetContext().GetFields()["n"]; ok {
		count, _ = strconv.Atoi(v.GetStringValue())
	}
	switch p.Ctx {
	case "set":
		set("k", m)
	case "own":
		set("k-"+m, m)
	case "del":
		if c != nil {
			delete(c.Fields, "k")
		}
	case "drop":
		c = nil
	}
	if p.Req == "count" && count < p.N {
		set("n", strconv.Itoa(count+1))
	}
	rsp.Context = c

	// requirements
	sel := map[string]*fnv1.ResourceSelector{}
	switch p.Req {
	case "name":
		sel["k1"] = byName("e1")
	case "labels":
		sel["k1"] = byLabel("g")
	case "absent":
		sel["k1"] = byName("zz")
	case "chase":
		sel["k1"] = byName("e1")
		if has(namesGiven(req, "k1"), "e1") {
			sel["k2"] = byName("e2")
		}
	case "grow":
		sel["k1"] = byLabel("g")
		for _, o := range namesGiven(req, "k1") {
			sel["n-"+o] = byName(o)
		}
	case "relabel":
		if _, given := req.GetExtraResources()["k1"]; given {
			sel["k1"] = byLabel("g")
		} else {
			sel["k1"] = byLabel("h")
		}
	case "count":
		n := count
		if n > p.N {
			n = p.N
		}
		sel["k1"] = byName("x" + strconv.Itoa(n))
	}
	if len(sel) > 0 {
		rsp.Requirements = &fnv1.Requirements{ExtraResources: sel}
	}

	// results and conditions
	target := func(t string) *fnv1.Target {
		if t == "claim" {
			return fnv1.Target_TARGET_COMPOSITE_AND_CLAIM.Enum()
		}
		return fnv1.Target_TARGET_COMPOSITE.Enum()
	}
	result := func(sev fnv1.Severity) *fnv1.Result {
		return &fnv1.Result{Severity: sev, Message: "fnres:" + m + ":" + sevName[sev], Target: target(p.Rt)}
	}
	switch p.Res {
	case "normal":
		rsp.Results = []*fnv1.Result{result(fnv1.Severity_SEVERITY_NORMAL)}
	case "warning":
		rsp.Results = []*fnv1.Result{result(fnv1.Severity_SEVERITY_WARNING)}
	case "unspec":
		rsp.Results = []*fnv1.Result{result(fnv1.Severity_SEVERITY_UNSPECIFIED)}
	case "fatal":
		rsp.Results = []*fnv1.Result{result(fnv1.Severity_SEVERITY_FATAL)}
	case "warnfatal":
		rsp.Results = []*fnv1.Result{result(fnv1.Severity_SEVERITY_WARNING), result(fnv1.Severity_SEVERITY_FATAL)}
	}
	st := map[string]fnv1.Status{"True": fnv1.Status_STATUS_CONDITION_TRUE, "False": fnv1.Status_STATUS_CONDITION_FALSE, "Unknown": fnv1.Status_STATUS_CONDITION_UNKNOWN}[p.Cs]
	switch p.Cond {
	case "own":
		rsp.Conditions = []*fnv1.Condition{{Type: "Own-" + m, Status: st, Reason: "R-" + m, Target: target(p.Ct)}}
	case "shared":
		rsp.Conditions = []*fnv1.Condition{{Type: "Shared", Status: st, Reason: "R-" + m, Target: target(p.Ct)}}
	case "system":
		rsp.Conditions = []*fnv1.Condition{{Type: "Ready", Status: st, Reason: "R-" + m, Target: target(p.Ct)}}
	}
	return rsp
}

// ---------------------------------------------------------------- gRPC function servers (in process, unix sockets)

type fnServer struct {
	step   int
	beta   bool // serves apiextensions.fn.proto.v1beta1 only
	target string
}

// handler is what the servers do with a request: set per render run by the driver.
var handler func(s *fnServer, api string, req *fnv1.RunFunctionRequest) (*fnv1.RunFunctionResponse, error)

// hmu orders what the server goroutines record with what the driver goroutine reads and sets.
var hmu sync.Mutex

type v1Impl struct {
	fnv1.UnimplementedFunctionRunnerServiceServer
	s *fnServer
}

func (i *v1Impl) RunFunction(_ context.Context, req *fnv1.RunFunctionRequest) (*fnv1.RunFunctionResponse, error) {
	hmu.Lock()
	defer hmu.Unlock()
	return handler(i.s, "v1", req)
}

type betaImpl struct {
	fnv1beta1.UnimplementedFunctionRunnerServiceServer
	s *fnServer
}

func (i *betaImpl) RunFunction(_ context.Context, breq *fnv1beta1.RunFunctionRequest) (*fnv1beta1.RunFunctionResponse, error) {
	hmu.Lock()
	defer hmu.Unlock()
	// the scripted function is written against v1: the harness converts (wire-compatible messages)
	b, err := proto.Marshal(breq)
	if err != nil {
		return nil, err
	}
	req := &fnv1.RunFunctionRequest{}
	if err := proto.Unmarshal(b, req); err != nil {
		return nil, err
	}
	rsp, err := handler(i.s, "v1beta1", req)
	if err != nil {
		return nil, err
	}
	if b, err = proto.Marshal(rsp); err != nil {
		return nil, err
	}
	brsp := &fnv1beta1.RunFunctionResponse{}
	if err := proto.Unmarshal(b, brsp); err != nil {
		return nil, err
	}
	return brsp, nil
}

var servers = map[int]*fnServer{}

func startServers(dir string) error {
	if err := os.MkdirAll(dir, 0o755); err != nil {
		return err
	}
	for _, d := range []struct {
		step int
		beta bool
	}{{1, false}, {2, true}, {3, false}} {
		p := filepath.Join(dir, fmt.Sprintf("S%d.sock", d.step))
		_ = os.Remove(p)
		lis, err := net.Listen("unix", p)
		if err != nil {
			return err
		}
		s := &fnServer{step: d.step, beta: d.beta, target: "unix://" + p}
		gs := grpc.NewServer()
		if d.beta {
			fnv1beta1.RegisterFunctionRunnerServiceServer(gs, &betaImpl{s: s})
		} else {
			fnv1.RegisterFunctionRunnerServiceServer(gs, &v1Impl{s: s})
		}
		go func() { _ = gs.Serve(lis) }()
		servers[d.step] = s
	}
	return nil
}

// ---------------------------------------------------------------- event recorder

type recorded struct {
	obj, typ, msg string
}

type recorder struct{ evs *[]recorded }

func (r recorder) Event(obj runtime.Object, e event.Event) {
	k := obj.GetObjectKind().GroupVersionKind().Kind
	*r.evs = append(*r.evs, recorded{obj: k, typ: string(e.Type), msg: e.Message})
}
func (r recorder) WithAnnotations(...string) event.Recorder { return r }

// ---------------------------------------------------------------- the world: cluster content = render's input files

type world struct {
	in    input
	s     *simapi.Server
	c, uc *simapi.Client
	xrUID types.UID

	// what `crossplane render` is given
	xrManifest *unstructured.Unstructured
	pipeline   []v1.PipelineStep
	creds      []corev1.Secret

	// controller side
	calls  []any
	rounds map[int]int
	evs    []recorded
	res    composite.CompositionResult
	cerr   error
	ran    bool
}

func unstr(gvk schema.GroupVersionKind, name, namespace string) *unstructured.Unstructured {
	u := &unstructured.Unstructured{Object: map[string]any{}}
	u.SetGroupVersionKind(gvk)
	u.SetName(name)
	if namespace != "" {
		u.SetNamespace(namespace)
	}
	return u
}

func secret(name string, data map[string]string, owner *metav1.OwnerReference) *corev1.Secret {
	s := &corev1.Secret{ObjectMeta: metav1.ObjectMeta{Name: name, Namespace: ns}, Data: map[string][]byte{}}
	for k, v := range data {
		s.Data[k] = []byte(v)
	}
	if owner != nil {
		s.OwnerReferences = []metav1.OwnerReference{*owner}
		s.Type = resource.SecretTypeConnection
	}
	return s
}

func newWorld(in input) *world {
	sch := runtime.NewScheme()
	_ = v1.AddToScheme(sch)
	_ = corev1.AddToScheme(sch)
	_ = pkgv1.AddToScheme(sch)
	s := simapi.NewServer(sch)
	s.Namespaced(schema.GroupKind{Kind: "Secret"}, claimGVK.GroupKind())
	w := &world{in: in, s: s, rounds: map[int]int{}}
	w.c = simapi.NewClient(s, "xr")
	w.uc = w.c.Sibling("xr-uncached")

	// the XR as its author (and, when there is a claim, the claim controller) wrote it: this manifest is what render is given
	xr := unstr(xrGVK, xrName, "")
	_ = unstructured.SetNestedField(xr.Object, compName, "spec", "compositionRef", "name")
	_ = unstructured.SetNestedField(xr.Object, revName, "spec", "compositionRevisionRef", "name")
	_ = unstructured.SetNestedField(xr.Object, "Manual", "spec", "compositionUpdatePolicy")
	_ = unstructured.SetNestedField(xr.Object, "p1", "spec", "param")
	_ = unstructured.SetNestedMap(xr.Object, map[string]any{"name": "xr-conn", "namespace": ns}, "spec", "writeConnectionSecretToRef")
	if in.Claim {
		_ = unstructured.SetNestedMap(xr.Object, map[string]any{"apiVersion": "ex.org/v1", "kind": "ThingClaim", "namespace": ns, "name": "claim1"}, "spec", "claimRef")
		xr.SetLabels(map[string]string{"crossplane.io/claim-name": "claim1", "crossplane.io/claim-namespace": ns})
	}
	refs := []any{}
	for _, n := range in.Existing {
		refs = append(refs, map[string]any{"apiVersion": "ex.org/v1", "kind": "Thing", "name": n + "-obj"})
	}
	if len(refs) > 0 {
		_ = unstructured.SetNestedSlice(xr.Object, refs, "spec", "resourceRefs")
	}
	w.xrManifest = xr.DeepCopy()
	w.xrUID = s.Put(xr).GetUID()
	owner := &metav1.OwnerReference{APIVersion: "ex.org/v1", Kind: "XThing", Name: xrName, UID: w.xrUID, Controller: ptr.To(true), BlockOwnerDeletion: ptr.To(true)}
	s.Put(secret("xr-conn", map[string]string{"xk": "xv"}, owner))
	if in.Claim {
		s.Put(unstr(claimGVK, "claim1", ns))
	}

	// observed composed resources
	for _, n := range in.Existing {
		t := unstr(cdGVK, n+"-obj", "")
		t.SetAnnotations(map[string]string{annName: n})
		t.SetLabels(map[string]string{"crossplane.io/composite": xrName})
		t.SetOwnerReferences([]metav1.OwnerReference{*owner})
		_ = unstructured.SetNestedField(t.Object, "old", "spec", "val")
		if n == "a" {
			_ = unstructured.SetNestedMap(t.Object, map[string]any{"name": "a-conn", "namespace": ns}, "spec", "writeConnectionSecretToRef")
			s.Put(secret("a-conn", map[string]string{"ak": "av"}, nil))
		}
		s.Put(t)
	}

	// extra resources: e1, e2 (label grp=g) as the vector says; e9 (grp=h) and same-named objects of another kind always
	extra := func(kind, name, grp string) {
		u := unstr(schema.GroupVersionKind{Group: "ex.org", Version: "v1", Kind: kind}, name, "")
		u.SetLabels(map[string]string{"grp": grp})
		s.Put(u)
	}
	for _, n := range in.Extras {
		extra("Extra", n, "g")
	}
	extra("Extra", "e9", "h")
	extra("Decoy", "e1", "g")
	extra("Decoy", "zz", "g")

	// the pipeline: step i = function fn<i>, its own input (program + marker) and credentials
	for i, p := range in.Steps {
		m := "s" + strconv.Itoa(i+1)
		raw, _ := json.Marshal(map[string]any{"apiVersion": "verif.example.org/v1", "kind": "Prog", "marker": m, "prog": p})
		st := v1.PipelineStep{Step: m, FunctionRef: v1.FunctionReference{Name: "fn" + strconv.Itoa(i+1)}, Input: &runtime.RawExtension{Raw: raw}}
		if p.Creds {
			st.Credentials = []v1.FunctionCredentials{{Name: "c", Source: v1.FunctionCredentialsSourceSecret,
				SecretRef: &xpv1.SecretReference{Namespace: ns, Name: "cred-" + m}}}
		}
		w.pipeline = append(w.pipeline, st)
		// decoys: the same secret name in another namespace, listed first
		other := secret("cred-"+m, map[string]string{"key": "other-" + m}, nil)
		other.Namespace = "other"
		w.creds = append(w.creds, *other)
		cs := secret("cred-"+m, map[string]string{"key": "val-" + m}, nil)
		w.creds = append(w.creds, *cs)
		s.Put(cs)
	}
	rev := &v1.CompositionRevision{ObjectMeta: metav1.ObjectMeta{Name: revName, Labels: map[string]string{v1.LabelCompositionName: compName}}}
	rev.Spec.CompositeTypeRef = v1.TypeReference{APIVersion: "ex.org/v1", Kind: "XThing"}
	rev.Spec.Revision = 1
	mode := v1.CompositionModePipeline
	rev.Spec.Mode = &mode
	rev.Spec.Pipeline = w.pipeline
	s.Put(rev)
	return w
}

// renderInputs builds what `crossplane render` would load from its files: the XR manifest, a Composition with the
// pipeline, the Functions (Development runtime, pointing at the scripted gRPC servers), the credential secrets, the
// observed composed resources and the extra resources as they are in the cluster, and the initial context.
func (w *world) renderInputs() render.Inputs {
	xr := ucomposite.New()
	xr.Object = w.xrManifest.DeepCopy().Object
	comp := &v1.Composition{TypeMeta: metav1.TypeMeta{APIVersion: "apiextensions.crossplane.io/v1", Kind: "Composition"}, ObjectMeta: metav1.ObjectMeta{Name: compName}}
	comp.Spec.CompositeTypeRef = v1.TypeReference{APIVersion: "ex.org/v1", Kind: "XThing"}
	mode := v1.CompositionModePipeline
	comp.Spec.Mode = &mode
	for _, st := range w.pipeline {
		comp.Spec.Pipeline = append(comp.Spec.Pipeline, *st.DeepCopy())
	}
	in := render.Inputs{CompositeResource: xr, Composition: comp, Context: map[string][]byte{}}
	for i := range w.in.Steps {
		in.Functions = append(in.Functions, pkgv1.Function{ObjectMeta: metav1.ObjectMeta{Name: "fn" + strconv.Itoa(i+1), Annotations: map[string]string{
			render.AnnotationKeyRuntime:                  string(render.AnnotationValueRuntimeDevelopment),
			render.AnnotationKeyRuntimeDevelopmentTarget: servers[i+1].target,
		}}})
	}
	for _, c := range w.creds {
		in.FunctionCredentials = append(in.FunctionCredentials, *c.DeepCopy())
	}
	for _, n := range w.in.Existing {
		if u := w.s.Peek(simapi.Key{Group: "ex.org", Kind: "Thing", Name: n + "-obj"}); u != nil {
			in.ObservedResources = append(in.ObservedResources, composed.Unstructured{Unstructured: *u.DeepCopy()})
		}
	}
	// extra resources: everything of the kinds Extra and Decoy, decoys first, names descending
	for _, k := range []string{"Decoy", "Extra"} {
		us := w.s.All(schema.GroupKind{Group: "ex.org", Kind: k})
		sort.Slice(us, func(i, j int) bool { return us[i].GetName() > us[j].GetName() })
		for _, u := range us {
			in.ExtraResources = append(in.ExtraResources, *u.DeepCopy())
		}
	}
	switch w.in.Ctx0 {
	case "k":
		in.Context["k"] = []byte(`"v0"`)
	case "n":
		in.Context["n"] = []byte(`"1"`)
	}
	return in
}

// ---------------------------------------------------------------- projections of objects

func labelList(m map[string]string) []any {
	var l []any
	for k, v := range m {
		l = append(l, kv(k, v))
	}
	return sortBy(l, "k")
}

func ownerList(refs []metav1.OwnerReference) []any {
	out := []any{}
	for _, r := range refs {
		out = append(out, map[string]any{"apiVersion": r.APIVersion, "kind": r.Kind, "name": r.Name,
			"controller": r.Controller != nil && *r.Controller, "block": r.BlockOwnerDeletion != nil && *r.BlockOwnerDeletion})
	}
	return out
}

func composedSummary(o *unstructured.Unstructured) map[string]any {
	n := "none"
	if v, ok := o.GetAnnotations()[annName]; ok {
		n = v
	}
	v, ok, _ := unstructured.NestedString(o.Object, "spec", "val")
	if !ok {
		v = "?"
	}
	return map[string]any{"n": n, "v": v, "name": o.GetName(), "gen": o.GetGenerateName(),
		"genPrefix": o.GetGenerateName() != "" && strings.HasPrefix(o.GetName(), o.GetGenerateName()),
		"labels": labelList(o.GetLabels()), "owners": ownerList(o.GetOwnerReferences())}
}

func noReady() map[string]any {
	return map[string]any{"status": "none", "reason": "none", "kind": "none", "unready": []any{}}
}

// condSummary splits status.conditions into the Ready condition and the others (Synced aside when asked).
func condSummary(obj map[string]any, skipSynced bool) (map[string]any, []any) {
	ready, others := noReady(), []any{}
	cs, _, _ := unstructured.NestedSlice(obj, "status", "conditions")
	for _, c := range cs {
		m, _ := c.(map[string]any)
		t, _ := m["type"].(string)
		st, _ := m["status"].(string)
		rs, _ := m["reason"].(string)
		msg, _ := m["message"].(string)
		switch {
		case t == "Ready":
			kind, un := "other", []string{}
			switch {
			case msg == "":
				kind = "none"
			case strings.HasPrefix(msg, "Unready resources: ") && !strings.Contains(msg, " more"):
				kind = "unready"
				un = strings.Split(strings.TrimPrefix(msg, "Unready resources: "), ", ")
			case msg == "Composite resource was explicitly marked as unready by the composer":
				kind = "explicit"
			}
			ready = map[string]any{"status": st, "reason": rs, "kind": kind, "unready": strList(un)}
		case t == "Synced" && skipSynced:
		default:
			others = append(others, map[string]any{"type": t, "status": st, "reason": rs})
		}
	}
	return ready, sortBy(others, "type")
}

func errSummary(err error) (kind, tok, step, msg string) {
	if err == nil {
		return "none", "none", "none", ""
	}
	msg = err.Error()
	kind, tok, step = "other", tokOf(msg), "none"
	switch {
	case strings.Contains(msg, "fatal result"):
		kind = "fatal"
	case strings.Contains(msg, "didn't stabilize"):
		kind = "unstable"
	}
	if m := stepRE.FindStringSubmatch(msg); m != nil {
		step = m[1]
	}
	return kind, tok, step, msg
}

func tokOf(msg string) string {
	if t := tokRE.FindString(msg); t != "" {
		return t
	}
	return "none"
}

func keysOf(m map[string]any) []any {
	ks := make([]string, 0, len(m))
	for k := range m {
		ks = append(ks, k)
	}
	return strList(ks)
}

// ---------------------------------------------------------------- the controller side

func wire[T proto.Message](m T, into T) T {
	b, err := proto.Marshal(m)
	if err != nil {
		panic(err)
	}
	if err := proto.Unmarshal(b, into); err != nil {
		panic(err)
	}
	return into
}

func (w *world) runController(sum *summary, id string) map[string]any {
	// the scripted functions, in process behind a protobuf wire round trip (what a function behind gRPC sees)
	inner := composite.FunctionRunnerFn(func(_ context.Context, name string, req *fnv1.RunFunctionRequest) (*fnv1.RunFunctionResponse, error) {
		step, _ := strconv.Atoi(strings.TrimPrefix(name, "fn"))
		round := w.rounds[step]
		w.rounds[step]++
		got := wire(req, &fnv1.RunFunctionRequest{})
		rsp := runProgram(got)
		w.calls = append(w.calls, callSummary(step, round, got, "inproc", rsp))
		return wire(rsp, &fnv1.RunFunctionResponse{}), nil
	})

	// the production wiring of definition.Reconciler.CompositeReconcilerOptions
	fetcher := composite.NewSecretConnectionDetailsFetcher(w.c)
	runner := composite.NewFetchingFunctionRunner(inner, composite.NewExistingExtraResourcesFetcher(w.c))
	fc := composite.NewFunctionComposer(w.c, w.uc, runner,
		composite.WithComposedResourceObserver(composite.NewExistingComposedResourceObserver(w.c, w.uc, fetcher)),
		composite.WithCompositeConnectionDetailsFetcher(fetcher))
	rec := composite.NewReconciler(w.c, w.uc, resource.CompositeKind(xrGVK),
		composite.WithRecorder(recorder{evs: &w.evs}),
		composite.WithConnectionPublishers(composite.NewAPIFilteredSecretPublisher(w.c, nil)),
		composite.WithCompositionSelector(composite.NewCompositionSelectorChain(composite.NewAPILabelSelectorResolver(w.c))),
		composite.WithComposer(composite.ComposerFn(func(ctx context.Context, xr *ucomposite.Unstructured, req composite.CompositionRequest) (composite.CompositionResult, error) {
			res, err := fc.Compose(ctx, xr, req)
			w.res, w.cerr, w.ran = res, err, true // observed only
			return res, err
		})))
	_, rerr := rec.Reconcile(context.Background(), reconcile.Request{NamespacedName: types.NamespacedName{Name: xrName}})

	kind, tok, step, msg := errSummary(w.cerr)
	out := map[string]any{"calls": w.calls, "ran": w.ran, "recErr": rerr != nil, "err": w.cerr != nil,
		"errKind": kind, "errTok": tok, "errStep": step, "errMsg": msg}
	if w.calls == nil {
		out["calls"] = []any{}
	}
	events := []any{}
	for _, e := range w.res.Events {
		st := "none"
		if m := stepRE.FindStringSubmatch(e.Detail); m != nil {
			st = m[1]
		} else if m := stepRE.FindStringSubmatch(e.Event.Message); m != nil {
			st = m[1]
		}
		events = append(events, map[string]any{"type": string(e.Event.Type), "tok": tokOf(e.Event.Message), "step": st, "target": string(e.Target)})
	}
	out["events"] = events

	applied, claimTypes := []any{}, []string{}
	xrm := "none"
	ready, conds := noReady(), []any{}
	w.s.Read(func(keys []simapi.Key, all map[simapi.Key]*unstructured.Unstructured) {
		for _, k := range keys {
			o := all[k]
			if k.Kind != "Thing" {
				continue
			}
			if c := metav1.GetControllerOf(o); c == nil || c.UID != w.xrUID || o.GetDeletionTimestamp() != nil {
				continue
			}
			applied = append(applied, composedSummary(o))
		}
		xr := all[xrKey]
		if xr == nil {
			return
		}
		if v, ok, _ := unstructured.NestedString(xr.Object, "status", "marker"); ok {
			xrm = v
		}
		ready, conds = condSummary(xr.Object, true)
		ct, _, _ := unstructured.NestedStringSlice(xr.Object, "status", "claimConditionTypes")
		claimTypes = append(claimTypes, ct...)
	})
	out["applied"], out["xrm"], out["ready"], out["conds"], out["claimTypes"] = sortBy(applied, "n"), xrm, ready, conds, strList(claimTypes)

	switch {
	case !w.ran:
		sum.Hits["ctl-compose-not-reached"]++
		if len(sum.Errors) < 5 && len(w.evs) > 0 {
			sum.Errors = append(sum.Errors, id+": compose not reached: "+w.evs[len(w.evs)-1].msg)
		}
	case w.cerr == nil:
		sum.Hits["ctl-ok"]++
	case kind == "other":
		sum.Hits["ctl-other-error"]++
		if len(sum.Errors) < 5 {
			sum.Errors = append(sum.Errors, id+": controller: "+msg)
		}
	default:
		sum.Hits["ctl-"+kind]++
	}
	return out
}

// ---------------------------------------------------------------- the render side

type renderRun struct {
	calls  []any
	rounds map[int]int
	out    render.Outputs
	err    error
	bytes  []byte
}

func objOrNil(u *unstructured.Unstructured) any {
	if u == nil {
		return nil
	}
	return u.Object
}

// serialise renders the outputs to bytes the way the CLI prints them (one JSON document per object, in output order).
func serialise(o render.Outputs) []byte {
	var docs []any
	if o.CompositeResource != nil {
		docs = append(docs, o.CompositeResource.Object)
	} else {
		docs = append(docs, nil)
	}
	for i := range o.ComposedResources {
		docs = append(docs, o.ComposedResources[i].Object)
	}
	docs = append(docs, "results")
	for i := range o.Results {
		docs = append(docs, o.Results[i].Object)
	}
	docs = append(docs, "context")
	if o.Context != nil {
		c := map[string]any{}
		for k, v := range o.Context.Object {
			if fs, ok := v.(map[string]*structpb.Value); ok {
				m := map[string]any{}
				for fk, fv := range fs {
					m[fk] = fv.AsInterface()
				}
				c[k] = m
				continue
			}
			c[k] = v
		}
		docs = append(docs, c)
	}
	var buf bytes.Buffer
	for _, d := range docs {
		b, err := json.Marshal(d)
		if err != nil {
			b = []byte("marshal-error: " + err.Error())
		}
		buf.Write(b)
		buf.WriteByte('\n')
	}
	return buf.Bytes()
}

// snapshot of everything render is given, to see afterwards whether it was touched.
func snapshot(in render.Inputs) []byte {
	obs := []any{}
	for i := range in.ObservedResources {
		obs = append(obs, in.ObservedResources[i].Object)
	}
	ext := []any{}
	for i := range in.ExtraResources {
		ext = append(ext, in.ExtraResources[i].Object)
	}
	ctx := map[string]string{}
	for k, v := range in.Context {
		ctx[k] = string(v)
	}
	b, err := json.Marshal(map[string]any{"xr": in.CompositeResource.Object, "comp": in.Composition, "fns": in.Functions,
		"creds": in.FunctionCredentials, "obs": obs, "extra": ext, "ctx": ctx})
	if err != nil {
		return []byte("marshal-error: " + err.Error())
	}
	return b
}

func doRender(in render.Inputs) *renderRun {
	r := &renderRun{rounds: map[int]int{}}
	hmu.Lock()
	handler = func(s *fnServer, api string, req *fnv1.RunFunctionRequest) (*fnv1.RunFunctionResponse, error) {
		round := r.rounds[s.step]
		r.rounds[s.step]++
		rsp := runProgram(req)
		r.calls = append(r.calls, callSummary(s.step, round, req, api, rsp))
		return rsp, nil
	}
	hmu.Unlock()
	ctx, cancel := context.WithTimeout(context.Background(), 30*time.Second)
	defer cancel()
	r.out, r.err = render.Render(ctx, logging.NewNopLogger(), in)
	hmu.Lock()
	defer hmu.Unlock()
	r.bytes = serialise(r.out)
	return r
}

func (w *world) runRender(sum *summary, id string) map[string]any {
	in := w.renderInputs()
	before := snapshot(in)
	r1 := doRender(in)
	mid := snapshot(in)
	r2 := doRender(in)
	after := snapshot(in)

	kind, tok, step, msg := errSummary(r1.err)
	out := map[string]any{"calls": r1.calls, "err": r1.err != nil, "errKind": kind, "errTok": tok, "errStep": step, "errMsg": msg,
		"same":      bytes.Equal(r1.bytes, r2.bytes) && (r1.err == nil) == (r2.err == nil) && len(r1.calls) == len(r2.calls),
		"untouched": bytes.Equal(before, mid) && bytes.Equal(mid, after),
		"nilOut":    r1.out.CompositeResource == nil && r1.out.ComposedResources == nil && r1.out.Results == nil && r1.out.Context == nil,
	}
	if r1.calls == nil {
		out["calls"] = []any{}
	}
	comp := []any{}
	for i := range r1.out.ComposedResources {
		comp = append(comp, composedSummary(&r1.out.ComposedResources[i].Unstructured)) // output order
	}
	out["composed"] = comp
	xr := map[string]any{"apiVersion": "", "kind": "", "name": "", "keys": []any{}, "metaKeys": []any{}, "marker": "none", "ready": noReady(), "conds": []any{}}
	if o := r1.out.CompositeResource; o != nil {
		xr["apiVersion"], xr["kind"], xr["name"] = o.GetAPIVersion(), o.GetKind(), o.GetName()
		xr["keys"] = keysOf(o.Object)
		md, _, _ := unstructured.NestedMap(o.Object, "metadata")
		xr["metaKeys"] = keysOf(md)
		if v, ok, _ := unstructured.NestedString(o.Object, "status", "marker"); ok {
			xr["marker"] = v
		}
		xr["ready"], xr["conds"] = condSummary(o.Object, false)
	}
	out["xr"] = xr
	results := []any{}
	sevOf := map[string]string{"SEVERITY_NORMAL": "normal", "SEVERITY_WARNING": "warning", "SEVERITY_UNSPECIFIED": "unspec", "SEVERITY_FATAL": "fatal"}
	for i := range r1.out.Results {
		o := r1.out.Results[i].Object
		st, _ := o["step"].(string)
		sv, _ := o["severity"].(string)
		ms, _ := o["message"].(string)
		if s, ok := sevOf[sv]; ok {
			sv = s
		}
		results = append(results, map[string]any{"step": st, "sev": sv, "tok": tokOf(ms)})
	}
	out["results"] = results
	ctxOut := []any{}
	out["hasCtx"] = r1.out.Context != nil
	if c := r1.out.Context; c != nil {
		if fs, ok := c.Object["fields"].(map[string]*structpb.Value); ok {
			ctxOut = ctxSummary(&structpb.Struct{Fields: fs})
		}
	}
	out["ctxOut"] = ctxOut

	sum.Hits["render-calls"] += len(r1.calls)
	for _, c := range r1.calls {
		m := c.(map[string]any)
		sum.Hits["render-call-"+m["api"].(string)]++
		if m["round"].(int) > 0 {
			sum.Hits["render-calls-round>0"]++
		}
		if len(m["creds"].([]any)) > 0 {
			sum.Hits["render-calls-with-creds"]++
		}
		if len(m["extra"].([]any)) > 0 {
			sum.Hits["render-calls-with-extra"]++
		}
		sum.Branches["prog-"+m["prog"].(string)]++
	}
	switch {
	case r1.err == nil:
		sum.Hits["render-ok"]++
		sum.Hits["render-composed"] += len(comp)
		for _, c := range comp {
			if c.(map[string]any)["name"].(string) != "" {
				sum.Hits["render-composed-keeping-observed-name"]++
			} else {
				sum.Hits["render-composed-new"]++
			}
		}
		if n := len(r1.calls); n > 0 && r1.calls[n-1].(map[string]any)["rsp"].(map[string]any)["xrdy"].(string) != "none" {
			sum.Hits["render-ok-explicit-composite-readiness"]++
		}
		if r1.out.Context != nil && len(ctxOut) > 0 {
			sum.Hits["render-with-context-out"]++
		}
		rd := xr["ready"].(map[string]any)
		sum.Hits["render-ready-"+rd["status"].(string)+"-"+rd["kind"].(string)]++
		if len(results) > 0 {
			sum.Hits["render-with-results"]++
		}
		if len(xr["conds"].([]any)) > 0 {
			sum.Hits["render-with-conditions"]++
		}
	case kind == "other":
		sum.Hits["render-other-error"]++
		if len(sum.Errors) < 5 {
			sum.Errors = append(sum.Errors, id+": render: "+msg)
		}
	default:
		sum.Hits["render-"+kind]++
	}
	return out
}

// ---------------------------------------------------------------- main

type summary struct {
	Vectors  int            `json:"vectors"`
	Events   int            `json:"events"`
	Hits     map[string]int `json:"hits"`
	Branches map[string]int `json:"branches"`
	Errors   []string       `json:"errors"`
	Samples  []any          `json:"samples"`
}

func main() {
	scenarios := flag.String("scenarios", "", "NDJSON file of input vectors")
	tracePath := flag.String("trace", "", "output trace")
	sumPath := flag.String("summary", "", "output summary JSON")
	chunk := flag.Int("chunk", 0, "split the trace into files of about this many records")
	_ = flag.Int("seed", 1, "unused: the driver makes no random choices")
	sockDir := flag.String("sockdir", "", "directory for the unix sockets of the function servers")
	flag.Parse()

	fail := func(err error) {
		fmt.Fprintln(os.Stderr, err)
		os.Exit(2)
	}
	raws, err := scen.Load(*scenarios)
	if err != nil {
		fail(err)
	}
	tw, err := trace.New(*tracePath, *chunk)
	if err != nil {
		fail(err)
	}
	dir := *sockDir
	if dir == "" {
		// unix socket paths are limited to ~100 bytes: keep the directory name short
		dir = filepath.Join(filepath.Dir(*tracePath), fmt.Sprintf("sk%d", os.Getpid()))
	}
	if dir, err = filepath.Abs(dir); err != nil {
		fail(err)
	}
	if err := startServers(dir); err != nil {
		fail(err)
	}
	defer os.RemoveAll(dir)

	sum := &summary{Hits: map[string]int{}, Branches: map[string]int{}}
	for _, raw := range raws {
		var sc struct {
			ID    string `json:"id"`
			Input input  `json:"input"`
		}
		if err := json.Unmarshal(raw, &sc); err != nil {
			fail(fmt.Errorf("bad scenario: %w", err))
		}
		tw.Boundary()
		sum.Vectors++
		if sc.Input.Extras == nil {
			sc.Input.Extras = []string{}
		}
		if sc.Input.Existing == nil {
			sc.Input.Existing = []string{}
		}
		if sc.Input.Steps == nil {
			sc.Input.Steps = []prog{}
		}
		w := newWorld(sc.Input)
		// render first: its inputs are taken from the cluster BEFORE the controller acts on it
		if sc.Input.Ctx0 == "none" {
			sum.Hits["parity-judged"]++
		} else {
			sum.Hits["render-with-initial-context"]++
		}
		rnd := w.runRender(sum, sc.ID)
		ctl := w.runController(sum, sc.ID)
		rec := map[string]any{"ev": "out", "scenario": sc.ID, "input": sc.Input, "rnd": rnd, "ctl": ctl}
		tw.Emit(rec)
		if len(sum.Samples) < 2 && len(sc.Input.Steps) >= 2 {
			sum.Samples = append(sum.Samples, rec)
		}
	}
	sum.Events = tw.Lines
	if err := tw.Close(); err != nil {
		fail(err)
	}
	os.RemoveAll(dir)
	if err := scen.WriteJSON(*sumPath, sum); err != nil {
		fail(err)
	}
}
